"""XLIFE - the life cycle of one session end to end (growth beyond the listed properties):
tla/XMPP.tla composes abstract versions of Negotiation.tla, Output.tla and Correlate.tla into
Negotiating -> Established -> Closing -> Closed and states the cross-phase properties X_...;
whole-session traces of two real sessions validate the real code against it.  See lifecyclecommon.py."""
import lifecyclecommon as lc


def run(ctx):
    cov = lc.run_part(ctx)
    cov.update({
        "evaluations": cov["runs"], "distinct_nontrivial": cov["traces_validated_against_impl"],
        "exhaustive": False,
        "rule": "one trace per session side and run; sequential runs = fixed whole-life scenarios for both roles (every transmit entry point, "
                "SendIQ / EncodeIQ / UnmarshalIQ with replies, UpdateAddr, SetCloseDeadline, Close from either side, peer stream error, handler error, "
                "peer close, transport EOF, applications that never serve, failed negotiations: bad password, bind refused, cancellation and cut at "
                "several points) plus seeded random operation sequences; scheduled runs = goroutines of both sides under the single-runner scheduler, "
                "depth-first with a pre-emption bound, capped per scenario; a trace is distinct if its event sequence differs",
    })
    ctx.write_evidence("model_checking", cov, assumptions=[
        "design check bounds: 1-2 transmitters, 1-2 requesters, peer scripts of <= 2 (quick) / 3 (thorough) items, both roles, pre-secured transport",
        "the negotiation is abstracted to: features run one at a time when their masks hold, each succeeds or fails, the call returns ok|err with bits and addresses (details: Negotiation.tla / C01-C04)",
        "gate granularity of the scheduler; sequential runs log in program order per goroutine, the specification treats goroutines as independent processes",
    ])
