"""Life-cycle family (XLIFE): tla/XMPP.tla - ONE session end to end, Negotiating -> Established ->
Closing -> Closed, composed from abstract versions of Negotiation.tla, Output.tla and Correlate.tla,
with the cross-phase properties X_... .

Pipeline A: TLC checks XMPP.tla exhaustively within small bounds (safety, one liveness property under
fairness, every deviation must break its invariant, REFINEMENT: the established / closing part
implements Output.tla's Spec under the mapping at the end of XMPP.tla).
Pipelines B/C: harness/cmd/lifecycle runs two REAL sessions (default negotiator, SASL PLAIN + resource
binding) joined by vt.Pipe through whole lives - seeded sequential operation sequences and scheduler-driven
scenarios - and writes one trace per session side; TLC validates every trace against TrXMPP.tla.

run_part(ctx) returns a coverage dict and reports violations through ctx.violation ("life cycle: ...").
"""
import concurrent.futures as cf
import json
import random
import re
import subprocess

import verif
import outcommon as oc

SAFETY = ["X_NoTxBeforeEstablished", "X_NothingAfterClosingTag", "X_LateCallsRefused", "X_OkIffReady",
          "X_OwnReplyOnly", "X_AtMostOneReply", "X_OutcomeConsistent", "X_ServeRetBothClosed",
          "X_RequestOnlyWhenEstablished", "X_AddrStable", "X_UpdateAddrRefused", "X_FailedNeverServed",
          "X_NoEstablishedAfterFailure", "X_EstablishedHasAddress"]
ACTION = ["X_BitsMonotone", "X_ReadyBeforeHandler", "X_PhaseOrder", "X_RefusalNotReady", "X_RemoteStable"]
LIVE = ["X_PeerEndLeadsToClosed", "X_RequestsEnd"]

# deviation -> the properties it must break (each checked alone: non-vacuity of every property)
DEVS = {
    "TxDuringNegotiation": ["X_NoTxBeforeEstablished", "X_RequestOnlyWhenEstablished", "X_PhaseOrder"],
    "WriteAfterClose": ["X_NothingAfterClosingTag", "X_LateCallsRefused"],
    "ReadyClearedOnClose": ["X_BitsMonotone"],
    "ReadyOnFailure": ["X_OkIffReady"],
    "NoCloseInput": ["X_ServeRetBothClosed"],
    "UpdateAddrAfterReady": ["X_AddrStable", "X_UpdateAddrRefused"],
    "ServeUnready": ["X_FailedNeverServed", "X_ReadyBeforeHandler"],
    "LookupIgnoresId": ["X_OwnReplyOnly"],
    "DoubleDelivery": ["X_AtMostOneReply"],
    "SpuriousCtxErr": ["X_OutcomeConsistent"],
    "RunAfterFailure": ["X_NoEstablishedAfterFailure"],
    "EmptyAddress": ["X_EstablishedHasAddress"],
    "ReadyAfterRefusal": ["X_RefusalNotReady"],
    "BindChangesRemote": ["X_RemoteStable"],
}

CFG = '''CONSTANTS
  Txs = %(txs)s
  Reqs = %(reqs)s
  Programs <- %(programs)s
  PeerScripts <- %(scripts)s
  Roles = %(roles)s
  InitBitsSet = {{"Secure"}}
  MaxChunks = %(chunks)d
  Dev = %(dev)s
SPECIFICATION %(spec)s
%(props)s
CHECK_DEADLOCK FALSE
'''


def cfg(props, spec="Spec", txs=("a",), reqs=("i1",), programs="ProgramsQ", scripts="Scripts2", roles=("init", "recv"),
        chunks=1, dev=()):
    pl = []
    for p in props:
        pl.append(("PROPERTY " if (p in ACTION or p in LIVE or p == "OutputSpec") else "INVARIANT ") + p)
    return CFG % dict(txs=verif.tla_value(set(txs)), reqs=verif.tla_value(set(reqs)), programs=programs, scripts=scripts,
                      roles=verif.tla_value(set(roles)), chunks=chunks, dev=verif.tla_value(set(dev)), spec=spec,
                      props="\n".join(pl))


def design_checks(ctx):
    """Pipeline A. The TLC runs of the design check go through a small thread pool."""
    quick = ctx.tier == "quick"
    jobs = {}
    with cf.ThreadPoolExecutor(max_workers=6 if quick else 4) as ex:
        if quick:
            w = 3
            # Output's invariants on the mapped variables ride along with the safety run; the full
            # refinement (Output!Spec as a PROPERTY) and the liveness run use a handful of scripts
            jobs["safe"] = ex.submit(ctx.tlc, "MCXMPP", cfg(SAFETY + ACTION + ["OutputInvs"], scripts="ScriptsT"), workers=5, timeout=600, name="MCXMPP_safe")
            jobs["refine"] = ex.submit(ctx.tlc, "MCXMPP", cfg(["OutputSpec"], programs="ProgramsRQ", scripts="ScriptsLQ", roles=("init",)),
                                       workers=w, timeout=600, name="MCXMPP_refine")
            jobs["live"] = ex.submit(ctx.tlc, "MCXMPP", cfg(LIVE, spec="FairSpec", programs="ProgramsLT", scripts="ScriptsLQ", roles=("init",)),
                                     workers=w, timeout=600, name="MCXMPP_live")
            jobs["live_dev"] = ex.submit(ctx.tlc, "MCXMPP", cfg(["X_PeerEndLeadsToClosed"], spec="FairSpec", programs="ProgramsLT", scripts="ScriptsLQ", roles=("init",), dev=("StallOnGoneRequester",)),
                                         workers=w, timeout=600, name="MCXMPP_live_dev")
        else:
            w = max(2, verif.NCPU // 4)
            jobs["safe"] = ex.submit(ctx.tlc, "MCXMPP", cfg(SAFETY + ACTION, programs="ProgramsDl", scripts="Scripts2"),
                                     workers=w * 2, timeout=3000, name="MCXMPP_safe", heap="12g")
            jobs["safe2"] = ex.submit(ctx.tlc, "MCXMPP", cfg(SAFETY + ACTION + ["OutputInvs"], txs=("a",), reqs=("i1", "i2"), programs="ProgramsR", scripts="ScriptsT2", roles=("init",)),
                                      workers=w, timeout=3000, name="MCXMPP_safe2", heap="12g")
            jobs["safe3"] = ex.submit(ctx.tlc, "MCXMPP", cfg(SAFETY + ACTION, programs="ProgramsR", scripts="Scripts3", roles=("init",)),
                                      workers=w, timeout=3000, name="MCXMPP_safe3", heap="12g")
            jobs["refine"] = ex.submit(ctx.tlc, "MCXMPP", cfg(["OutputSpec", "OutputInvs"], programs="ProgramsDl", scripts="ScriptsQ", roles=("init",)),
                                       workers=w, timeout=3000, name="MCXMPP_refine", heap="8g")
            jobs["live"] = ex.submit(ctx.tlc, "MCXMPP", cfg(LIVE, spec="FairSpec", programs="ProgramsL", scripts="ScriptsL", roles=("init",)),
                                     workers=w, timeout=3000, name="MCXMPP_live")
            jobs["live_dev"] = ex.submit(ctx.tlc, "MCXMPP", cfg(["X_PeerEndLeadsToClosed"], spec="FairSpec", programs="ProgramsLT", scripts="ScriptsLT", roles=("init",), dev=("StallOnGoneRequester",)),
                                         workers=w, timeout=1200, name="MCXMPP_live_dev")
        for d, props in DEVS.items():
            for p in (props[:1] if quick else props):       # quick: one property per deviation; thorough: every pair
                jobs["dev:%s:%s" % (d, p)] = ex.submit(ctx.tlc, "MCXMPP", cfg([p], dev=(d,), scripts="ScriptsT"), workers=2, timeout=600,
                                                       name="MCXMPP_%s_%s" % (d, p))
    res = {k: j.result() for k, j in jobs.items()}
    for k in ("safe", "safe2", "safe3", "refine", "live"):
        if k not in res:
            continue
        r = res[k]
        if not r.ok or not r.finished:
            raise verif.Undecided("design check %s of XMPP.tla failed (spec problem, not a code verdict):\n%s" % (k, r.out[-3000:]))
        ctx.log("design check %s: %d generated / %d distinct states, depth %d, %.1fs" % (k, r.generated, r.distinct, r.depth, r.wall))
    vac = []
    for k, r in res.items():
        if k.startswith("dev:"):
            _, d, p = k.split(":")
            if r.rc == 0 or not re.search(r"(Invariant|Action property) %s is violated" % p, r.out):
                vac.append("%s does not break %s" % (d, p))
    r = res["live_dev"]
    if r.rc == 0 or not ("Temporal properties were violated" in r.out or "was violated" in r.out):
        vac.append("StallOnGoneRequester does not break X_PeerEndLeadsToClosed")
    if vac:
        raise verif.Undecided("design check is vacuous: " + "; ".join(vac))
    ndev = sum(1 for k in res if k.startswith("dev:")) + 1
    ctx.log("non-vacuity: %d (deviation, property) pairs each make TLC fail" % ndev)
    return res, ndev


# ------------------------------------------------------------------ scenarios

def S(neg="ok", steps=(), procs=(), noserve=()):
    return {"neg": neg, "steps": [{"side": a, "k": k} for a, k in steps],
            "procs": [{"side": a, "name": n, "calls": list(c)} for a, n, c in procs], "noserve": list(noserve)}


TX = ["send", "sendel", "encode", "encodeel", "tw"]
REQ = ["ping", "unmarshal", "iqunk"]


def scenarios(tier, seed):
    s = []
    o = "s"
    for a in ("c", "s"):
        o = "s" if a == "c" else "c"
        s.append(S(steps=[(a, "send"), (a, "ping"), (o, "updaddr"), (a, "updaddr"), (a, "close")]))
        s.append(S(steps=[(a, "encode"), (a, "iqunk"), (a, "unmarshal"), (a, "close"), (a, "send"), (a, "close")]))
        s.append(S(steps=[(a, "tw"), (a, "herr")]))                       # the peer's handler fails
        s.append(S(steps=[(a, "sendel"), (a, "serr")]))                   # the peer sends a stream error
        s.append(S(steps=[(a, "ping"), (a, "eof")]))                      # the peer's transport goes away
        s.append(S(steps=[(a, "pclose"), (a, "encodeel")]))
        s.append(S(steps=[(a, "deadline"), (a, "close")], noserve=[o]))   # nobody answers the closing tag
        s.append(S(steps=[(a, "ping"), (a, "send"), (a, "close")], noserve=[o]))   # a request nobody answers
        s.append(S(steps=[(a, "close"), (a, "ping"), (a, "tw")]))         # a request after Close
        s.append(S(steps=[(a, "send")], noserve=[a]))                     # an application that never serves
    for neg in ("badpass", "binderr", "cancel-c-1", "cancel-c-3", "cancel-c-5", "cancel-s-2", "cancel-s-4", "cancel-s-6",
                "cut-c-0", "cut-c-200", "cut-c-400", "cut-s-0", "cut-s-150", "cut-s-300"):
        s.append(S(neg=neg))
    rnd = random.Random(seed)
    pool = TX * 2 + REQ * 2 + ["close", "updaddr", "herr", "serr", "pclose", "eof", "deadline"]
    for _ in range(24 if tier == "quick" else 400):
        steps = [(rnd.choice("cs"), rnd.choice(pool)) for _ in range(rnd.randint(2, 6))]
        ns = [rnd.choice("cs")] if rnd.random() < 0.15 else []
        s.append(S(steps=steps, noserve=ns))
    if tier != "quick":
        for n in range(1, 12):
            s.append(S(neg="cancel-c-%d" % n))
            s.append(S(neg="cancel-s-%d" % n))
        for n in range(0, 700, 23):
            s.append(S(neg="cut-c-%d" % n))
            s.append(S(neg="cut-s-%d" % n))
    # scheduler-driven scenarios: goroutines of both sides interleaved at gate granularity
    sched = [
        S(procs=[("c", "a", ["send"]), ("c", "b", ["close"])]),
        S(procs=[("c", "i1", ["ping"]), ("c", "a", ["close"])]),
        S(procs=[("c", "i1", ["ping"]), ("s", "a", ["close"])]),
        S(procs=[("s", "i1", ["iqunk"]), ("s", "a", ["encode", "close"])]),
        S(procs=[("c", "a", ["tw"]), ("s", "a", ["herr"])]),
    ]
    if tier != "quick":
        sched += [
            S(procs=[("c", "i1", ["ping"]), ("c", "i2", ["unmarshal"]), ("c", "a", ["close"])]),
            S(procs=[("c", "a", ["send", "close"]), ("s", "a", ["send", "close"])]),
            S(procs=[("c", "i1", ["ping"]), ("s", "i1", ["ping"]), ("c", "a", ["updaddr", "close"])]),
            S(procs=[("s", "a", ["close", "send"]), ("s", "b", ["encodeel"]), ("c", "a", ["sendel"])]),
        ]
    return s, sched


def explore(ctx, scen, maxpre, maxruns, tag="seq"):
    b = ctx.go_build("lifecycle")
    shards = max(1, min(verif.NCPU // 2, len(scen)))
    sf = ctx.path("life-scen-%s.ndjson" % tag)
    with open(sf, "w") as f:
        for s in scen:
            f.write(json.dumps(s) + "\n")
    procs = []
    for i in range(shards):
        tr = ctx.path("life-trace-%s-%d.ndjson" % (tag, i))
        env = dict(verif.GOENV, LIFE_MAXPRE=str(maxpre), LIFE_MAXRUNS=str(maxruns), LIFE_SHARD="%d/%d" % (i, shards),
                   VERIF_SEED=str(ctx.seed), GOMAXPROCS="2")
        procs.append((tr, subprocess.Popen([b, "run", sf, tr], env=env, cwd=ctx.scratch, stdout=subprocess.PIPE, stderr=subprocess.STDOUT, text=True)))
    summ = {"traces": 0, "events": 0, "evaluations": 0, "distinct": 0, "samples": [], "stuck": 0}
    files = []
    for tr, p in procs:
        try:
            out, _ = p.communicate(timeout=3000)
        except subprocess.TimeoutExpired:
            p.kill()
            raise verif.Undecided("lifecycle driver timed out")
        if p.returncode != 0 or "SUMMARY " not in out:
            raise verif.Undecided("lifecycle driver failed (exit %s):\n%s" % (p.returncode, out[-3000:]))
        s = json.loads(out[out.rindex("SUMMARY ") + 8:])
        for k in ("traces", "events", "evaluations", "distinct"):
            summ[k] += s[k]
        summ["stuck"] += s.get("extra", {}).get("stuck", 0)
        summ["samples"] += s["samples"][:1]
        files.append(tr)
    return files, summ


def validate(ctx, trace, dev=(), name="TrXMPP"):
    cfgt = ('CONSTANTS\n  Txs = {"m", "a", "b"}\n  Reqs = {"i1", "i2", "i3", "i4", "i5", "i6"}\n  Programs = {}\n  PeerScripts = {}\n'
            '  Roles = {"init", "recv"}\n  InitBitsSet = {}\n  MaxChunks = 1000\n  Dev = %s\n' % verif.tla_value(set(dev))
            + "SPECIFICATION TSpec\nCONSTRAINT HW\nPOSTCONDITION Accepted\nCHECK_DEADLOCK FALSE\n")
    r = ctx.tlc("TrXMPP", cfgt, files={"trace.ndjson": trace}, workers=1, timeout=2400, xss=True, deque=True, name=name)
    rejected = {}
    body = r.printed("REJECTED")
    if body:
        for m in re.finditer(r"<<(\d+),\s*(\d+)>>", body[-1]):
            rejected[int(m.group(1))] = int(m.group(2))
    if not rejected and (r.rc != 0 or r.errors):
        raise verif.Undecided("life-cycle trace validation failed to run:\n" + r.out[-6000:])
    return rejected, r


def write_traces(path, traces):
    """traces: list of event lists (first event = reset); renumbers t / end"""
    line = 0
    with open(path, "w") as f:
        for k, tr in enumerate(traces):
            tr = [dict((a, b) for a, b in e.items() if a != "_line") for e in tr]
            tr[0]["t"] = k + 1
            tr[0]["end"] = line + len(tr) + 1
            for e in tr:
                f.write(json.dumps(e) + "\n")
            line += len(tr)


def selftest(ctx, trs):
    """Binding self-test: corrupted copies of a good whole-session trace must be rejected."""
    good = [t for t, tr in trs.items() if any(e.get("ev") == "serve_ret" and e.get("class") == "nil" for e in tr)
            and any(e.get("ev") == "return" and e.get("ok") for e in tr) and any(e.get("ev") == "handler" for e in tr)
            and any(e.get("ev") == "write" and e.get("what") == "elem" for e in tr)]
    if not good:
        raise verif.Undecided("life cycle binding self-test: no complete good trace to corrupt")
    base = trs[good[0]]
    muts = []

    def mut(name, f):
        m = [dict(e) for e in base]
        if f(m) is not False:
            muts.append((name, m))

    def first(m, pred):
        for i, e in enumerate(m):
            if pred(e):
                return i
        return None

    def ready_cleared(m):
        i = first(m, lambda e: e["ev"] == "final")
        m[i]["bits"] = [b for b in m[i]["bits"] if b != "Ready"]
    mut("Ready cleared in the final state bits", ready_cleared)

    def addr_changed(m):
        i = first(m, lambda e: e["ev"] == "final")
        m[i]["local"] = "evil@example.org/x"
    mut("local address changed after establishment", addr_changed)

    def in_not_closed(m):
        i = first(m, lambda e: e["ev"] == "serve_ret")
        m[i]["bits"] = [b for b in m[i]["bits"] if b != "InClosed"]
    mut("input stream not marked closed when Serve returns", in_not_closed)

    def handler_unready(m):
        i = first(m, lambda e: e["ev"] == "handler")
        m[i]["bits"] = [b for b in m[i]["bits"] if b != "Ready"]
    mut("handler invoked without Ready", handler_unready)

    def tx_before_return(m):
        i = first(m, lambda e: e["ev"] == "return")
        j = first(m, lambda e: e["ev"] == "call" and e["k"] == "tx" and e["p"] != "s")
        if j is None:
            return False
        e = m.pop(j)
        m.insert(i, e)
    mut("transmit call before negotiation returned", tx_before_return)

    def write_after_close(m):
        i = first(m, lambda e: e["ev"] == "write" and e["what"] == "close")
        if i is None:
            return False
        m.insert(i + 1, {"ev": "write", "p": m[i]["p"], "what": "elem"})
    mut("element written after the closing tag", write_after_close)

    def late_tx_accepted(m):
        i = first(m, lambda e: e["ev"] == "ret" and e.get("k") == "tx" and e.get("class") == "closed")
        if i is None:
            return False
        m[i]["class"] = "nil"
    mut("transmit call after the end reported success", late_tx_accepted)

    def empty_local(m):
        for e in m:
            if e["ev"] in ("return", "final") or (e["ev"] == "negret" and e.get("f") == "bind"):
                e["local"] = ""
                if "into" in e:
                    e["into"] = ""
    mut("session established with an empty local address", empty_local)

    def remote_changed(m):
        i = first(m, lambda e: e["ev"] == "negret" and e.get("f") == "bind")
        if i is None:
            return False
        for e in m[i:]:
            if "remote" in e:
                e["remote"] = "other.example"
            if "infrom" in e:
                e["infrom"] = "other.example"
    mut("peer address changed during the negotiation", remote_changed)

    def drop_return(m):
        i = first(m, lambda e: e["ev"] == "return")
        m.pop(i)
    mut("return event removed", drop_return)
    p = ctx.path("life-selftest.ndjson")
    write_traces(p, [base] + [m for _, m in muts])
    rej, _ = validate(ctx, p, name="TrXMPP_selftest")
    if 1 in rej:
        raise verif.Undecided("life cycle binding self-test: unchanged trace rejected")
    missed = [muts[k - 2][0] for k in range(2, 2 + len(muts)) if k not in rej]
    if missed:
        raise verif.Undecided("life cycle binding self-test: corrupted traces ACCEPTED: %s" % missed)
    return len(muts)


def classify(tr, hw):
    ev = [e for e in tr if e["_line"] == hw]
    ev = ev[0] if ev else None
    ret = [e for e in tr if e.get("ev") == "return"]
    phase = "negotiating" if not ret or ret[0]["_line"] >= hw else ("established" if ret[0].get("ok") else "failed")
    return ev, phase


def run_part(ctx):
    quick = ctx.tier == "quick"
    replay = getattr(ctx, "replay", None)
    res, ndev = ({}, 0) if replay else design_checks(ctx)      # a replay re-runs exactly the stored case
    if replay:
        case = json.load(open(ctx.replay))["case"]
        sc = case["scenario"]
        seq, sched = ([sc], []) if not sc.get("procs") else ([], [sc])
    else:
        seq, sched = scenarios(ctx.tier, ctx.seed)
    files, summ = [], {"traces": 0, "events": 0, "evaluations": 0, "distinct": 0, "samples": [], "stuck": 0}
    for tag, scen, mp, mr in (("seq", seq, 0, 1), ("sched", sched, 1 if quick else 2, 24 if quick else 400)):
        if not scen:
            continue
        f, s = explore(ctx, scen, mp, mr, tag)
        files += f
        for k in summ:
            summ[k] += s[k]
    tr, meta = oc.merge_traces(ctx, files, "life-trace.ndjson")
    rej, r = validate(ctx, tr)
    ctx.log("life cycle: %d runs of %d+%d scenarios (%d whole-session traces, %d events); TLC validated them in %.1fs: %d rejected" % (
        summ["evaluations"], len(seq), len(sched), summ["traces"], summ["events"], r.wall, len(rej)))
    trs = verif.split_traces(verif.read_ndjson(tr))
    known = 0
    timeouts = []
    if rej:
        # open known findings tied to a named deviation: re-validate the rejected traces with it enabled
        devs = sorted({f["deviation"] for f in ctx.open_findings("lifecycle") if f.get("deviation")})
        still = dict(rej)
        if devs:
            p = ctx.path("life-reval.ndjson")
            order = sorted(rej)
            write_traces(p, [trs[t] for t in order])
            rej2, _ = validate(ctx, p, dev=devs, name="TrXMPP_known")
            still = {order[k - 1]: rej[order[k - 1]] for k in rej2}
        for t, hw in sorted(rej.items()):
            ev, phase = classify(trs[t], hw)
            what = "life cycle: whole-session trace of the real library is not a behaviour of XMPP.tla (%s phase): %s rejected at %s" % (
                phase, json.dumps(meta[t])[:260], json.dumps({k: v for k, v in (ev or {}).items() if k != "_line"})[:200])
            if ev and ev.get("ev") == "stuck" and ev.get("watchdog"):
                timeouts.append("%s: %s" % (ev.get("blocked"), json.dumps(meta[t])[:200]))      # a timeout alone is no verdict
                continue
            if ev and ev.get("ev") == "stuck":
                what = "life cycle: permanent stall, every goroutine blocked (%s): %s" % (ev.get("blocked"), json.dumps(meta[t])[:260])
            if t not in still:
                f = ctx.match_finding("lifecycle", {"phase": phase, "rejected_event": (ev or {}).get("ev")}, what)
                if f:
                    ctx.known_finding(f, "trace %d" % t)
                    known += 1
                    continue
            if len(ctx.violations) < 40:
                ctx.violation(what, {"family": "lifecycle", "scenario": meta[t]["scenario"], "side": meta[t]["side"], "choices": meta[t]["choices"],
                                     "trace": trs[t], "rejected_line": hw, "rejected_event": ev, "phase": phase})
    if timeouts and not ctx.violations:
        raise verif.Undecided("life cycle: watchdog expired in a sequential run (loaded machine?), no verdict: " + "; ".join(timeouts[:3]))
    nself = selftest(ctx, trs) if not getattr(ctx, "replay", None) and not rej else 0
    kinds = {}
    for t, x in trs.items():
        ret = [e for e in x if e.get("ev") == "return"]
        k = "%s/%s" % (x[0].get("role"), "established" if ret and ret[0].get("ok") else "failed")
        kinds[k] = kinds.get(k, 0) + 1
    cov = {
        "states": sum(res[k].distinct for k in ("safe", "safe2", "safe3") if k in res),
        "transitions": sum(res[k].generated for k in ("safe", "safe2", "safe3") if k in res),
        "design_runs": {k: {"distinct": r.distinct, "generated": r.generated, "depth": r.depth, "wall_s": round(r.wall, 1)}
                        for k, r in res.items() if not k.startswith("dev:")},
        "refinement_states": res["refine"].distinct if res else 0, "refinement": "XMPP.tla (established/closing part, other variables hidden) => Output!Spec checked as a TLC PROPERTY, plus Output's invariants on the mapped variables",
        "liveness_states": res["live"].distinct if res else 0,
        "deviation_property_pairs_failing": ndev,
        "traces_validated_against_impl": summ["traces"], "runs": summ["evaluations"], "trace_events": summ["events"],
        "trace_states": r.distinct, "rejected": len(rej), "known_findings_matched": known,
        "traces_by_role_outcome": kinds, "stuck": summ["stuck"],
        "binding_selftest_mutants_rejected": nself,
        "sequential_scenarios": len(seq), "scheduled_scenarios": len(sched),
        "samples": summ["samples"][:2],
        "properties": SAFETY + ACTION + LIVE,
    }
    return cov
