"""C17 - the message-styling decoder is lossless, chunk-independent and well-bracketed.

Pipeline A: TLC drives the monitor of tla/Styling.tla with an arbitrary token-stream
  generator over every input of a small alphabet and checks C17_Lossless,
  C17_WellBracketed, C17_StepRules; named well-formed streams must be accepted and named
  bad streams rejected for the stated clause (ASSUMEs of MCStyling).
Pipeline B/C: harness/cmd/styling enumerates inputs, runs the real styling.NewDecoder
  (Next/Token/Style/Quote) and styling.Scan under a bufio.Scanner over every DELIVERY of
  every document.  A delivery = where the input is cut (one big read, every 2-way split,
  one octet per Read, pieces of 2/3 octets, seeded multi-way cuts) x how the reader signals
  the end (io.EOF in a separate empty read | together with the last data) x (0, nil) reads
  in between or not; plus the iotest readers.  The whole-input read with a separate EOF is
  the reference run of a document.  Every reference run, every run that differs from its
  reference and a seeded sample of the equal ones are written as traces that carry the
  reads the decoder actually saw; TLC validates them against TrStyling (legal delivery,
  every clause of the monitor, same observations as the reference run = chunk independence;
  batch scheme, shards validated in parallel)."""
import concurrent.futures
import json
import os
import re
import verif

MC_CFG = '''CONSTANTS
  Inputs <- MCInputs
  Masks <- MCMasks
  MaxTok = 2
  MaxEvents = %(maxev)d
SPECIFICATION Spec
INVARIANT C17_Lossless
INVARIANT C17_WellBracketed
PROPERTY C17_StepRules
CHECK_DEADLOCK FALSE
'''
TR_CFG = '''CONSTANTS
  Inputs = {}
  Masks = {}
  MaxTok = 0
  MaxEvents = 0
SPECIFICATION TSpec
CONSTRAINT HW
POSTCONDITION Accepted
CHECK_DEADLOCK FALSE
'''


def validate(ctx, trace, name):
    """-> ({t: (line, why)}, TLCResult)"""
    r = ctx.tlc("TrStyling", TR_CFG, files={"trace.ndjson": trace}, workers=1, timeout=2400, xss=True,
                name=name, heap="3g")
    rejected = {}
    body = r.printed("REJECTED")
    if body:
        for m in re.finditer(r'<<\s*(\d+),\s*(\d+),\s*"([^"]*)"\s*>>', body[-1]):
            rejected[int(m.group(1))] = (int(m.group(2)), re.sub(r"\s+", " ", m.group(3)))
    if not rejected and (r.rc != 0 or r.errors or not r.finished):
        raise verif.Undecided("trace validation failed to run:\n" + r.out[-3000:])
    if r.violated:
        raise verif.Undecided("an invariant of the monitor failed on a trace the monitor accepted (spec problem):\n" + r.out[-3000:])
    return rejected, r


def validate_shards(ctx, base, shards, par):
    res = {}
    with concurrent.futures.ThreadPoolExecutor(max_workers=par) as ex:
        futs = {ex.submit(validate, ctx, "%s.%d" % (base, k), "TrStyling"): k for k in range(shards)
                if os.path.getsize("%s.%d" % (base, k)) > 0}
        for f in concurrent.futures.as_completed(futs):
            res[futs[f]] = f.result()
    return res


def text(b):
    return json.dumps(bytes(b).decode("latin1"))


def show(evs):
    out = []
    for e in evs:
        if e["ev"] == "tok":
            d = bytes(e["data"]).decode("latin1")
            if len(d) > 24:
                d = d[:10] + "...(%d octets)" % len(d)
            out.append("%s%s%s" % (json.dumps(d), ("/" + "|".join(e["m"])) if e["m"] else "", ("/q%d" % e["q"]) if e["q"] else ""))
        else:
            out.append("end(%s%s%s)" % (e["err"][:60], " PANIC" if e["panic"] else "", " RUNAWAY" if e["runaway"] else ""))
    return " ".join(out)


def cause(meta, why):
    """a coarse grouping key so that one root cause gives one replay file, not thousands"""
    inp = bytes(meta["input"])
    reader = re.sub(r"zero-reads=\d+", "zero-reads", re.sub(r"@\d+|\[[\d,]*\]", "", meta["reader"]))
    with_data = "DataErr" in reader or "eof-with-data" in reader
    lines = inp.split(b"\n")
    if max(len(l) for l in lines) >= 65536:
        feat = "line >= 64 KiB"
    elif b"```" in inp and any(re.match(rb"[> ]*```.", l) for l in lines[1:]):
        feat = "pre block with a line that starts like a fence"
    elif b"```" in inp and b">" in inp:
        feat = "pre block and block quote"
    elif b">" in inp:
        feat = "block quote"
    elif b"```" in inp:
        feat = "pre block"
    else:
        feat = "other"
    return (why.split(":")[0], meta["api"], feat, "EOF delivered with the last data" if with_data else "EOF in a separate read")


def report(ctx, base, results, limit=12):
    groups = {}
    total = 0
    for k, (rej, _) in sorted(results.items()):
        if not rej:
            continue
        meta = {m["t"]: m["meta"] for m in verif.read_ndjson("%s.%d.meta" % (base, k))}
        for t, (line, why) in sorted(rej.items()):
            total += 1
            g = groups.setdefault(cause(meta[t], why), {"n": 0, "first": None})
            g["n"] += 1
            if g["first"] is None or len(meta[t]["input"]) < len(g["first"][2]["input"]):
                g["first"] = (k, t, meta[t], line, why)
    harness = [g for key, g in groups.items() if key[0].startswith("HARNESS")]
    if harness:
        k, t, meta, line, why = harness[0]["first"]
        raise verif.Undecided("the harness misbehaved, no verdict: %s (input %s, reader %s)" % (why, text(meta["input"]), meta["reader"]))
    shown = sorted(groups.items(), key=lambda kv: -kv[1]["n"])[:limit]
    traces = {}
    for k in sorted({g["first"][0] for _, g in shown}):
        want = {g["first"][1] for _, g in shown if g["first"][0] == k}
        trs = verif.split_traces(verif.read_ndjson("%s.%d" % (base, k)))
        for t in want:
            traces[(k, t)] = trs[t]
    for key, g in shown:
        k, t, meta, line, why = g["first"]
        tr = traces[(k, t)]
        rej = [e for e in tr if e["_line"] == line]
        ref = tr[0].get("ref") or []
        got = [{x: v for x, v in e.items() if x != "_line"} for e in tr[1:]]
        reads = {"cumulative_octets_after_each_read": tr[0].get("rd"), "eof": tr[0].get("eof")}
        inp = meta["input"]
        short = text(inp) if len(inp) <= 80 else "%s... (%d octets)" % (text(inp[:20]), len(inp))
        what = "%s | %s, input %s, reader %s: observed %s%s (%d rejected traces of this kind: %s)" % (
            why, meta["api"], short, meta["reader"], show(got)[:400],
            (" ; whole-input read gave " + show(ref)[:400]) if ref else "", g["n"], "/".join(key[2:]))
        big = len(inp) > 2000
        ctx.violation(what, {"family": "styling", "input": inp, "api": meta["api"], "reader": meta["reader"],
                             "reads_seen_by_the_decoder": reads if not big else tr[0].get("eof"), "clause": why, "rejected_line": line, "rejected_event": (rej[0] if rej and not big else None),
                             "observed": got if not big else show(got), "whole_input_read": ref if not big else show(ref)})
    return total, {"/".join(k): g["n"] for k, g in groups.items()}


def selftest(ctx, drv):
    """Binding self-test: record the real decoder on a fixed input, corrupt the recording in
    four ways; TLC must accept the original and reject every corruption."""
    case = ctx.path("selftest_case.json")
    inp = list(b"> *a* `b`\nc\n")
    json.dump({"input": inp, "api": "decoder"}, open(case, "w"))
    base = ctx.path("selftest.ndjson")
    ctx.run_driver(drv, ["replay", case, base, ctx.path("selftest_res.json")], env={"STYLING_SHARDS": "1"})
    trs = verif.split_traces(verif.read_ndjson(base + ".0"))
    good = [{k: v for k, v in e.items() if k != "_line"} for e in trs[1]]
    if not any("SpanStrongEnd" in e.get("m", []) for e in good):
        return 0            # the tree under test does not tokenise spans as expected: nothing to corrupt
    def dup():
        return json.loads(json.dumps(good))
    muts = []
    m = dup(); i = [k for k, e in enumerate(m) if "SpanStrongEnd" in e.get("m", [])][0]
    m[i]["m"] = [b for b in m[i]["m"] if b != "SpanStrong"]; muts.append(("style bit removed from an end directive", m))
    m = dup(); del m[i]; muts.append(("end directive token removed", m))
    m = dup(); j = [k for k, e in enumerate(m) if "SpanPreStart" in e.get("m", [])][0]
    m[j]["m"] = [b.replace("SpanPre", "SpanEmph") for b in m[j]["m"]]; muts.append(("span start kind changed", m))
    m = dup(); m[2]["data"][0] ^= 1; muts.append(("one octet of a token changed", m))
    m = dup(); m[0]["ref"] = json.loads(json.dumps(good[1:])); m[2]["q"] += 1; muts.append(("quote depth differs from the reference run", m))
    m = dup(); m[0]["rd"] = [len(inp) - 1, len(inp) - 1]; muts.append(("recorded reads end before the last octet", m))
    m = dup(); m[0]["eof"] = "with-data"; muts.append(("recorded end style contradicts the recorded reads", m))
    p = ctx.path("selftest_mut.ndjson")
    line = 0
    with open(p, "w") as f:
        for k, (_, tr) in enumerate([("unchanged", good)] + muts):
            tr[0]["t"] = k + 1
            tr[0]["end"] = line + len(tr) + 1
            for e in tr:
                f.write(json.dumps(e) + "\n")
            line += len(tr)
    rej, _ = validate(ctx, p, "TrStyling")
    if 1 in rej:
        raise verif.Undecided("binding self-test: the unchanged recording was rejected: %s" % (rej[1],))
    missed = [muts[k - 2][0] for k in range(2, 2 + len(muts)) if k not in rej]
    if missed:
        raise verif.Undecided("binding self-test: corrupted recordings ACCEPTED: %s" % missed)
    return len(muts)


def run(ctx):
    quick = ctx.tier == "quick"
    mc = ctx.model_check("MCStyling", MC_CFG % {"maxev": 5 if quick else 6},
                         ["C17_Lossless", "C17_WellBracketed", "C17_StepRules", "named good/bad streams (ASSUME)"],
                         timeout=1500, name="MCStyling")
    drv = ctx.go_build("styling")
    base = ctx.path("trace.ndjson")
    out = ctx.path("result.json")
    shards, par = (6, 6) if quick else (24, 6)
    if ctx.replay:
        case = json.load(open(ctx.replay))["case"]
        cf = ctx.path("case.json")
        json.dump({"input": case["input"], "api": case["api"], "reader": case.get("reader", "")}, open(cf, "w"))
        shards = par = 1
        ctx.run_driver(drv, ["replay", cf, base, out], env={"STYLING_SHARDS": "1"}, timeout=600)
    else:
        ctx.run_driver(drv, ["run", base, out], env={"STYLING_SHARDS": str(shards)}, timeout=3000)
    res = json.load(open(out))
    ctx.log("driver: %d inputs, %d runs (%d equal to the whole-input read, %d differ on %d inputs), %d traces / %d events to validate" % (
        res["inputs"], res["runs"], res["same_as_whole"], res["differ_from_whole"], res["inputs_with_differences"],
        res["traces"], res["events"]))
    styles = res.get("runs_by_eof_style", {})
    if not ctx.replay and not (styles.get("separate", 0) > 0 and styles.get("with-data", 0) > 0):
        raise verif.Undecided("the delivery dimension is degenerate: runs by end-of-input style %s" % styles)
    results = validate_shards(ctx, base, shards, par)
    tstates = sum(r.distinct for _, r in results.values())
    nrej = sum(len(rej) for rej, _ in results.values())
    ctx.log("validated %d traces in %d shards: %d rejected (TLC %d states, slowest shard %.1fs)" % (
        res["traces"], len(results), nrej, tstates, max(r.wall for _, r in results.values())))
    # every run that differed from its reference must have been rejected by TLC (and vice versa nothing is lost)
    total, groups = report(ctx, base, results)
    nself = selftest(ctx, drv) if not ctx.replay else 0
    if ctx.replay:
        return          # a replay re-judges one case; the evidence file describes full runs only
    ctx.write_evidence("model_checking", {
        "states": mc.distinct, "transitions": mc.generated,
        "traces_validated_against_impl": res["traces"], "trace_events": res["events"], "trace_states": tstates,
        "evaluations": res["runs"], "inputs": res["inputs"],
        "runs_equal_to_whole_input_read": res["same_as_whole"],
        "runs_differing_from_whole_input_read": res["differ_from_whole"],
        "equal_runs_also_validated_by_tlc_sample": res["same_sampled_for_tlc"],
        "distinct_nontrivial": res["distinct_observation_sequences"],
        "rejected": nrej, "rejected_by_kind": groups, "differ_by_reader": res["differ_by_reader"],
        "inputs_by_class": res["inputs_by_class"], "runs_by_end_of_input_style": styles,
        "binding_selftest_corruptions_rejected": nself,
        "exhaustive": True, "exhaustive_scope": "all strings of <= %d symbols" % res["exhaustive_len"],
        "design_check": "MCStyling: arbitrary token-stream generator (tokens of <= 2 octets, any subset of 7 style bits, right or wrong data, end with/without panic) over all 40 inputs of <= 3 symbols of {*, a, newline}, streams of <= %d observations; 5 named good and 11 named bad streams; a named pair of streams of one pre-block document that differ only under a delivery with EOF on the last data (rejected as chunk dependent); 6 legal and 6 illegal named deliveries" % (5 if quick else 6),
        "rule": "documents = every string of <= %d symbols over {* _ ~ ` > space newline a no-break-space 0xC2} + %d seeded strings of %d..%d symbols + 16 fence/quote/span templates x 10 x 10 fillers + %d pre-block documents (opening fence with/without info string; 0..2 inner lines out of {a, empty, ```go, ````, ``` x, > ```, ``, space```}; closed or unterminated; an optional following line out of {b, *b*, > q, ```go}; every line under the quote prefix '', '> ', '>> ' (thorough: also '>', '> > '), the following line under the same prefix or none; with and without trailing newline; + seeded longer blocks whose quote prefix changes per line) + 28 lines of 4095..70000 octets (decoder only); each through NewDecoder and through Scan+bufio.Scanner. Deliveries of a document = cuts x end-of-input style: cuts = one big read (reference: bytes.Reader), every 2-way split (documents <= 64 octets), 1 octet per Read, pieces of 2 and 3 octets, 1-4 seeded random multi-way cuts, iotest.OneByteReader (long lines: pieces of 1000/4096, HalfReader); end style = io.EOF in a separate empty read | io.EOF together with the last data (own reader and iotest.DataErrReader) ; (0, nil) reads in front of every piece and of the EOF (every split of the small and structured documents, the random cuts). Every reader is wrapped in a recorder: each trace carries the reads the decoder performed, TLC requires them to be a legal delivery (LegalDelivery). TLC validated: every reference run, every DISTINCT run that differs from its reference (carrying the reference; rejected under C17_ChunkIndependent), and a 0.2%% seeded sample of the runs the driver found equal to their reference (carrying the reference; accepted). Equality of the remaining runs with their reference was established by the driver by comparing an injective encoding of (data, mask, quote, info, end) sequences. distinct_nontrivial = distinct observation sequences" % (
            res["exhaustive_len"], res["sampled_n"], res["exhaustive_len"] + 1, res["sampled_len"], res["inputs_by_class"].get("pre-block documents", 0)),
        "samples": (res["samples"] or [])[:2],
    }, assumptions=["a token carries at most one span directive (the documented token model of package styling)",
                    "'inside a preformatted span' is judged on the monitor's span stack; 'inside a preformatted block' on the token's own BlockPre bit",
                    "Next is given up after 2*len+16 calls (runaway)",
                    "readers never fail with an error other than io.EOF and return at most 2 consecutive (0, nil) reads (bufio.Scanner gives up after 100)",
                    "chunk independence is judged against one reference delivery per document (one read of the whole input, io.EOF in a separate read): equality with the reference for all deliveries implies pairwise equality"])
