"""C17 - the message-styling decoder is lossless, chunk-independent and well-bracketed.

Pipeline A: TLC drives the monitor of tla/Styling.tla with an arbitrary token-stream
  generator over every input of a small alphabet and checks C17_Lossless,
  C17_WellBracketed, C17_StepRules; named well-formed streams must be accepted and named
  bad streams rejected for the stated clause (ASSUMEs of MCStyling).
Pipeline B/C: harness/cmd/styling enumerates inputs, runs the real styling.NewDecoder
  (Next/Token/Style/Quote) and styling.Scan under a bufio.Scanner over every DELIVERY of
  every document.  A delivery = where the input is cut (one big read, every 2-way split,
  one octet per Read, pieces of 2/3 octets, seeded multi-way cuts) x how the reader signals
  the end (io.EOF in a separate empty read | together with the last data) x (0, nil) reads
  in between or not; plus the iotest readers.  The whole-input read with a separate EOF is
  the reference run of a document.  Every reference run, every run that differs from its
  reference and a seeded sample of the equal ones are written as traces that carry the
  reads the decoder actually saw; TLC validates them against TrStyling (legal delivery,
  every clause of the monitor, same observations as the reference run = chunk independence;
  batch scheme, shards validated in parallel).
  Documents with very long lines (2^20 - 1 ... 2^22 + 1 octets, thorough ... 2^24 + 1) are
  recorded in the run-length form ([octet, count] runs for the document, token data, info);
  the monitor judges losslessness and chunk independence over the runs (length = sum of
  counts, concatenation = merge, prefix test over runs); TLC sees every run of those."""
import concurrent.futures
import json
import os
import re
import verif

MC_CFG = '''CONSTANTS
  Inputs <- MCInputs
  Masks <- MCMasks
  MaxTok = 2
  MaxEvents = %(maxev)d
  RInputs <- MCRInputs
  RMasks <- MCRMasks
  RMaxEvents = %(rmaxev)d
SPECIFICATION Spec
INVARIANT C17_Lossless
INVARIANT C17_RunsFaithful
INVARIANT C17_WellBracketed
PROPERTY C17_StepRules
CHECK_DEADLOCK FALSE
'''
TR_CFG = '''CONSTANTS
  Inputs = {}
  Masks = {}
  MaxTok = 0
  MaxEvents = 0
  RInputs = {}
  RMasks = {}
  RMaxEvents = 0
SPECIFICATION TSpec
CONSTRAINT HW
POSTCONDITION Accepted
CHECK_DEADLOCK FALSE
'''


def validate(ctx, trace, name):
    """-> ({t: (line, why)}, TLCResult)"""
    r = ctx.tlc("TrStyling", TR_CFG, files={"trace.ndjson": trace}, workers=1, timeout=2400, xss=True,
                name=name, heap="3g")
    rejected = {}
    body = r.printed("REJECTED")
    if body:
        for m in re.finditer(r'<<\s*(\d+),\s*(\d+),\s*"([^"]*)"\s*>>', body[-1]):
            rejected[int(m.group(1))] = (int(m.group(2)), re.sub(r"\s+", " ", m.group(3)))
    if not rejected and (r.rc != 0 or r.errors or not r.finished):
        raise verif.Undecided("trace validation failed to run:\n" + r.out[-3000:])
    if r.violated:
        raise verif.Undecided("an invariant of the monitor failed on a trace the monitor accepted (spec problem):\n" + r.out[-3000:])
    return rejected, r


def validate_shards(ctx, base, shards, par):
    res = {}
    with concurrent.futures.ThreadPoolExecutor(max_workers=par) as ex:
        futs = {ex.submit(validate, ctx, "%s.%d" % (base, k), "TrStyling"): k for k in range(shards)
                if os.path.getsize("%s.%d" % (base, k)) > 0}
        for f in concurrent.futures.as_completed(futs):
            res[futs[f]] = f.result()
    return res


def text(b):
    return json.dumps(bytes(b).decode("latin1"))


def expand(runs):
    return b"".join(bytes([o]) * c for o, c in runs)


def doc(meta):
    """the document of a trace as bytes (long documents are recorded as [octet, count] runs)"""
    return expand(meta["input_runs"]) if meta.get("input_runs") else bytes(meta["input"])


def size(meta):
    return sum(c for _, c in meta["input_runs"]) if meta.get("input_runs") else len(meta["input"])


def show_runs(runs):
    return " ".join(json.dumps(chr(o)) + ("x%d" % c if c > 1 else "") for o, c in runs) or '""'


def show(evs):
    out = []
    for e in evs:
        if e["ev"] == "tok" and e["data"] and isinstance(e["data"][0], list):
            out.append("[%s]%s%s" % (show_runs(e["data"]), ("/" + "|".join(e["m"])) if e["m"] else "", ("/q%d" % e["q"]) if e["q"] else ""))
        elif e["ev"] == "tok":
            d = bytes(e["data"]).decode("latin1")
            if len(d) > 24:
                d = d[:10] + "...(%d octets)" % len(d)
            out.append("%s%s%s" % (json.dumps(d), ("/" + "|".join(e["m"])) if e["m"] else "", ("/q%d" % e["q"]) if e["q"] else ""))
        else:
            out.append("end(%s%s%s)" % (e["err"][:60], " PANIC" if e["panic"] else "", " RUNAWAY" if e["runaway"] else ""))
    return " ".join(out)


def cause(meta, why):
    """a coarse grouping key so that one root cause gives one replay file, not thousands"""
    inp = doc(meta)
    reader = re.sub(r"zero-reads=\d+", "zero-reads", re.sub(r"@\d+|\[[\d,]*\]", "", meta["reader"]))
    with_data = "DataErr" in reader or "eof-with-data" in reader
    lines = inp.split(b"\n")
    if max(len(l) for l in lines) >= (1 << 20) - 1:
        feat = "line >= 1 MiB - 1"
    elif max(len(l) for l in lines) >= 65536:
        feat = "line >= 64 KiB"
    elif b"```" in inp and any(re.match(rb"[> ]*```.", l) for l in lines[1:]):
        feat = "pre block with a line that starts like a fence"
    elif b"```" in inp and b">" in inp:
        feat = "pre block and block quote"
    elif b">" in inp:
        feat = "block quote"
    elif b"```" in inp:
        feat = "pre block"
    else:
        feat = "other"
    return (why.split(":")[0], meta["api"], feat, "EOF delivered with the last data" if with_data else "EOF in a separate read")


def report(ctx, base, results, limit=12):
    groups = {}
    total = 0
    for k, (rej, _) in sorted(results.items()):
        if not rej:
            continue
        meta = {m["t"]: m["meta"] for m in verif.read_ndjson("%s.%d.meta" % (base, k))}
        for t, (line, why) in sorted(rej.items()):
            total += 1
            g = groups.setdefault(cause(meta[t], why), {"n": 0, "first": None})
            g["n"] += 1
            if g["first"] is None or size(meta[t]) < size(g["first"][2]):
                g["first"] = (k, t, meta[t], line, why)
    harness = [g for key, g in groups.items() if key[0].startswith("HARNESS")]
    if harness:
        k, t, meta, line, why = harness[0]["first"]
        raise verif.Undecided("the harness misbehaved, no verdict: %s (input %s, reader %s)" % (why, text(meta["input"]), meta["reader"]))
    shown = sorted(groups.items(), key=lambda kv: -kv[1]["n"])[:limit]
    traces = {}
    for k in sorted({g["first"][0] for _, g in shown}):
        want = {g["first"][1] for _, g in shown if g["first"][0] == k}
        trs = verif.split_traces(verif.read_ndjson("%s.%d" % (base, k)))
        for t in want:
            traces[(k, t)] = trs[t]
    for key, g in shown:
        k, t, meta, line, why = g["first"]
        tr = traces[(k, t)]
        rej = [e for e in tr if e["_line"] == line]
        ref = tr[0].get("ref") or []
        got = [{x: v for x, v in e.items() if x != "_line"} for e in tr[1:]]
        reads = {"cumulative_octets_after_each_read": tr[0].get("rd"), "eof": tr[0].get("eof")}
        inp = meta["input"]
        if meta.get("input_runs"):
            short = "%s (%d octets)" % (show_runs(meta["input_runs"]), size(meta))
        else:
            short = text(inp) if len(inp) <= 80 else "%s... (%d octets)" % (text(inp[:20]), len(inp))
        what = "%s | %s, input %s, reader %s: observed %s%s (%d rejected traces of this kind: %s)" % (
            why, meta["api"], short, meta["reader"], show(got)[:400],
            (" ; whole-input read gave " + show(ref)[:400]) if ref else "", g["n"], "/".join(key[2:]))
        big = len(inp) > 2000
        ctx.violation(what, {"family": "styling", "input": inp, "input_runs": meta.get("input_runs") or [], "api": meta["api"], "reader": meta["reader"],
                             "reads_seen_by_the_decoder": reads if not big else tr[0].get("eof"), "clause": why, "rejected_line": line, "rejected_event": (rej[0] if rej and not big else None),
                             "observed": got if not big else show(got), "whole_input_read": ref if not big else show(ref)})
    return total, {"/".join(k): g["n"] for k, g in groups.items()}


def selftest(ctx, drv):
    """Binding self-test: record the real decoder on a fixed input, corrupt the recording in
    several ways; TLC must accept the original and reject every corruption.  The same for a
    recording in the run-length form (a line of 70 000 octets): octet lost / duplicated / altered,
    decoding ended early, line split in two tokens - rejected; the long run written as several
    adjacent runs of the same octet - accepted."""
    case = ctx.path("selftest_case.json")
    inp = list(b"> *a* `b`\nc\n")
    json.dump({"input": inp, "api": "decoder"}, open(case, "w"))
    base = ctx.path("selftest.ndjson")
    ctx.run_driver(drv, ["replay", case, base, ctx.path("selftest_res.json")], env={"STYLING_SHARDS": "1"})
    trs = verif.split_traces(verif.read_ndjson(base + ".0"))
    good = [{k: v for k, v in e.items() if k != "_line"} for e in trs[1]]
    if not any("SpanStrongEnd" in e.get("m", []) for e in good):
        return 0            # the tree under test does not tokenise spans as expected: nothing to corrupt
    def dup():
        return json.loads(json.dumps(good))
    muts = []
    m = dup(); i = [k for k, e in enumerate(m) if "SpanStrongEnd" in e.get("m", [])][0]
    m[i]["m"] = [b for b in m[i]["m"] if b != "SpanStrong"]; muts.append(("style bit removed from an end directive", m))
    m = dup(); del m[i]; muts.append(("end directive token removed", m))
    m = dup(); j = [k for k, e in enumerate(m) if "SpanPreStart" in e.get("m", [])][0]
    m[j]["m"] = [b.replace("SpanPre", "SpanEmph") for b in m[j]["m"]]; muts.append(("span start kind changed", m))
    m = dup(); m[2]["data"][0] ^= 1; muts.append(("one octet of a token changed", m))
    m = dup(); m[0]["ref"] = json.loads(json.dumps(good[1:])); m[2]["q"] += 1; muts.append(("quote depth differs from the reference run", m))
    m = dup(); m[0]["rd"] = [len(inp) - 1, len(inp) - 1]; muts.append(("recorded reads end before the last octet", m))
    m = dup(); m[0]["eof"] = "with-data"; muts.append(("recorded end style contradicts the recorded reads", m))
    # the same for a recording in the run-length form: "> *" + 70 000 x "a" + "*\\nc"
    keep = []       # recordings that differ from the original only in how they are written: must be ACCEPTED
    big = 70000
    runs = [[62, 1], [32, 1], [42, 1], [97, big], [42, 1], [10, 1], [99, 1]]
    json.dump({"input": [], "input_runs": runs, "api": "decoder"}, open(case, "w"))
    rbase = ctx.path("selftest_runs.ndjson")
    ctx.run_driver(drv, ["replay", case, rbase, ctx.path("selftest_res.json")], env={"STYLING_SHARDS": "1"})
    rtrs = verif.split_traces(verif.read_ndjson(rbase + ".0"))
    rgood = [{k: v for k, v in e.items() if k != "_line"} for e in rtrs[1]]
    li = [k for k, e in enumerate(rgood) if e.get("ev") == "tok" and [97, big] in e["data"]]
    if rgood[0].get("form") != "runs":
        raise verif.Undecided("binding self-test: the driver did not record the long document in the run-length form")
    if li:
        i = li[0]
        def rdup():
            return json.loads(json.dumps(rgood))
        def setrun(m, octet, count):
            m[i]["data"] = [[octet, count] if r == [97, big] else r for r in m[i]["data"]]
        m = rdup(); setrun(m, 97, big - 1); muts.append(("run-length form: one octet of the long line lost", m))
        m = rdup(); setrun(m, 97, big + 1); muts.append(("run-length form: one octet of the long line duplicated", m))
        m = rdup(); setrun(m, 98, big); muts.append(("run-length form: the octet of the long run changed", m))
        m = rdup(); m[i]["data"] = [x for r in m[i]["data"] for x in ([[97, 4096], [0, 1], [97, big - 4097]] if r == [97, big] else [r])]
        muts.append(("run-length form: one octet in the middle of the long line altered", m))
        m = rdup(); del m[i + 1:-1]; m[-1]["err"] = "bufio.Scanner: token too long"; muts.append(("run-length form: decoding ends after the long token", m))
        m = rdup(); m[0]["ref"] = json.loads(json.dumps(rgood[1:]))
        m[i]["data"] = [x for r in m[i]["data"] for x in ([[97, big - 1]] if r == [97, big] else [r])]
        m.insert(i + 1, dict(m[i], data=[[97, 1]])); muts.append(("run-length form: the long line comes in two tokens, the reference run has one", m))
        m = rdup(); m[0]["input"] = [[97, big + 1] if r == [97, big] else r for r in m[0]["input"]]
        muts.append(("run-length form: the document is one octet longer than what the reads delivered", m))
        m = rdup(); m[0]["ref"] = json.loads(json.dumps(rgood[1:]))
        m[i]["data"] = [x for r in m[i]["data"] for x in ([[97, 1], [97, big - 2], [97, 0], [97, 1]] if r == [97, big] else [r])]
        keep.append(("run-length form: the long run written as adjacent runs of the same octet (same octets, same reference)", m))
    p = ctx.path("selftest_mut.ndjson")
    line = 0
    allt = [("unchanged", good)] + ([("unchanged (run-length form)", rgood)] if li else []) + keep + muts
    with open(p, "w") as f:
        for k, (_, tr) in enumerate(allt):
            tr[0]["t"] = k + 1
            tr[0]["end"] = line + len(tr) + 1
            for e in tr:
                f.write(json.dumps(e) + "\n")
            line += len(tr)
    rej, _ = validate(ctx, p, "TrStyling")
    nkeep = len(allt) - len(muts)
    if 1 in rej:
        raise verif.Undecided("binding self-test: the unchanged recording was rejected: %s" % (rej[1],))
    if li and 2 in rej:
        # the recording of the real decoder over the long document is itself rejected: that is an
        # observation of the tree under test (a verdict like any other rejected trace), and the
        # corruptions derived from it say nothing
        ctx.violation("%s | decoder, input %s (%d octets), reader whole: observed %s" % (
            rej[2][1], show_runs(runs), sum(c for _, c in runs), show(rgood[1:])[:400]),
            {"family": "styling", "input": [], "input_runs": runs, "api": "decoder", "reader": "whole",
             "clause": rej[2][1], "observed": rgood[1:]})
        return len([k for k in range(nkeep + 1, len(allt) + 1) if k in rej and not allt[k - 1][0].startswith("run-length form")])
    for k in range(2, nkeep + 1):
        if k in rej:
            raise verif.Undecided("binding self-test: recording '%s' was rejected: %s" % (allt[k - 1][0], rej[k],))
    missed = [allt[k - 1][0] for k in range(nkeep + 1, len(allt) + 1) if k not in rej]
    if missed:
        raise verif.Undecided("binding self-test: corrupted recordings ACCEPTED: %s" % missed)
    return len(muts)


def run(ctx):
    quick = ctx.tier == "quick"
    mc = ctx.model_check("MCStyling", MC_CFG % {"maxev": 5 if quick else 6, "rmaxev": 3 if quick else 4},
                         ["C17_Lossless", "C17_RunsFaithful", "C17_WellBracketed", "C17_StepRules", "named good/bad streams, run-length operators (ASSUME)"],
                         timeout=1500, name="MCStyling")
    drv = ctx.go_build("styling")
    base = ctx.path("trace.ndjson")
    out = ctx.path("result.json")
    shards, par = (6, 6) if quick else (24, 6)
    if ctx.replay:
        case = json.load(open(ctx.replay))["case"]
        cf = ctx.path("case.json")
        json.dump({"input": case["input"], "input_runs": case.get("input_runs") or [], "api": case["api"],
                   "reader": case.get("reader", "")}, open(cf, "w"))
        shards = par = 1
        ctx.run_driver(drv, ["replay", cf, base, out], env={"STYLING_SHARDS": "1"}, timeout=600)
    else:
        ctx.run_driver(drv, ["run", base, out], env={"STYLING_SHARDS": str(shards)}, timeout=3000)
    res = json.load(open(out))
    ctx.log("driver: %d inputs, %d runs (%d equal to the whole-input read, %d differ on %d inputs), %d traces / %d events to validate" % (
        res["inputs"], res["runs"], res["same_as_whole"], res["differ_from_whole"], res["inputs_with_differences"],
        res["traces"], res["events"]))
    styles = res.get("runs_by_eof_style", {})
    nbig = res["inputs_by_class"].get("very long lines (run-length form)", 0)
    if not ctx.replay and not (nbig > 0 and res.get("runs_of_run_length_documents", 0) >= 4 * nbig):
        raise verif.Undecided("the length dimension is degenerate: %d documents with very long lines, %s runs of them" % (
            nbig, res.get("runs_of_run_length_documents")))
    if not ctx.replay and not (styles.get("separate", 0) > 0 and styles.get("with-data", 0) > 0):
        raise verif.Undecided("the delivery dimension is degenerate: runs by end-of-input style %s" % styles)
    results = validate_shards(ctx, base, shards, par)
    tstates = sum(r.distinct for _, r in results.values())
    nrej = sum(len(rej) for rej, _ in results.values())
    ctx.log("validated %d traces in %d shards: %d rejected (TLC %d states, slowest shard %.1fs)" % (
        res["traces"], len(results), nrej, tstates, max(r.wall for _, r in results.values())))
    # every run that differed from its reference must have been rejected by TLC (and vice versa nothing is lost)
    total, groups = report(ctx, base, results)
    nself = selftest(ctx, drv) if not ctx.replay else 0
    if ctx.replay:
        return          # a replay re-judges one case; the evidence file describes full runs only
    ctx.write_evidence("model_checking", {
        "states": mc.distinct, "transitions": mc.generated,
        "traces_validated_against_impl": res["traces"], "trace_events": res["events"], "trace_states": tstates,
        "evaluations": res["runs"], "inputs": res["inputs"],
        "runs_equal_to_whole_input_read": res["same_as_whole"],
        "runs_differing_from_whole_input_read": res["differ_from_whole"],
        "equal_runs_also_validated_by_tlc_sample": res["same_sampled_for_tlc"],
        "distinct_nontrivial": res["distinct_observation_sequences"],
        "rejected": nrej, "rejected_by_kind": groups, "differ_by_reader": res["differ_by_reader"],
        "inputs_by_class": res["inputs_by_class"], "runs_by_end_of_input_style": styles,
        "binding_selftest_corruptions_rejected": nself,
        "exhaustive": True, "exhaustive_scope": "all strings of <= %d symbols" % res["exhaustive_len"],
        "design_check": "MCStyling: arbitrary token-stream generator (tokens of <= 2 octets, any subset of 7 style bits, right or wrong data, end with/without panic) over all 40 inputs of <= 3 symbols of {*, a, newline}, streams of <= %d observations; 5 named good and 11 named bad streams; a named pair of streams of one pre-block document that differ only under a delivery with EOF on the last data (rejected as chunk dependent); 6 legal and 6 illegal named deliveries; run-length form: the same generator over all 160 normal run sequences over {*, a, newline} (<= 2 runs with counts 1, 2, 2^20+1; 3 runs with counts 1, 2^20+1), tokens ending at run boundaries +-1 or within 2 octets, handed over in normal form / first run split / first octet altered / one octet more / one octet fewer, streams of <= %d tokens, C17_RunsFaithful re-checks accepted streams octet by octet where the document is <= 64 octets; the run-length operators (length, normal form, sub-run, merge, ends-line, next-piece) against their octet meaning over all sequences of <= 3 runs with counts 0..3; 9 named good and 10 named bad streams over documents with a line of 2^20+1 octets (token buffer capped: line and rest never delivered / line cut to 2^20; octet lost, duplicated, altered; line split in two tokens under another delivery; span left open)" % (5 if quick else 6, 3 if quick else 4),
        "rule": "documents = every string of <= %d symbols over {* _ ~ ` > space newline a no-break-space 0xC2} + %d seeded strings of %d..%d symbols + 16 fence/quote/span templates x 10 x 10 fillers + %d pre-block documents (opening fence with/without info string; 0..2 inner lines out of {a, empty, ```go, ````, ``` x, > ```, ``, space```}; closed or unterminated; an optional following line out of {b, *b*, > q, ```go}; every line under the quote prefix '', '> ', '>> ' (thorough: also '>', '> > '), the following line under the same prefix or none; with and without trailing newline; + seeded longer blocks whose quote prefix changes per line) + 28 lines of 4095..70000 octets (decoder only) + %d documents with a very long line (lengths around powers of two: 2^20-1, 2^20, 2^20+1, 2^22+1; thorough also 2^21-1, 2^21+1, 2^22-1, 2^22, 2^23+1, 2^24+1; each plain / followed by a short line / inside a span / inside a quote; decoder only; deliveries: one big read with separate EOF (reference), EOF with the data, two empty reads first, pieces of 4096 octets (65536 from 2^21 octets on) with either end style, iotest.HalfReader; iotest.DataErrReader - at most 1024 octets per Read - is left out for them) RECORDED IN THE RUN-LENGTH FORM - document, token data and info as [octet, count] runs - and judged by TLC over the runs (length = sum of counts, concatenation = merge of adjacent equal runs, 'next piece of the input' = equal normal forms of the token's runs and of the runs cut out of the document); all %d runs of those are validated by TLC; each other document through NewDecoder and through Scan+bufio.Scanner. Deliveries of a document = cuts x end-of-input style: cuts = one big read (reference: bytes.Reader), every 2-way split (documents <= 64 octets), 1 octet per Read, pieces of 2 and 3 octets, 1-4 seeded random multi-way cuts, iotest.OneByteReader (long lines: pieces of 1000/4096, HalfReader); end style = io.EOF in a separate empty read | io.EOF together with the last data (own reader and iotest.DataErrReader) ; (0, nil) reads in front of every piece and of the EOF (every split of the small and structured documents, the random cuts). Every reader is wrapped in a recorder: each trace carries the reads the decoder performed, TLC requires them to be a legal delivery (LegalDelivery). TLC validated: every reference run, every DISTINCT run that differs from its reference (carrying the reference; rejected under C17_ChunkIndependent), and a 0.2%% seeded sample of the runs the driver found equal to their reference (carrying the reference; accepted). Equality of the remaining runs with their reference was established by the driver by comparing an injective encoding of (data, mask, quote, info, end) sequences. distinct_nontrivial = distinct observation sequences" % (
            res["exhaustive_len"], res["sampled_n"], res["exhaustive_len"] + 1, res["sampled_len"], res["inputs_by_class"].get("pre-block documents", 0),
            nbig, res.get("runs_of_run_length_documents", 0)),
        "very_long_line_documents": nbig, "runs_of_very_long_line_documents_all_validated_by_tlc": res.get("runs_of_run_length_documents", 0),
        "samples": (res["samples"] or [])[:2] + (res.get("run_length_samples") or [])[:1],
    }, assumptions=["a token carries at most one span directive (the documented token model of package styling)",
                    "'inside a preformatted span' is judged on the monitor's span stack; 'inside a preformatted block' on the token's own BlockPre bit",
                    "Next is given up after 2*len+16 calls (runaway)",
                    "readers never fail with an error other than io.EOF and return at most 2 consecutive (0, nil) reads (bufio.Scanner gives up after 100)",
                    "chunk independence is judged against one reference delivery per document (one read of the whole input, io.EOF in a separate read): equality with the reference for all deliveries implies pairwise equality"])
