"""C02 - a client asked to use STARTTLS never proceeds in clear text.
A: TLC design check of tla/StartTLS.tla (adversarial peer scripts; code-like deviations must break
the invariants) plus the state-machine part in Negotiation.tla (C02_NoReadyInClear, forced attempt,
tee).  B: TLC emits every job: peer script x addresses of 1..3 successive sessions that share one
feature value (own address and location equal / different, NewClientSession / NewSession / initiating
server-to-server session, spelling of the own address, `to` in the peer's headers) x tee settings.
C: the real initiating negotiation (xmpp.StartTLS + SASL + an instrumented feature that needs
Secure) runs against a peer that really speaks TLS; every session is validated by TLC - the server
name the handshake has to carry is computed by the specification (OwnName)."""
import json, os, re, shutil
import verif
import negcommon as nc

INVS = ["C02_NoReadyInClear", "C02_ClearWireOnly", "C02_BufferedClearDropped", "C02_NothingClearAfterLayer",
        "C02_SNIOwnDomain", "C02_ErrNotReady"]
MC = "CONSTANTS\n  Dev = %s\nSPECIFICATION Spec\n" + "".join("INVARIANT %s\n" % i for i in INVS) + "CHECK_DEADLOCK FALSE\n"


def validate(ctx, trace):
    cfg = "CONSTANTS\n  Dev = {}\nSPECIFICATION TSpec\nCONSTRAINT HW\nPOSTCONDITION Accepted\nCHECK_DEADLOCK FALSE\n"
    r = ctx.tlc("TrStartTLS", cfg, files={"trace.ndjson": trace}, workers=1, timeout=1200, xss=True, deque=True)
    rejected = {}
    body = r.printed("REJECTED")
    if body:
        for m in re.finditer(r"<<(\d+),\s*(\d+)>>", body[-1]):
            rejected[int(m.group(1))] = int(m.group(2))
    if not rejected and (r.rc != 0 or r.errors):
        raise verif.Undecided("trace validation failed to run:\n" + r.out[-5000:])
    return rejected, r


def run(ctx):
    quick = ctx.tier == "quick"
    mc = ctx.model_check("StartTLS", MC % "{}", INVS, timeout=600)
    devs = ("SkipForcedTLS", "KeepBufferedClear", "StaleSNI", "RemoteSNI", "ClearLeak")
    for dev in devs:
        bad = ctx.tlc("StartTLS", MC % ('{"%s"}' % dev), name="StartTLS_" + dev, timeout=300)
        if bad.rc == 0:
            raise verif.Undecided("design check is vacuous: deviation %s breaks no invariant" % dev)
    # state-machine part shared with C01 (forced STARTTLS on the first list, tee transparency)
    mcn = ctx.model_check("MCNegotiation", nc.MC_CFG % dict(pool="PoolQuick", maxcfg=2, rounds=2, maxlist=2),
                          ["C02_NoReadyInClear (Negotiation.tla)"], timeout=1500)
    em = ctx.tlc("EmitStartTLS", "CONSTANTS\n  Dev = {}\nINIT Init\nNEXT Next\nCHECK_DEADLOCK FALSE\n", workers=1, timeout=120)
    scripts = ctx.path("starttls_jobs.ndjson")
    if not os.path.exists(os.path.join(em.dir, "starttls_jobs.ndjson")):
        raise verif.Undecided("EmitStartTLS failed:\n" + em.out[-2000:])
    shutil.copy(os.path.join(em.dir, "starttls_jobs.ndjson"), scripts)
    njobs = sum(1 for _ in open(scripts))
    env = {}
    if ctx.replay:
        case = json.load(open(ctx.replay))["case"]
        job = case["scenario"].get("job")
        if job is None:    # one of the overlapping sessions: the driver runs those after the jobs
            job = {"peer": {k: case["scenario"]["scenario"][k] for k in ("feat", "answer", "inject", "hs", "cfg")},
                   "run": [case["scenario"]["scenario"]["addr"]], "tees": [0]}
        else:
            env["STARTTLS_OVERLAP"] = "0"
        open(scripts, "w").write(json.dumps(job) + "\n")
    b = ctx.go_build("starttls")
    tr = ctx.path("starttls-trace.ndjson")
    out = ctx.run_driver(b, ["run", scripts, tr], env=env, timeout=1500)
    summ = json.loads(out[out.rindex("SUMMARY ") + 8:])
    rej, r = validate(ctx, tr)
    ctx.log("%d scenarios run against the real negotiator (real TLS): TLC validated %d traces in %.1fs, %d rejected; %d tee mismatches" % (
        summ["evaluations"], summ["traces"], r.wall, len(rej), len(summ["mismatches"])))
    trs = verif.split_traces(verif.read_ndjson(tr)) if rej else {}
    meta = {m["t"]: m["meta"] for m in verif.read_ndjson(tr + ".meta")}
    seen = set()
    for t, hw in sorted(rej.items()):
        ev = [e for e in trs[t] if e["_line"] == hw]
        sc = meta[t]["scenario"]
        key = json.dumps([sc.get(k) for k in ("feat", "answer", "inject", "hs", "cfg")]) + json.dumps(
            [sc["addr"]["kind"], sc["addr"]["loc"] == sc["addr"]["own"], len(sc["hist"])]) + json.dumps((ev[0] if ev else {}).get("ev"))
        if key in seen or len(seen) > 30:
            continue
        seen.add(key)
        what = "STARTTLS negotiation is not a behaviour of StartTLS.tla"
        if ev and ev[0]["ev"] == "handshake" and sc["cfg"] == "default":
            # no TLS configuration was supplied: the specification asks for the domain of the session's own address
            a = sc["addr"]
            what = ("with no TLS configuration supplied the handshake names %r, not the domain of the session's own address %r "
                    "(%s session, location %r, session %d negotiated with this feature value)" % (
                        ev[0].get("sni"), ev[0].get("origin"), {"client": "NewClientSession", "c2s": "NewSession", "s2s": "server-to-server NewSession"}[a["kind"]],
                        ev[0].get("location"), len(sc["hist"]) + 1))
        ctx.violation("%s: scenario %s rejected at %s" % (what, json.dumps(sc), json.dumps(ev[0] if ev else None)[:300]),
            {"family": "starttls", "scenario": meta[t], "trace": trs[t], "rejected_line": hw, "rejected_event": ev[0] if ev else None})
    for m in summ["mismatches"][:10]:
        ctx.violation("stream tee is not transparent: " + m["what"], {"family": "starttls-tee", "scenario": m["scenario"], "observed": m})
    # negotiation traces with tee on/off and STARTTLS-like kinds (shares the C01 machinery)
    pools = nc.emit_pool(ctx)
    trn, summn = nc.run_scenarios(ctx, pools["pool_quick.json"], n=1500 if quick else 150000, faults=False, name="c02-neg")
    rejn, rn = nc.validate(ctx, trn)
    nc.report_rejections(ctx, trn, rejn, what="negotiation trace (forced STARTTLS / tee, C02) not a behaviour of Negotiation.tla")
    nself = selftest(ctx, tr) if not rej and not ctx.replay else 0
    ctx.write_evidence("model_checking", {
        "states": mc.distinct + mcn.distinct, "transitions": mc.generated + mcn.generated,
        "traces_validated_against_impl": summ["traces"] + summn["traces"],
        "starttls_scenarios": summ["evaluations"], "negotiation_traces": summn["traces"],
        "rejected": len(rej) + len(rejn), "tee_mismatches": len(summ["mismatches"]),
        "deviations_shown_to_break_invariants": len(devs), "jobs_emitted": njobs,
        "sessions_by_address_kind": summ.get("extra", {}).get("sessions_by_address_kind", {}), "binding_selftest_mutants_rejected": nself,
        "samples": summ["samples"][:2], "exhaustive": True,
        "rule": "every peer script of StartTLS.tla (6 feature-list variants x 7 answers to <starttls/> x 3 kinds of pipelined clear text x handshake ok/fail x explicit/default TLS config) x 4 tee settings x 3 successive sessions sharing one feature value (default config); address dimension: the scripts that reach a handshake with the default configuration (STARTTLS advertised / forced) x every run of 3 successive sessions sharing one feature value, each session made by NewClientSession, by NewSession with a location equal to / different from the domain of its own address, or as an initiating server-to-server session (own address = a domain, other location), and every single session and every second session of two also with an upper-case spelling of the own address and with / without `to` in the peer's headers - the server name the ClientHello has to carry is computed by the specification (OwnName: the domain of the session's OWN address; deviations StaleSNI, RemoteSNI rejected by the design check); plus seeded negotiation scenarios with instrumented STARTTLS-like features and tee",
    }, assumptions=["crypto/tls is trusted; certificate policy is out of scope",
        "server-to-server sessions: the property text and the doc comment of xmpp.StartTLS both name the session's own (local) address; that RFC 6120 13.7.2.1 has an initiating server check the certificate against the domain it connects to is not held against the code", "pipelined clear text is sent in the same write as the answer (a later, separate write reaches the TLS layer and fails the handshake: equally safe)"])


def selftest(ctx, trace):
    trs = verif.split_traces(verif.read_ndjson(trace))
    good = [t for t, tr in trs.items() if any(e["ev"] == "return" and e["ok"] for e in tr)]
    if not good:
        raise verif.Undecided("binding self-test: no successful STARTTLS trace")
    base = [{k: v for k, v in e.items() if k != "_line"} for e in trs[good[0]]]
    muts = []
    m = [dict(e) for e in base]
    i = [k for k, e in enumerate(m) if e["ev"] == "clear_write"][-1]
    m.insert(i + 1, {"ev": "clear_write", "what": "other"})
    muts.append(("extra clear-text element", m))
    m = [dict(e) for e in base]
    m = [e for e in m if e["ev"] != "handshake"]
    muts.append(("ready without a handshake", m))
    m = [dict(e) for e in base]
    for e in m:
        if e["ev"] == "return":
            e["tls_state"] = False
    muts.append(("ready without TLS connection state", m))
    p = ctx.path("selftest.ndjson")
    line = 0
    with open(p, "w") as f:
        for k, (_, mm) in enumerate([("unchanged", base)] + muts):
            mm[0]["t"] = k + 1
            mm[0]["end"] = line + len(mm) + 1
            for e in mm:
                f.write(json.dumps(e) + "\n")
            line += len(mm)
    rej, _ = validate(ctx, p)
    if 1 in rej:
        raise verif.Undecided("binding self-test: unchanged trace rejected")
    missed = [muts[k - 2][0] for k in range(2, 2 + len(muts)) if k not in rej]
    if missed:
        raise verif.Undecided("binding self-test: corrupted traces ACCEPTED: %s" % missed)
    return len(muts)
