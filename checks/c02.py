"""C02 - a client asked to use STARTTLS never proceeds in clear text.
A: TLC design check of tla/StartTLS.tla (adversarial peer scripts; code-like deviations must break
the invariants) plus the state-machine part in Negotiation.tla (C02_NoReadyInClear, forced attempt,
tee).  B: TLC emits every peer script.  C: the real initiating negotiation (xmpp.StartTLS + SASL +
an instrumented feature that needs Secure) runs against a peer that really speaks TLS; every
scenario x tee setting x reuse of one feature value for three sessions is validated by TLC."""
import json, os, re, shutil
import verif
import negcommon as nc

INVS = ["C02_NoReadyInClear", "C02_ClearWireOnly", "C02_BufferedClearDropped", "C02_NothingClearAfterLayer",
        "C02_SNIOwnDomain", "C02_ErrNotReady"]
MC = "CONSTANTS\n  Dev = %s\nSPECIFICATION Spec\n" + "".join("INVARIANT %s\n" % i for i in INVS) + "CHECK_DEADLOCK FALSE\n"


def validate(ctx, trace):
    cfg = "CONSTANTS\n  Dev = {}\nSPECIFICATION TSpec\nCONSTRAINT HW\nPOSTCONDITION Accepted\nCHECK_DEADLOCK FALSE\n"
    r = ctx.tlc("TrStartTLS", cfg, files={"trace.ndjson": trace}, workers=1, timeout=1200, xss=True, deque=True)
    rejected = {}
    body = r.printed("REJECTED")
    if body:
        for m in re.finditer(r"<<(\d+),\s*(\d+)>>", body[-1]):
            rejected[int(m.group(1))] = int(m.group(2))
    if not rejected and (r.rc != 0 or r.errors):
        raise verif.Undecided("trace validation failed to run:\n" + r.out[-5000:])
    return rejected, r


def run(ctx):
    quick = ctx.tier == "quick"
    mc = ctx.model_check("StartTLS", MC % "{}", INVS, timeout=600)
    for dev in ("SkipForcedTLS", "KeepBufferedClear", "StaleSNI", "ClearLeak"):
        bad = ctx.tlc("StartTLS", MC % ('{"%s"}' % dev), name="StartTLS_" + dev, timeout=300)
        if bad.rc == 0:
            raise verif.Undecided("design check is vacuous: deviation %s breaks no invariant" % dev)
    # state-machine part shared with C01 (forced STARTTLS on the first list, tee transparency)
    mcn = ctx.model_check("MCNegotiation", nc.MC_CFG % dict(pool="PoolQuick", maxcfg=2, rounds=2, maxlist=2),
                          ["C02_NoReadyInClear (Negotiation.tla)"], timeout=1500)
    em = ctx.tlc("EmitStartTLS", "CONSTANTS\n  Dev = {}\nINIT Init\nNEXT Next\n", workers=1, timeout=120)
    scripts = ctx.path("starttls_scripts.ndjson")
    shutil.copy(os.path.join(em.dir, "starttls_scripts.ndjson"), scripts)
    if ctx.replay:
        case = json.load(open(ctx.replay))["case"]
        open(scripts, "w").write(json.dumps(case["scenario"]) + "\n")
    b = ctx.go_build("starttls")
    tr = ctx.path("starttls-trace.ndjson")
    out = ctx.run_driver(b, ["run", scripts, tr], timeout=1500)
    summ = json.loads(out[out.rindex("SUMMARY ") + 8:])
    rej, r = validate(ctx, tr)
    ctx.log("%d scenarios run against the real negotiator (real TLS): TLC validated %d traces in %.1fs, %d rejected; %d tee mismatches" % (
        summ["evaluations"], summ["traces"], r.wall, len(rej), len(summ["mismatches"])))
    trs = verif.split_traces(verif.read_ndjson(tr)) if rej else {}
    meta = {m["t"]: m["meta"] for m in verif.read_ndjson(tr + ".meta")}
    seen = set()
    for t, hw in sorted(rej.items()):
        ev = [e for e in trs[t] if e["_line"] == hw]
        key = json.dumps([meta[t].get(k) for k in ("feat", "answer", "inject", "hs", "cfg")]) + json.dumps((ev[0] if ev else {}).get("ev"))
        if key in seen or len(seen) > 30:
            continue
        seen.add(key)
        ctx.violation("STARTTLS negotiation is not a behaviour of StartTLS.tla: scenario %s rejected at %s" % (
            json.dumps(meta[t]), json.dumps(ev[0] if ev else None)[:300]),
            {"family": "starttls", "scenario": meta[t], "trace": trs[t], "rejected_line": hw, "rejected_event": ev[0] if ev else None})
    for m in summ["mismatches"][:10]:
        ctx.violation("stream tee is not transparent: " + m["what"], {"family": "starttls-tee", "scenario": m["scenario"], "observed": m})
    # negotiation traces with tee on/off and STARTTLS-like kinds (shares the C01 machinery)
    pools = nc.emit_pool(ctx)
    trn, summn = nc.run_scenarios(ctx, pools["pool_quick.json"], n=1500 if quick else 150000, faults=False, name="c02-neg")
    rejn, rn = nc.validate(ctx, trn)
    nc.report_rejections(ctx, trn, rejn, what="negotiation trace (forced STARTTLS / tee, C02) not a behaviour of Negotiation.tla")
    nself = selftest(ctx, tr) if not rej and not ctx.replay else 0
    ctx.write_evidence("model_checking", {
        "states": mc.distinct + mcn.distinct, "transitions": mc.generated + mcn.generated,
        "traces_validated_against_impl": summ["traces"] + summn["traces"],
        "starttls_scenarios": summ["evaluations"], "negotiation_traces": summn["traces"],
        "rejected": len(rej) + len(rejn), "tee_mismatches": len(summ["mismatches"]),
        "deviations_shown_to_break_invariants": 4, "binding_selftest_mutants_rejected": nself,
        "samples": summ["samples"][:2], "exhaustive": True,
        "rule": "every peer script of StartTLS.tla (6 feature-list variants x 6 answers to <starttls/> x 3 kinds of pipelined clear text x handshake ok/fail x explicit/default TLS config) x 4 tee settings x 3 successive sessions sharing one feature value (default config); plus seeded negotiation scenarios with instrumented STARTTLS-like features and tee",
    }, assumptions=["crypto/tls is trusted; certificate policy is out of scope", "pipelined clear text is sent in the same write as the answer (a later, separate write reaches the TLS layer and fails the handshake: equally safe)"])


def selftest(ctx, trace):
    trs = verif.split_traces(verif.read_ndjson(trace))
    good = [t for t, tr in trs.items() if any(e["ev"] == "return" and e["ok"] for e in tr)]
    if not good:
        raise verif.Undecided("binding self-test: no successful STARTTLS trace")
    base = [{k: v for k, v in e.items() if k != "_line"} for e in trs[good[0]]]
    muts = []
    m = [dict(e) for e in base]
    i = [k for k, e in enumerate(m) if e["ev"] == "clear_write"][-1]
    m.insert(i + 1, {"ev": "clear_write", "what": "other"})
    muts.append(("extra clear-text element", m))
    m = [dict(e) for e in base]
    m = [e for e in m if e["ev"] != "handshake"]
    muts.append(("ready without a handshake", m))
    m = [dict(e) for e in base]
    for e in m:
        if e["ev"] == "return":
            e["tls_state"] = False
    muts.append(("ready without TLS connection state", m))
    p = ctx.path("selftest.ndjson")
    line = 0
    with open(p, "w") as f:
        for k, (_, mm) in enumerate([("unchanged", base)] + muts):
            mm[0]["t"] = k + 1
            mm[0]["end"] = line + len(mm) + 1
            for e in mm:
                f.write(json.dumps(e) + "\n")
            line += len(mm)
    rej, _ = validate(ctx, p)
    if 1 in rej:
        raise verif.Undecided("binding self-test: unchanged trace rejected")
    missed = [muts[k - 2][0] for k in range(2, 2 + len(muts)) if k not in rej]
    if missed:
        raise verif.Undecided("binding self-test: corrupted traces ACCEPTED: %s" % missed)
    return len(muts)
