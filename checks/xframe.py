"""XFRAME - growth beyond C01-C20: the alternative stream framings and session kinds of the library - WebSocket framing
(RFC 7395: websocket.NewSession / ReceiveSession / Negotiator), component sessions (XEP-0114: component.NewSession /
Negotiator), server-to-server specifics (xmpp.NewServerSession / ReceiveServerSession, s2s.Bidi) - against
tla/Framing.tla; see checks/framingcommon.py.
`bin/check XFRAME [--tier thorough] [--replay f]`."""
import framingcommon as fc


def run(ctx):
    cov = fc.run_part(ctx)
    cov["exhaustive"] = False
    ctx.write_evidence("model_checking", cov, assumptions=[
        "sessions are built over an in-memory io.ReadWriter (vt.Conn); the WebSocket handshake and the mapping of transport writes to "
        "WebSocket messages are outside the library's NewSession / ReceiveSession (they take any io.ReadWriter)",
        "the scripted peer is lazy: it sends its next item when the library asks for input, so one item is in flight at a time and local "
        "calls happen while the serve loop is idle",
        "what the library wrote is compared as framing-level items (header / open / features / negotiation element / handshake / stanza / "
        "stream error / closing element) with the attributes the rules name; the handshake digest is checked by the driver (SHA-1), the "
        "specification sees ok / wrong case / wrong",
        "the restarting and the final stream feature of the scenarios are the harness's own (modelled on SASL and resource binding); "
        "TLS, SASL and resource binding themselves are the subject of C02 / C03 / C12",
        "error values are compared by class (nil / stream error with its condition / output stream closed / other)",
    ])
