"""C11 - JIDs are canonical.

A  design check: TLC explores the API machine of tla/JID.tla (Parse, New, With*, Bare, Domain over
   an abstract alphabet of representatives, strict and lenient treatment of unmodelled parts) and
   checks the C11_* invariants; the reference functions are checked to be closed (a claimed
   canonical form is itself claimed canonical).  A second run explores the machine over the A-label
   family (labels with the ACE prefix in every case variant, decodable or not, in every position of a
   name and in every part).  The code-like deviations TrailingDotOnce and AcePrefixCaseSensitive must
   violate the invariants (non-vacuity).
B  TLC writes the vectors: every string up to length 4 over 19 symbols with its split, accept class
   (ok / bad / free) and, only where RFC 7622 / PRECIS / IDNA mandate it, the canonical string;
   part triples, replacements on valid bases, Equal pairs; the IP-literal and A-label families; the
   rune pool and the ACE prefixes / Punycode tails of the law-only corpus.
C  harness/cmd/jidcanon runs the exported API of mellium.im/xmpp/jid on every vector and on a seeded
   corpus, compares with the expectations, evaluates the C11 laws on every address returned, and
   records the observations of a seeded sample, which TLC validates against tla/TrJID.tla."""
import json
import os

import verif
import jidcommon as jc

CONSTS = '''CONSTANTS
  ParseStrs = {}
  Parts = {}
  Dev = {}
'''

MC_CFG = '''CONSTANTS
  ParseStrs <- %(strs)s
  Parts <- %(parts)s
  ParseLen = %(parselen)d
  LawLen = %(lawlen)d
  PartSyms = %(partsyms)s
  Dev = %(dev)s
SPECIFICATION Spec
INVARIANT Inv
CHECK_DEADLOCK FALSE
'''

EMIT_CFG = CONSTS + '''  ParseLen = %(parselen)d
  SubLen = %(sublen)d
  IPLen = %(iplen)d
  ACELen = %(acelen)d
  PartLen = %(partlen)d
INIT Init
NEXT Next
CHECK_DEADLOCK FALSE
'''

STORE_CFG = CONSTS + '''  Bases <- MCBases
  StoreParts <- MCStoreParts
  MaxOps = %(maxops)d
  EmitLen = %(emitlen)d
SPECIFICATION SSpec
%(props)s
CHECK_DEADLOCK FALSE
'''
STORE_PROPS = ["C11_HandlesDenote", "C11_StoreCanonical", "C11_StoreReplaceAgrees", "C11_Immutable"]

PROPS = ["C11_Idempotent", "C11_PartsValid", "C11_AccessorsAgree", "C11_BuildReplaceParseAgree",
         "C11_SplitRule", "C11_XMLRoundTrip"]
FILES = ["parse.ndjson", "new.ndjson", "with.ndjson", "eq.ndjson", "plan.json"]
QUICK_SYMS = "{1, 2, 3, 4, 5, 8, 11, 12, 15, 17, 18}"
ALL_SYMS = "{1, 2, 3, 4, 5, 6, 7, 8, 9, 10, 11, 12, 13, 14, 15, 16, 17, 18, 19}"


def design_check(ctx, quick):
    main = dict(strs="MCParseStrs", parts="MCParts")
    if ctx.replay:
        cfg = MC_CFG % dict(main, parselen=1, lawlen=2, partsyms=QUICK_SYMS, dev="{}")
    elif quick:
        cfg = MC_CFG % dict(main, parselen=2, lawlen=3, partsyms=QUICK_SYMS, dev="{}")
    else:
        cfg = MC_CFG % dict(main, parselen=2, lawlen=4, partsyms=ALL_SYMS, dev="{}")
    # the A-label family has a run of its own (the reachable addresses are roughly ParseStrs x Parts x Parts)
    ace = dict(strs="ACEParse", parts="ACEMCParts", parselen=1, lawlen=1, partsyms="{1}")
    acebg = jc.Background(lambda: ctx.model_check("MCJID", MC_CFG % dict(ace, dev="{}"), PROPS, workers=2, timeout=2400, name="MCJIDAce", heap=jc.heap(ctx)))
    try:
        mc = ctx.model_check("MCJID", cfg, PROPS, workers=3 if quick else 8, timeout=2400, heap=jc.heap(ctx))
    finally:
        mc_ace = acebg.result()
    mc.ace = mc_ace
    r = ctx.tlc("MCJID", MC_CFG % dict(main, parselen=2, lawlen=1, partsyms="{1, 5}", dev='{"TrailingDotOnce"}'),
                workers=1, timeout=300, name="MCJIDDev")
    if "Inv" not in r.violated:
        raise verif.Undecided("design self-test: deviation TrailingDotOnce does not violate the invariants:\n" + r.out[-1500:])
    r = ctx.tlc("MCJID", MC_CFG % dict(ace, dev='{"AcePrefixCaseSensitive"}'), workers=1, timeout=300, name="MCJIDDevAce")
    if "Inv" not in r.violated:
        raise verif.Undecided("design self-test: deviation AcePrefixCaseSensitive does not violate the invariants:\n" + r.out[-1500:])
    # value layer (JIDStore.tla): packed representation with shared buffers; every address handed out is immutable
    st = ctx.model_check("MCJIDStore", STORE_CFG % dict(maxops=2 if ctx.replay else (3 if quick else 4), emitlen=0,
                                                         props="INVARIANT SInv\nPROPERTY C11_Immutable"),
                         STORE_PROPS, workers=4, timeout=1200, heap=jc.heap(ctx))
    for dev in ("AppendInPlace", "ReplaceInPlace"):
        r = ctx.tlc("MCJIDStore", (STORE_CFG % dict(maxops=2, emitlen=0, props="PROPERTY C11_Immutable")).replace("Dev = {}", 'Dev = {"%s"}' % dev),
                    workers=1, timeout=300, name="MCJIDStoreDev" + dev)
        if "C11_Immutable" not in r.violated:
            raise verif.Undecided("design self-test: deviation %s does not violate C11_Immutable:\n%s" % (dev, r.out[-1500:]))
    mc.store = st
    return mc


def drive(ctx, files, trace, env, replay_case=None):
    b = ctx.go_build("jidcanon")
    if replay_case is not None:
        cf = ctx.path("replay-case.json")
        json.dump(replay_case, open(cf, "w"))
        args = ["replay", files["plan.json"], cf, trace]
    else:
        args = ["run", files["plan.json"], files["parse.ndjson"], files["new.ndjson"], files["with.ndjson"],
                files["eq.ndjson"], trace]
    out = ctx.run_driver(b, args, env=env, timeout=3000, ok_codes=(0, 3))
    if "STALL " in out:
        raise verif.Undecided("driver stalled (watchdog): " + out[out.index("STALL "):][:300])
    return jc.summary_of(out)


def report(ctx, summ, trace, rejected):
    evs = verif.read_ndjson(trace)
    trs = verif.split_traces(evs)
    meta = {m["t"]: m["meta"] for m in verif.read_ndjson(trace + ".meta")}
    kinds = summ["extra"].get("finding_kinds") or {}
    seen = set()
    for f in summ["mismatches"]:
        k = f["law"] + " / " + f["how"]
        g = f["law"] + " / " + f["how"].split(".")[0]     # parse.bare, parse.attr ... are reported with parse
        if g in seen:
            continue
        seen.add(g)
        t = f.get("trace") or 0
        rej = [e for e in trs.get(t, []) if t in rejected and e["_line"] == rejected[t]]
        if t and t not in rejected and not f["law"].endswith("(expected)") and f["law"] != "panic":
            ctx.notes.append("finding whose observations TrJID accepted: %s" % json.dumps(f)[:300])
        ctx.violation("%s via %s (%d findings): input %s: %s" % (f["law"], f["how"], kinds.get(k, 1), f["input"][:120], f["detail"][:300]),
                      {"family": "jid", "case": f["case"], "law": f["law"], "how": f["how"], "input": f["input"],
                       "detail": f["detail"], "findings_of_this_kind": kinds.get(k, 1),
                       "trace": trs.get(t), "rejected_event": rej[0] if rej else None})
    groups = {}
    for t, hw in sorted(rejected.items()):
        if meta.get(t, {}).get("finding"):
            continue
        ev = [e for e in trs[t] if e["_line"] == hw]
        ev = ev[0] if ev else {}
        groups.setdefault("observation %s(%s) contradicts the laws of JID.tla" % (ev.get("ev"), ev.get("how") or ev.get("with") or ev.get("kind") or ""), []).append((t, hw, ev))
    for key, l in sorted(groups.items()):
        t, hw, ev = l[0]
        ctx.violation("%s (%d traces): case %s event %s" % (key, len(l), json.dumps(meta.get(t, {}).get("case"))[:200], json.dumps(ev)[:300]),
                      {"family": "jid", "case": meta.get(t, {}).get("case"), "kind": key, "trace": trs[t],
                       "rejected_line": hw, "rejected_event": ev})


def selftest_vectors(ctx, files):
    """Corrupt expectations (canonical string, class, split, Equal); the driver must report each."""
    def find(fn, pred):
        for l in open(files[fn]):
            v = json.loads(l)
            if pred(v):
                return v
        raise verif.Undecided("binding self-test: vector not found in " + fn)
    p = find("parse.ndjson", lambda v: v["s"] == [2, 3, 2])                # A@A -> a@a
    q = find("parse.ndjson", lambda v: v["s"] == [1, 3, 1])
    n = find("new.ndjson", lambda v: v["l"] == [1] and v["d"] == [1] and v["r"] == [] and v["cls"] == "ok")
    e = find("eq.ndjson", lambda v: v["s1"] == [1, 3, 1] and v["s2"] == [1, 3, 1])
    good = {"parse.ndjson": [p, q], "new.ndjson": [n], "eq.ndjson": [e], "with.ndjson": []}
    bad = {"parse.ndjson": [dict(p, canon=[2, 3, 2]), dict(q, l=[1, 1])], "new.ndjson": [dict(n, cls="bad")],
           "eq.ndjson": [dict(e, eq=False)], "with.ndjson": []}
    res = {}
    for name, fs in (("good", good), ("bad", bad)):
        paths = {"plan.json": files["plan.json"]}
        for fn, vs in fs.items():
            pth = ctx.path("selftest", name + "-" + fn)
            open(pth, "w").write("".join(json.dumps(v) + "\n" for v in vs))
            paths[fn] = pth
        s = drive(ctx, paths, ctx.path("selftest", name + ".trace"), {"JID_CORPUS": "0", "JID_TRACE_EVERY": "0"})
        res[name] = s["extra"]["finding_kinds"] or {}
    want = ["C11_Canonical(expected) / Parse", "C11_SplitRule / SplitString", "C11_PartsValid(expected) / New",
            "C11_AccessorsAgree / Equal"]
    missing = [w for w in want if w not in res["bad"]]
    if missing:
        raise verif.Undecided("binding self-test: corrupted expectations not reported: %s (got %s)" % (missing, res["bad"]))
    if any(w in res["good"] for w in want):
        raise verif.Undecided("binding self-test: uncorrupted vectors reported: %s" % res["good"])
    return len(want)


def selftest_traces(ctx, trace, rejected):
    trs = verif.split_traces(verif.read_ndjson(trace))
    cand = [tr for t, tr in sorted(trs.items()) if t not in rejected and any(e["ev"] == "made" and e["l"] and e["r"] for e in tr)
            and any(e["ev"] == "xml" for e in tr)]
    if not cand:
        if ctx.violations:      # every such trace is rejected on this tree: nothing left to corrupt
            ctx.log("binding self-test on traces skipped: no accepted trace to corrupt")
            return 0
        raise verif.Undecided("binding self-test: no accepted trace of a full address")
    base = [{k: v for k, v in e.items() if k != "_line"} for e in cand[0]]

    def idx(name, **kw):
        return [k for k, e in enumerate(base) if e["ev"] == name and all(e.get(a) == b for a, b in kw.items())][0]

    def mut(f):
        m = [dict(e) for e in base]
        f(m)
        return m
    muts = [
        ("String() output changed", mut(lambda m: m[idx("string")].update(out=m[idx("string")]["out"] + [97]))),
        ("reparse not equal", mut(lambda m: m[idx("reparse")].update(d=m[idx("reparse")]["d"] + [46]))),
        ("reparse failed", mut(lambda m: m[idx("reparse")].update(ok=False))),
        ("Equal(bare) flipped", mut(lambda m: m[idx("equal", **{"with": "bare"})].update(res=True))),
        ("Bare() keeps resourcepart", mut(lambda m: m[idx("derived", how="bare")].update(r=[97]))),
        ("forbidden character in localpart", mut(lambda m: m[idx("made")].update(l=m[idx("made")]["l"] + [58]))),
        ("XML round trip changed domain", mut(lambda m: m[idx("xml", kind="attr")].update(d=[98]))),
        ("rebuild failed", mut(lambda m: m[idx("rebuild", how="withdomain")].update(ok=False))),
    ]
    p = ctx.path("selftest", "traces.ndjson")
    jc.write_traces(p, [base] + [m for _, m in muts])
    rej, _ = jc.validate(ctx, "TrJID", CONSTS, p, name="TrJIDSelf", timeout=300)
    if 1 in rej:
        raise verif.Undecided("binding self-test: the unchanged trace was rejected")
    missed = [muts[k - 2][0] for k in range(2, 2 + len(muts)) if k not in rej]
    if missed:
        raise verif.Undecided("binding self-test: corrupted observations ACCEPTED: %s" % missed)
    return len(muts)


def run(ctx):
    quick = ctx.tier == "quick"
    mcbg = jc.Background(lambda: design_check(ctx, quick))
    try:
        pbg = jc.Background(lambda: jc.emit(ctx, "MCJIDStore", STORE_CFG % dict(maxops=0, emitlen=2 if ctx.replay else 3, props=""),
                                            ["progs.ndjson"], timeout=1200))
        files, er = jc.emit(ctx, "EmitJID", EMIT_CFG % dict(parselen=4, sublen=0 if quick or ctx.replay else 5, iplen=3 if ctx.replay else (4 if quick else 5),
                                                       acelen=2 if ctx.replay else (3 if quick else 4), partlen=2), FILES,
                            timeout=1200)
        pf, pr = pbg.result()
        files.update(pf)
        nvec = sum(sum(1 for _ in open(files[f])) for f in FILES[:4] + ["progs.ndjson"])
        ctx.log("TLC emitted %d vectors in %.1fs" % (nvec, er.wall))
        trace = ctx.path("trace.ndjson")
        if ctx.replay:
            summ = drive(ctx, files, trace, {}, replay_case=json.load(open(ctx.replay))["case"]["case"])
        else:
            summ = drive(ctx, files, trace, {"JID_PROGS": files["progs.ndjson"], "JID_PROGS_RANDOM": "2000" if quick else "60000",
                                             "JID_CORPUS": "30000" if quick else "1000000",
                                             "JID_TRACE_EVERY": "25" if quick else "40"})
        x = summ["extra"]
        ctx.log("driver: %d cases on the real package (%s), %d addresses returned and checked against the laws, %d findings; %d traces / %d events recorded" % (
            summ["evaluations"], x.get("cases_by_kind"), x.get("addresses_returned", 0), x["finding_total"], summ["traces"], summ["events"]))
        if x.get("ok_class_rejected"):
            ctx.log("note: %d of %d addresses the RFCs make valid were rejected (not a C11 matter), e.g. %s" % (
                x["ok_class_rejected"], x["ok_class"], (x.get("ok_class_rejected_examples") or [""])[0]))
            ctx.notes.append("valid addresses rejected by the package (outside C11): %d of %d; %s" % (
                x["ok_class_rejected"], x["ok_class"], x.get("ok_class_rejected_examples")))
        if not ctx.replay and x.get("ok_class", 0) and x["ok_class_rejected"] * 2 > x["ok_class"]:
            raise verif.Undecided("vacuous: the package rejects %d of %d addresses the RFCs make valid" % (x["ok_class_rejected"], x["ok_class"]))
        rejected, tr = jc.validate(ctx, "TrJID", CONSTS, trace, timeout=1500)
        ctx.log("TLC validated %d observation traces / %d events: %d rejected (%d states, %.1fs)" % (
            summ["traces"], summ["events"], len(rejected), tr.distinct, tr.wall))
        report(ctx, summ, trace, rejected)
        nself = 0
        if not ctx.replay:
            # the violations found on the real code are already recorded (report() above) and decide the verdict: a
            # self-test that cannot be carried out on a tree that breaks the very cases it uses must not mask them
            try:
                nself = selftest_vectors(ctx, files) + selftest_traces(ctx, trace, rejected)
            except verif.Undecided as e:
                if not ctx.violations:
                    raise
                ctx.log("binding self-test inconclusive on a tree with violations (verdict unaffected): %s" % str(e)[:300])
    finally:
        mc = mcbg.result()
    ctx.write_evidence("model_checking", {
        "states": mc.distinct + mc.ace.distinct + mc.store.distinct, "transitions": mc.generated + mc.ace.generated + mc.store.generated,
        "design_check_runs": {"MCJID": mc.distinct, "MCJIDAce": mc.ace.distinct, "MCJIDStore": mc.store.distinct},
        "traces_validated_against_impl": summ["traces"], "trace_events": summ["events"], "trace_states": tr.distinct,
        "vectors": nvec, "evaluations": summ["evaluations"], "cases_by_kind": x.get("cases_by_kind"),
        "addresses_returned_and_checked": x.get("addresses_returned"),
        "distinct_nontrivial": summ["distinct"], "findings": x["finding_total"], "finding_kinds": x.get("finding_kinds"),
        "rejected_traces": len(rejected), "binding_selftest_mutants_rejected": nself,
        "valid_addresses_rejected": x.get("ok_class_rejected"), "valid_addresses": x.get("ok_class"),
        "exhaustive": "every string of length <= 4 over 19 representative symbols, <= %d over 10 of them (+ runs of 1022/1023/1024 letters in each part); all part triples with parts <= 2 over {a,A,@,/,.} and <= 1 over all symbols; replacements of each part of 6 valid bases by every part of length <= 2; Equal on all pairs of 22 valid strings over {a,@,/}; IP-literal family; A-label family: the A-label xn--tda with its prefix / Punycode digits in every case variant (XN--, Xn--, xN--, xn--TDA) and 4 labels that only carry the prefix (undecodable, decoding to a mapped character, to ASCII, bare prefix) alone and as first / middle / last of up to 3 labels next to ASCII labels, U-labels and one another, with 0-2 final label separators, as domainpart of Parse / New / WithDomain and inside localparts and resourceparts, plus every string of <= %d symbols over that alphabet" % (4 if quick else 5, 3 if quick else 4),
        "value_layer": "JIDStore.tla: programs of <= %d operations (Bare, Domain, Copy, WithLocal / WithDomain / WithResource with 4 parts, on ANY address handed out so far) from 3 bases over the packed representation with shared buffers (design check); every program of <= 3 operations emitted by TLC plus seeded random programs of 6 operations run on the real package, all addresses handed out re-read after every operation (C11_Immutable), TLC validates the observations; deviations AppendInPlace / ReplaceInPlace shown to violate C11_Immutable" % (3 if quick else 4),
        "design_check": "MCJID: API machine (Parse, New, WithLocal/WithDomain/WithResource, Bare, Domain), strict and lenient treatment of unmodelled parts; closure of the reference functions; second run MCJIDAce over the A-label family (218 address strings x 12 parts); deviations TrailingDotOnce and AcePrefixCaseSensitive (ASCII fast path that looks for the ACE prefix before lower-casing) shown to violate the invariants",
        "rule": "a case is one vector or one corpus string/triple (distinct by content); every address returned without error is checked against all six laws (idempotence of Parse, agreement of the constructors ...) whatever label classes it was built from - A-labels in any case variant of the ACE prefix included; a trace is the observation record of one case",
        "samples": summ["samples"][:2] + summ["mismatches"][:1],
    }, assumptions=[
        "a canonical form is claimed only for the representatives (ASCII letters, fullwidth A, e+U+0301, U+00FC, the A-label xn--tda in every case variant of its prefix and digits (RFC 5890 2.3.2.1: the prefix is case independent; RFC 5895: upper case is mapped first), IP literals, dots / U+3002 as final label separator); elsewhere - in particular for labels that carry the ACE prefix without being the A-label of a U-label - only the laws are evaluated",
        "rejections of addresses the RFCs make valid are outside C11 and only counted",
        "the PRECIS and IDNA tables of golang.org/x/text and x/net are not modelled; the seeded corpus (fixed rune pool; labels composed of 8 spellings of the ACE prefix and 35 Punycode tails) samples them"])
