"""Shared helpers of the jid family (C16 escape transform, C11 canonical JIDs)."""
import json
import os
import re
import shutil
import threading

import verif


def heap(ctx):
    """JVM heap limit of the family's TLC runs in the quick tier: the runs need 1-2 GB, an unlimited JVM grows to
    5-6 GB before it collects and is the first victim of the kernel's OOM killer on a loaded machine."""
    return "3g" if ctx.tier == "quick" else None


def emit(ctx, module, cfg, files, timeout=600):
    """Pipeline B: run an Emit module (vectors written by ASSUME ...Serialize at start-up);
    returns ({name: path in the check's scratch dir}, TLCResult)."""
    r = ctx.tlc(module, cfg, workers=1, timeout=timeout, heap=heap(ctx))
    if not r.ok:
        raise verif.Undecided("%s failed (spec problem, not a code verdict):\n%s" % (module, r.out[-3000:]))
    out = {}
    for n in files:
        src = os.path.join(r.dir, n)
        if not os.path.exists(src):
            raise verif.Undecided("%s did not write %s" % (module, n))
        dst = ctx.path("emit", n)
        shutil.move(src, dst)
        out[n] = dst
    return out, r


def summary_of(out):
    if "SUMMARY " not in out:
        raise verif.Undecided("driver printed no summary:\n" + out[-2000:])
    return json.loads(out[out.rindex("SUMMARY ") + 8:].splitlines()[0])


def validate(ctx, module, consts_cfg, trace, name=None, timeout=900):
    """Pipeline C: batch trace validation. Returns ({trace number: line of the event that could
    not be consumed}, TLCResult)."""
    cfg = consts_cfg + "SPECIFICATION TSpec\nCONSTRAINT HW\nPOSTCONDITION Accepted\nCHECK_DEADLOCK FALSE\n"
    r = ctx.tlc(module, cfg, files={"trace.ndjson": trace}, workers=1, timeout=timeout, xss=True,
                name=name or module, heap=heap(ctx))
    rejected = {}
    body = r.printed("REJECTED")
    if body:
        for m in re.finditer(r"<<(\d+),\s*(\d+)>>", body[-1]):
            rejected[int(m.group(1))] = int(m.group(2))
    if not rejected and (r.rc != 0 or r.errors):
        raise verif.Undecided("trace validation %s failed to run:\n%s" % (module, r.out[-3000:]))
    return rejected, r


def write_traces(path, traces):
    """traces: list of event lists (first event = reset record without t/end)."""
    line = 0
    with open(path, "w") as f:
        for k, tr in enumerate(traces):
            tr = [dict(e) for e in tr]
            for e in tr:
                e.pop("_line", None)
            tr[0]["ev"] = "reset"
            tr[0]["t"] = k + 1
            tr[0]["end"] = line + len(tr) + 1
            for e in tr:
                f.write(json.dumps(e) + "\n")
            line += len(tr)


class Background:
    """Run fn() in a thread; result() re-raises its exception."""

    def __init__(self, fn):
        self.res = None
        self.exc = None

        def go():
            try:
                self.res = fn()
            except BaseException as e:  # noqa
                self.exc = e
        self.t = threading.Thread(target=go)
        self.t.start()

    def result(self):
        self.t.join()
        if self.exc is not None:
            raise self.exc
        return self.res
