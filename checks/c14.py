"""C14 - the multiplexer always picks the most specific registered handler.
A: TLC design check of tla/Mux.tla (cascade = declarative most-specific rule for every pattern
subset, replay buffer, defaults, registration); B: TLC evaluates the reference function
Dispatch on the vector domain (tla/EmitMux.tla); C: the Go driver replays every vector into
the real mux.ServeMux with recording handlers and compares invocation log and output."""
import concurrent.futures as cf
import json
import os

import verif
import servecommon as sc


def design_check(ctx, quick):
    cfgs = [("top", sc.mux_mc_cfg("U_top", "E_top")),
            ("iq", sc.mux_mc_cfg("U_iq", "E_iq")),
            ("iqr", sc.mux_mc_cfg("U_iqr", "E_iqr")),
            ("msg", sc.mux_mc_cfg("U_msg", "E_msg")),
            ("pres", sc.mux_mc_cfg("U_pres", "E_pres")),
            ("replay", sc.mux_mc_cfg("U_replay", "E_replay2" if quick else "E_replay", '{"h1", "h2"}', "all"))]
    states = gen = 0
    per = {}
    for name, cfg in cfgs:
        r = ctx.model_check("MCMux", cfg, sc.MUX_INVS + sc.MUX_PROPS, workers=6, timeout=900, name="MCMux_" + name)
        states += r.distinct
        gen += r.generated
        per[name] = r.distinct
    return states, gen, per


def run(ctx):
    quick = ctx.tier == "quick"
    out = ctx.path("mux_out.ndjson")
    if ctx.replay:
        case = json.load(open(ctx.replay))["case"]
        res = sc.emit_parallel(ctx, "EmitMux", [sc.mux_emit_cfg("quick", 1)])
        uni = sc.collect(res, r"mux_universe\.json")[0]
        vf, rf = ctx.path("replay_vec.ndjson"), ctx.path("replay_reg.ndjson")
        open(vf, "w").write(json.dumps(case["vector"]) + "\n" if case["kind"] == "vector" else "")
        open(rf, "w").write(json.dumps(case["vector"]) + "\n" if case["kind"] == "reg" else "")
        summ = sc.run_driver(ctx, "mux", [uni, rf, out, vf])
        for m in verif.read_ndjson(out):
            ctx.violation(describe(m), m)
        ctx.log("replayed 1 case: %d mismatches" % summ["mismatches"])
        return

    with cf.ThreadPoolExecutor(max_workers=1) as ex:
        fut = ex.submit(sc.emit_parallel, ctx, "EmitMux", [sc.mux_emit_cfg(ctx.tier, p) for p in (1, 2, 3)])
        states, gen, per = design_check(ctx, quick)
        res = fut.result()
    uni = sc.collect(res, r"mux_universe\.json")[0]
    vecs = sc.collect(res, r"mux_vectors_\d+\.ndjson")
    reg = sc.collect(res, r"mux_reg\.ndjson")[0]
    nvec = sum(1 for f in vecs for _ in open(f))
    ctx.log("TLC emitted %d dispatch vectors in %d groups + %d registration cases" % (
        nvec, len(vecs), sum(1 for _ in open(reg))))

    summ = sc.run_driver(ctx, "mux", [uni, reg, out] + vecs)
    mism = verif.read_ndjson(out)
    ctx.log("driver: %d evaluations (2 namespaces x 3 reader styles + formatted XML for iqs), %d registration cases, %d mismatches" % (
        summ["evaluations"], summ["registration_cases"], summ["mismatches"]))
    sc.report_grouped(ctx, mism, signature, describe)

    nself = selftest(ctx, uni, vecs, reg)
    ctx.write_evidence("model_checking", {
        "states": states, "transitions": gen, "states_per_config": per,
        "traces_validated_against_impl": summ["evaluations"] + summ["registration_cases"],
        "vectors_emitted_by_tlc": nvec, "evaluations": summ["evaluations"],
        "registration_cases": summ["registration_cases"],
        "distinct_nontrivial": summ["distinct_observations"], "nontrivial_evaluations": summ["nontrivial"],
        "mismatches": summ["mismatches"], "binding_selftest_corruptions_rejected": nself,
        "exhaustive": "every subset of the nine-name pattern universe (512) per stanza kind and type, with and "
                      "without the same names under another type / kind, x every incoming name; message/presence "
                      "child sequences of length <= %d over 5 payload names and text" % (2 if quick else 3),
        "reader_styles": ["xml.Decoder (character data valid until the next read only)", "token slice, last token delivered together with io.EOF", "children with character data of their own (text the handlers are shown is compared with the stanza's)"],
        "rule": "an evaluation is non-trivial if a handler ran or the multiplexer wrote something; distinct = distinct "
                "(kind, invocation log, output) observations",
        "samples": summ["samples"][:3],
        "design_check": "MCMux: six configurations (top, iq get, iq result, message, presence, replay buffer); "
                        "2^10..2^12 tables each",
    }, assumptions=[
        "recording handlers return nil and write nothing; the stanza is handed to HandleXMPP as Serve does "
        "(start element consumed, decoder positioned behind it)",
        "outside the alphabet: iq without/with unknown type, get/set/error iq without payload (C07), text iq payload (C09), "
        "a Handle pattern naming the stanza namespace itself"])


def signature(m):
    v = m["vector"]
    if m["kind"] == "reg":
        return ("reg", v["form"], v["pre"], v["kt"] == 1)
    obs = m.get("observed") or {}
    return ("vector", v["el"]["kind"], bool(m.get("panic")), bool(m.get("error")), bool(m.get("register_panic")),
            len(obs.get("inv") or []) - len(v["alts"][0]["inv"]))


def describe(m):
    v = m["vector"]
    if m["kind"] == "reg":
        return ("registration of pattern kt=%d name#%d with %s handler (already registered: %s): refused=%s, specification says "
                "refused=%s; afterwards %s observed %s%s" % (
                    v["kt"], v["ni"], v["form"], bool(v["pre"]), m.get("refused"), v["refused"], m.get("xml", ""),
                    json.dumps(m.get("observed"))[:200], (" panic: " + m["panic"]) if m.get("panic") else ""))
    return "mux dispatch of %s with table kt=%d mask=%d others=%d: expected %s, observed %s %s%s%s" % (
        m.get("xml"), v["kt"], v["mask"], v["oth"], json.dumps(v["alts"])[:300], json.dumps(m.get("observed"))[:300],
        m.get("error") or "", (" panic: " + m["panic"]) if m.get("panic") else "",
        (" registration panicked: " + m["register_panic"]) if m.get("register_panic") else "")


def selftest(ctx, uni, vecs, reg):
    """Binding self-test: corrupt the expectation of three vectors (another handler index, one
    token dropped from what the handler must see, an unexpected reply) and one registration
    verdict: the driver must reject each of them and accept the unchanged originals."""
    pick = []
    for f in vecs:
        for l in open(f):
            v = json.loads(l)
            a = v["alts"][0]
            if len(v["alts"]) == 1 and a["inv"] and len(a["inv"][0]["seen"]) >= 3:
                pick.append(v)
                break
        if len(pick) >= 1:
            break
    if not pick:
        raise verif.Undecided("binding self-test: no vector with a non-trivial expectation")
    base = pick[0]
    m1 = json.loads(json.dumps(base)); m1["alts"][0]["inv"][0]["h"] = m1["alts"][0]["inv"][0]["h"] % 81 + 1
    m2 = json.loads(json.dumps(base)); del m2["alts"][0]["inv"][0]["seen"][1]
    m3 = json.loads(json.dumps(base)); m3["alts"][0]["wire"] = [{"name": "iq", "type": "error", "id": "i1", "to": "f", "cond": "service-unavailable"}]
    r0 = json.loads(open(reg).readline())
    r1 = dict(r0); r1["refused"] = not r0["refused"]
    vf, rf, of = ctx.path("self_vec.ndjson"), ctx.path("self_reg.ndjson"), ctx.path("self_out.ndjson")
    open(vf, "w").write("".join(json.dumps(x) + "\n" for x in (base, m1, m2, m3)))
    open(rf, "w").write(json.dumps(r0) + "\n" + json.dumps(r1) + "\n")
    sc.run_driver(ctx, "mux", [uni, rf, of, vf])
    got = verif.read_ndjson(of)
    vec_lines = {m["line"] for m in got if m["kind"] == "vector"}
    reg_lines = {m["line"] for m in got if m["kind"] == "reg"}
    if (1 in vec_lines or 1 in reg_lines) and not ctx.violations:
        raise verif.Undecided("binding self-test: an unchanged vector was rejected")
    missed = [l for l in (2, 3, 4) if l not in vec_lines] + ["reg"] * (2 not in reg_lines)
    if missed:
        raise verif.Undecided("binding self-test: corrupted expectations ACCEPTED: %s" % missed)
    return 4
