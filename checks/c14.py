"""C14 - the multiplexer always picks the most specific registered handler.
A: TLC design check of tla/Mux.tla (cascade = declarative most-specific rule for every pattern
subset, replay buffer, defaults, registration); B: TLC evaluates the reference function
Dispatch on the vector domain (tla/EmitMux.tla); C: the Go driver replays every vector into
the real mux.ServeMux with recording handlers and compares invocation log and output."""
import concurrent.futures as cf
import json
import os

import verif
import servecommon as sc


DEV2_SEEN = []


def design_check(ctx, quick):
    cfgs = [("top", sc.mux_mc_cfg("U_top", "E_top")),
            ("iq", sc.mux_mc_cfg("U_iq", "E_iq")),
            ("iqr", sc.mux_mc_cfg("U_iqr", "E_iqr")),
            ("msg", sc.mux_mc_cfg("U_msg", "E_msg")),
            ("pres", sc.mux_mc_cfg("U_pres", "E_pres")),
            ("replay", sc.mux_mc_cfg("U_replay", "E_replay2" if quick else "E_replay", '{"h1", "h2"}', "all")),
            # nested routing: a message / presence handler routes another stanza through the same multiplexer
            ("nest", sc.mux_mc_cfg("U_nest", "E_nest", '{"h"}', "L" if quick else "few", inner="I_nest")),
            # construction: mux.New / zero value + options / options after New / registration after first use
            ("ctor", sc.mux_mc_cfg("U_ctor", "E_ctor", ctors="<- AllCtors"))]
    states = gen = 0
    per = {}
    with cf.ThreadPoolExecutor(max_workers=4) as ex:
        futs = [(name, ex.submit(ctx.model_check, "MCMux", cfg, sc.MUX_INVS + sc.MUX_PROPS, workers=3, timeout=1500, name="MCMux_" + name, heap=sc.EMIT_JVM))
                for name, cfg in cfgs]
        # non-vacuity: the code-like deviation (the replay buffer's storage belongs to the multiplexer and is reused by the
        # stanza routed meanwhile) must break "handed the complete stanza from its start element"
        dev = ex.submit(ctx.tlc, "MCMux", sc.mux_mc_cfg("U_nest", "E_nest", '{"h"}', "L", inner="I_nest", dev='{"SharedBuffer"}'),
                        workers=2, timeout=900, name="MCMux_nestdev", heap=sc.EMIT_JVM)
        # (the stanza routers are values made once by New: a multiplexer made from the zero value routes no stanza)
        dev2 = ex.submit(ctx.tlc, "MCMux", sc.mux_mc_cfg("U_ctor", "E_ctor", ctors="<- AllCtors", dev='{"RoutersMadeByNew"}'),
                         workers=2, timeout=900, name="MCMux_ctordev", heap=sc.EMIT_JVM)
        for name, f in futs:
            r = f.result()
            states += r.distinct
            gen += r.generated
            per[name] = r.distinct
        dv, dv2 = dev.result(), dev2.result()
    if "C14_WholeStanza" not in dv.violated:
        raise verif.Undecided("design self-test: deviation SharedBuffer does not violate C14_WholeStanza:\n" + dv.out[-1500:])
    # (whichever of the dispatch invariants a TLC worker reaches first)
    if not ({"C14_Defaults", "C14_IsDispatch", "C14_PerChild", "C14_MostSpecific"} & set(dv2.violated)):
        raise verif.Undecided("design self-test: deviation RoutersMadeByNew violates none of C14_Defaults / C14_PerChild / C14_IsDispatch / C14_MostSpecific:\n" + dv2.out[-1500:])
    DEV2_SEEN[:] = dv2.violated
    return states, gen, per


def run(ctx):
    quick = ctx.tier == "quick"
    out = ctx.path("mux_out.ndjson")
    if ctx.replay:
        case = json.load(open(ctx.replay))["case"]
        res = sc.emit_parallel(ctx, "EmitMux", [sc.mux_emit_cfg("quick", 1)])
        uni = sc.collect(res, r"mux_universe\.json")[0]
        vf, rf = ctx.path("replay_vec.ndjson"), ctx.path("replay_reg.ndjson")
        open(vf, "w").write(json.dumps(case["vector"]) + "\n" if case["kind"] == "vector" else "")
        open(rf, "w").write(json.dumps(case["vector"]) + "\n" if case["kind"] == "reg" else "")
        summ = sc.run_driver(ctx, "mux", [uni, rf, out, vf])
        for m in verif.read_ndjson(out):
            ctx.violation(describe(m), m)
        ctx.log("replayed 1 case: %d mismatches" % summ["mismatches"])
        return

    with cf.ThreadPoolExecutor(max_workers=1) as ex:
        fut = ex.submit(sc.emit_parallel, ctx, "EmitMux", [sc.mux_emit_cfg(ctx.tier, p) for p in (1, 2, 3, 4)])
        states, gen, per = design_check(ctx, quick)
        res = fut.result()
    uni = sc.collect(res, r"mux_universe\.json")[0]
    vecs = sc.collect(res, r"mux_vectors_\d+\.ndjson")
    reg = sc.collect(res, r"mux_reg\.ndjson")[0]
    nvec = sum(1 for f in vecs for _ in open(f))
    ctx.log("TLC emitted %d dispatch vectors in %d groups + %d registration cases" % (
        nvec, len(vecs), sum(1 for _ in open(reg))))

    summ = drive(ctx, uni, reg, out, vecs)
    mism = verif.read_ndjson(out)
    ctx.log("driver: %d evaluations (2 namespaces x 3 reader styles + formatted XML for iqs; %d with nested routing - same goroutine and another "
            "goroutine -, the inner stanza routed in %d), %d registration cases, %d mismatches" % (
                summ["evaluations"], summ["nested_evaluations"], summ["nested_entered"], summ["registration_cases"], summ["mismatches"]))
    if summ.get("stalls"):
        raise verif.Undecided("%d nested routings did not return within the watchdog (not a verdict)" % summ["stalls"])
    sc.report_grouped(ctx, mism, signature, describe)

    nself = selftest(ctx, uni, vecs, reg)
    ctx.write_evidence("model_checking", {
        "states": states, "transitions": gen, "states_per_config": per,
        "traces_validated_against_impl": summ["evaluations"] + summ["registration_cases"],
        "vectors_emitted_by_tlc": nvec, "evaluations": summ["evaluations"],
        "registration_cases": summ["registration_cases"],
        "distinct_nontrivial": summ["distinct_observations"], "nontrivial_evaluations": summ["nontrivial"],
        "mismatches": summ["mismatches"], "binding_selftest_corruptions_rejected": nself,
        "nested_routing_evaluations": summ["nested_evaluations"], "nested_routing_inner_stanza_routed": summ["nested_entered"],
        "deviation_caught": "SharedBuffer -> C14_WholeStanza; RoutersMadeByNew -> " + ", ".join(DEV2_SEEN),
        "constructions": summ.get("constructions"),
        "exhaustive": "every subset of the nine-name pattern universe (512) per stanza kind and type, with and "
                      "without the same names under another type / kind, x every incoming name; message/presence "
                      "child sequences of length <= %d over 5 payload names and text" % (2 if quick else 3),
        "reader_styles": ["xml.Decoder (character data valid until the next read only)", "token slice, last token delivered together with io.EOF", "children with character data of their own (text the handlers are shown is compared with the stanza's)"],
        "rule": "an evaluation is non-trivial if a handler ran or the multiplexer wrote something; distinct = distinct "
                "(kind, invocation log, output) observations (counted per driver process and added up); nested routing: the handler of child payload 1 / 2 of a message or presence "
                "routes a second stanza (message, presence, iq; own reader and encoder) through the SAME ServeMux before / after it reads "
                "what it was handed, on its own goroutine and on another one while it waits; every handler of either stanza must obtain "
                "its own stanza whole from its start element (id compared); construction of the multiplexer: mux.New(ns, options...) / the options applied "
                "to the zero value / applied to the result of New / half of them applied after a first element was routed - rotating against "
                "namespace and reader style so that every vector meets every construction; the expectation does not depend on it",
        "samples": summ["samples"][:3],
        "design_check": "MCMux: eight configurations (top, iq get, iq result, message, presence, replay buffer, nested routing, construction "
                        "incl. registration after first use); 2^10..2^12 tables each; deviations SharedBuffer (rejected by C14_WholeStanza) and "
                        "RoutersMadeByNew (rejected by C14_Defaults)",
    }, assumptions=[
        "recording handlers return nil and write nothing; the stanza is handed to HandleXMPP as Serve does "
        "(start element consumed, decoder positioned behind it)",
        "outside the alphabet: iq without/with unknown type, get/set/error iq without payload (C07), text iq payload (C09), "
        "a Handle pattern naming the stanza namespace itself"])


def drive(ctx, uni, reg, out, vecs, shards=4):
    """The driver in `shards` processes side by side (vector files dealt out by size, the registration cases go to the first)."""
    b = ctx.go_build("serve")
    bins = [[] for _ in range(shards)]
    for f in sorted(vecs, key=os.path.getsize, reverse=True):
        min(bins, key=lambda x: sum(os.path.getsize(g) for g in x)).append(f)
    bins = [x for x in bins if x]

    def one(i):
        o = "%s.%d" % (out, i)
        text = ctx.run_driver(b, ["mux", uni, reg if i == 0 else "-", o] + bins[i], timeout=2400)
        if "SUMMARY " not in text:
            raise verif.Undecided("driver serve mux printed no summary:\n%s" % text[-2000:])
        return o, json.loads(text[text.rindex("SUMMARY ") + 8:].splitlines()[0])
    with cf.ThreadPoolExecutor(max_workers=len(bins)) as ex:
        parts = list(ex.map(one, range(len(bins))))
    tot = {}
    with open(out, "w") as fo:
        for o, summ in parts:
            fo.write(open(o).read())
            os.remove(o)
            for k, v in summ.items():
                if isinstance(v, dict):
                    d = tot.setdefault(k, {})
                    for kk, vv in v.items():
                        d[kk] = d.get(kk, 0) + vv
                else:
                    tot[k] = tot.get(k, [] if isinstance(v, list) else 0) + v
    return tot


def signature(m):
    v = m["vector"]
    if m["kind"] == "reg":
        return ("reg", v["form"], v["pre"], v["kt"] == 1)
    obs = m.get("observed") or {}
    if v.get("nest"):
        return ("nested", v["el"]["kind"], v["nest"]["el"]["kind"], v["nest"]["when"], "+goroutine" in m.get("style", ""),
                bool(m.get("panic")), bool(m.get("error")))
    return ("vector", v["el"]["kind"], bool(m.get("panic")) and m.get("ctor"), bool(m.get("panic")), bool(m.get("error")), bool(m.get("register_panic")),
            len(obs.get("inv") or []) - len(v["alts"][0]["inv"]))


def describe(m):
    v = m["vector"]
    if m["kind"] == "reg":
        return ("registration of pattern kt=%d name#%d with %s handler (already registered: %s): refused=%s, specification says "
                "refused=%s; afterwards %s observed %s%s" % (
                    v["kt"], v["ni"], v["form"], bool(v["pre"]), m.get("refused"), v["refused"], m.get("xml", ""),
                    json.dumps(m.get("observed"))[:200], (" panic: " + m["panic"]) if m.get("panic") else ""))
    nest = ""
    if v.get("nest"):
        n = v["nest"]
        nest = (" while the handler of invocation %d routes %s through the same multiplexer (%s it reads what it was handed; %s)" % (
            n["at"], m.get("inner_xml"), "before" if n["when"] == "pre" else "after",
            "on another goroutine, the handler waiting" if "+goroutine" in m.get("style", "") else "on the same goroutine"))
    made = {"new": "mux.New(ns, options...)", "zero": "the options applied to the zero value &mux.ServeMux{}", "late": "mux.New(ns), then the options applied to it",
            "afteruse": "half of the options applied after a first element was routed"}.get(m.get("ctor"), m.get("ctor"))
    return "mux (made by %s) dispatch of %s%s with table kt=%d mask=%d others=%d: expected %s, observed %s %s%s%s" % (
        made, m.get("xml"), nest, v["kt"], v["mask"], v["oth"], json.dumps(v["alts"])[:300], json.dumps(m.get("observed"))[:300],
        m.get("error") or "", (" panic: " + m["panic"]) if m.get("panic") else "",
        (" registration panicked: " + m["register_panic"]) if m.get("register_panic") else "")


def selftest(ctx, uni, vecs, reg):
    """Binding self-test: corrupt the expectation of three vectors (another handler index, one
    token dropped from what the handler must see, an unexpected reply) and one registration
    verdict: the driver must reject each of them and accept the unchanged originals."""
    pick = []
    for f in vecs:
        for l in open(f):
            v = json.loads(l)
            a = v["alts"][0]
            if len(v["alts"]) == 1 and a["inv"] and len(a["inv"][0]["seen"]) >= 3:
                pick.append(v)
                break
        if len(pick) >= 1:
            break
    if not pick:
        raise verif.Undecided("binding self-test: no vector with a non-trivial expectation")
    base = pick[0]
    m1 = json.loads(json.dumps(base)); m1["alts"][0]["inv"][0]["h"] = m1["alts"][0]["inv"][0]["h"] % 81 + 1
    m2 = json.loads(json.dumps(base)); del m2["alts"][0]["inv"][0]["seen"][1]
    m3 = json.loads(json.dumps(base)); m3["alts"][0]["wire"] = [{"name": "iq", "type": "error", "id": "i1", "to": "f", "cond": "service-unavailable"}]
    r0 = json.loads(open(reg).readline())
    r1 = dict(r0); r1["refused"] = not r0["refused"]
    vf, rf, of = ctx.path("self_vec.ndjson"), ctx.path("self_reg.ndjson"), ctx.path("self_out.ndjson")
    open(vf, "w").write("".join(json.dumps(x) + "\n" for x in (base, m1, m2, m3)))
    open(rf, "w").write(json.dumps(r0) + "\n" + json.dumps(r1) + "\n")
    sc.run_driver(ctx, "mux", [uni, rf, of, vf])
    got = verif.read_ndjson(of)
    vec_lines = {m["line"] for m in got if m["kind"] == "vector"}
    reg_lines = {m["line"] for m in got if m["kind"] == "reg"}
    if (1 in vec_lines or 1 in reg_lines) and not ctx.violations:
        raise verif.Undecided("binding self-test: an unchanged vector was rejected")
    missed = [l for l in (2, 3, 4) if l not in vec_lines] + ["reg"] * (2 not in reg_lines)
    if missed:
        raise verif.Undecided("binding self-test: corrupted expectations ACCEPTED: %s" % missed)
    return 4
