"""XPUSH - growth beyond C01-C20: the library's handlers for unsolicited stanzas (roster pushes, message carbons,
blocking commands) and its small request/response services (ping, version, time, disco#info / disco#items
responders registered in a mux; client-side helpers) against tla/Push.tla; see checks/pushcommon.py.
`bin/check XPUSH [--tier thorough] [--replay f]`."""
import pushcommon as pc


def run(ctx):
    cov = pc.run_part(ctx)
    cov["exhaustive"] = False
    ctx.write_evidence("model_checking", cov, assumptions=[
        "the mux hands a stanza to the handler registered for exactly its type and payload name (properties C08 / C14)",
        "sessions are built with xmpp.NewSession and a trivial negotiator; the account is me@example.net/res on example.net",
        "one stanza is in flight at a time: the scripted peer sends the next one when the serve loop asks for input "
        "(concurrency of requests and responses is the subject of C06 / C07)",
        "callbacks are compared by the fields the application is given; replies by type, id, to, condition and a summary of the payload",
        "error values of helpers are compared by class (none / stanza error with its condition / other)",
    ])
