"""IBB family (C15, IBB part of C06): real in-band bytestreams between two real xmpp sessions joined by an
in-memory pipe with a wire tap (harness/cmd/ibb); every scenario / schedule is recorded and validated by TLC
against tla/IBB.tla (TrIBB.tla, M = 65536)."""
import itertools, json, os, random, re, subprocess
import verif

INVS = ["C15_OpenOnlyIfAccepted", "C15_PrefixOrder", "C15_ConsecutiveSeq", "C15_EOFOnlyAfterDrain", "C15_NoLostWakeup"]

MC_CFG = '''CONSTANTS
  M = 4
  MaxBuf <- %(buf)s
  Dev = %(dev)s
  MaxW <- %(maxw)s
  MaxInj = %(inj)d
  MaxChan = 2
  Carriers = %(car)s
  Readers = %(readers)s
SPECIFICATION %(spec)s
%(props)s
CHECK_DEADLOCK FALSE
'''
SAFE_PROPS = "INVARIANT TypeOK\n" + "\n".join("INVARIANT " + i for i in INVS) + "\nPROPERTY C15_Refused"
LIVE_PROPS = "PROPERTY C15_DrainThenEOF\nPROPERTY C06_IBBReadReturns"


def mc_cfg(maxw="WOneWay3", inj=1, car='{"iq"}', readers='{"b"}', dev="{}", spec="Spec", props=SAFE_PROPS, buf="Buf2"):
    return MC_CFG % dict(maxw=maxw, inj=inj, car=car, readers=readers, dev=dev, spec=spec, props=props, buf=buf)


TR_CFG = '''CONSTANTS
  M = 65536
  MaxBuf <- NoBuf
  Dev = %s
  MaxW <- NoBuf
  MaxInj = 0
  MaxChan = 0
  Carriers = {}
  Readers = {}
SPECIFICATION TSpec
CONSTRAINT HW
POSTCONDITION Accepted
CHECK_DEADLOCK FALSE
'''

# ----------------------------------------------------------------------------------------- scenarios


def op(o, e, n=0, **kw):
    d = {"op": o, "e": e, "n": n}
    d.update(kw)
    return d


def scen(name, ops, bs=0, carrier="iq", maxbuf=None, listen=True, preopen=True):
    return {"name": name, "bs": bs, "carrier": carrier, "maxbuf": maxbuf or {}, "listen": listen, "preopen": preopen,
            "sched": False, "procs": [{"name": "main", "ops": ops}]}


def sched(name, procs, bs=0, carrier="iq", maxbuf=None, listen=True, preopen=True, maxpre=0, maxruns=0):
    return {"name": name, "bs": bs, "carrier": carrier, "maxbuf": maxbuf or {}, "listen": listen, "preopen": preopen,
            "sched": True, "procs": [{"name": n, "ops": o} for n, o in procs], "maxpre": maxpre, "maxruns": maxruns}


def xfer_ops(w, parts, flush, readbuf, mid_reads):
    """writer w sends the parts (one Write each), optionally flushing after each; the reader drains what
    is known to have arrived (whole base64 groups) when mid_reads, finally the writer closes and the
    reader reads to end-of-file."""
    r = "b" if w == "a" else "a"
    ops, tot, got = [], 0, 0
    for n in parts:
        ops.append(op("write", w, n))
        tot += n
        if flush:
            ops.append(op("flush", w))
            if mid_reads and tot // 3 * 3 > got:
                ops.append(op("readn", r, tot // 3 * 3 - got, buf=readbuf))
                got = tot // 3 * 3
    ops.append(op("close", w))
    ops.append(op("readall", r, 0, buf=readbuf))
    return ops


def partitions(L, bs, rnd, many):
    ps = [[L]]
    cuts = {1, 2, 3, L // 2, L - 1, bs, bs + 1, 768, 769} if many else {1, L // 2, bs}
    for c in sorted(cuts):
        if 0 < c < L:
            ps.append([c, L - c])
    if L <= 8:
        ps.append([1] * L)
    elif many:
        p, left = [], L
        while left > 0:
            k = min(left, rnd.choice([1, 2, 3, 4, 5, bs or 7, 767, 769]))
            p.append(k)
            left -= k
        if len(p) <= 40:
            ps.append(p)
    return ps


def seq_scenarios(tier, seed):
    rnd = random.Random(seed)
    thorough = tier == "thorough"
    out = []
    blocks = [1, 2, 3, 4, 5, 767, 768, 769, 0]
    # F1: one-way transfers
    for bs in blocks:
        eff = bs or 2048
        lens = {1, 2, 3, 4, 5, 6, 7, eff - 1, eff, eff + 1, 2 * eff, 2 * eff + 1, 767, 768, 769, 1535, 1536, 1537}
        if thorough:
            lens |= {8, 9, 10, 3 * eff - 1, 3 * eff + 2, 2303, 2304, 2305, 4097}
        lens = sorted(x for x in lens if 0 < x <= 5000)
        if not thorough:
            # quick: the small lengths and a seeded sample of the large ones
            small = [x for x in lens if x <= 10]
            big = [x for x in lens if x > 10]
            rnd.shuffle(big)
            lens = small + big[:4]
        for L in lens:
            parts = partitions(L, eff if eff < L else 3, rnd, thorough)
            if not thorough:
                parts = parts[:1] + rnd.sample(parts[1:], min(1, len(parts) - 1))
            for p in parts:
                for car in ("iq", "message"):
                    if not thorough and rnd.random() < 0.5:
                        continue
                    fl = rnd.random() < 0.6
                    rb = rnd.choice([1, 2, 3, 5, 64, 512, 4096] if L <= 64 else [5, 64, 512, 4096] if L <= 800 else [64, 512, 4096])
                    out.append(scen("xfer", xfer_ops(rnd.choice("ab") if thorough else "a", p, fl, rb, rnd.random() < 0.5),
                                    bs=bs, carrier=car))
    # F2: both directions at once
    for bs, car in itertools.product([1, 3, 5, 768, 0], ("iq", "message")):
        for la, lb in ([(7, 5), (1, 1), (769, 3)] + ([(2049, 770), (3, 768), (10, 10)] if thorough else [])):
            for first in "ab":
                ops = [op("write", "a", la), op("write", "b", lb), op("flush", "a"), op("flush", "b")]
                if la >= 3:
                    ops.append(op("readn", "b", la // 3 * 3, buf=rnd.choice([1, 4, 4096])))
                if lb >= 3:
                    ops.append(op("readn", "a", lb // 3 * 3, buf=rnd.choice([1, 4, 4096])))
                other = "b" if first == "a" else "a"
                ops += [op("close", first), op("readall", other, 0, buf=64), op("readall", first, 0, buf=64), op("close", other)]
                out.append(scen("both", ops, bs=bs, carrier=car))
    # F3: injected bad packets at every position
    kinds = ["unknownsid", "seqlow", "seqhigh", "seqfar", "undecodable", "partial", "partial2"]
    for kind, car, icar, pos in itertools.product(kinds, ("iq", "message"), ("iq", "message"), (0, 1, 2)):
        if not thorough and rnd.random() < 0.5:
            continue
        bs = rnd.choice([3, 5, 0])
        pre = [op("write", "a", 6), op("flush", "a")]
        inj = [op("inject", "b", 0, kind=kind, carrier=icar)]
        post = [op("write", "a", 7), op("close", "a"), op("readall", "b", 0, buf=rnd.choice([2, 64]))]
        if pos == 0:
            ops = inj + pre + post
        elif pos == 1:
            ops = pre + inj + post
        else:
            ops = pre + [op("readn", "b", 6, buf=6)] + inj + inj + post
        out.append(scen("inject-" + kind, ops, bs=bs, carrier=car))
    # the same at the opening endpoint (b writes, a reads)
    for kind in kinds:
        ops = [op("write", "b", 6), op("flush", "b"), op("inject", "a", 0, kind=kind), op("write", "b", 4), op("close", "b"), op("readall", "a", 0, buf=16)]
        out.append(scen("inject-a-" + kind, ops, bs=5, carrier=rnd.choice(["iq", "message"])))
    # oversize: receive buffer of 12 (block size <= 12), 6 bytes buffered, a packet of 13 bytes cannot fit
    for car, icar in itertools.product(("iq", "message"), ("iq", "message")):
        ops = [op("write", "a", 6), op("flush", "a"), op("inject", "b", 13, kind="oversize", carrier=icar), op("readn", "b", 6, buf=6),
               op("write", "a", 6), op("close", "a"), op("readall", "b", 0, buf=64)]
        out.append(scen("inject-oversize", ops, bs=6, carrier=car, maxbuf={"b": 12}))
    # packets for a closed stream: at the endpoint that was closed by its peer, and at the endpoint that closed
    for car, icar, closer in itertools.product(("iq", "message"), ("iq", "message"), "ab"):
        ops = [op("write", "a", 3), op("close", closer), op("readall", "b", 0, buf=8), op("inject", "a", 0, kind="closedsid", carrier=icar),
               op("inject", "b", 0, kind="closedsid", carrier=icar), op("inject", "b", 0, kind="close"), op("inject", "a", 0, kind="close")]
        out.append(scen("inject-closed", ops, bs=4, carrier=car))
    # F4: opening
    for car, bs in itertools.product(("iq", "message"), (0, 1, 5)):
        out.append(scen("open-refused", [op("write", "a", 4), op("close", "a")], bs=bs, carrier=car, listen=False))
        out.append(scen("open-accepted", [op("close", "b"), op("readall", "a", 0, buf=4)], bs=bs, carrier=car))
    # F5: the receive buffer fills up without any injection (no flow control in the writer)
    for car in ("iq", "message"):
        for n in (13, 30):
            ops = [op("write", "a", n), op("flush", "a"), op("write", "a", n), op("flush", "a")]
            if n == 13:     # 12 bytes (whole base64 groups of the first write) fit exactly, the next packet does not
                ops.append(op("readn", "b", 12, buf=5))
            # the writer's stream is broken by the refusal; the reader's side ends the stream
            ops += [op("close", "a"), op("close", "b"), op("readall", "b", 0, buf=5)]
            out.append(scen("bufferfull", ops, bs=6, carrier=car, maxbuf={"b": 12}))
    for i, s in enumerate(out):
        s["name"] = "%s#%d" % (s["name"], i)
    return out


def wrap_scenario():
    """block size 1, message carrier: 65 600 data packets of 3 bytes cross the 65 536 sequence wrap"""
    ops = [op("writes", "a", 65600, buf=3), op("close", "a"), op("readall", "b", 0, buf=8192)]
    return scen("wrap", ops, bs=1, carrier="message")


def sched_scenarios(tier, runs=None):
    th = tier == "thorough"
    mr = runs or (1200 if th else 120)
    out = []
    for car in ("iq", "message"):
        # the reader's wait against the serve loop's wake-up; the writer flushes and keeps the stream open
        out.append(sched("wake", [("w", [op("write", "a", 3), op("flush", "a")]), ("r", [op("readn", "b", 3, buf=8)])], carrier=car, maxpre=2, maxruns=mr))
        out.append(sched("wake2", [("w", [op("write", "a", 3), op("flush", "a"), op("write", "a", 3), op("flush", "a")]), ("r", [op("readn", "b", 6, buf=8)])], carrier=car, maxpre=2, maxruns=mr))
        # drain then end-of-file
        out.append(sched("drain", [("w", [op("write", "a", 4), op("close", "a")]), ("r", [op("readall", "b", 0, buf=3)])], carrier=car, maxpre=2, maxruns=mr))
        # both ends close at about the same time
        out.append(sched("closeboth", [("p", [op("close", "a")]), ("q", [op("close", "b")])], carrier=car, maxpre=3, maxruns=mr))
        out.append(sched("closeboth-data", [("p", [op("write", "a", 3), op("close", "a"), op("readall", "a", 0, buf=8)]), ("q", [op("write", "b", 2), op("close", "b"), op("readall", "b", 0, buf=8)])], carrier=car, maxpre=2, maxruns=mr))
        # the reader closes while the writer is writing
        out.append(sched("rclose", [("w", [op("write", "a", 6), op("flush", "a"), op("write", "a", 1), op("flush", "a")]), ("q", [op("close", "b")])], carrier=car, maxpre=2, maxruns=mr))
        # ... and a data packet for the closed session arrives afterwards, while the local write may still be in flight
        out.append(sched("rclose-late", [("w", [op("write", "a", 6), op("flush", "a"), op("write", "a", 1), op("flush", "a")]),
                                         ("q", [op("close", "b"), op("inject", "a", 0, kind="closedsid"), op("inject", "a", 0, kind="closedsid")])],
                         carrier=car, maxpre=2, maxruns=mr))
        # ... while a Read of the writing end is blocked: it must see end-of-file whether or not the peer's close finds a
        # local write in flight
        out.append(sched("rclose-read", [("w", [op("write", "a", 6), op("flush", "a"), op("write", "a", 1), op("flush", "a")]),
                                         ("r", [op("readall", "a", 0, buf=8)]), ("q", [op("close", "b")])], carrier=car, maxpre=2, maxruns=mr))
        # Read against the local Close
        out.append(sched("readclose", [("r", [op("readall", "b", 0, buf=8)]), ("q", [op("close", "b")])], carrier=car, maxpre=2, maxruns=mr))
    # opening under the scheduler: the accepting side writes at once
    out.append(sched("open", [("o", [op("open", "a"), op("readn", "a", 3, buf=8), op("close", "a")]), ("l", [op("accept", "b"), op("write", "b", 3), op("flush", "b"), op("readall", "b", 0, buf=8)])],
                     preopen=False, maxpre=2, maxruns=mr))
    out.append(sched("open-refused", [("o", [op("open", "a"), op("write", "a", 3), op("close", "a")])], preopen=False, listen=False, maxpre=2, maxruns=mr))
    # a scripted writer: an empty data packet, then data
    out.append(sched("empty", [("i", [op("inject", "b", 0, kind="empty"), op("offer", "b", 3), op("inject", "b", 3, kind="good")]), ("r", [op("readn", "b", 3, buf=8)])], maxpre=2, maxruns=mr))
    for i, s in enumerate(out):
        s["name"] = "%s#%d" % (s["name"], i)
    return out


# ----------------------------------------------------------------------------------------- listener (Accept / Expect / Close)
LISTEN_INVS = ["C06_TakeOver", "C06_NoStaleEntry", "C06_SessionOnce", "C06_Outcome", "C06_NoPanic", "C06_ExpectGetsItsSession", "C06_ListenNoStall",
               "C15_OpenIffAccepted"]
# two served sessions sharing one Handler: Accept on each, Close of each, Handler.Listen for the second, an open request to each
LISTEN_TWO = dict(x="{}", a='{"a1", "a2"}', k='{"c1", "c2"}', lc='{"l1"}', o='{"o1", "o2"}', p="{}", lsn='{"b", "c"}', cl="CL2", linit="LInit2")
# (deviation, the invariant it must break, the bounds of that run)
LISTEN_DEVS = [("ExpectDeletesForeignEntry", "C06_TakeOver", {}), ("ExpectDeletesForeignEntry", "C06_ExpectGetsItsSession", {}),
               ("ExpectLeavesEntry", "C06_NoStaleEntry", {}), ("ExpectLeavesEntry", "C06_ListenNoStall", {}),
               ("CloseClosesQueue", "C06_NoPanic", {}), ("HandOverKeepsEntry", "C06_NoStaleEntry", {}),
               # Close called twice and no open request at all: the only way to the panic is the second Close
               ("CloseClosesQueue", "C06_NoPanic", dict(x="{}", k='{"c1", "c3"}', o="{}")),
               # the handler of an open request keeps the Handler's table of listeners to itself while it waits for an
               # acceptor: Listener.Close cannot take effect (one session), neither can Handler.Listen for another session
               ("HandlerKeepsTableLocked", "C06_ListenNoStall", {}),
               ("HandlerKeepsTableLocked", "C06_ListenNoStall", dict(LISTEN_TWO, k="{}")),
               ("AnyListenerTakes", "C06_SessionOnce", LISTEN_TWO)]

LISTEN_MC_CFG = """CONSTANTS
  XCalls = %(x)s
  ACalls = %(a)s
  KCalls = %(k)s
  LCalls = %(lc)s
  Opens = %(o)s
  Pings = %(p)s
  Lsn = %(lsn)s
  Dev = %(dev)s
  XKey <- XKey1
  OKey <- OKey1
  CL <- %(cl)s
  LInit <- %(linit)s
  MaxEnv = %(env)d
SPECIFICATION MCSpec
%(props)s
CHECK_DEADLOCK FALSE
"""

LISTEN_TR_CFG = """CONSTANTS
  XCalls = {"x1", "x2", "x3"}
  ACalls = {"a1", "a2", "aLb", "aLc"}
  KCalls = {"c1", "c2", "c3", "cEb", "cEc"}
  LCalls = {"l1", "l2"}
  Opens = {"o1", "o2"}
  Pings = {"p1"}
  Lsn = {"b", "c"}
  Dev = {}
  XKey <- NoKey
  OKey <- NoKey
  CL <- NoKey
  LInit <- NoKey
  MaxEnv = 0
SPECIFICATION TSpec
CONSTRAINT HW
POSTCONDITION Accepted
CHECK_DEADLOCK FALSE
"""


def listen_mc_cfg(x='{"x1", "x2"}', a='{"a1"}', k='{"c1"}', lc="{}", o='{"o1"}', p='{"p1"}', lsn='{"b"}', cl="CLb", linit="LInitAny", env=7, dev="{}",
                  props=None):
    props = props if props is not None else "\n".join("INVARIANT " + i for i in LISTEN_INVS)
    return LISTEN_MC_CFG % dict(x=x, a=a, k=k, lc=lc, o=o, p=p, lsn=lsn, cl=cl, linit=linit, env=env, dev=dev, props=props)


def listen_design_checks(ctx, workers=None):
    """pipeline A of the accepting side's rendezvous (IBBListen.tla): take-over (two Expect calls for one session), two
    session ids, Accept, Close (call / effect / return, once or twice, at any time), Accept and Expect after Close, two
    sessions of the application sharing one Handler with Handler.Listen for the second, cancellation anywhere; every named
    deviation must break its invariant"""
    w = workers or max(2, verif.NCPU // 2)
    quick = ctx.tier == "quick"
    runs = [("takeover", dict(env=7 if quick else 9)),
            ("twokeys", dict(x='{"x1", "x3"}', o='{"o1", "o2"}', p="{}", env=7 if quick else 8)),
            ("closetwice", dict(x='{"x1"}', k='{"c1", "c3"}', p="{}", env=7) if quick else dict(x='{"x1"}', k='{"c1", "c3"}', env=10)),
            ("twosessions", dict(LISTEN_TWO, env=7) if quick else dict(LISTEN_TWO, x='{"x1"}', env=8))]
    if not quick:
        runs.append(("all", dict(x='{"x1", "x2", "x3"}', o='{"o1", "o2"}', env=8)))
    st = gen = 0
    for name, kw in runs:
        r = ctx.model_check("MCIBBListen", listen_mc_cfg(**kw), LISTEN_INVS, name="MCIBBListen_" + name, workers=w, timeout=1500)
        st += r.distinct
        gen += r.generated
    for dev, prop, kw in LISTEN_DEVS:
        r = ctx.tlc("MCIBBListen", listen_mc_cfg(**dict(dict(kw, p="{}"), dev='{"%s"}' % dev, props="INVARIANT " + prop)), name="MCIBBListen_dev", workers=2, timeout=600)
        if prop not in r.violated:
            raise verif.Undecided("listener design check is vacuous: deviation %s does not violate %s (%s)" % (dev, prop, r.violated))
    return {"listen_states": st, "listen_transitions": gen, "listen_deviations_detected": len(LISTEN_DEVS)}


def lop(o, c="", sid="", frm="", e="b"):
    """one operation of a listener scenario; e: the accepting session it belongs to (b, or c: the second session of the
    application, sharing b's Handler; open / ping are performed by the peer of that session)"""
    d = {"op": o, "e": e, "n": 0}
    if c:
        d["c"] = c
    if sid:
        d["sid"] = sid
    if frm:
        d["from"] = frm
    return d


def lscen(name, procs, listen=True, maxpre=2, maxruns=0, pair2=False, listen2=False):
    return {"name": name, "mode": "listen", "bs": 0, "carrier": "iq", "maxbuf": {}, "listen": listen, "preopen": False, "sched": True,
            "procs": [{"name": n, "ops": o} for n, o in procs], "maxpre": maxpre, "maxruns": maxruns, "pair2": pair2, "listen2": listen2}


def listen_scenarios(tier, runs=None):
    """Handler.Listen / Accept / Expect / Listener.Close against real open requests.  Proc names are chosen so that the first
    (non-pre-empting, alphabetical) schedule of each scenario is the documented sequence; the exploration then moves the
    cancellation, the second Expect, the open request, the Close and the Listen to every other place (pre-emption bounded)."""
    mr = runs or (1500 if tier == "thorough" else 100)
    mp = 3 if tier == "thorough" else 2
    X = lambda c, sid, frm="", e="b": lop("expect", c, sid, frm, e)
    O = lambda c, sid, e="b": lop("open", c, sid, e=e)
    A = lambda c, e="b": lop("accept", c, e=e)
    K = lambda c, e="b": lop("lclose", c, e=e)
    out = [
        # the documented take-over: the second Expect for a session cancels the first and takes over; then the session is opened
        lscen("takeover", [("e1", [X("x1", "k1")]), ("e2", [X("x2", "k1")]), ("o", [O("o1", "k1"), lop("ping", "p1")])]),
        lscen("takeover3", [("e1", [X("x1", "k1")]), ("e2", [X("x2", "k1")]), ("e3", [X("x3", "k1")]), ("o", [O("o1", "k1")])]),
        # a caller goes away before / while / after its session is opened
        lscen("cancel", [("e1", [X("x1", "k1")]), ("k", [lop("cancel", "x1")]), ("o", [O("o1", "k1"), lop("ping", "p1")])]),
        lscen("cancel-takeover", [("e1", [X("x1", "k1")]), ("e2", [X("x2", "k1")]), ("k", [lop("cancel", "x2")]), ("o", [O("o1", "k1")]),
                                  ("y", [lop("accept", "a1")])]),
        # two expectations for different sessions, opened in the other order
        lscen("twokeys", [("e1", [X("x1", "k1")]), ("e2", [X("x3", "k2")]), ("o", [O("o1", "k2")]), ("p", [O("o2", "k1")])]),
        # an expectation for a session that is never opened (other peer address), Accept takes what nobody expects
        lscen("neveropens", [("e1", [X("x1", "k1")]), ("e2", [X("x3", "k2", "z@example.net")]), ("f", [lop("accept", "a1")]), ("o", [O("o2", "k2")])]),
        # a listener, nobody accepting
        lscen("nobody", [("o", [O("o1", "k1")]), ("p", [lop("ping", "p1")])]),
        # Expect takes precedence over Accept
        lscen("precedence", [("e1", [X("x1", "k1")]), ("f", [lop("accept", "a1")]), ("o", [O("o1", "k1")])]),
        lscen("twoopens", [("e1", [X("x1", "k1")]), ("f", [lop("accept", "a1")]), ("o", [O("o1", "k1")]), ("p", [O("o2", "k1")])]),
        lscen("accept2", [("f", [lop("accept", "a1")]), ("g", [lop("accept", "a2")]), ("o", [O("o1", "k1")]), ("p", [O("o2", "k2")])]),
        # Listener.Close: pending Accept calls return, later open requests are refused, a pending session does not break the serve loop
        lscen("lclose-accept", [("f", [lop("accept", "a1")]), ("l", [lop("lclose")]), ("o", [O("o1", "k1")])]),
        lscen("lclose-pending", [("o", [O("o1", "k1")]), ("x", [lop("lclose")]), ("y", [lop("ping", "p1")])]),
        lscen("lclose-expect", [("e1", [X("x1", "k1")]), ("l", [lop("lclose")]), ("o", [O("o1", "k1")])]),
        lscen("nolistener", [("o", [O("o1", "k1"), lop("ping", "p1")])], listen=False),
        # --- what else the application may do with the accepting-side API
        # Close twice: one after the other, and two goroutines at once, with a pending Accept / a pending session
        lscen("lclose-twice", [("f", [A("a1")]), ("l", [K("c1"), K("c3")]), ("o", [O("o1", "k1")])]),
        lscen("lclose-both", [("l", [K("c1")]), ("m", [K("c3")]), ("o", [O("o1", "k1")]), ("y", [lop("ping", "p1")])]),
        # Accept / Expect on a listener that is closed already (or is being closed)
        lscen("accept-after-close", [("l", [K("c1"), A("a1")]), ("o", [O("o1", "k1")])]),
        lscen("expect-after-close", [("l", [K("c1"), X("x1", "k1")]), ("o", [O("o1", "k1")])]),
        # Expect for a session id that is open already (it was taken by Accept); the peer then opens that id once more
        lscen("expect-late", [("f", [A("a1"), X("x1", "k1")]), ("o", [O("o1", "k1")])]),
        lscen("expect-late-reopen", [("f", [A("a1"), X("x1", "k1")]), ("o", [O("o1", "k1"), O("o2", "k1")])]),
        # Handler.Listen for a session that has a listener returns it
        lscen("listen-again", [("l", [lop("listen", "l1"), A("a1")]), ("o", [O("o1", "k1")])]),
        # a second session of the application on the same Handler: Handler.Listen for it while an open request to the
        # first session waits for an acceptor; its own open request goes to its own listener
        lscen("listen-second", [("l", [lop("listen", "l1", e="c"), A("a2", "c")]), ("o", [O("o1", "k1")]), ("p", [O("o2", "k2", "c")])], pair2=True),
        # two listeners on one Handler: the same session id opened on both sessions, each goes to its own listener
        lscen("twolisteners", [("f", [A("a1")]), ("g", [A("a2", "c")]), ("o", [O("o1", "k1")]), ("p", [O("o2", "k1", "c")])], pair2=True, listen2=True),
        # ... expectations for the same (from, sid) on both listeners: the session goes to the one of the session it came in on
        lscen("twolisteners-expect", [("e1", [X("x1", "k1")]), ("e2", [X("x3", "k1", e="c")]), ("o", [O("o1", "k1", "c")])], pair2=True, listen2=True),
        # ... closing one listener leaves the other one alone
        lscen("twolisteners-close", [("g", [A("a2", "c")]), ("l", [K("c1")]), ("o", [O("o1", "k1")]), ("p", [O("o2", "k2", "c")])], pair2=True, listen2=True),
        # ... an unaccepted session waits on each serve loop; one listener is closed; the first session still answers
        lscen("twolisteners-pending", [("o", [O("o1", "k1")]), ("p", [O("o2", "k2", "c")]), ("x", [K("c2", "c")]), ("y", [lop("ping", "p1")])], pair2=True, listen2=True),
    ]
    for i, s in enumerate(out):
        s["name"] = "%s#L%d" % (s["name"], i)
        # thorough: the scenarios added in session 4 (index >= 14) get 600 schedules each, the older ones 1000 (was 1500 for 14
        # scenarios; 26 scenarios now, the wall time of the tier is bounded)
        s["maxruns"], s["maxpre"] = (mr if runs or tier != "thorough" else (1000 if i < 14 else 600)), mp
    return out


def validate_listen(ctx, trace, timeout=1200):
    r = ctx.tlc("TrIBBListen", LISTEN_TR_CFG, files={"trace.ndjson": trace}, workers=1, timeout=timeout, xss=True, deque=True, name="TrIBBListen")
    rejected = {}
    body = r.printed("REJECTED")
    if body:
        for m in re.finditer(r"<<(\d+),\s*(\d+)>>", body[-1]):
            rejected[int(m.group(1))] = int(m.group(2))
    if not rejected and (r.rc != 0 or r.errors):
        raise verif.Undecided("listener trace validation failed to run:\n" + r.out[-6000:])
    return rejected, r


def listen_describe(ev, trace=None):
    k = ev.get("ev") if ev else None
    if k == "stuck":
        srv = ev.get("serving")
        inside = [e for e in sorted(srv) if srv[e]] if isinstance(srv, dict) else (["b"] if srv else [])
        return ("permanent stall at the accepting side of an in-band bytestream: every goroutine is blocked, %s and these calls are waiting "
                "although nothing the application or the peer still owes could end the wait: %s (%s)" % (
                    ("the serve loop of session %s is inside the open handler" % " and ".join(inside)) if inside else "the serve loops are reading",
                    json.dumps(ev.get("blocked")), ev.get("status")))
    if k == "panic":
        return "ibb listener code panicked in %s: %s" % (ev.get("in"), ev.get("what"))
    if k == "expect_ret":
        return "Listener.Expect call %s returned %s (session %s), which IBBListen.tla does not allow in this state" % (ev.get("c"), ev.get("out"), ev.get("key"))
    if k == "accept_ret":
        return "Listener.Accept call %s returned %s (session %s), which IBBListen.tla does not allow in this state" % (ev.get("c"), ev.get("out"), ev.get("key"))
    if k == "req_ret":
        return "request %s of the peer (Open / unrelated request) returned %s, which is not the outcome of its own reply or context" % (ev.get("c"), ev.get("out"))
    if k == "reply":
        return "the open request %s was answered with %s %s, which the state of the listener does not allow (accepted without a taker / refused with one)" % (ev.get("c"), ev.get("res"), ev.get("cond"))
    if k == "serve_ret":
        return "the serve loop of endpoint %s ended (%s) while handling an open request" % (ev.get("e"), ev.get("err"))
    if k in ("lclose_call", "lclose_ret"):
        return "Listener.Close call %s: %s is not allowed by IBBListen.tla in this state" % (ev.get("c"), k)
    if k in ("listen_call", "listen_ret"):
        return "Handler.Listen call %s: %s (%s) is not allowed by IBBListen.tla in this state" % (ev.get("c"), k, "a listener, the same as before" if ev.get("ok", True) else "no listener, or another one than the session already had")
    if k == "end":
        return "at the end of the run (every caller gone, a late Accept supplied, the listener closed) a call has not returned or a request was never handled"
    return "listener event %s is not allowed by IBBListen.tla" % json.dumps(ev)[:200]


def run_listen_part(ctx, tag, runs=None, case=None):
    """pipelines B/C of the accepting side: explore the listener scenarios on the real code, validate every distinct trace
    against TrIBBListen.tla.  Returns (rejected, traces-by-number, meta, driver summary, TLC result)."""
    scen = [case["scenario"]] if case else listen_scenarios(ctx.tier, runs)
    files, summ = run_driver(ctx, scen, tag, shards=min(max(2, verif.NCPU // 2 if ctx.tier != "thorough" else verif.NCPU - 3), len(scen)))
    tr, meta = merge_traces(ctx, files, "ibb-%s-trace.ndjson" % tag)
    rej, r = validate_listen(ctx, tr)
    trs = verif.split_traces(verif.read_ndjson(tr)) if rej else {}
    return rej, trs, meta, summ, r, tr


_CONFIRM = [0]


def confirm_stall(ctx, sc, ev):
    """A `stuck` state (every goroutine blocked, judged illegitimate by the specification) is reported only if the SAME
    schedule (scenario + choices) ends in a rejected `stuck` state again.  The scheduler recognises "everybody is blocked" by
    polling goroutine wait states; on a machine at load 300+ with the OOM killer at work that produced one `stuck` event
    that three replays of the same schedule did not reproduce (DESIGN 10.4, lesson 6: an unreproduced stall is a note, never
    a verdict).  A genuine stall is a property of the schedule and comes back.  Up to three re-runs; other rejected events
    (panic, wrong outcome, wrong byte) are facts recorded by the driver and need no confirmation."""
    if (ev or {}).get("ev") != "stuck" or not sc.get("sched") or getattr(ctx, "replay", None):
        return True
    listen = sc.get("mode") == "listen"
    for _ in range(3):
        _CONFIRM[0] += 1
        tag = "confirm%d" % _CONFIRM[0]
        files, _ = run_driver(ctx, [sc], tag, shards=1)
        tr, _m = merge_traces(ctx, files, "ibb-%s-trace.ndjson" % tag)
        rej, _r = validate_listen(ctx, tr) if listen else validate(ctx, tr)
        if rej:
            return True      # the same schedule is rejected again (at the stuck state or at another event)
    ctx.notes.append("unreproduced stall (not reported): scenario %s choices %s: the recorded run ended with every goroutine blocked (%s), three re-runs of "
                     "the same schedule were accepted" % (sc.get("name"), sc.get("choices"), (ev or {}).get("status")))
    ctx.log("unreproduced stall in %s (choices %s): note, not a verdict" % (sc.get("name"), sc.get("choices")))
    return False


def report_listen(ctx, rej, trs, meta, classes=None):
    """one violation per (scenario family, rejected event kind); a `stuck` class is reported with its first schedule that
    reproduces (confirm_stall)"""
    classes = classes if classes is not None else {}
    tried = {}
    for t, hw in sorted(rej.items()):
        ev = [e for e in trs[t] if e["_line"] == hw]
        ev = ev[0] if ev else None
        key = "%s/%s" % (meta[t]["scenario"]["name"].split("#")[0], (ev or {}).get("ev"))
        classes[key] = classes.get(key, 0) + 1
        if tried.get(key, 0) < 0 or tried.get(key, 0) >= 2:
            continue
        sc = dict(meta[t]["scenario"])
        sc["choices"] = meta[t].get("choices") or []
        if not confirm_stall(ctx, sc, ev):
            tried[key] = tried.get(key, 0) + 1
            continue
        tried[key] = -1
        ctx.violation("%s [ibb listener scenario %s]" % (listen_describe(ev), sc["name"]),
                      {"family": "ibb", "scenario": sc, "choices": sc["choices"], "rejected_line": hw, "rejected_event": ev,
                       "trace": [{k: v for k, v in e.items() if k not in ("_line", "status")} for e in trs[t]][-120:]})
    return classes


def listen_selftest(ctx, trace, meta):
    """binding self-test of the listener traces: corrupt an accepted take-over trace (the Expect that took over never
    returns and the serve loop is stuck in the handler; the superseded call gets the session; an Open succeeds without a
    reply): TLC must reject each"""
    trs = verif.split_traces(verif.read_ndjson(trace))
    good = [t for t, tr in trs.items() if meta[t]["scenario"]["name"].startswith("takeover#")
            and [e.get("ev") for e in tr].count("expect_ret") == 2 and not any(e.get("ev") == "stuck" for e in tr)
            and any(e.get("ev") == "expect_ret" and e.get("out") == "stream" for e in tr)
            and any(e.get("ev") == "expect_ret" and e.get("out") == "ctx" for e in tr)]
    if not good:
        raise verif.Undecided("listener binding self-test: no suitable accepted trace")
    base = [{k: v for k, v in e.items() if k != "_line"} for e in trs[good[0]]]
    muts = []
    # 1. the call that took over is left waiting, the serve loop stays in the handler
    i = [k for k, e in enumerate(base) if e.get("ev") == "deliver"][0]
    win = [e for e in base if e.get("ev") == "expect_ret" and e.get("out") == "stream"][0]
    pre = [e for e in base[:i + 1] if not (e.get("ev") == "expect_ret" and e.get("out") == "stream")]
    pending = [{"p": "o", "c": "o1", "in": "open"}, {"p": "e", "c": win["c"], "in": "expect"}]
    m = pre + [{"ev": "stuck", "blocked": pending, "serving": {"b": True, "c": False}, "status": ""}, {"ev": "end"}]
    if not any(e.get("ev") == "expect_ret" and e.get("out") == "ctx" for e in pre):
        m = None
    if m:
        muts.append(("the Expect that took over never gets the session", m))
    # 2. a call returns its context's error although nobody cancelled it and nobody has taken over yet
    m = [dict(e) for e in base]
    lose = [k for k, e in enumerate(m) if e.get("ev") == "expect_ret" and e.get("out") == "ctx"][0]
    calls = [k for k, e in enumerate(m) if e.get("ev") == "expect_call"]
    e = m.pop(lose)
    second = [k for k in calls if m[k]["c"] != e["c"]][0]
    if second > [k for k in calls if m[k]["c"] == e["c"]][0]:
        m.insert(second, e)
        muts.append(("Expect returned a context error before the take-over", m))
    # 3. Open returns success before any reply
    m = [dict(e) for e in base if e.get("ev") != "reply"]
    muts.append(("reply to the open request removed", m))
    # 4. the session handed over is another one
    m = [dict(e) for e in base]
    for e in m:
        if e.get("ev") == "expect_ret" and e.get("out") == "stream":
            e["key"] = ":k2"
    muts.append(("Expect returned another session", m))
    # --- the Close / two-session dimension
    def pick(prefix, pred):
        for t, tr in sorted(trs.items()):
            if meta[t]["scenario"]["name"].startswith(prefix + "#") and not any(e.get("ev") == "stuck" for e in tr) and pred(tr):
                return [{k: v for k, v in e.items() if k != "_line"} for e in tr]
        return None
    # 5./6. a pending Accept ended by Close: Accept reports the closed listener before anybody closed it; Close never returns
    b2 = pick("lclose-accept", lambda tr: any(e.get("ev") == "accept_ret" and e.get("out") == "closed" for e in tr)
              and [e.get("ev") for e in tr].index("accept_call") < [e.get("ev") for e in tr].index("lclose_call"))
    if b2:
        m = [dict(e) for e in b2]
        i = [k for k, e in enumerate(m) if e.get("ev") == "accept_ret"][0]
        j = [k for k, e in enumerate(m) if e.get("ev") == "lclose_call"][0]
        if i > j:
            e = m.pop(i)
            m.insert(j, e)
            muts.append(("Accept returned 'closed listener' before Close was called", m))
        cl = [e for e in b2 if e.get("ev") == "lclose_call"][0]
        m = [dict(e) for e in b2 if e.get("ev") not in ("lclose_ret", "end")]
        m += [{"ev": "stuck", "blocked": [{"p": "l", "c": cl["c"], "in": "lclose", "l": cl["l"]}], "serving": {"b": False, "c": False}, "status": ""}, {"ev": "end"}]
        muts.append(("Listener.Close never returns", m))
    # 7. two sessions on one Handler: the Accept of the second session's listener returns the session opened on the first
    b3 = pick("twolisteners", lambda tr: sum(1 for e in tr if e.get("ev") == "accept_ret" and e.get("out") == "stream") == 2)
    if b3:
        m = [dict(e) for e in b3]
        rets = [k for k, e in enumerate(m) if e.get("ev") == "accept_ret"]
        first, second = m[rets[0]], m[rets[1]]
        dl = [e["e"] for e in m[:rets[0]] if e.get("ev") == "deliver"]
        calls = {e["c"]: e["l"] for e in m if e.get("ev") == "accept_call"}
        # the first Accept to return comes back while only the OTHER session's open request has been delivered
        if len(dl) == 1 and calls.get(first["c"]) == dl[0]:
            first["c"], second["c"] = second["c"], first["c"]
            muts.append(("Accept on one session's listener got the stream opened on the other session", m))
    if not b2:
        raise verif.Undecided("listener binding self-test: no accepted trace of a pending Accept ended by Close")
    p = ctx.path("listen-selftest.ndjson")
    line = 0
    with open(p, "w") as f:
        for k, (_, mm) in enumerate([("unchanged", base)] + muts):
            mm[0] = dict(mm[0])
            mm[0]["t"] = k + 1
            mm[0]["end"] = line + len(mm) + 1
            for e in mm:
                f.write(json.dumps(e) + "\n")
            line += len(mm)
    rej, _ = validate_listen(ctx, p)
    if 1 in rej:
        raise verif.Undecided("listener binding self-test: unchanged trace rejected")
    missed = [muts[k - 2][0] for k in range(2, 2 + len(muts)) if k not in rej]
    if missed:
        raise verif.Undecided("listener binding self-test: corrupted traces ACCEPTED: %s" % missed)
    return len(muts)


# ----------------------------------------------------------------------------------------- running

def run_driver(ctx, scen, tag, shards=None, maxpre=2, maxruns=0, timeout=1500):
    b = ctx.go_build("ibb")
    shards = shards or min(verif.NCPU, max(1, len(scen)))
    sf = ctx.path("ibb-%s-scen.ndjson" % tag)
    with open(sf, "w") as f:
        for s in scen:
            f.write(json.dumps(s) + "\n")
    procs = []
    for i in range(shards):
        tr = ctx.path("ibb-%s-trace-%d.ndjson" % (tag, i))
        env = dict(verif.GOENV, IBB_MAXPRE=str(maxpre), IBB_MAXRUNS=str(maxruns), IBB_SHARD="%d/%d" % (i, shards),
                   VERIF_SEED=str(ctx.seed), GOMAXPROCS="2")
        procs.append((tr, subprocess.Popen([b, "run", sf, tr], env=env, cwd=ctx.scratch, stdout=subprocess.PIPE, stderr=subprocess.STDOUT, text=True)))
    summ = {"traces": 0, "events": 0, "evaluations": 0, "distinct": 0, "samples": [], "stuck": 0, "hangs": 0, "runaway": 0}
    files = []
    for tr, p in procs:
        try:
            out, _ = p.communicate(timeout=timeout)
        except subprocess.TimeoutExpired:
            p.kill()
            raise verif.Undecided("ibb driver timed out")
        if p.returncode != 0 or "SUMMARY " not in out:
            raise verif.Undecided("ibb driver failed (exit %s):\n%s" % (p.returncode, out[-3000:]))
        s = json.loads(out[out.rindex("SUMMARY ") + 8:])
        for k in ("traces", "events", "evaluations", "distinct"):
            summ[k] += s[k]
        for k in ("stuck", "hangs", "runaway"):
            summ[k] += s.get("extra", {}).get(k, 0)
        summ["samples"] += s["samples"][:1]
        files.append(tr)
    return files, summ


def merge_traces(ctx, files, name):
    dst = ctx.path(name)
    meta = {}
    line = 0
    t = 0
    with open(dst, "w") as out:
        for f in files:
            m = {x["t"]: x["meta"] for x in verif.read_ndjson(f + ".meta")}
            base = line
            for e in verif.read_ndjson(f):
                if e["ev"] == "reset":
                    t += 1
                    meta[t] = m[e["t"]]
                    e["t"] = t
                    e["end"] = e["end"] + base
                out.write(json.dumps(e) + "\n")
                line += 1
    return dst, meta


def validate(ctx, trace, dev=(), timeout=2400):
    r = ctx.tlc("TrIBB", TR_CFG % verif.tla_value(set(dev)), files={"trace.ndjson": trace}, workers=1, timeout=timeout, xss=True, deque=True)
    rejected = {}
    body = r.printed("REJECTED")
    if body:
        for m in re.finditer(r"<<(\d+),\s*(\d+)>>", body[-1]):
            rejected[int(m.group(1))] = int(m.group(2))
    if not rejected and (r.rc != 0 or r.errors):
        raise verif.Undecided("trace validation failed to run:\n" + r.out[-6000:])
    return rejected, r


# ----------------------------------------------------------------------------------------- C06 (IBB part)
C06_EVENTS = ("stuck", "panic", "open_ret", "close_ret", "serve_ret", "accept")


def c06_describe(ev):
    k = ev.get("ev") if ev else None
    if k == "stuck":
        return "permanent stall: every goroutine is blocked while these IBB calls cannot legitimately wait: %s (%s)" % (json.dumps(ev.get("blocked")), ev.get("status"))
    if k == "panic":
        return "IBB code panicked in %s: %s" % (ev.get("in"), ev.get("what"))
    if k == "open_ret":
        return "ibb Open returned %s, which is not the outcome of its own reply" % ("success" if ev.get("ok") else "an error")
    if k == "serve_ret":
        return "the serve loop of endpoint %s ended (%s) while handling in-band bytestream stanzas" % (ev.get("e"), ev.get("err"))
    return "IBB call outcome %s is not allowed by IBB.tla" % json.dumps(ev)[:200]


def _bg(fn, *a, **kw):
    """run fn in a thread; .join() re-raises"""
    import threading
    box = {}

    def go():
        try:
            box["r"] = fn(*a, **kw)
        except BaseException as e:      # re-raised by join
            box["e"] = e
    th = threading.Thread(target=go)
    th.start()

    def join():
        th.join()
        if "e" in box:
            raise box["e"]
        return box["r"]
    return join


def c06_design_checks(ctx):
    w = max(2, verif.NCPU // 4)
    a = ctx.model_check("MCIBB", mc_cfg(maxw="WOneWay2", inj=0, props="INVARIANT C06_IBBNoLostWakeup\nINVARIANT C15_OpenOnlyIfAccepted"),
                        ["C06_IBBNoLostWakeup", "C15_OpenOnlyIfAccepted"], name="MCIBB_c06", workers=w, timeout=900)
    lv = ctx.model_check("MCIBB", mc_cfg(maxw="WLive", inj=0, spec="FairSpec", props="PROPERTY C06_IBBReadReturns"), ["C06_IBBReadReturns"],
                         name="MCIBB_c06live", workers=w, timeout=900)
    r = ctx.tlc("MCIBB", mc_cfg(maxw="WLive", inj=0, spec="FairSpec", props="PROPERTY C06_IBBReadReturns", dev='{"LostWakeup"}'), name="MCIBB_c06dev", workers=2, timeout=600)
    if "Temporal property C06_IBBReadReturns was violated" not in r.out and "<temporal>" not in r.violated:
        raise verif.Undecided("IBB liveness check is vacuous: the lost wake-up deviation is not detected")
    r = ctx.tlc("MCIBB", mc_cfg(maxw="WOneWay2", inj=0, props="INVARIANT C06_IBBNoLostWakeup", dev='{"LostWakeup"}'), name="MCIBB_c06dev2", workers=2, timeout=600)
    if "C06_IBBNoLostWakeup" not in r.violated:
        raise verif.Undecided("IBB design check is vacuous: the lost wake-up deviation does not violate C06_IBBNoLostWakeup")
    return a, lv


def run_c06_part(ctx):
    """IBB part of C06: ibb.Handler.Open, Conn.Close, Conn.Read against the serve loop (handlePayload, the peer's close), and the
    accepting side's rendezvous (Listener.Accept / Expect / Close against handleOpen): one outcome per call, no panic, no permanent
    stall in every explored interleaving.  Pipeline A: the wait / wake-up protocol of IBB.tla (invariant C15_NoLostWakeup =
    C06_IBBNoLostWakeup, liveness C06_IBBReadReturns under fairness, both shown to fail under the LostWakeup deviation) and the
    rendezvous of IBBListen.tla (take-over, stale entries, hand-over once, no stall, no panic; one deviation per invariant).
    Pipeline C: the scheduler-driven schedules of harness/cmd/ibb validated against TrIBB.tla / TrIBBListen.tla.  Violations are
    reported through ctx (property of the calling check); rejections that concern only C15 (packet numbering, content) are
    counted, not reported.  Returns a coverage dict."""
    case = None
    if getattr(ctx, "replay", None):
        case = json.load(open(ctx.replay))["case"]
        if case.get("family") != "ibb":
            return {}
    ctx.go_build("ibb")
    lcase = case if case and case["scenario"].get("mode") == "listen" else None
    quick = ctx.tier != "thorough"
    jl = _bg(run_listen_part, ctx, "c06listen", 60 if quick else None, lcase) if (lcase or not case) else None
    jd = None
    if not lcase:
        scen = [case["scenario"]] if case else sched_scenarios(ctx.tier, runs=None if ctx.tier == "thorough" else 60)
        jd = _bg(run_driver, ctx, scen, "c06ibb", shards=min(verif.NCPU, len(scen)))
    jm = _bg(c06_design_checks, ctx)
    jlm = _bg(listen_design_checks, ctx, max(2, verif.NCPU // 4))
    cov = {}
    classes, other, tried = {}, 0, {}
    try:
        if jd:
            files, summ = jd()
            tr, meta = merge_traces(ctx, files, "ibb-c06-trace.ndjson")
            rej, r = validate(ctx, tr)
            trs = verif.split_traces(verif.read_ndjson(tr)) if rej else {}
            for t, hw in sorted(rej.items()):
                ev = [e for e in trs[t] if e["_line"] == hw]
                ev = ev[0] if ev else None
                if (ev or {}).get("ev") not in C06_EVENTS:
                    other += 1
                    continue
                key = "%s/%s" % (meta[t]["scenario"]["name"].split("#")[0], ev.get("ev"))
                classes[key] = classes.get(key, 0) + 1
                if tried.get(key, 0) < 0 or tried.get(key, 0) >= 2:
                    continue
                sc = dict(meta[t]["scenario"])
                sc["choices"] = meta[t].get("choices") or []
                if not confirm_stall(ctx, sc, ev):
                    tried[key] = tried.get(key, 0) + 1
                    continue
                tried[key] = -1
                ctx.violation("%s [ibb scenario %s, %s carrier]" % (c06_describe(ev), sc["name"], sc["carrier"]),
                              {"family": "ibb", "scenario": sc, "choices": sc["choices"], "rejected_line": hw, "rejected_event": ev,
                               "trace": [{k: v for k, v in e.items() if k != "_line"} for e in trs[t]][-120:]})
            if summ["runaway"]:
                raise verif.Undecided("ibb schedules that did not end (runaway): %d" % summ["runaway"])
            ctx.log("ibb part: %d schedules (%d distinct traces, %d events) validated in %.1fs: %d rejected for C06 reasons %s, %d for C15-only reasons" % (
                summ["evaluations"], summ["traces"], summ["events"], r.wall, sum(classes.values()), json.dumps(classes, sort_keys=True), other))
            cov.update({"ibb_schedules_run": summ["evaluations"], "ibb_traces_validated": summ["traces"], "ibb_trace_events": summ["events"],
                        "ibb_rejected_c06": sum(classes.values()), "ibb_rejected_c15_only": other})
        if jl:
            lrej, ltrs, lmeta, lsumm, lr, ltr = jl()
            lclasses = report_listen(ctx, lrej, ltrs, lmeta)
            if lsumm["runaway"]:
                raise verif.Undecided("ibb listener schedules that did not end (runaway): %d" % lsumm["runaway"])
            nself = listen_selftest(ctx, ltr, lmeta) if not lrej and not lcase else 0
            ctx.log("ibb listener part: %d schedules (%d distinct traces, %d events) validated in %.1fs: %d rejected %s" % (
                lsumm["evaluations"], lsumm["traces"], lsumm["events"], lr.wall, len(lrej), json.dumps(lclasses, sort_keys=True)))
            cov.update({"ibb_listener_schedules_run": lsumm["evaluations"], "ibb_listener_traces_validated": lsumm["traces"],
                        "ibb_listener_trace_events": lsumm["events"], "ibb_listener_rejected": len(lrej), "ibb_listener_selftest_mutants_rejected": nself})
    finally:
        a, lv = jm()
        lcov = jlm()
    cov.update(lcov)
    cov.update({"ibb_states": a.distinct, "ibb_liveness_states": lv.distinct,
                "ibb_rule": "schedules of ibb Open/Accept, Read, Write/Flush, Close at both ends against the two real serve loops (gates: read.wait, payload.signal, open.reply, close.claim hooks, transport reads and writes), and of Handler.Listen / Listener.Accept / Expect (take-over, cancellation before / while / after the open request, two session ids, a session that is never opened, a session id that is open already) / Close (with a pending Accept / session / Expect, twice, before Accept / Expect) against real open requests, on one and on two served sessions that share one Handler, with the environment escalation callers-go-away, late Accept, listener Close; pre-emption bounded depth-first enumeration"})
    return cov
