"""C05 - each transmit call puts exactly its own element on the wire, whole.
Sequential part: tla/Transmit.tla (reference function Complete, vectors emitted by TLC, replayed on
the real session through every argument form).  Concurrent part: tla/Output.tla (C05_Contiguous,
C05_WritesUnderLock, one complete pure element per successful call) via scheduler exploration."""
import json, os, shutil
import verif
import outcommon as oc
import c10


def vectors(ctx):
    r = ctx.tlc("Transmit", "INIT Init\nNEXT Next\nINVARIANT C05_Complete_WellDefined\n", workers=1, timeout=300)
    if not r.ok:
        raise verif.Undecided("Transmit.tla failed:\n" + r.out[-2000:])
    vec = ctx.path("transmit_vectors.ndjson")
    shutil.copy(os.path.join(r.dir, "transmit_vectors.ndjson"), vec)
    b = ctx.go_build("output")
    out = ctx.run_driver(b, ["vectors", vec], timeout=900)
    summ = json.loads(out[out.rindex("SUMMARY ") + 8:])
    return r, summ


def classify(m):
    """known-finding classes for vector mismatches (match predicates over the input vector)"""
    v = m["vector"]["in"]
    return v


def run(ctx):
    # sequential part
    if ctx.replay and json.load(open(ctx.replay))["case"].get("family") == "transmit-vector":
        case = json.load(open(ctx.replay))["case"]
        vec = ctx.path("one.ndjson")
        open(vec, "w").write(json.dumps(case["vector"]) + "\n")
        b = ctx.go_build("output")
        out = ctx.run_driver(b, ["vectors", vec])
        summ = json.loads(out[out.rindex("SUMMARY ") + 8:])
        tl = None
    else:
        tl, summ = vectors(ctx)
    ctx.log("Complete(): %d vectors replayed through the real session, %d mismatches" % (summ["evaluations"], len(summ["mismatches"])))
    fresh = []
    for m in summ["mismatches"]:
        kf = ctx.match_finding("transmit-vector", m["vector"]["in"], m["what"])
        if kf:
            ctx.known_finding(kf)
        else:
            fresh.append(m)
    for m in fresh[:40]:
        ctx.violation("transmit call does not put the expected element on the wire: %s: %s" % (json.dumps(m["vector"]["in"]), m["what"]),
                      {"family": "transmit-vector", "vector": m["vector"], "observed": m["observed"], "what": m["what"]})
    if ctx.replay and tl is None:
        ctx.write_evidence("model_checking", {"evaluations": summ["evaluations"], "distinct_nontrivial": max(2, summ["distinct"]), "samples": summ["samples"][:1]})
        return
    # binding self-test of the vector oracle: a corrupted expectation must be noticed
    bad = ctx.path("bad.ndjson")
    v0 = json.loads(open(ctx.path("transmit_vectors.ndjson")).readline())
    v0["exp"]["id"] = ["absent"] if v0["exp"]["id"] != ["absent"] else ["fresh"]
    open(bad, "w").write(json.dumps(v0) + "\n")
    o = ctx.run_driver(ctx.go_build("output"), ["vectors", bad])
    if not json.loads(o[o.rindex("SUMMARY ") + 8:])["mismatches"]:
        raise verif.Undecided("binding self-test: corrupted expectation accepted")
    # concurrent part (shares the machinery of C10, transmit-focused scenarios)
    saved = ctx.write_evidence
    cov = {}
    ctx.write_evidence = lambda level, coverage, assumptions=None: cov.update(coverage)
    c10.run(ctx, focus="tx")
    ctx.write_evidence = saved
    cov.update({
        "vector_states": tl.distinct, "vectors_replayed": summ["evaluations"], "vector_mismatches": len(summ["mismatches"]),
        "vector_mismatches_known_findings": len(summ["mismatches"]) - len(fresh),
        "vector_classes": summ["distinct"], "vector_samples": summ["samples"][:1],
        "rule": cov.get("rule", "") + "; vectors = every element shape (name x namespace x id x from x nested stanza-named child; on one session per kind also: namespaced child elements at depth 2 and 3 whose start tokens carry the namespace as Name.Space / as an xmlns attribute / as both, as an xml.Decoder delivers them - the wire must re-parse to the same elements) x every argument form (token reader, +start element, xml.Marshaler, xmlstream.Marshaler, xmlstream.WriterTo, each also with a start element, token writer, token writer flushing inside the element) x every session the call can be made on: kind (c2s, s2s, WebSocket, component) x role (initiated, received) x construction (the kind's own constructor, xmpp.NewSession / ReceiveSession + the kind's library Negotiator, a Negotiator of the application) - 19 real session constructions; the stream's content namespace is computed by the specification from the kind alone (Transmit.tla!ContentNS: jabber:client for c2s and WebSocket - RFC 7395: the framing namespace of <open/> is no content namespace and every frame is a document of its own, so the stanza names jabber:client itself -, jabber:server for s2s, jabber:component:accept for components), expectation computed by TLC from Transmit.tla!Complete",
        "vector_sessions": summ.get("extra", {}).get("sessions", {}),
        "exhaustive": True,
    })
    cov["traces_validated_against_impl"] = cov.get("traces_validated_against_impl", 0) + summ["evaluations"]
    ctx.write_evidence("model_checking", cov, assumptions=[
        "gate granularity for the concurrent part (see C10)", "attribute order / quoting / prefix spelling are not compared (elements are re-parsed)"])
