"""Shared pipeline of the Negotiation family (C01, C02 state-machine part, C04, C12c)."""
import json, os, shutil
import verif

MC_CFG = '''CONSTANTS
  Pool <- %(pool)s
  InitBitsSet <- InitBitsAll
  MaxCfg = %(maxcfg)d
  MaxRounds = %(rounds)d
  MaxList = %(maxlist)d
  Roles = {"init","recv"}
  Dev = {}
SPECIFICATION Spec
VIEW View
INVARIANT C01_Eligible
INVARIANT C01_ForcedOnlyTLS
INVARIANT C01_ReadyComplete
INVARIANT C01_OkMeansReady
INVARIANT C02_NoReadyInClear
INVARIANT C04_NoSwallow
INVARIANT C04_ErrNotReady
PROPERTY C01_BitsMonotone
PROPERTY C12_EstabStable
CHECK_DEADLOCK FALSE
'''

TR_CONSTS = '''CONSTANTS
  Pool <- PoolThorough
  InitBitsSet <- InitBitsAll
  MaxCfg = 4
  MaxRounds = 9
  MaxList = 9
  Roles = {"init","recv"}
  Dev = %(dev)s
'''


def emit_pool(ctx):
    r = ctx.tlc("EmitNegPool", "INIT Init\nNEXT Next\n", workers=1, timeout=120)
    if not r.ok:
        raise verif.Undecided("EmitNegPool failed:\n" + r.out[-2000:])
    out = {}
    for n in ("pool_quick.json", "pool_thorough.json"):
        dst = ctx.path(n)
        shutil.copy(os.path.join(r.dir, n), dst)
        out[n] = dst
    return out


def validate(ctx, trace, dev=()):
    cfg = TR_CONSTS % {"dev": verif.tla_value(set(dev))} + "SPECIFICATION TSpec\nCONSTRAINT HW\nPOSTCONDITION Accepted\nCHECK_DEADLOCK FALSE\n"
    r = ctx.tlc("TrNegotiation", cfg, files={"trace.ndjson": trace}, workers=1, timeout=1200, xss=True, name="TrNegotiation")
    import re
    rejected = {}
    body = r.printed("REJECTED")
    if body:
        for m in re.finditer(r"<<(\d+),\s*(\d+)>>", body[-1]):
            rejected[int(m.group(1))] = int(m.group(2))
    if not rejected and (r.rc != 0 or r.errors):
        raise verif.Undecided("trace validation failed to run:\n" + r.out[-3000:])
    return rejected, r


def run_scenarios(ctx, pool, n=None, scen_file="-", faults=False, reps=1, name="trace"):
    b = ctx.go_build("neg")
    tr = ctx.path(name + ".ndjson")
    env = {"NEG_FAULTS": "1" if faults else "0", "NEG_REPS": str(reps)}
    if n:
        env["NEG_N"] = str(n)
    out = ctx.run_driver(b, ["run", pool, scen_file, tr], env=env, timeout=1500)
    summ = json.loads(out[out.rindex("SUMMARY ") + 8:])
    return tr, summ


def report_rejections(ctx, trace, rejected, what="negotiation trace not a behaviour of Negotiation.tla"):
    evs = verif.read_ndjson(trace)
    trs = verif.split_traces(evs)
    meta = {m["t"]: m["meta"] for m in verif.read_ndjson(trace + ".meta")}
    for t, hw in sorted(rejected.items())[:50]:
        tr = trs[t]
        rej = [e for e in tr if e["_line"] == hw]
        ctx.violation("%s: scenario %s rejected at event %s" % (what, json.dumps(meta.get(t))[:300], json.dumps(rej[0] if rej else None)[:300]),
                      {"family": "neg", "scenario": meta.get(t), "trace": tr, "rejected_line": hw,
                       "rejected_event": rej[0] if rej else None})


def selftest_binding(ctx, trace):
    """The binding is demonstrated, not assumed: take accepted traces, (a) flip the outcome of
    one negret / the ok of the return, (b) drop one negotiate event; TLC must reject both."""
    evs = verif.read_ndjson(trace)
    trs = verif.split_traces(evs)
    good = [t for t, tr in trs.items() if any(e["ev"] == "negotiate" for e in tr) and tr[-1].get("ok") is True]
    if not good:
        raise verif.Undecided("binding self-test: no successful trace with a negotiate event")
    src = trs[good[0]]
    def strip(e):
        return {k: v for k, v in e.items() if k != "_line"}
    base = [strip(e) for e in src]
    mutants = []
    m1 = [dict(e) for e in base]
    m1[-1]["ok"] = False
    mutants.append(("return.ok flipped", m1))
    m2 = [dict(e) for e in base]
    i = [k for k, e in enumerate(m2) if e["ev"] == "negotiate"][0]
    del m2[i]
    mutants.append(("negotiate event removed", m2))
    m3 = [dict(e) for e in base]
    i = [k for k, e in enumerate(m3) if e["ev"] == "negotiate"][0]
    m3[i]["bits"] = sorted(set(m3[i]["bits"]) ^ {"Authn"})
    mutants.append(("negotiate.bits corrupted", m3))
    p = ctx.path("selftest.ndjson")
    line = 0
    with open(p, "w") as f:
        for k, (_, m) in enumerate([("unchanged", base)] + mutants):
            m[0]["t"] = k + 1
            m[0]["end"] = line + len(m) + 1
            for e in m:
                f.write(json.dumps(e) + "\n")
            line += len(m)
    rej, r = validate(ctx, p)
    if 1 in rej:
        raise verif.Undecided("binding self-test: the unchanged trace was rejected")
    missed = [mutants[k - 2][0] for k in range(2, 2 + len(mutants)) if k not in rej]
    if missed:
        raise verif.Undecided("binding self-test: corrupted traces ACCEPTED: %s" % missed)
    return len(mutants)
