"""Shared pipeline of the Negotiation family (C01, C02 state-machine part, C04, C12c)."""
import json, os, shutil
import verif

MC_CFG = '''CONSTANTS
  Pool <- %(pool)s
  InitBitsSet <- InitBitsAll
  MaxCfg = %(maxcfg)d
  MaxRounds = %(rounds)d
  MaxList = %(maxlist)d
  Roles = {"init","recv"}
  Dev = {}
SPECIFICATION Spec
VIEW View
INVARIANT C01_Eligible
INVARIANT C01_ForcedOnlyTLS
INVARIANT C01_ReadyComplete
INVARIANT C01_OkMeansReady
INVARIANT C02_NoReadyInClear
INVARIANT C04_NoSwallow
INVARIANT C04_ErrNotReady
PROPERTY C01_BitsMonotone
PROPERTY C12_EstabStable
CHECK_DEADLOCK FALSE
'''

# code-like deviations of Negotiation.tla -> the design check must reject each (non-vacuity), in the smallest pool
NEG_DEVS = {"SwallowVoluntaryError": "a voluntary feature's Negotiate error is overwritten by the next feature",
            "SwallowListError": "the error of a feature's List step is overwritten (by the result of closing the writer), the partial list stands",
            "SwallowParseError": "the error of a feature's Parse step is dropped, the entry stands"}


def nonvacuity(ctx, pool_exec=None):
    """Each deviation switched on must break the design check (TLC must FAIL)."""
    def one(d):
        cfg = (MC_CFG % dict(pool="PoolTiny", maxcfg=2, rounds=2, maxlist=1)).replace("Dev = {}", 'Dev = {"%s"}' % d)
        cfg = "\n".join(l for l in cfg.split("\n") if not l.startswith(("INVARIANT", "PROPERTY"))) + "INVARIANT C04_NoSwallow\n"
        r = ctx.tlc("MCNegotiation", cfg, name="MCNegotiation_" + d, workers=2, timeout=600)
        if r.rc == 0 or "C04_NoSwallow" not in r.out:
            raise verif.Undecided("design check is vacuous: deviation %s of Negotiation.tla does not break C04_NoSwallow" % d)
        return d
    if pool_exec is None:
        return [one(d) for d in NEG_DEVS]
    return [pool_exec.submit(one, d) for d in NEG_DEVS]


TR_CONSTS = '''CONSTANTS
  Pool <- PoolThorough
  InitBitsSet <- InitBitsAll
  MaxCfg = 4
  MaxRounds = 9
  MaxList = 9
  Roles = {"init","recv"}
  Dev = %(dev)s
'''


def emit_pool(ctx):
    r = ctx.tlc("EmitNegPool", "INIT Init\nNEXT Next\n", workers=1, timeout=120)
    if not r.ok:
        raise verif.Undecided("EmitNegPool failed:\n" + r.out[-2000:])
    out = {}
    for n in ("pool_quick.json", "pool_thorough.json"):
        dst = ctx.path(n)
        shutil.copy(os.path.join(r.dir, n), dst)
        out[n] = dst
    return out


def validate(ctx, trace, dev=()):
    cfg = TR_CONSTS % {"dev": verif.tla_value(set(dev))} + "SPECIFICATION TSpec\nCONSTRAINT HW\nPOSTCONDITION Accepted\nCHECK_DEADLOCK FALSE\n"
    r = ctx.tlc("TrNegotiation", cfg, files={"trace.ndjson": trace}, workers=1, timeout=1200, xss=True, name="TrNegotiation")
    import re
    rejected = {}
    body = r.printed("REJECTED")
    if body:
        for m in re.finditer(r"<<(\d+),\s*(\d+)>>", body[-1]):
            rejected[int(m.group(1))] = int(m.group(2))
    if not rejected and (r.rc != 0 or r.errors):
        raise verif.Undecided("trace validation failed to run:\n" + r.out[-3000:])
    return rejected, r


def run_scenarios(ctx, pool, n=None, scen_file="-", faults=False, reps=1, name="trace"):
    b = ctx.go_build("neg")
    tr = ctx.path(name + ".ndjson")
    env = {"NEG_FAULTS": "1" if faults else "0", "NEG_REPS": str(reps)}
    if n:
        env["NEG_N"] = str(n)
    out = ctx.run_driver(b, ["run", pool, scen_file, tr], env=env, timeout=1500)
    summ = json.loads(out[out.rindex("SUMMARY ") + 8:])
    return tr, summ


def report_rejections(ctx, trace, rejected, what="negotiation trace not a behaviour of Negotiation.tla"):
    evs = verif.read_ndjson(trace)
    trs = verif.split_traces(evs)
    meta = {m["t"]: m["meta"] for m in verif.read_ndjson(trace + ".meta")}
    def rank(item):
        # the most telling rejections first: establishment reported as successful
        tr = trs[item[0]]
        return (0 if tr[-1].get("ok") is True else 1, item[0])
    for t, hw in sorted(rejected.items(), key=rank)[:50]:
        tr = trs[t]
        rej = [e for e in tr if e["_line"] == hw]
        hint = ""
        bad = [e for e in tr if e["_line"] < hw and e["ev"] in ("negret", "list", "parse") and e.get("ok") is False]
        if bad and not (rej and rej[0]["ev"] == "return" and rej[0].get("ok") is False):
            step = {"negret": "Negotiate", "list": "List", "parse": "Parse"}[bad[-1]["ev"]]
            hint = " [the %s step of feature %s had reported an error and establishment went on%s]" % (
                step, bad[-1]["f"], "; the call returned nil" if tr[-1].get("ok") is True else "")
        ctx.violation("%s: scenario %s rejected at event %s%s" % (what, json.dumps(meta.get(t))[:300], json.dumps(rej[0] if rej else None)[:300], hint),
                      {"family": "neg", "scenario": meta.get(t), "trace": tr, "rejected_line": hw,
                       "rejected_event": rej[0] if rej else None})


def selftest_binding(ctx, trace):
    """The binding is demonstrated, not assumed: take accepted traces, (a) flip the outcome of
    one negret / the ok of the return, (b) drop one negotiate event; TLC must reject both."""
    evs = verif.read_ndjson(trace)
    trs = verif.split_traces(evs)
    good = [t for t, tr in trs.items() if any(e["ev"] == "negotiate" for e in tr) and tr[-1].get("ok") is True
            and any(e["ev"] in ("list", "parse") for e in tr)]
    if not good:
        raise verif.Undecided("binding self-test: no successful trace with a negotiate event and a List / Parse step")
    src = trs[good[0]]
    def strip(e):
        return {k: v for k, v in e.items() if k != "_line"}
    base = [strip(e) for e in src]
    mutants = []
    m1 = [dict(e) for e in base]
    m1[-1]["ok"] = False
    mutants.append(("return.ok flipped", m1))
    m2 = [dict(e) for e in base]
    i = [k for k, e in enumerate(m2) if e["ev"] == "negotiate"][0]
    del m2[i]
    mutants.append(("negotiate event removed", m2))
    m3 = [dict(e) for e in base]
    i = [k for k, e in enumerate(m3) if e["ev"] == "negotiate"][0]
    m3[i]["bits"] = sorted(set(m3[i]["bits"]) ^ {"Authn"})
    mutants.append(("negotiate.bits corrupted", m3))
    m4 = [dict(e) for e in base]
    i = [k for k, e in enumerate(m4) if e["ev"] in ("list", "parse")][0]
    m4[i]["ok"] = False
    mutants.append(("a List / Parse step reports an error, establishment still succeeds", m4))
    p = ctx.path("selftest.ndjson")
    line = 0
    with open(p, "w") as f:
        for k, (_, m) in enumerate([("unchanged", base)] + mutants):
            m[0]["t"] = k + 1
            m[0]["end"] = line + len(m) + 1
            for e in m:
                f.write(json.dumps(e) + "\n")
            line += len(m)
    rej, r = validate(ctx, p)
    if 1 in rej:
        raise verif.Undecided("binding self-test: the unchanged trace was rejected")
    missed = [mutants[k - 2][0] for k in range(2, 2 + len(mutants)) if k not in rej]
    if missed:
        raise verif.Undecided("binding self-test: corrupted traces ACCEPTED: %s" % missed)
    return len(mutants)
