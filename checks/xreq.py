"""XREQ - growth beyond C01-C20: the one-shot request/response helpers (ping.Send, version.Get, xtime.Get, disco.GetInfo,
upload.GetSlot, carbons.Enable / Disable, roster.Set / Delete, blocklist.Add / Remove / Report, bookmarks.Publish / Delete,
pubsub.Publish / CreateNode / GetConfig / GetDefaultConfig / SetConfig / Delete, muc.GetConfig / SetConfig, bin.Get and their
...IQ variants) against tla/Request.tla; see checks/reqcommon.py.
`bin/check XREQ [--tier thorough] [--replay f]`."""
import reqcommon as rc


def run(ctx):
    cov = rc.run_part(ctx)
    cov["exhaustive"] = False
    ctx.write_evidence("model_checking", cov, assumptions=[
        "sessions are built with xmpp.NewSession and a trivial negotiator over an in-memory transport; the account is me@example.net/res on example.net",
        "one call and one peer item are in flight at a time: the scripted peer sends its next item when the serve loop asks for input and the call has "
        "settled (concurrency of requests, responses and cancellation is the subject of C06 / C07)",
        "the request on the wire and the value a call returns are compared in a symbolic form (element names, namespaces, attribute values and text "
        "that denote the arguments / the payload); attribute order, prefixes and white space are free",
        "error values are compared by class (nil / stanza error with condition and type / context error / other)",
        "a response that carries the request's id but comes from another sender may or may not be taken for the answer (as in Correlate.tla: the "
        "library correlates by id and stanza kind)",
        "a watchdog that fires is reported only when the stall reproduces in a second run",
    ])
