"""C10 - closing is idempotent, final and observable.
A: TLC design check of tla/Output.tla (closers, senders, serve shutdown, error path).
B/C: systematic schedule exploration of the REAL session under the single-runner scheduler
(gates: verifYield hooks + transport reads/writes), every schedule's trace validated by TLC."""
import json
import verif
import outcommon as oc

INVS = ["C10_OneCloseTag", "C10_NothingAfterClose", "C10_ClosedIffTag", "C10_SendersRefused",
        "C10_BothClosedAfterServe", "C10_DeadlineKept", "C10_ReplacedDeadlineInert", "C05_Contiguous", "C05_NoStrayWrites", "C05_WritesUnderLock"]


DEVS = [("WriteAfterClose", "C10_NothingAfterClose"), ("CloseTwice", "C10_OneCloseTag"), ("TxDisarmsDeadline", "C10_DeadlineKept"), ("ReplacedDeadlineFires", "C10_ReplacedDeadlineInert")]


def run(ctx, focus="close"):
    quick = ctx.tier == "quick"
    # quick: two processes over a reduced program / script set; thorough: the full sets (two processes:
    # ~8 M states; three processes do not finish in minutes and are left to the schedule exploration)
    mc = ctx.model_check("MCOutput", oc.MC_CFG % ({"procs": '{"a", "s"}', "programs": "ProgramsQuick", "scripts": "PeerScriptsQuick"} if quick
                                                 else {"procs": '{"a", "s"}', "programs": "ProgramsMC", "scripts": "PeerScriptsMC"}), INVS, timeout=2400)
    # non-vacuity: each named deviation of the specification must break the property it is meant for
    for dev, prop in DEVS:
        bad = ctx.tlc("MCOutput", (oc.MC_CFG % {"procs": '{"a", "s"}', "programs": "ProgramsQuick", "scripts": "PeerScriptsQuick"}).replace(
            "Dev = {}", 'Dev = {"%s"}' % dev), name="MCOutput_" + dev, timeout=900)
        if bad.rc == 0 or prop not in bad.out:
            raise verif.Undecided("design check is vacuous: deviation %s does not break %s" % (dev, prop))
    if ctx.replay:
        case = json.load(open(ctx.replay))["case"]
        scen = [case["scenario"]]
        files, summ = oc.explore(ctx, scen, maxpre=3, shards=1)
    else:
        scen = oc.scenarios(ctx.tier, focus)
        files, summ = oc.explore(ctx, scen, maxpre=1 if quick else 2)
    tr, meta = oc.merge_traces(ctx, files)
    rej, r = oc.validate(ctx, tr, ["a", "b", "c", "s"])
    ctx.log("explored %d schedules of %d scenarios (%d distinct traces, %d events); TLC validated them in %.1fs: %d rejected" % (
        summ["evaluations"], len(scen), summ["traces"], summ["events"], r.wall, len(rej)))
    if summ["stuck"]:
        ctx.notes.append("%d schedules ended with every goroutine blocked (reported as rejected traces)" % summ["stuck"])
    trs = verif.split_traces(verif.read_ndjson(tr)) if rej else {}
    for t, hw in sorted(rej.items())[:40]:
        ev = [e for e in trs[t] if e["_line"] == hw]
        ctx.violation("schedule of the real session is not a behaviour of Output.tla: %s rejected at %s" % (
            json.dumps(meta[t])[:300], json.dumps(ev[0] if ev else None)[:200]),
            {"family": "output", "scenario": meta[t]["scenario"], "choices": meta[t]["choices"], "trace": trs[t],
             "rejected_line": hw, "rejected_event": ev[0] if ev else None})
    nself = selftest(ctx, tr) if not ctx.replay and not rej else 0
    ctx.write_evidence("model_checking", {
        "states": mc.distinct, "transitions": mc.generated,
        "traces_validated_against_impl": summ["traces"], "schedules_run": summ["evaluations"],
        "scenarios": len(scen), "trace_events": summ["events"], "trace_states": r.distinct,
        "preemption_bound": 1 if quick else 2, "rejected": len(rej),
        "binding_selftest_mutants_rejected": nself, "deviations_shown_to_break_properties": len(DEVS),
        "samples": summ["samples"][:2],
        "rule": "scenarios = programs of Close / transmit calls (all entry points) for 1-3 goroutines, optionally a served session with a scripted peer (stanza, handler reply, handler error, stream error, close); schedules = depth-first enumeration of gate-level interleavings of the real code with a pre-emption bound; a trace is distinct if its event sequence differs",
    }, assumptions=["gate granularity: goroutines are interleaved at verifYield hooks, transport reads/writes and Go blocking primitives, not at every instruction",
                    "blocked-goroutine detection via runtime.Stack wait states"])


def selftest(ctx, trace):
    evs = verif.read_ndjson(trace)
    trs = verif.split_traces(evs)
    good = [t for t, tr in trs.items() if sum(1 for e in tr if e["ev"] == "write") >= 2]
    if not good:
        raise verif.Undecided("binding self-test: no trace with two writes")
    base = [{k: v for k, v in e.items() if k != "_line"} for e in trs[good[0]]]
    muts = []
    m = [dict(e) for e in base]
    w = [i for i, e in enumerate(m) if e["ev"] == "write" and e["what"] == "close"]
    if w:
        m.insert(w[0] + 1, dict(m[w[0]]))
        muts.append(("second closing tag", m))
    m = [dict(e) for e in base]
    w = [i for i, e in enumerate(m) if e["ev"] == "write"]
    other = "b" if m[w[0]]["p"] == "a" else "a"
    m[w[0]]["p"] = other
    muts.append(("write attributed to a goroutine that does not hold the lock", m))
    m = [dict(e) for e in base]
    r = [i for i, e in enumerate(m) if e["ev"] == "ret" and e.get("class") == "nil" and e.get("k") == "tx"]
    if r:
        m[r[0]]["class"] = "closed"
        muts.append(("tx return class flipped", m))
    p = ctx.path("selftest.ndjson")
    line = 0
    with open(p, "w") as f:
        for k, (_, mm) in enumerate([("unchanged", base)] + muts):
            mm[0]["t"] = k + 1
            mm[0]["end"] = line + len(mm) + 1
            for e in mm:
                f.write(json.dumps(e) + "\n")
            line += len(mm)
    rej, _ = oc.validate(ctx, p, ["a", "b", "c", "s"])
    if 1 in rej:
        raise verif.Undecided("binding self-test: unchanged trace rejected")
    missed = [muts[k - 2][0] for k in range(2, 2 + len(muts)) if k not in rej]
    if missed:
        raise verif.Undecided("binding self-test: corrupted traces ACCEPTED: %s" % missed)
    return len(muts)
