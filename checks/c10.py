"""C10 - closing is idempotent, final and observable.
A: TLC design check of tla/Output.tla (closers, senders, serve shutdown, error path).
B/C: systematic schedule exploration of the REAL session under the single-runner scheduler
(gates: verifYield hooks + transport reads/writes), every schedule's trace validated by TLC."""
import json
from concurrent.futures import ThreadPoolExecutor
import verif
import outcommon as oc

INVS = ["C10_OneCloseTag", "C10_NothingAfterClose", "C10_ClosedIffTag", "C10_SendersRefused",
        "C10_BothClosedAfterServe", "C10_ServeReturnsForCause", "C10_ServeRetTellsCause", "C10_DeadlineKept", "C10_ReplacedDeadlineInert",
        "C05_Contiguous", "C05_NoStrayWrites", "C05_WritesUnderLock", "C05_StaleHandleDead"]


DEVS = [("WriteAfterClose", "C10_NothingAfterClose"), ("CloseTwice", "C10_OneCloseTag"), ("TxDisarmsDeadline", "C10_DeadlineKept"), ("ReplacedDeadlineFires", "C10_ReplacedDeadlineInert"),
        ("ServeCachesDone", "C10_ServeReturnsForCause"), ("WrappedEOFIsPeerClose", "C10_ServeRetTellsCause")]
# deviations of the stale-handle part (checked in its own configuration, oc.MC_STALE_CFG)
STALE_DEVS = [("StaleHandleIsLive", "C05_WritesUnderLock")]

SHUTDOWN_POINTS = ("closeinput.enter", "close.enter", "senderr.enter")


def explain(trace, hw):
    """What the rejected event of a trace means in terms of C10, read off the events before it (a description for the
    VIOLATION line - the verdict is TLC's). Empty if the case is not one of those spelled out here."""
    ev = [e for e in trace if e["_line"] == hw]
    if not ev:
        return ""
    ev = ev[0]
    pre = [e for e in trace if e["_line"] < hw]
    # a closed token writer used again
    stale = [e for e in pre if e["ev"] == "call" and e.get("k") in ("stx", "sclose")]
    if stale:
        who = stale[-1]["p"]
        lastcall = [e for e in pre if e["ev"] == "call" and e.get("p") == ev.get("p")]
        if ev["ev"] == "write" and lastcall and lastcall[-1].get("k") in ("stx", "sclose"):
            return ("bytes reach the transport through a token writer that %s had CLOSED before (%s) - no lock held, in the middle of whatever is "
                    "being transmitted (C05_WritesUnderLock, C05_StaleHandleDead): " % (ev["p"], lastcall[-1]["kind"]))
        if ev["ev"] == "ret" and ev.get("k") == "stx" and ev.get("class") == "nil":
            return "writing through a closed token writer succeeds instead of failing with io.EOF (C05_StaleHandleDead): "
        if ev["ev"] == "ret" and ev.get("k") == "tx" and ev.get("p") != who and ev.get("class") not in ("nil", "closed"):
            return ("the transmit call of %s fails (%s) in the middle of its element after %s used a token writer it had closed before (%s): the dead "
                    "handle acts on the CURRENT holder of the output lock: " % (ev["p"], ev.get("err"), who, stale[-1]["kind"]))
    serving = any(e["ev"] == "call" and e.get("k") == "serve" for e in pre) and not any(e["ev"] == "serve_ret" for e in pre)
    shutdown = (ev["ev"] == "hook" and ev.get("p") == "s" and ev.get("point") in SHUTDOWN_POINTS) or ev["ev"] == "serve_ret"
    if not (serving and shutdown):
        return ""
    fed = [e["item"] for e in pre if e["ev"] == "peer"]
    handled = sum(1 for e in pre if e["ev"] == "handler")
    hl = [e for e in pre if e["ev"] == "handler"]
    if hl and hl[-1]["item"].startswith("stanza_he") and not any(i in ("close", "streamerr", "eof") for i in fed) and (
            ev["ev"] == "serve_ret" and ev.get("class") == "nil" or ev.get("point") in ("closeinput.enter", "close.enter")):
        nxt = [e for e in trace if e["_line"] > hw and e["ev"] == "serve_ret"]
        return ("Serve shuts down as after the peer's closing tag (no stream error prepared: %s%s) although the peer's stream is open: what happened is "
                "that the handler returned the error %r (%s) - a handler's error is never the end of the peer's stream (C10_ServeRetTellsCause): " % (
                    ev.get("point") or "serve_ret", ", Serve then returns %s" % nxt[0].get("class") if nxt else "", hl[-1].get("err", "io.EOF"), hl[-1]["item"]))
    dlev = [e["ev"] for e in pre if e["ev"].startswith("deadline")]
    cause = (any(i in ("close", "streamerr", "eof", "stanza_herr") for i in fed) or "deadline" in dlev
             or any(e["ev"] == "ret" and e.get("p") == "s" and e.get("class") in ("closed", "other") for e in pre))
    if cause:
        return ""
    what = "returns %s" % ev.get("class") if ev["ev"] == "serve_ret" else "stops reading and shuts down (%s)" % ev.get("point")
    return ("Serve %s after %d handled element(s) although the peer has not closed its stream (peer items so far: %s), no stream error "
            "was exchanged and the close deadline has not passed (deadline events so far: %s) - C10_ServeReturnsForCause; "
            "elements the peer sends later are never handled: " % (what, handled, fed, dlev or "none"))


def run(ctx, focus="close"):
    quick = ctx.tier == "quick"
    # quick: two processes over a reduced program / script set; thorough: the full sets (two processes:
    # ~8 M states; three processes do not finish in minutes and are left to the schedule exploration)
    # (pipeline A runs next to the exploration of the real code - they do not depend on each other; its result is
    # collected, and a failure raised, before any verdict on the code)
    def design():
        qcfg = oc.MC_CFG % {"procs": '{"a", "s"}', "programs": "ProgramsQuick", "scripts": "PeerScriptsQuick"}
        with ThreadPoolExecutor(4) as ex:
            fmc = ex.submit(ctx.model_check, "MCOutput", qcfg if quick else oc.MC_CFG % {"procs": '{"a", "s"}', "programs": "ProgramsMC", "scripts": "PeerScriptsMC"},
                            INVS, timeout=2400, workers=max(2, verif.NCPU // 2), heap="4g" if quick else "12g")
            fst = ex.submit(ctx.model_check, "MCOutput", oc.MC_STALE_CFG, ["C05_StaleHandleDead", "C05_Contiguous", "C05_WritesUnderLock", "C05_NoStrayWrites"],
                            name="MCOutput_stale", timeout=900, workers=2, heap="2g")
            # non-vacuity: each named deviation of the specification must break the property it is meant for
            fdev = [(dev, prop, ex.submit(ctx.tlc, "MCOutput", cfg.replace("Dev = {}", 'Dev = {"%s"}' % dev), name="MCOutput_" + dev, timeout=900, workers=2, heap="2g"))
                    for cfg, devs in ((qcfg, DEVS), (oc.MC_STALE_CFG, STALE_DEVS)) for dev, prop in devs]
            mc, st = fmc.result(), fst.result()
            for dev, prop, f in fdev:
                bad = f.result()
                if bad.rc == 0 or prop not in bad.out:
                    raise verif.Undecided("design check is vacuous: deviation %s does not break %s" % (dev, prop))
        mc.stale_states = st.distinct
        return mc
    pool = ThreadPoolExecutor(1)
    fut = pool.submit(design)
    try:
        files, summ, scen = drive(ctx, focus, quick)
    finally:
        pool.shutdown(wait=True)
    mc = fut.result()
    judge(ctx, mc, files, summ, scen, quick)


def drive(ctx, focus, quick):
    if ctx.replay:
        case = json.load(open(ctx.replay))["case"]
        scen = [case["scenario"]]
        files, summ = oc.explore(ctx, scen, maxpre=3, shards=1)
    else:
        scen = oc.scenarios(ctx.tier, focus)
        files, summ = oc.explore(ctx, scen, maxpre=1 if quick else 2)
    return files, summ, scen


def explore_one(ctx, scenario, choices):
    return oc.explore(ctx, [scenario], maxpre=3, shards=1, choices=choices)


def judge(ctx, mc, files, summ, scen, quick):
    for c in summ["crashes"][:10]:
        ctx.violation("the library brought the whole process down (%s) in a schedule of legitimate calls: %s; %s" % (
            c["fatal"], json.dumps(c["case"])[:400], " | ".join(l.strip() for l in c["stack"].splitlines() if "mellium.im/xmpp" in l)[:400]),
            {"family": "output", "scenario": c["case"]["scenario"], "choices": c["case"]["choices"], "fatal": c["fatal"], "stack": c["stack"]})
    if not files:
        ctx.write_evidence("model_checking", {"states": mc.distinct, "transitions": mc.generated, "traces_validated_against_impl": 0,
                                              "samples": [c["case"] for c in summ["crashes"][:2]], "evaluations": summ["evaluations"], "distinct_nontrivial": 2})
        return
    tr, meta = oc.merge_traces(ctx, files)
    rej, r = oc.validate(ctx, tr, ["a", "b", "c", "s"])
    ctx.log("explored %d schedules of %d scenarios (%d distinct traces, %d events); TLC validated them in %.1fs: %d rejected" % (
        summ["evaluations"], len(scen), summ["traces"], summ["events"], r.wall, len(rej)))
    if summ["stuck"]:
        ctx.notes.append("%d schedules ended with every goroutine blocked (reported as rejected traces)" % summ["stuck"])
    trs = verif.split_traces(verif.read_ndjson(tr)) if rej else {}
    # a schedule that ended with every goroutine "blocked" is a stall only if it does so again: the scheduler decides
    # that everybody is blocked by polling goroutine states, which under heavy load can be wrong once
    nstall = 0
    for t, hw in sorted(rej.items()):
        if meta[t].get("note") == "stuck" and not ctx.replay and nstall < 5:
            nstall += 1
            f2, s2 = explore_one(ctx, meta[t]["scenario"], meta[t]["choices"])
            tr2, meta2 = oc.merge_traces(ctx, f2, name="out-confirm-%d.ndjson" % t)
            rej2, _ = oc.validate(ctx, tr2, ["a", "b", "c", "s"])
            if not rej2 and not s2["crashes"]:
                ctx.notes.append("schedule %s of %s ended with every goroutine blocked once and ran to its end when repeated: unreproduced stall, no verdict" % (
                    meta[t]["choices"], json.dumps(meta[t]["scenario"])))
                del rej[t]
    for t, hw in sorted(rej.items())[:40]:
        ev = [e for e in trs[t] if e["_line"] == hw]
        ctx.violation("%sschedule of the real session is not a behaviour of Output.tla: %s rejected at %s" % (
            explain(trs[t], hw), json.dumps(meta[t])[:300], json.dumps(ev[0] if ev else None)[:200]),
            {"family": "output", "scenario": meta[t]["scenario"], "choices": meta[t]["choices"], "trace": trs[t],
             "rejected_line": hw, "rejected_event": ev[0] if ev else None})
    nself = selftest(ctx, tr) if not ctx.replay and not rej and not summ["crashes"] else 0
    ctx.write_evidence("model_checking", {
        "states": mc.distinct, "transitions": mc.generated,
        "traces_validated_against_impl": summ["traces"], "schedules_run": summ["evaluations"],
        "scenarios": len(scen), "trace_events": summ["events"], "trace_states": r.distinct,
        "preemption_bound": 1 if quick else 2, "rejected": len(rej),
        "binding_selftest_mutants_rejected": nself, "deviations_shown_to_break_properties": len(DEVS) + len(STALE_DEVS),
        "states_stale_handle_configuration": getattr(mc, "stale_states", 0),
        "samples": summ["samples"][:2],
        "rule": "scenarios = programs of Close / transmit calls (all entry points) for 0-3 goroutines, optionally a served session with a scripted peer (stanza, handler reply, handler error, stream error, close) and the application's SetCloseDeadline as an event of the script (before Serve starts or WHILE it is running, followed by k >= 1 more elements of the peer and only then by the peer's close / a stream error / a handler error / the deadline passing / the end of the transport: Serve must go on until one of these - C10_ServeReturnsForCause, C10_ServeRetTellsCause); handler errors of every kind (plain, wrapping io.EOF, io.ErrUnexpectedEOF, stanza.Error, context error, stream.Error, wrapped stream.Error, bare io.EOF) while the peer's stream stays open: never the end of the peer's stream, Serve returns nil only after the peer's close; closed token writers used again (Close once more, tokens written through the dead handle) while another goroutine or a handler's reply is in the middle of its element (C05_StaleHandleDead; two pre-emptions in those scenarios); schedules = depth-first enumeration of gate-level interleavings of the real code with a pre-emption bound; a trace is distinct if its event sequence differs",
    }, assumptions=["gate granularity: goroutines are interleaved at verifYield hooks, transport reads/writes and Go blocking primitives, not at every instruction",
                    "blocked-goroutine detection via runtime.Stack wait states"])


def selftest(ctx, trace):
    evs = verif.read_ndjson(trace)
    trs = verif.split_traces(evs)
    good = [t for t, tr in trs.items() if sum(1 for e in tr if e["ev"] == "write") >= 2]
    if not good:
        raise verif.Undecided("binding self-test: no trace with two writes")
    base = [{k: v for k, v in e.items() if k != "_line"} for e in trs[good[0]]]
    muts = []
    m = [dict(e) for e in base]
    w = [i for i, e in enumerate(m) if e["ev"] == "write" and e["what"] == "close"]
    if w:
        m.insert(w[0] + 1, dict(m[w[0]]))
        muts.append(("second closing tag", m))
    m = [dict(e) for e in base]
    w = [i for i, e in enumerate(m) if e["ev"] == "write"]
    other = "b" if m[w[0]]["p"] == "a" else "a"
    m[w[0]]["p"] = other
    muts.append(("write attributed to a goroutine that does not hold the lock", m))
    m = [dict(e) for e in base]
    r = [i for i, e in enumerate(m) if e["ev"] == "ret" and e.get("class") == "nil" and e.get("k") == "tx"]
    if r:
        m[r[0]]["class"] = "closed"
        muts.append(("tx return class flipped", m))
    # Serve's reason to return taken away: the peer's close is struck from a trace in which Serve returned nil after it
    for t, tr in trs.items():
        evs2 = [{k: v for k, v in e.items() if k != "_line"} for e in tr]
        pc = [i for i, e in enumerate(evs2) if e["ev"] == "peer" and e.get("item") == "close"]
        if pc and any(e["ev"] == "serve_ret" and e.get("class") == "nil" for e in evs2) and not any(e["ev"].startswith("deadline") for e in evs2):
            del evs2[pc[0]]
            muts.append(("Serve returns nil without the peer's close", evs2))
            break
    p = ctx.path("selftest.ndjson")
    line = 0
    with open(p, "w") as f:
        for k, (_, mm) in enumerate([("unchanged", base)] + muts):
            mm[0]["t"] = k + 1
            mm[0]["end"] = line + len(mm) + 1
            for e in mm:
                f.write(json.dumps(e) + "\n")
            line += len(mm)
    rej, _ = oc.validate(ctx, p, ["a", "b", "c", "s"])
    if 1 in rej:
        raise verif.Undecided("binding self-test: unchanged trace rejected")
    missed = [muts[k - 2][0] for k in range(2, 2 + len(muts)) if k not in rej]
    if missed:
        raise verif.Undecided("binding self-test: corrupted traces ACCEPTED: %s" % missed)
    return len(muts)
