"""C06 - every correlated wait ends exactly once with its own reply or its context error.
Core: tla/Correlate.tla (requesters, serve loop, peer, cancellation): TLC safety + liveness design
checks; systematic schedule exploration of the REAL session (SendIQ/EncodeIQ/UnmarshalIQ/
SendMessage/SendPresence callers, scripted peer, scheduler-owned cancellation) with every schedule's
trace validated by TLC.  Extension helpers (receipts, muc, ibb) are covered by their own families."""
import json
import verif
import corcommon as cc
import outcommon as oc

SAFE = ["C06_OwnReplyOnly", "C06_AtMostOneReply", "C06_OutcomeConsistent", "C06_UnclaimedToHandler", "C06_TableClean"]


def run(ctx):
    quick = ctx.tier == "quick"
    if ctx.replay and json.load(open(ctx.replay))["case"].get("family") in ("ibb", "ibb-listen"):
        import ibbcommon
        ctx.write_evidence("model_checking", {"replayed": ctx.replay, "ibb": ibbcommon.run_c06_part(ctx)})
        return
    if ctx.replay and json.load(open(ctx.replay))["case"].get("family") == "iter":
        import itercommon
        part = itercommon.run_part(ctx)
        ctx.write_evidence("model_checking", {"replayed": ctx.replay, "iterators_and_commands": part})
        return
    mc = ctx.model_check("MCCorrelate", cc.MC_SAFE % dict(reqs='{"i1", "m1"}' if quick else '{"i1", "i2", "p1"}',
                                                         kind="Kind2" if quick else "Kind3", maxpeer=2), SAFE, timeout=2400)
    if not quick:
        # measured: 3 requesters with 2 peer items = 6.5 M distinct states in 90 s; with 3 peer items it did not
        # finish in 40 min, so the third peer item is explored with two requesters
        mc2 = ctx.model_check("MCCorrelate", cc.MC_SAFE % dict(reqs='{"i1", "m1"}', kind="Kind2", maxpeer=3), SAFE, name="MCCorrelate_peer3", timeout=2400)
        mc.distinct += mc2.distinct
        mc.generated += mc2.generated
    lv1 = ctx.model_check("MCCorrelate", cc.MC_LIVE % dict(spec="FairSpec", props="PROPERTY C06_ReqsTerminate\nPROPERTY C06_ServeNeverStalls"),
                          ["C06_ReqsTerminate", "C06_ServeNeverStalls"], name="MCCorrelate_live", timeout=1200)
    lv2 = ctx.model_check("MCCorrelate", cc.MC_LIVE % dict(spec="FairSpecNoCancel", props="PROPERTY C06_ServeNeverStalls"),
                          ["C06_ServeNeverStalls (no cancellation assumed)"], name="MCCorrelate_live2", timeout=1200)
    # non-vacuity of the liveness check: with the stall deviation TLC must find the lasso
    bad = ctx.tlc("MCCorrelate", (cc.MC_LIVE % dict(spec="FairSpecNoCancel", props="PROPERTY C06_ServeNeverStalls")).replace("Dev = {}", 'Dev = {"StallOnFailedSender"}'),
                  name="MCCorrelate_dev", timeout=600)
    if bad.rc == 0:
        raise verif.Undecided("liveness check is vacuous: the stall deviation is not detected")
    if ctx.replay:
        case = json.load(open(ctx.replay))["case"]
        files, summ = cc.explore(ctx, [case["scenario"]], maxpre=3, maxruns=3000)
    else:
        scen = cc.scenarios(ctx.tier)
        files, summ = cc.explore(ctx, scen, maxpre=1 if quick else 2, maxruns=250 if quick else 4000)
    tr, meta = oc.merge_traces(ctx, files, "cor-trace.ndjson")
    rej, r = cc.validate(ctx, tr)
    ctx.log("explored %d schedules (%d distinct traces, %d events); TLC validated them in %.1fs: %d rejected" % (
        summ["evaluations"], summ["traces"], summ["events"], r.wall, len(rej)))
    trs = verif.split_traces(verif.read_ndjson(tr)) if rej else {}
    for t, hw in sorted(rej.items())[:40]:
        ev = [e for e in trs[t] if e["_line"] == hw]
        what = "schedule of real correlated requests is not a behaviour of Correlate.tla"
        if ev and ev[0].get("ev") == "stuck":
            what = "permanent stall: every goroutine blocked (%s)" % ev[0].get("blocked")
        ctx.violation("%s: %s rejected at %s" % (what, json.dumps(meta[t])[:300], json.dumps(ev[0] if ev else None)[:200]),
                      {"family": "correlate", "scenario": meta[t]["scenario"], "choices": meta[t]["choices"], "trace": trs[t],
                       "rejected_line": hw, "rejected_event": ev[0] if ev else None})
    nself = selftest(ctx, tr) if not ctx.replay and not rej else 0
    # the extension helpers' own rendezvous (delivery receipts, MUC join/leave): their families' specs
    # and drivers, reported under this property
    parts = {}
    if not ctx.replay:
        import muccommon
        parts.update(muccommon.run_c06_receipts_part(ctx))
        parts.update(muccommon.run_c06_muc_part(ctx))
        import registry
        if "C15" in registry.CHECKS:      # the IBB family is integrated (its hooks are in /repo)
            import ibbcommon
            parts.update(ibbcommon.run_c06_part(ctx))
        else:
            ctx.notes.append("IBB part of C06 not integrated yet")
        # growth family: iterators over a response (IterIQ, paging, roster / blocklist / pubsub / bookmarks /
        # disco / history) and ad-hoc command sessions hold the response of a correlated request for a long
        # time - their release rules (Iter.tla, Commands.tla) decide whether the serve loop resumes
        import itercommon
        parts["iterators_and_commands"] = itercommon.run_part(ctx)
    ctx.write_evidence("model_checking", {
        "states": mc.distinct, "transitions": mc.generated,
        "liveness_states": lv1.distinct + lv2.distinct,
        "traces_validated_against_impl": summ["traces"], "schedules_run": summ["evaluations"],
        "trace_events": summ["events"], "trace_states": r.distinct, "rejected": len(rej),
        "binding_selftest_mutants_rejected": nself,
        "extension_helpers": parts,
        "samples": summ["samples"][:2],
        "rule": "scenarios = 1-3 concurrent callers (SendIQ, SendIQElement, EncodeIQElement, UnmarshalIQ, SendMessage, SendPresence) on a served session, peer scripts with own / duplicate / unknown-id / wrong-kind / non-response stanzas, scheduler-owned cancellations, optional concurrent Close (failed sends); schedules = depth-first enumeration at gate granularity with a pre-emption bound, capped per scenario; a trace is distinct if its event sequence differs",
    }, assumptions=["gate granularity (verifYield hooks at lookup/hand-off/wait, transport reads/writes, Go blocking primitives)",
                    "callers close the response they obtain (the property's premise)"])


def selftest(ctx, trace):
    trs = verif.split_traces(verif.read_ndjson(trace))
    good = [t for t, tr in trs.items() if any(e.get("outcome") == "reply" for e in tr)]
    if not good:
        raise verif.Undecided("binding self-test: no trace with a delivered reply")
    base = [{k: v for k, v in e.items() if k != "_line"} for e in trs[good[0]]]
    muts = []
    m = [dict(e) for e in base]
    i = [k for k, e in enumerate(m) if e.get("outcome") == "reply"][0]
    m[i]["rid"] = "zz"
    muts.append(("reply delivered with another id", m))
    m = [dict(e) for e in base]
    m[i]["outcome"] = "ctxerr"
    muts.append(("outcome flipped to ctxerr", m))
    m = [dict(e) for e in base]
    j = [k for k, e in enumerate(m) if e.get("point") == "serve.handed"]
    if j:
        m.insert(j[0], {"ev": "handler", "id": m[j[0]]["id"], "kind": "iq", "resp": True})
        muts.append(("response both handed over and given to the handler", m))
    p = ctx.path("selftest.ndjson")
    line = 0
    with open(p, "w") as f:
        for k, (_, mm) in enumerate([("unchanged", base)] + muts):
            mm[0]["t"] = k + 1
            mm[0]["end"] = line + len(mm) + 1
            for e in mm:
                f.write(json.dumps(e) + "\n")
            line += len(mm)
    rej, _ = cc.validate(ctx, p)
    if 1 in rej:
        raise verif.Undecided("binding self-test: unchanged trace rejected")
    missed = [muts[k - 2][0] for k in range(2, 2 + len(muts)) if k not in rej]
    if missed:
        raise verif.Undecided("binding self-test: corrupted traces ACCEPTED: %s" % missed)
    return len(muts)
