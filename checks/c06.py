"""C06 - every correlated wait ends exactly once with its own reply or its context error.
Core: tla/Correlate.tla (requesters, serve loop, peer, cancellation): TLC safety + liveness design
checks; systematic schedule exploration of the REAL session (SendIQ/EncodeIQ/UnmarshalIQ/
SendMessage/SendPresence callers, scripted peer, scheduler-owned cancellation) with every schedule's
trace validated by TLC.  Extension helpers (receipts, muc, ibb) are covered by their own families."""
import json
import verif
import corcommon as cc
import outcommon as oc
from concurrent.futures import ThreadPoolExecutor

SAFE = ["C06_OwnReplyOnly", "C06_AtMostOneReply", "C06_OutcomeConsistent", "C06_UnclaimedToHandler", "C06_TableClean",
        "C06_WaitedForToCaller", "C06_HeldUntilClosed"]


def run(ctx):
    quick = ctx.tier == "quick"
    if ctx.replay and json.load(open(ctx.replay))["case"].get("family") in ("ibb", "ibb-listen"):
        import ibbcommon
        ctx.write_evidence("model_checking", {"replayed": ctx.replay, "ibb": ibbcommon.run_c06_part(ctx)})
        return
    if ctx.replay and json.load(open(ctx.replay))["case"].get("family") == "iter":
        import itercommon
        part = itercommon.run_part(ctx)
        ctx.write_evidence("model_checking", {"replayed": ctx.replay, "iterators_and_commands": part})
        return
    if ctx.replay and json.load(open(ctx.replay))["case"].get("family") == "request":
        import reqcommon
        part = reqcommon.run_part(ctx)
        ctx.write_evidence("model_checking", {"replayed": ctx.replay, "request_helpers": part})
        return
    # pipeline A runs beside the driver (TLC runs and driver processes take machine-wide slots)
    ex = ThreadPoolExecutor(max_workers=5)
    f_mc = ex.submit(ctx.model_check, "MCCorrelate", cc.mc_safe('{"i1", "m1"}' if quick else '{"i1", "i2", "p1"}', "Kind2" if quick else "Kind3", 2),
                     SAFE, workers=6, timeout=2400)
    f_mc2 = None
    if not quick:
        # measured: 3 requesters with 2 peer items = 6.5 M distinct states in 90 s; with 3 peer items it did not
        # finish in 40 min, so the third peer item is explored with two requesters
        f_mc2 = ex.submit(ctx.model_check, "MCCorrelate", cc.mc_safe('{"i1", "m1"}', "Kind2", 3), SAFE, name="MCCorrelate_peer3", workers=6, timeout=2400)
    # the session-kind dimension: every kind of session x every way its peer qualifies a stanza
    f_kinds = ex.submit(ctx.model_check, "MCCorrelate", cc.mc_safe('{"i1"}' if quick else '{"i1", "m1"}', "Kind1" if quick else "Kind2", 2, cc.ALL_KINDS, cc.ALL_QUALS),
                        SAFE + ["every session kind x qualification"], name="MCCorrelate_kinds", workers=4, timeout=2400)
    f_lv1 = ex.submit(ctx.model_check, "MCCorrelate", cc.MC_LIVE % dict(spec="FairSpec", props="PROPERTY C06_ReqsTerminate\nPROPERTY C06_ServeNeverStalls"),
                      ["C06_ReqsTerminate", "C06_ServeNeverStalls"], name="MCCorrelate_live", workers=2, timeout=1200)
    f_lv2 = ex.submit(ctx.model_check, "MCCorrelate", cc.MC_LIVE % dict(spec="FairSpecNoCancel", props="PROPERTY C06_ServeNeverStalls"),
                      ["C06_ServeNeverStalls (no cancellation assumed)"], name="MCCorrelate_live2", workers=2, timeout=1200)
    # non-vacuity: each code-like deviation must be rejected by the property it is meant for
    f_bad = ex.submit(ctx.tlc, "MCCorrelate", (cc.MC_LIVE % dict(spec="FairSpecNoCancel", props="PROPERTY C06_ServeNeverStalls")).replace("Dev = {}", 'Dev = {"StallOnFailedSender"}'),
                      name="MCCorrelate_dev", workers=2, timeout=600)
    kcfg = lambda skinds, dev: cc.mc_safe('{"i1"}', "Kind1", 2, skinds, cc.ALL_QUALS, dev)
    f_devns = ex.submit(ctx.tlc, "MCCorrelate", kcfg(cc.ALL_KINDS, '{"LookupClientServerOnly"}'), name="MCCorrelate_devns", workers=2, timeout=600)
    f_devns0 = ex.submit(ctx.tlc, "MCCorrelate", kcfg('{"c2s", "c2s-recv", "s2s", "ws"}', '{"LookupClientServerOnly"}'), name="MCCorrelate_devns0", workers=2, timeout=600)
    f_devres = ex.submit(ctx.tlc, "MCCorrelate", kcfg(cc.ALL_KINDS, '{"ResumeWhenCtxDone"}'), name="MCCorrelate_devres", workers=2, timeout=600)
    f_devdrop = ex.submit(ctx.tlc, "MCCorrelate", kcfg('{"c2s"}', '{"DropReplyAfterLookup"}'), name="MCCorrelate_devdrop", workers=2, timeout=600)

    def design_checks():
        mc = f_mc.result()
        if f_mc2:
            mc2 = f_mc2.result()
            mc.distinct += mc2.distinct
            mc.generated += mc2.generated
        mck, lv1, lv2 = f_kinds.result(), f_lv1.result(), f_lv2.result()
        if f_bad.result().rc == 0:
            raise verif.Undecided("liveness check is vacuous: the stall deviation is not detected")
        caught = {}
        for dev, f, prop in (("LookupClientServerOnly", f_devns, "C06_WaitedForToCaller"), ("ResumeWhenCtxDone", f_devres, "C06_HeldUntilClosed"),
                             ("DropReplyAfterLookup", f_devdrop, "C06_UnclaimedToHandler")):
            r = f.result()
            if prop not in r.violated:
                raise verif.Undecided("design check is vacuous: deviation %s is not rejected by %s:\n%s" % (dev, prop, r.out[-1500:]))
            caught[dev] = prop
        r0 = f_devns0.result()
        if not r0.ok or not r0.finished:
            raise verif.Undecided("deviation LookupClientServerOnly is expected to be invisible without the component kind (that is why the kind is a dimension):\n" + r0.out[-1500:])
        ctx.log("deviations rejected: %s; LookupClientServerOnly is invisible on c2s / s2s / WebSocket sessions (%d states)" % (caught, r0.distinct))
        return mc, mck, lv1, lv2, caught
    if ctx.replay:
        case = json.load(open(ctx.replay))["case"]
        sc = dict(case["scenario"])
        sc.pop("maxruns", None)       # the quick tier's cap per scenario does not apply to a replay
        files, summ = cc.explore(ctx, [sc], maxpre=3, maxruns=3000)
    else:
        scen = cc.scenarios(ctx.tier)
        files, summ = cc.explore(ctx, scen, maxpre=1 if quick else 2, maxruns=250 if quick else 4000)
    tr, meta = oc.merge_traces(ctx, files, "cor-trace.ndjson")
    rej, r = cc.validate(ctx, tr)
    ctx.log("explored %d schedules (%d distinct traces, %d events); TLC validated them in %.1fs: %d rejected" % (
        summ["evaluations"], summ["traces"], summ["events"], r.wall, len(rej)))
    trs = verif.split_traces(verif.read_ndjson(tr)) if rej else {}
    # diagnosis in words where the rejected event allows it (the verdict is TLC's); those are reported first
    diag = {}
    for t, hw in rej.items():
        ev = [e for e in trs[t] if e["_line"] == hw]
        diag[t] = (cc.describe(ev[0] if ev else None, trs[t]), ev)
    for t, hw in sorted(rej.items(), key=lambda x: ("is not a behaviour" in diag[x[0]][0], x[0]))[:40]:
        what, ev = diag[t]
        ctx.violation("%s: %s rejected at %s" % (what, json.dumps(meta[t])[:300], json.dumps(ev[0] if ev else None)[:200]),
                      {"family": "correlate", "scenario": meta[t]["scenario"], "choices": meta[t]["choices"], "trace": trs[t],
                       "rejected_line": hw, "rejected_event": ev[0] if ev else None})
    nself = selftest(ctx, tr) if not ctx.replay and not rej else 0
    kinds = {}
    for t, m in meta.items():
        k = "%s/%s" % (m["scenario"].get("skind") or "c2s", m["scenario"].get("qual") or "default")
        kinds[k] = kinds.get(k, 0) + 1
    # the extension helpers' own rendezvous (delivery receipts, MUC join/leave): their families' specs
    # and drivers, reported under this property
    parts = {}
    if not ctx.replay:
        # growth family XREQ: the one-shot request/response helpers (Request.tla; its rules R3 / R5 / R6 are instances of
        # this property) - runs beside the other parts
        import reqcommon
        reqf = ThreadPoolExecutor(max_workers=1).submit(reqcommon.run_part, ctx)
        import muccommon
        parts.update(muccommon.run_c06_receipts_part(ctx))
        parts.update(muccommon.run_c06_muc_part(ctx))
        import registry
        if "C15" in registry.CHECKS:      # the IBB family is integrated (its hooks are in /repo)
            import ibbcommon
            parts.update(ibbcommon.run_c06_part(ctx))
        else:
            ctx.notes.append("IBB part of C06 not integrated yet")
        # growth family: iterators over a response (IterIQ, paging, roster / blocklist / pubsub / bookmarks /
        # disco / history) and ad-hoc command sessions hold the response of a correlated request for a long
        # time - their release rules (Iter.tla, Commands.tla) decide whether the serve loop resumes
        import itercommon
        parts["iterators_and_commands"] = itercommon.run_part(ctx)
        parts["request_helpers"] = reqf.result()
    # the core's design checks ran beside everything above
    mc, mck, lv1, lv2, caught = design_checks()
    ctx.write_evidence("model_checking", {
        "states": mc.distinct + mck.distinct, "transitions": mc.generated + mck.generated,
        "session_kind_design_check_states": mck.distinct,
        "liveness_states": lv1.distinct + lv2.distinct,
        "deviations_rejected": caught,
        "traces_per_session_kind": kinds,
        "traces_validated_against_impl": summ["traces"], "schedules_run": summ["evaluations"],
        "trace_events": summ["events"], "trace_states": r.distinct, "rejected": len(rej),
        "binding_selftest_mutants_rejected": nself,
        "extension_helpers": parts,
        "samples": summ["samples"][:2],
        "rule": "scenarios = 1-3 concurrent callers (SendIQ, SendIQElement, EncodeIQElement, UnmarshalIQ, SendMessage, SendPresence) on a served session, peer scripts with own / duplicate / unknown-id / wrong-kind / non-response stanzas, scheduler-owned cancellations, optional concurrent Close (failed sends), a caller that does something else between obtaining the response and closing it (context ends / next stanza arrives while the response is held); session kind dimension: the straight-line request-reply / late reply / unknown id / tracked message + presence / held response scenarios on every kind of session (c2s initiated and received, s2s, WebSocket via websocket.NewSession, XEP-0114 component via component.NewSession against a scripted component server) with the peer's stanzas unqualified within the stream's default namespace or declaring the kind's stanza namespace (jabber:client, jabber:server, jabber:component:accept); the full schedule exploration stays on the initiated c2s session; schedules = depth-first enumeration at gate granularity with a pre-emption bound, capped per scenario; a trace is distinct if its event sequence differs",
    }, assumptions=["gate granularity (verifYield hooks at lookup/hand-off/wait, transport reads/writes, Go blocking primitives)",
                    "callers close the response they obtain (the property's premise)"])


def selftest(ctx, trace):
    trs = verif.split_traces(verif.read_ndjson(trace))
    good = [t for t, tr in trs.items() if any(e.get("outcome") == "reply" for e in tr)]
    if not good:
        raise verif.Undecided("binding self-test: no trace with a delivered reply")
    base = [{k: v for k, v in e.items() if k != "_line"} for e in trs[good[0]]]
    muts = []
    m = [dict(e) for e in base]
    i = [k for k, e in enumerate(m) if e.get("outcome") == "reply"][0]
    m[i]["rid"] = "zz"
    muts.append(("reply delivered with another id", m))
    m = [dict(e) for e in base]
    m[i]["outcome"] = "ctxerr"
    muts.append(("outcome flipped to ctxerr", m))
    m = [dict(e) for e in base]
    j = [k for k, e in enumerate(m) if e.get("point") == "serve.handed"]
    if j:
        m.insert(j[0], {"ev": "handler", "id": m[j[0]]["id"], "kind": "iq", "resp": True})
        muts.append(("response both handed over and given to the handler", m))
    p = ctx.path("selftest.ndjson")
    line = 0
    with open(p, "w") as f:
        for k, (_, mm) in enumerate([("unchanged", base)] + muts):
            mm[0]["t"] = k + 1
            mm[0]["end"] = line + len(mm) + 1
            for e in mm:
                f.write(json.dumps(e) + "\n")
            line += len(mm)
    rej, _ = cc.validate(ctx, p)
    if 1 in rej:
        raise verif.Undecided("binding self-test: unchanged trace rejected")
    missed = [muts[k - 2][0] for k in range(2, 2 + len(muts)) if k not in rej]
    if missed:
        raise verif.Undecided("binding self-test: corrupted traces ACCEPTED: %s" % missed)
    return len(muts)
