"""C16 - JID escaping is a lossless, chunk-independent transform.

A  design check: TLC explores the streaming machine of tla/Escape.tla (every call sequence
   Transform(cap, chunk, atEOF) / Span over small inputs) and checks the C16_* invariants, plus
   the laws of the reference functions Esc/Unesc over the full alphabet.
B  TLC writes the vectors (input, Esc(input), Unesc(input)), sweep kernels and the plan.
C  harness/cmd/escape replays them on the real jid.Escape / jid.Unescape through String, Bytes,
   Span+Transform, transform.Reader, transform.Writer, transform.Append and a streaming loop with every
   split and small capacities (and, in the position sweeps, destinations that end exactly in front of
   the kernel's output), compares every final output with the spec-computed expectation, and records
   call-level traces of a seeded sample which TLC validates against tla/TrEscape.tla."""
import json
import os

import verif
import jidcommon as jc

CONSTS = '''CONSTANTS
  Inputs = {}
  Dirs = {}
  Dev = {}
  Caps = {0, 1, 2, 3, 4, 8}
'''

MC_CFG = '''CONSTANTS
  Inputs <- MCInputs
  Dirs = {"esc", "unesc"}
  Caps = {0, 1, 2, 3, 4, 8}
  MCLen = %(mclen)d
  LawLen = %(lawlen)d
  Dev = %(dev)s
SPECIFICATION Spec
INVARIANT Inv
CHECK_DEADLOCK FALSE
'''

EMIT_CFG = CONSTS + '''  FullLen = %(full)d
  SubLen = %(sub)d
  MaxChunks = %(chunks)d
  SweepMax = %(sweep)d
INIT Init
NEXT Next
'''

PROPS = ["C16_Lossless", "C16_ChunkIndependent", "C16_RoundTrip", "C16_NoDisallowedInOutput",
         "C16_UnescOnlyDefined", "C16_ErrContract", "C16_Progress", "C16_InterfacesAgree"]


def design_check(ctx, quick):
    mclen = 2 if ctx.replay else (3 if quick else 4)
    mc = ctx.model_check("MCEscape", MC_CFG % dict(mclen=mclen, lawlen=3, dev="{}"), PROPS,
                         workers=4 if quick else 8, timeout=1500, heap=jc.heap(ctx))
    # the invariants are not vacuous: with the code-like deviation enabled TLC must find a violation
    r = ctx.tlc("MCEscape", MC_CFG % dict(mclen=1, lawlen=1, dev='{"PartialWrite"}'), workers=1, timeout=300,
                name="MCEscapeDev")
    if "Inv" not in r.violated:
        raise verif.Undecided("design self-test: deviation PartialWrite does not violate the invariants:\n" + r.out[-1500:])
    return mc


def run_driver(ctx, files, trace, env):
    b = ctx.go_build("escape")
    out = ctx.run_driver(b, ["run", files["plan.json"], files["vectors.ndjson"], files["sweeps.ndjson"], trace],
                         env=env, timeout=3000, ok_codes=(0, 3))
    if "STALL " in out:
        raise verif.Undecided("driver stalled (watchdog): " + out[out.index("STALL "):][:600])
    return jc.summary_of(out)


def short(s, n=90):
    return s if len(s) <= n else s[:n] + "...(%d chars)" % len(s)


def report(ctx, summ, trace, rejected):
    """Turn mismatches and rejected traces into violations (one per kind, shortest example)."""
    evs = verif.read_ndjson(trace) if os.path.exists(trace) else []
    trs = verif.split_traces(evs)
    meta = {m["t"]: m["meta"] for m in verif.read_ndjson(trace + ".meta")} if os.path.exists(trace + ".meta") else {}
    kinds = summ["extra"].get("mismatch_kinds") or {}
    covered = set()
    seen = set()
    for m in summ["mismatches"]:
        t = m.get("trace") or 0
        if t:
            covered.add(t)
        if m["kind"] in seen:
            continue
        seen.add(m["kind"])
        rej = None
        if t and t in rejected:
            rej = [e for e in trs[t] if e["_line"] == rejected[t]]
        elif t:
            ctx.notes.append("mismatching case whose call-level trace was accepted: %s" % json.dumps(m["case"])[:300])
        ctx.violation(
            "%s (%d cases): input %s -> got %s, specification says %s%s" % (
                m["kind"], kinds.get(m["kind"], 1), short(m["input"]), short(m["got"]), short(m["want"]),
                (" [" + m["note"] + "]") if m["note"] else ""),
            {"family": "escape", "case": m["case"], "input": m["input"], "got": m["got"], "expected": m["want"],
             "note": m["note"], "kind": m["kind"], "cases_of_this_kind": kinds.get(m["kind"], 1),
             "trace": trs.get(t), "rejected_event": rej[0] if rej else None})
    groups = {}
    for t, hw in sorted(rejected.items()):
        if t in covered or meta.get(t, {}).get("mm"):
            continue        # the final output was wrong as well: reported above by kind
        c = meta.get(t, {}).get("case", {})
        ev = [e for e in trs[t] if e["_line"] == hw]
        ev = ev[0] if ev else {}
        key = "%s/%s: call-level trace rejected at %s(err=%s)" % (c.get("dir"), c.get("iface"), ev.get("ev"), ev.get("err"))
        groups.setdefault(key, []).append((t, hw, c, ev))
    for key, l in sorted(groups.items()):
        t, hw, c, ev = l[0]
        ctx.violation("%s (%d traces): case %s, event %s is not a step of Escape.tla" % (
            key, len(l), json.dumps(c)[:300], json.dumps({k: v for k, v in ev.items() if k != "_line"})[:300]),
            {"family": "escape", "case": c, "kind": key, "trace": trs[t], "rejected_line": hw, "rejected_event": ev,
             "cases_of_this_kind": len(l)})


def selftest_vectors(ctx, files):
    """Corrupt the expectation of two vectors; the driver must report both."""
    vecs = [json.loads(l) for l in open(files["vectors.ndjson"]) if l.strip()]
    a = [v for v in vecs if v["in"] == [1]][0]            # " "  -> \20
    b = [v for v in vecs if v["in"] == [10, 12, 11]][0]   # \20  -> " "
    good = ctx.path("selftest", "good.ndjson")
    bad = ctx.path("selftest", "bad.ndjson")
    empty = ctx.path("selftest", "empty.ndjson")
    open(empty, "w").close()
    open(good, "w").write(json.dumps(a) + "\n" + json.dumps(b) + "\n")
    a2 = dict(a, esc=a["esc"][:-1] + [12])
    b2 = dict(b, unesc=b["in"])
    open(bad, "w").write(json.dumps(a2) + "\n" + json.dumps(b2) + "\n")
    bn = ctx.go_build("escape")
    res = {}
    for name, f in (("good", good), ("bad", bad)):
        out = ctx.run_driver(bn, ["run", files["plan.json"], f, empty, ctx.path("selftest", name + ".trace")],
                             env={"ESC_TRACE_EVERY": "0", "ESC_MM_TRACES": "0"}, timeout=120)
        res[name] = jc.summary_of(out)["extra"]["mismatch_kinds"] or {}
    if not any(k.startswith("esc/string") for k in res["bad"]) or not any(k.startswith("unesc/string") for k in res["bad"]):
        raise verif.Undecided("binding self-test: corrupted expectations were not reported: %s" % res["bad"])
    if any(k.startswith("esc/string") or k.startswith("unesc/string") for k in res["good"]):
        # (the uncorrupted pair may legitimately fail through other interfaces on a defective tree)
        if ctx.violations:
            # ... and through String as well when the tree under test breaks the transform itself (the very same
            # cases are among the violations reported above): the comparison is live, there is nothing to add
            ctx.log("binding self-test on vectors: the uncorrupted pair fails on this tree too (%s); already reported" % sorted(res["good"])[:3])
            return 1
        raise verif.Undecided("binding self-test: uncorrupted vectors reported through String: %s" % res["good"])
    return 2


def selftest_traces(ctx, trace, rejected):
    """Corrupt recorded fields / drop an event of an accepted trace; TLC must reject each."""
    trs = verif.split_traces(verif.read_ndjson(trace))
    cand = [tr for t, tr in sorted(trs.items()) if t not in rejected and tr[-1]["ev"] == "end"
            and len(tr) <= 12 and any(e["ev"] == "xform" and e["nd"] > 0 and e["ns"] > 0 for e in tr)
            and sum(1 for e in tr if e["ev"] == "xform") >= 2]
    if not cand:
        if ctx.violations:      # every such trace is rejected on this tree: nothing left to corrupt
            ctx.log("binding self-test on traces skipped: no accepted trace to corrupt")
            return 0
        raise verif.Undecided("binding self-test: no accepted trace with two Transform calls")
    base = [{k: v for k, v in e.items() if k != "_line"} for e in cand[0]]
    i = [k for k, e in enumerate(base) if e["ev"] == "xform" and e["nd"] > 0 and e["ns"] > 0][0]

    def mut(f):
        m = [dict(e) for e in base]
        f(m)
        return m
    muts = [
        ("nd increased", mut(lambda m: m[i].update(nd=m[i]["nd"] + 1))),
        ("ns decreased", mut(lambda m: m[i].update(ns=m[i]["ns"] - 1))),
        ("written byte changed", mut(lambda m: m[i].update(w=m[i]["w"][:-1] + [m[i]["w"][-1] % 29 + 1]))),
        ("err changed to ErrShortSrc at EOF", mut(lambda m: m[-2].update(err="src"))),
        ("Transform event removed", mut(lambda m: m.pop(i))),
        ("final output truncated", mut(lambda m: m[-1].update(out=m[-1]["out"][:-1]))),
    ]
    p = ctx.path("selftest", "traces.ndjson")
    jc.write_traces(p, [base] + [m for _, m in muts])
    rej, _ = jc.validate(ctx, "TrEscape", CONSTS, p, name="TrEscapeSelf", timeout=300)
    if 1 in rej:
        raise verif.Undecided("binding self-test: the unchanged trace was rejected")
    missed = [muts[k - 2][0] for k in range(2, 2 + len(muts)) if k not in rej]
    if missed:
        raise verif.Undecided("binding self-test: corrupted traces ACCEPTED: %s" % missed)
    return len(muts)


def run(ctx):
    quick = ctx.tier == "quick"
    mcbg = jc.Background(lambda: design_check(ctx, quick))
    try:
        files, er = jc.emit(ctx, "EmitEscape", EMIT_CFG % dict(full=3, sub=5 if quick else 6,
                                                                chunks=2 if quick else 3, sweep=300),
                            ["vectors.ndjson", "sweeps.ndjson", "plan.json"])
        nvec = sum(1 for _ in open(files["vectors.ndjson"]))
        ctx.log("TLC emitted %d vectors + sweep kernels in %.1fs" % (nvec, er.wall))
        trace = ctx.path("trace.ndjson")
        if ctx.replay:
            case = json.load(open(ctx.replay))["case"]["case"]
            cf = ctx.path("replay-case.json")
            json.dump(case, open(cf, "w"))
            out = ctx.run_driver(ctx.go_build("escape"), ["replay", files["plan.json"], cf, trace], timeout=300,
                                 ok_codes=(0, 3))
            if "STALL " in out:
                raise verif.Undecided("driver stalled (watchdog) on the replayed case")
            summ = jc.summary_of(out)
        else:
            env = {"ESC_TRACE_EVERY": "3000" if quick else "6000",
                   "ESC_SWEEP_TRACE_EVERY": "20000" if quick else "4000",
                   "ESC_WORKERS": "4" if quick else "8"}
            summ = run_driver(ctx, files, trace, env)
        ctx.log("driver: %d evaluations on the real code (%d of them position sweeps), %d mismatches, %d traces / %d events recorded" % (
            summ["evaluations"], summ["extra"].get("sweep_evaluations", 0), summ["extra"]["mismatch_total"],
            summ["traces"], summ["events"]))
        rejected, tr = jc.validate(ctx, "TrEscape", CONSTS, trace, timeout=1500)
        ctx.log("TLC validated %d call-level traces / %d events: %d rejected (%d states, %.1fs)" % (
            summ["traces"], summ["events"], len(rejected), tr.distinct, tr.wall))
        report(ctx, summ, trace, rejected)
        nself = 0
        if not ctx.replay:
            # the violations found on the real code are already recorded (report() above) and decide the verdict: a
            # self-test that cannot be carried out on a tree that breaks the very cases it uses must not mask them
            try:
                nself = selftest_vectors(ctx, files) + selftest_traces(ctx, trace, rejected)
            except verif.Undecided as e:
                if not ctx.violations:
                    raise
                ctx.log("binding self-test inconclusive on a tree with violations (verdict unaffected): %s" % str(e)[:300])
    finally:
        mc = mcbg.result()
    ctx.write_evidence("model_checking", {
        "states": mc.distinct, "transitions": mc.generated,
        "traces_validated_against_impl": summ["traces"], "trace_events": summ["events"], "trace_states": tr.distinct,
        "vectors": nvec, "evaluations": summ["evaluations"], "sweep_evaluations": summ["extra"].get("sweep_evaluations", 0),
        "distinct_nontrivial": summ["distinct"],
        "mismatches": summ["extra"]["mismatch_total"], "mismatch_kinds": summ["extra"].get("mismatch_kinds"),
        "rejected_traces": len(rejected), "binding_selftest_mutants_rejected": nself,
        "exhaustive": "all strings of length <= 3 over the 31-byte alphabet, length <= %d over the 7-byte sub-alphabet, every prefix.\\h1h2.suffix with all hex pairs; every split into <= %d chunks; capacities {0..4,8} (streaming loop, and transform.Append with that much spare capacity); kernels at every offset 0..300 of 4 fillers and where their input or output offset crosses the 4096-byte buffers of transform.Reader / transform.Writer, in each position also with the destination ending exactly in front of the kernel's output and 1 / 2 bytes into it (streaming loop and transform.Append)" % (
            5 if quick else 6, 2 if quick else 3),
        "design_check": "MCEscape: streaming machine over all strings of length <= %d over the sub-alphabet + hex forms, both transformers, every call sequence with capacities {0..4,8}; reference-function laws over all strings of length <= 3 over the full alphabet; deviation PartialWrite shown to violate the invariants" % (3 if quick else 4),
        "rule": "a vector is one input byte string (distinct by content; inputs that contain escape-sequence look-alikes such as \\20 or \\5c are part of both directions); an evaluation is one (vector, transformer, interface, capacity, chunking) run on the real code compared with the spec-computed output; a trace is the call-level record of one evaluation",
        "samples": summ["samples"][:2] + [m for m in summ["mismatches"][:1]],
    }, assumptions=[
        "Esc escapes every one of the ten XEP-0106 characters including each backslash (what the package documents); the property itself only fixes Unesc(Esc(s)) = s",
        "outputs for kernels surrounded by up to 300 filler units are derived from the filler law, which TLC checks for 0..2 units",
        "ErrShortDst after progress and ErrShortSrc at any backslash in the last two bytes of a non-final chunk are allowed (the property only constrains results)"])
