"""Shared pipeline of the peerinput family (C09).

A  TLC checks the generator facts (ASSUMEs of tla/MCPeerInput.tla) and the run protocol of
   tla/PeerInput.tla (TypeOK, C09_NoFeedAfterReturn, C09_Terminates under fairness).
B  TLC (tla/EmitPeerInput.tla) enumerates the alphabet of shaped stanzas, the stanza / app-action
   sequences reaching every handler-table state, and the helper x reply-shape scenarios.
C  harness/cmd/peerinput runs every scenario (plus a seeded sample of truncations) against a
   really served session whose mux carries all the library's handlers and writes traces;
   TLC (tla/TrPeerInput.tla) validates them: it decides NoPanic / Terminates per trace.
The scan of single-value type assertions on xml.Token is an aid to the grammar (evidence only).
"""
import concurrent.futures, json, os, re, shutil, subprocess
import verif

MC_CFG = '''CONSTANT Tier = "%s"
SPECIFICATION Spec
INVARIANT TypeOK
INVARIANT C09_NoPanic
PROPERTY C09_NoFeedAfterReturn
PROPERTY C09_ServeSequential
PROPERTY C09_Terminates
CHECK_DEADLOCK FALSE
'''
PROPS = ["C09_EveryTableStateReachable", "C09_EveryShapeInEveryState", "C09_EveryTargetCovered", "C09_EveryConfigCrossed", "C09_ClassesDisjoint",
         "C09_LocalStateCrossed", "C09_EverySessionCrossed", "C09_ItemsKnown", "C09_LabelsUnique", "TypeOK", "C09_NoFeedAfterReturn",
         "C09_ServeSequential", "C09_Terminates"]


# code-like deviations of the run protocol in the lives of a session (tla/MCPeerInputDev.tla): TLC must
# report the violation of C09_Terminates for each, and none without a deviation (same bounds)
DEV_CFG = 'CONSTANT Tier = "%s"\nSPECIFICATION %s\nINVARIANT TypeOK\nPROPERTY C09_Terminates\nCHECK_DEADLOCK FALSE\n'
DEVS = ["SecondServeHangs", "ServeAfterCloseHangs", "UnservedCallHangs"]


def nonvacuity(ctx):
    def one(dev):
        return dev, ctx.tlc("MCPeerInputDev", DEV_CFG % (ctx.tier, "Spec" + dev), workers=1, timeout=300, name="MCPeerInputDev_" + dev)
    # (one after the other, beside the design check: small state spaces, no ASSUMEs)
    res = [one(d) for d in ["DevNone"] + DEVS]
    for dev, r in res:
        shutil.rmtree(r.dir, ignore_errors=True)
        if dev == "DevNone":
            if not r.ok or r.distinct < 2:
                raise verif.Undecided("non-vacuity: the run protocol without a deviation fails within the bounds of MCPeerInputDev:\n" + r.out[-1500:])
        elif not re.search(r"Error: Temporal propert(y C09_Terminates was|ies were) violated", r.out):
            raise verif.Undecided("non-vacuity: deviation %s does not violate C09_Terminates:\n%s" % (dev, r.out[-1500:]))
    return len(DEVS)


def design_check(ctx):
    with concurrent.futures.ThreadPoolExecutor(max_workers=2) as ex:
        nv = ex.submit(nonvacuity, ctx)
        r = ctx.model_check("MCPeerInput", MC_CFG % ctx.tier, PROPS, workers=4, timeout=600)
        r.nonvacuity = nv.result()
    # the progress lines print "1,895 states generated": take the final summary line
    m = re.findall(r"^(\d+) states generated, (\d+) distinct states found", r.out, re.M)
    if m:
        r.generated, r.distinct = int(m[-1][0]), int(m[-1][1])
    g = r.printed("GRAMMAR")
    nums = [int(x) for x in re.findall(r"\d+", g[-1])] if g else []
    r.grammar = dict(zip(["targets", "stanzas", "sequences", "helpers", "reply_scenarios"], nums))
    g = r.printed("SESSIONS")
    nums = [int(x) for x in re.findall(r"\d+", g[-1])] if g else []
    r.grammar.update(zip(["sessions", "session_x_addressing_singles", "session_life_sequences", "session_x_reply_from_shapes",
                          "session_life_helper_scenarios"], nums))
    return r


def emit(ctx):
    cfg = 'CONSTANT Tier = "%s"\nINIT EInit\nNEXT ENext\n' % ctx.tier
    r = ctx.tlc("EmitPeerInput", cfg, workers=1, timeout=600, name="EmitPeerInput", heap="4g")
    if not r.ok:
        raise verif.Undecided("EmitPeerInput failed:\n" + r.out[-3000:])
    out = {}
    for n in ("alphabet.ndjson", "seqs.ndjson", "replies.ndjson"):
        src = os.path.join(r.dir, n)
        if not os.path.exists(src):
            raise verif.Undecided("EmitPeerInput wrote no " + n)
        out[n] = ctx.path(n)
        shutil.move(src, out[n])
    m = r.printed("EMITTED")
    out["counts"] = [int(x) for x in re.findall(r"\d+", m[-1])] if m else []
    shutil.rmtree(r.dir, ignore_errors=True)
    return out


def build_cover(ctx):
    """The driver built with coverage counters for the library's packages (the verdict does not
    depend on them; if the instrumented build fails the plain one is used and the evidence says so)."""
    out = ctx.path("bin", "peerinput-cover")
    args = ["go", "build", "-modfile=" + ctx._modfile(), "-tags", "verif", "-cover",
            "-coverpkg=mellium.im/xmpp/...,verifharness/cmd/peerinput", "-o", out, "./cmd/peerinput"]
    p = subprocess.run(args, cwd=verif.HARNESS, env=verif.GOENV, stdout=subprocess.PIPE, stderr=subprocess.STDOUT, text=True)
    if p.returncode != 0:
        ctx.log("instrumented build failed, using the plain driver: " + p.stdout[-300:])
        return ctx.go_build("peerinput"), False
    return out, True


def drive(ctx, binpath, alphabet, files, cuts, name="trace", covdir=None, timeout=1500, randseq=0):
    tr = ctx.path(name + ".ndjson")
    env = {"PI_CUTS": str(cuts), "PI_RANDSEQ": str(randseq)}
    if covdir:
        os.makedirs(covdir, exist_ok=True)
        env["GOCOVERDIR"] = covdir
    out = ctx.run_driver(binpath, ["run", alphabet, tr] + files, env=env, timeout=timeout)
    summ = json.loads(out[out.rindex("SUMMARY ") + 8:])
    if summ.get("driver_errors"):
        raise verif.Undecided("driver could not run some scenarios: %s" % summ["driver_errors"][:3])
    return tr, summ


def validate(ctx, trace, name="TrPeerInput"):
    cfg = 'CONSTANT Tier = "%s"\nSPECIFICATION TSpec\nCONSTRAINT HW\nPOSTCONDITION Accepted\nCHECK_DEADLOCK FALSE\n' % ctx.tier
    r = ctx.tlc("TrPeerInput", cfg, files={"trace.ndjson": trace}, workers=1, timeout=1500, xss=True, name=name, heap="6g")
    rejected = {}
    body = r.printed("REJECTED")
    if body:
        for m in re.finditer(r"<<(\d+),\s*(\d+)>>", body[-1]):
            rejected[int(m.group(1))] = int(m.group(2))
    if not rejected and (r.rc != 0 or r.errors):
        raise verif.Undecided("trace validation failed to run:\n" + r.out[-3000:])
    shutil.rmtree(r.dir, ignore_errors=True)
    return rejected, r


# the local address of a session of each address class (LocalOfAddr of tla/PeerInput.tla)
LOCAL_OF = {"full": "test@example.net/res", "bare": "test@example.net", "domain": "example.net", "empty": ""}

LIBFRAME = re.compile(r"(mellium\.im/xmpp[\w/]*\.[\w\.\(\)\*]+)\(")


def signature(meta, ev):
    """grouping key of a rejected trace (not part of the verdict): outcome, where, what"""
    d = meta["detail"]
    out = (ev or {}).get("out", "?")
    txt = ""
    if "crash" in d:
        txt = d["crash"]
        m = re.search(r"panic: ([^\n]*)", txt)
        msg = m.group(1) if m else "crash"
        txt = txt[m.end():] if m else txt
    else:
        key = None
        if (ev or {}).get("ev") == "serve_ret":
            key = "serve" if ev.get("k", 1) == 1 else "serve%d" % ev["k"]      # the k-th call of Serve
        elif (ev or {}).get("ev") == "close":
            key = "close"
        if key is None:
            ks = [k for k in d if k.startswith("call%d:" % (ev or {}).get("k", 0))]
            key = ks[0] if ks else "serve"
        txt = d.get(key, "")
        msg = txt.split("\n")[0]
    if out == "STALL":
        # where the serve loop (or the call) is parked
        m = re.search(r"(mellium\.im/xmpp[\w/]*\.[\w\.\(\)\*]+)\(.*\n.*\n.*(?:Serve|main\.)", txt)
        frames = [f for f in LIBFRAME.findall(txt) if "Listener).Accept" not in f]
        where = frames[0] if frames else "?"
        # the reason is usually told by the call that left the response open
        calls = " ".join(v.split("\n")[0] for k, v in d.items() if k.startswith("call"))
        return ("STALL", where, re.sub(r"[0-9a-f]{8,}", "#", calls)[:80])
    frames = LIBFRAME.findall(txt)
    where = frames[0] if frames else "?"
    msg = re.sub(r"`[^`]*`", "`..`", msg)
    return (out, where, msg[:90])


def report(ctx, trace, rejected, limit=40):
    """Rejected traces -> violations, one per class (outcome, library function, message) with the
    shortest scenario of the class as the replay case."""
    ctx.unestablished = getattr(ctx, "unestablished", [])
    if not rejected:
        return {}
    evs = verif.read_ndjson(trace)
    trs = verif.split_traces(evs)
    meta = {m["t"]: m["meta"] for m in verif.read_ndjson(trace + ".meta")}
    groups = {}
    unestablished = []
    for t, hw in sorted(rejected.items()):
        tr = trs[t]
        ev = next((e for e in tr if e["_line"] == hw), None)
        m = meta[t]
        if (ev or {}).get("ev") == "app" and not any(e.get("out") in ("PANIC", "STALL") for e in tr):
            # an application action of the setup did not establish the state the generator meant
            # (TrApp): the scenario says nothing about the library - undecided, not a violation
            unestablished.append("%s: %s (%s)" % (" | ".join(m["labels"]), ev.get("act"), m["detail"].get("note", "local state %s" % ev.get("loc"))))
            continue
        if (ev or {}).get("ev") == "reset" and ev.get("oaddr") and (ev["oaddr"], ev.get("olocal")) != (ev.get("addr"), LOCAL_OF.get(ev.get("addr"))):
            # the construction did not make the session the generator meant (TrReset): no verdict either
            unestablished.append("session %s/%s: the constructed session has the local address %r (class %s)" % (
                ev.get("kind"), ev.get("addr"), ev.get("olocal"), ev.get("oaddr")))
            continue
        groups.setdefault(signature(m, ev), []).append((t, ev, m))
    ctx.unestablished = getattr(ctx, "unestablished", []) + unestablished
    for sig, members in sorted(groups.items(), key=lambda kv: str(kv[0]))[:limit]:
        members.sort(key=lambda x: (len(x[2]["labels"]), len(json.dumps(x[2]["scenario"]))))
        t, ev, m = members[0]
        sc = m["scenario"]
        labs = [" | ".join(x[2]["labels"]) + (" [cut at %d]" % x[2]["scenario"]["cut"]["off"] if x[2]["scenario"].get("cut") else "")
                for x in members[:6]]
        se, life = sc.get("sess") or {"kind": "c2s", "addr": "full"}, sc.get("life") or "fresh"
        on = "" if (se["kind"], se["addr"], life) == ("c2s", "full", "fresh") else " [session %s, local address %s, %s]" % (
            se["kind"], se["addr"], {"fresh": "served once", "closed": "closed by the application before Serve",
                                     "again": "Serve called again after it returned", "unserved": "never served"}.get(life, life))
        what = "%s in %s: %s; %d scenario(s), e.g.%s %s%s" % (
            sig[0], sig[1], sig[2], len(members), on,
            ("helper %s answered with " % sc["helper"]) if sc.get("helper") else "", "; ".join(labs))
        ctx.violation(what, {"family": "peerinput", "scenario": sc, "labels": m["labels"],
                             "trace": [{k: v for k, v in e.items() if k != "_line"} for e in trs[t]],
                             "rejected_event": ev, "expected": "Serve keeps going or returns nil/an error and has returned once the input ended; every call returns a value or an error",
                             "observed": {k: v for k, v in m["detail"].items() if k != "ms"},
                             "class_size": len(members)})
    return groups


# ----------------------------------------------------------------------------- grammar aid
ASSERT = re.compile(r"^\s*(?:var\s+)?\w+\s*:?=\s*\w+\.\(xml\.(StartElement|EndElement|CharData|Token)\)\s*$")
FUNC = re.compile(r"^func\s+(?:\(([^)]*)\)\s*)?(\w+)\s*\(")
SKIP_DIRS = ("internal/xmpptest", "examples", "design", "docs", "internal/integration")


def scan_assertions(repo):
    """single-value type assertions on xml.Token in non-test sources: [(file, line, func, func line)]"""
    res = []
    for root, dirs, files in os.walk(repo):
        rel = os.path.relpath(root, repo)
        if rel.startswith(".git") or any(rel == d or rel.startswith(d + "/") for d in SKIP_DIRS):
            continue
        for f in files:
            if not f.endswith(".go") or f.endswith("_test.go"):
                continue
            p = os.path.join(root, f)
            cur, curline = None, 0
            for i, l in enumerate(open(p, errors="replace"), 1):
                m = FUNC.match(l)
                if m:
                    recv = (m.group(1) or "").split()
                    cur = ((recv[-1] + ".") if recv else "") + m.group(2)
                    curline = i
                if ASSERT.match(l):
                    res.append({"file": os.path.normpath(os.path.join(rel, f)), "line": i, "func": cur, "func_line": curline,
                                "code": l.strip()})
    return sorted(res, key=lambda x: (x["file"], x["line"]))


def function_coverage(ctx, covdir):
    """{(file relative to the repo, line of the func declaration): percent}"""
    p = subprocess.run(["go", "tool", "covdata", "func", "-i=" + covdir], env=verif.GOENV, stdout=subprocess.PIPE,
                       stderr=subprocess.STDOUT, text=True)
    cov = {}
    if p.returncode != 0:
        return None
    for l in p.stdout.splitlines():
        m = re.match(r"mellium\.im/xmpp/(\S+\.go):(\d+):\s+(\S+)\s+([\d.]+)%", l)
        if m:
            cov[(m.group(1), int(m.group(2)))] = float(m.group(4))
    return cov


def selftest_binding(ctx, trace):
    """The binding is demonstrated, not assumed: corrupt accepted traces (an outcome becomes PANIC,
    a call's return becomes STALL, the serve_ret event is removed, a feed is skipped) and require
    TLC to reject each."""
    evs = verif.read_ndjson(trace)
    trs = verif.split_traces(evs)
    def good(tr):
        return (any(e["ev"] == "app_ret" and e["out"] in ("value", "error") for e in tr) and tr[-1]["ev"] == "end"
                and sum(1 for e in tr if e["ev"] == "feed") >= 2
                and all(e.get("out") not in ("PANIC", "STALL") for e in tr))
    cand = [t for t, tr in trs.items() if good(tr)]
    if not cand:
        raise verif.Undecided("binding self-test: no accepted trace with two feeds and a returning call")
    base = [{k: v for k, v in e.items() if k != "_line"} for e in trs[cand[0]]]
    def mut(f):
        m = [dict(e) for e in base]
        return f(m) or m
    def setout(ev, out):
        def f(m):
            next(e for e in m if e["ev"] == ev)["out"] = out
        return f
    def drop(ev):
        def f(m):
            i = next(k for k, e in enumerate(m) if e["ev"] == ev)
            del m[i]
        return f
    def skipfeed(m):
        f = [e for e in m if e["ev"] == "feed"]
        f[0]["i"] = f[0]["i"] + 1
    def setfield(pred, k, v):
        def f(m):
            next(e for e in m if pred(e))[k] = v
        return f
    # a trace with a setup whose application action establishes local state (IBB: unflushed bytes)
    def local(tr):
        return (tr[0].get("setup", 0) >= 2 and tr[-1]["ev"] == "end" and all(e.get("out") not in ("PANIC", "STALL") for e in tr)
                and any(e["ev"] == "app" and e.get("loc") == "buffered" and e["i"] <= tr[0]["setup"] for e in tr))
    lc = [t for t, tr in trs.items() if local(tr)]
    if not lc:
        raise verif.Undecided("binding self-test: no accepted trace whose setup leaves unflushed bytes in a bytestream")
    lbase = [{k: v for k, v in e.items() if k != "_line"} for e in trs[lc[0]]]
    def lmut(f):
        m = [dict(e) for e in lbase]
        return f(m) or m
    isapp = lambda e: e["ev"] == "app"
    isev = lambda n: (lambda e: e["ev"] == n)
    # traces of the other lives of a session: Serve called again after it returned; closed by the
    # application before Serve; never served; and a session without a local address
    def oflife(lf, addr=None):
        c = [t for t, tr in trs.items() if tr[0].get("life") == lf and tr[-1]["ev"] == "end" and (addr is None or tr[0].get("addr") == addr)
             and all(e.get("out") not in ("PANIC", "STALL") for e in tr)]
        if not c:
            raise verif.Undecided("binding self-test: no accepted trace of a session with life %s%s" % (lf, " and address class %s" % addr if addr else ""))
        return [{k: v for k, v in e.items() if k != "_line"} for e in trs[c[0]]]
    again, closed, unserved, noaddr = oflife("again"), oflife("closed"), oflife("unserved"), oflife("fresh", "empty")
    def of(basetr, f):
        m = [dict(e) for e in basetr]
        return f(m) or m
    def setlast(ev, k, v):
        def f(m):
            [e for e in m if e["ev"] == ev][-1][k] = v
        return f
    def droplast(ev):
        def f(m):
            del m[max(k for k, e in enumerate(m) if e["ev"] == ev)]
        return f
    sessmutants = [
        ("second Serve PANIC", of(again, setlast("serve_ret", "out", "PANIC"))),
        ("second Serve STALL", of(again, setlast("serve_ret", "out", "STALL"))),
        ("second Serve never returns", of(again, droplast("serve_ret"))),
        ("second Serve not called", of(again, lambda m: [e for k, e in enumerate(m) if k < max(j for j, x in enumerate(m) if x["ev"] == "serve")] + [m[-1]])),
        ("Serve of a closed session not called", of(closed, lambda m: [e for e in m if e["ev"] not in ("serve", "serve_ret", "feed", "eof")])),
        ("third Serve", of(again, lambda m: m[:-1] + [{"ev": "serve"}, {"ev": "serve_ret", "out": "error"}, m[-1]])),
        ("Close PANIC", of(closed, setfield(isev("close"), "out", "PANIC"))),
        ("Close STALL", of(closed, setfield(isev("close"), "out", "STALL"))),
        ("Serve before the Close of a closed session", of(closed, lambda m: [e for e in m if e["ev"] != "close"])),
        ("Serve on a session meant to stay unserved", of(unserved, lambda m: m[:-1] + [{"ev": "serve"}, {"ev": "serve_ret", "out": "error"}, m[-1]])),
        ("unserved session never closed", of(unserved, lambda m: [e for e in m if e["ev"] != "close"])),
        ("Serve PANIC on the session without an address", of(noaddr, setout("serve_ret", "PANIC"))),
        ("observed local address class differs", of(noaddr, setfield(isev("reset"), "oaddr", "full"))),
        ("observed local address differs", of(noaddr, setfield(isev("reset"), "olocal", "test@example.net"))),
        ("unknown life", of(again, setfield(isev("reset"), "life", "bogus"))),
        ("session kind without that address class", of(noaddr, setfield(isev("reset"), "kind", "bogus"))),
        ("s2s session with a full address", of(base, lambda m: [dict(m[0], kind="s2s")] + m[1:])),
    ]
    mutants = sessmutants + [("local state not reached", lmut(setfield(isapp, "loc", "clean"))), ("setup action not established", lmut(setfield(isapp, "est", False))),
               ("unknown application action", lmut(setfield(isapp, "act", "app:bogus"))),
               ("unknown handler configuration", lmut(setfield(lambda e: e["ev"] == "reset", "cfg", "bogus"))),
               ("serve_ret STALL with local state", lmut(setout("serve_ret", "STALL"))),
               ("serve_ret PANIC", mut(setout("serve_ret", "PANIC"))), ("serve_ret STALL", mut(setout("serve_ret", "STALL"))),
               ("app_ret PANIC", mut(setout("app_ret", "PANIC"))), ("app_ret STALL", mut(setout("app_ret", "STALL"))),
               ("serve_ret removed", mut(drop("serve_ret"))), ("app_ret removed", mut(drop("app_ret"))),
               ("feed out of order", mut(skipfeed)),
               ("crash", [dict(base[0]), {"ev": "crash", "out": "PANIC"}])]
    p = ctx.path("selftest.ndjson")
    line = 0
    with open(p, "w") as f:
        for k, (_, m) in enumerate([("unchanged", base)] + mutants + [("unchanged with local state", lbase), ("unchanged, served again", again),
                                                                    ("unchanged, closed before Serve", closed), ("unchanged, never served", unserved),
                                                                    ("unchanged, no local address", noaddr)]):
            m[0]["t"] = k + 1
            m[0]["end"] = line + len(m) + 1
            for e in m:
                f.write(json.dumps(e) + "\n")
            line += len(m)
    rej, r = validate(ctx, p, name="TrPeerInput_selftest")
    if 1 in rej or any(k in rej for k in range(len(mutants) + 2, len(mutants) + 7)):
        raise verif.Undecided("binding self-test: an unchanged trace was rejected")
    missed = [mutants[k - 2][0] for k in range(2, 2 + len(mutants)) if k not in rej]
    if missed:
        raise verif.Undecided("binding self-test: corrupted traces ACCEPTED: %s" % missed)
    return len(mutants)
