"""Family "dial" (growth beyond C01-C20): how the library finds and connects to a server.

  dial.Dialer.Dial / DialServer   SRV discovery (internal/discover.LookupServiceByDomain, FallbackRecords), the
                                  "." target, fallback ports, implicit TLS first, priorities, TLS ServerName / ALPN,
                                  context cancellation, no leaked sockets
  websocket.Dialer.Dial           Web Host Metadata discovery (internal/discover.LookupWebSocket), wss before ws,
                                  InsecureNoTLS, errors for ill-formed / missing documents

Pipeline A: TLC design check of tla/Dial.tla over the scenario universe of tla/MCDialQuick.tla (thorough:
MCDialFull.tla), plus one failing run per named deviation (non-vacuity).  Pipeline B: TLC emits the scenario
universe (configurations x DNS answers x endpoint behaviour x cancellation points; host-meta documents x endpoint
behaviour) as JSON (tla/EmitDial.tla).  Pipeline C: harness/cmd/dial runs the REAL dialers on every scenario
against an in-process fake world (DNS server behind net.Resolver.Dial, loopback listeners, in-memory host-meta
server) and TLC validates every recorded trace against tla/TrDial.tla.

run_part(ctx) returns a coverage dict; violations are reported through ctx.violation with `what` starting "dial:"."""
import glob, json, os, re, subprocess, time
from concurrent.futures import ThreadPoolExecutor
import verif

INV = ["D_LookupRule", "D_LookupName", "D_DotMeansNo", "D_Fallback", "D_AllTried", "D_OnlyCandidates", "D_Order",
       "D_AtMostOnce", "D_FirstSuccess", "D_Result", "D_NoLeak", "D_TLSMode", "D_Cancel", "D_FallbackPort"]
ACT = ["D_Final"]
# deviation -> the property it must break (non-vacuity)
DEV = {
    "LookupUnwanted": "D_LookupRule", "UnicodeLookup": "D_LookupRule", "WrongRole": "D_LookupName", "WrongDomain": "D_LookupName",
    "WrongURL": "D_LookupName", "DotFallback": "D_DotMeansNo", "NoFallback": "D_AllTried", "FallbackWithRecords": "D_Fallback",
    "ClientPortsForS2S": "D_FallbackPort", "PlainFirst": "D_Order", "IgnorePriority": "D_Order", "WsFirst": "D_Order",
    "RetryCandidate": "D_AtMostOnce", "ContinueAfterSuccess": "D_FirstSuccess", "LeakFailed": "D_NoLeak", "TLSOnPlain": "D_TLSMode",
    "SNITarget": "D_TLSMode", "WrongALPN": "D_TLSMode", "PlainOnTLS": "D_TLSMode", "WrongProto": "D_TLSMode",
    "IgnoreCancel": "D_Cancel", "GiveUpEarly": "D_AllTried", "NilNil": "D_Result", "AnyRel": "D_OnlyCandidates",
    "InsecureAlways": "D_OnlyCandidates",
}
SMALL = "1g -XX:TieredStopAtLevel=1 -XX:ParallelGCThreads=2"
BIG = "4g -XX:ParallelGCThreads=4"


def mc_cfg(spec, dev=(), inv=INV, props=ACT):
    c = "CONSTANTS\n  Dev = %s\n  Scenarios = {}\nSPECIFICATION %s\n" % (verif.tla_value(set(dev)), spec)
    c += "".join("INVARIANT %s\n" % i for i in inv) + "".join("PROPERTY %s\n" % p for p in props)
    return c + "CHECK_DEADLOCK FALSE\n"


def design_checks(ctx):
    """Pipeline A; the jobs run side by side (the deviation runs are tiny)."""
    quick = ctx.tier == "quick"
    with ThreadPoolExecutor(max_workers=6) as ex:
        main = ex.submit(ctx.model_check, "MCDialQuick" if quick else "MCDialFull", mc_cfg("SpecQuick" if quick else "SpecFull"),
                         INV + ACT, name="MCDial_safe", workers=4 if quick else max(4, verif.NCPU // 2), timeout=3000, heap=BIG)
        # one run per deviation, checking only the property it is meant to break (with all of them in the
        # configuration TLC stops at whichever violation a worker meets first)
        devs = [(d, p, ex.submit(ctx.tlc, "MCDial", mc_cfg("SpecTiny", dev=[d], inv=[p], props=[]), name="MCDial_" + d, workers=2, timeout=900, heap=SMALL))
                for d, p in DEV.items()]
        res = main.result()
        for d, prop, f in devs:
            r = f.result()
            if r.rc == 0 or prop not in r.violated:
                raise verif.Undecided("design check Dial: deviation %s is not caught by %s (vacuous property?)\n%s" % (d, prop, r.out[-1500:]))
    ctx.log("design checks: %d deviations, each caught by the property it is meant for" % len(devs))
    return res, len(devs)


# ------------------------------------------------------------------------------------------ scenarios (pipeline B)
def emit_scenarios(ctx):
    mod = "EmitDial" if ctx.tier == "quick" else "EmitDialFull"
    r = ctx.tlc(mod, "CONSTANTS\n  Dev = {}\n  Scenarios = {}\nSPECIFICATION Spec\n", workers=1, timeout=1800, name=mod, heap=BIG)
    files = sorted(glob.glob(os.path.join(r.dir, "dial_scen_*.ndjson")))
    if not r.ok or not files:
        raise verif.Undecided("scenario emission failed:\n%s" % r.out[-3000:])
    seen, out = set(), []
    for f in files:
        for line in open(f):
            line = line.strip()
            if line and line not in seen:
                seen.add(line)
                out.append(json.loads(line))
    return out


# ------------------------------------------------------------------------------------------ driver, validation (pipeline C)
def run_driver(ctx, scen, shards):
    b = ctx.go_build("dial")
    sf = ctx.path("dial-scen.ndjson")
    with open(sf, "w") as f:
        for s in scen:
            f.write(json.dumps(s) + "\n")
    shards = max(1, min(shards, len(scen)))
    procs = []
    for i in range(shards):
        tf = ctx.path("dial-trace-%d.ndjson" % i)
        env = dict(verif.GOENV, DIAL_SHARD="%d/%d" % (i, shards), GOMAXPROCS="4")
        env.pop("SSL_CERT_FILE", None)
        procs.append((tf, subprocess.Popen([b, "run", sf, tf], env=env, cwd=ctx.scratch, stdout=subprocess.PIPE, stderr=subprocess.STDOUT, text=True)))
    summ = {"traces": 0, "events": 0, "evaluations": 0, "stuck": 0, "dns_queries": 0, "samples": []}
    files = []
    for tf, p in procs:
        try:
            out, _ = p.communicate(timeout=3000)
        except subprocess.TimeoutExpired:
            p.kill()
            raise verif.Undecided("dial driver timed out")
        if p.returncode != 0 or "SUMMARY " not in out:
            raise verif.Undecided("dial driver failed (exit %s):\n%s" % (p.returncode, out[-3000:]))
        s = json.loads(out[out.rindex("SUMMARY ") + 8:])
        for k in ("traces", "events", "evaluations"):
            summ[k] += s[k]
        summ["stuck"] += s.get("extra", {}).get("stuck", 0)
        summ["dns_queries"] += s.get("extra", {}).get("dns_queries", 0)
        summ["samples"] += s["samples"][:1]
        files.append(tf)
    return files, summ


def merge(ctx, files, name):
    """Concatenate per-shard batch trace files, renumbering t / end; returns (path, {t: meta})."""
    out = ctx.path(name)
    meta = {}
    line = 0
    t = 0
    with open(out, "w") as w:
        for fn in files:
            evs = verif.read_ndjson(fn)
            metas = {m["t"]: m["meta"] for m in verif.read_ndjson(fn + ".meta")} if os.path.exists(fn + ".meta") else {}
            base = line
            tmap = {}
            for e in evs:
                if e.get("ev") == "reset":
                    t += 1
                    tmap[e["t"]] = t
                    e["t"] = t
                    e["end"] = e["end"] + base
                w.write(json.dumps(e) + "\n")
                line += 1
            for old, new in tmap.items():
                meta[new] = metas.get(old, {})
    return out, meta


def validate(ctx, trace, name="TrDial"):
    cfg = "CONSTANTS\n  Dev = {}\n  Scenarios = {}\nSPECIFICATION TSpec\nCONSTRAINT HW\nPOSTCONDITION Accepted\nCHECK_DEADLOCK FALSE\n"
    r = ctx.tlc("TrDial", cfg, files={"trace.ndjson": trace}, workers=1, timeout=3000, xss=True, deque=True, name=name, heap=BIG)
    rejected = {}
    body = r.printed("REJECTED")
    if body:
        for m in re.finditer(r"<<(\d+),\s*(\d+)>>", body[-1]):
            rejected[int(m.group(1))] = int(m.group(2))
    if not rejected and (r.rc != 0 or r.errors):
        raise verif.Undecided("trace validation TrDial failed to run:\n%s" % r.out[-5000:])
    return rejected, r


CAND = {10: "the domain itself on the direct-TLS default port", 20: "the domain itself on the STARTTLS default port"}


def cand_name(c):
    if c in CAND:
        return CAND[c]
    if 10 < c < 20:
        return "xmpps record %d" % (c - 10)
    if 20 < c < 30:
        return "xmpp record %d" % (c - 20)
    if c > 30:
        return "Link %d of the host-meta document" % (c - 30)
    return "an endpoint nobody named (%d)" % c


def describe(ev, sc, tr):
    """One line saying which rule the rejected event contradicts."""
    who = "websocket.Dialer.Dial" if sc.get("via") == "ws" else ("dial.Dialer.DialServer" if sc.get("entry") == "dialserver" else "dial.Dialer.Dial")
    e = ev.get("ev") if ev else None
    before = [x for x in tr if ev and x["_line"] < ev["_line"]]
    if e == "panic":
        return "%s: panic: %s" % (who, ev.get("msg"))
    if e == "lookup":
        return "%s: SRV lookup %s-%s of the %s domain is not one the configuration asks for (NoLookup / NoTLS / S2S / DialServer / IDNA A-label form)" % (who, ev.get("svc"), ev.get("role"), ev.get("dom"))
    if e == "fetch":
        return "%s: the host-meta request does not go to https://<domainpart>/.well-known/host-meta" % who
    if e == "resolve":
        h = ev.get("h")
        tried = [x.get("h") for x in before if x.get("ev") == "resolve"]
        if h == -1:
            return "%s: connects to a host name nobody named as an endpoint" % who
        why = "it was tried before" if h in tried and h != 0 else "it is not an endpoint the discovery rules give, an endpoint that has to be tried first was left out, or not every SRV lookup was made before"
        return "%s: attempt on %s after %s: %s (R1-R4/R7: \".\" target, fallback only without records, implicit TLS / wss first, priorities in order, at most once)" % (
            who, cand_name(h) if h else "the domain itself (fallback)", [cand_name(x) if x else "fallback" for x in tried] or "nothing", why)
    if e == "connect":
        return "%s: socket for %s, port %s: not the endpoint being tried, or the wrong default port for this connection type (RFC 6120 3.2.2: 5222 c2s, 5269 s2s; 5223 / 5270 direct TLS)" % (who, cand_name(ev.get("c", 0)), ev.get("port"))
    if e == "hello":
        return "%s: TLS ClientHello on %s with server name class %r, ALPN %r: a handshake where none belongs, or not the name / protocol id the rules give (default config: the JID's domainpart in A-label form resp. the URL's host; XEP-0368 ALPN xmpp-client / xmpp-server)" % (
            who, cand_name(ev.get("c", 0)), ev.get("sni"), ev.get("alpn"))
    if e == "wsreq":
        return "%s: WebSocket upgrade request on %s out of place or without the xmpp subprotocol" % (who, cand_name(ev.get("c", 0)))
    if e == "cancel":
        return "%s: the driver's cancellation point is not reachable in the specification's state (an earlier step was wrong)" % who
    if e == "ret":
        if ev.get("ok") and ev.get("nilconn"):
            return "%s: returned neither a connection nor an error" % who
        if ev.get("leaks"):
            return "%s: sockets still open after the call returned although they were not returned: %s" % (who, [cand_name(c) for c in ev["leaks"]])
        tried = [x.get("h") for x in before if x.get("ev") == "resolve"]
        looked = [x.get("svc") for x in before if x.get("ev") == "lookup"]
        if ev.get("ok"):
            return "%s: returned a connection to %s (%s) after attempts on %s: not the endpoint that the rules make the result (first one that accepts; never after the context is done; TLS exactly on direct-TLS endpoints)" % (
                who, cand_name(ev.get("c", 0)), ev.get("mode"), [cand_name(x) if x else "fallback" for x in tried])
        return "%s: returned an error (class %s) after SRV lookups %s and attempts on %s: endpoints the rules name were never tried (no records => the domain itself on the default ports; internationalized domain => lookups in A-label form), or the SRV lookups were not made" % (
            who, ev.get("err"), looked or "none", [cand_name(x) if x else "fallback" for x in tried] or "nothing")
    if e == "end":
        return "%s: not finished at the end of the run" % who
    return "%s: event %s is not allowed by the specification" % (who, json.dumps(ev)[:200])


def scen_brief(sc):
    if sc.get("via") == "ws":
        return {k: sc.get(k) for k in ("via", "tlscfg", "insecure", "doc", "links")}
    d = {k: sc.get(k) for k in ("entry", "s2s", "notls", "nolookup", "tlscfg", "idn", "dns", "fb")}
    if sc.get("cancel", {}).get("at") != "none":
        d["cancel"] = sc["cancel"]
    return d


def weight(sc):
    """How far a scenario is from the plain configuration (the simplest example is reported)."""
    return sum(1 for k in ("s2s", "notls", "nolookup", "insecure") if sc.get(k)) + (sc.get("tlscfg") == "custom") + (sc.get("entry") == "dialserver") \
        + (sc.get("cancel", {}).get("at", "none") != "none")


def judge(ctx, files):
    tr, meta = merge(ctx, files, "dial-trace.ndjson")
    rej, r = validate(ctx, tr)
    trs = verif.split_traces(verif.read_ndjson(tr)) if rej else {}
    groups = {}
    stuck = 0
    for t, hw in sorted(rej.items()):
        ev = [e for e in trs[t] if e["_line"] == hw]
        ev = ev[0] if ev else None
        sc = meta[t].get("scenario", {})
        if any(e.get("ev") == "stuck" for e in trs[t]):
            stuck += 1       # the watchdog fired: undecided, not a verdict
            continue
        what = describe(ev, sc, trs[t])
        key = re.sub(r"\d+", "#", re.sub(r"\[[^\]]*\]", "[..]", what))[:150]      # one report per kind of failure
        groups.setdefault(key, []).append((t, hw, ev, sc, what))
    for key, lst in groups.items():
        t, hw, ev, sc, what = min(lst, key=lambda x: (weight(x[3]), len(json.dumps(x[3]))))
        ctx.violation("dial: %s [%d traces like this; e.g. %s]" % (what, len(lst), json.dumps(scen_brief(sc))[:500]),
                      {"family": "dial", "scenario": sc, "trace": trs[t], "rejected_line": hw, "rejected_event": ev, "similar": len(lst)})
    return len(meta), len(rej), stuck, r, tr


def selftest(ctx, trace):
    """Binding self-test: corrupt recorded fields of good traces; TLC must reject each."""
    trs = verif.split_traces(verif.read_ndjson(trace))
    strip = lambda tr: [{k: v for k, v in e.items() if k != "_line"} for e in tr]
    evs = lambda tr, name: [k for k, e in enumerate(tr) if e.get("ev") == name]
    ok_ret = lambda tr: any(e.get("ev") == "ret" and e.get("ok") for e in tr)
    plain = lambda tr: tr[0].get("cancel", {}).get("at") == "none" and not tr[0].get("idn") and tr[0].get("tlscfg") == "default"
    srv = [tr for tr in trs.values() if tr[0].get("via") == "srv" and plain(tr) and len(evs(tr, "hello")) >= 2 and len(evs(tr, "lookup")) == 2 and ok_ret(tr)
           and [e for e in tr if e.get("ev") == "ret"][0].get("mode") == "tls"]
    fb = [tr for tr in trs.values() if tr[0].get("via") == "srv" and plain(tr) and not tr[0].get("s2s") and any(e.get("ev") == "connect" and e.get("c") == 20 for e in tr) and ok_ret(tr)]
    ws = [tr for tr in trs.values() if tr[0].get("via") == "ws" and len(evs(tr, "wsreq")) >= 1 and ok_ret(tr) and len(evs(tr, "resolve")) >= 2]
    if not srv or not fb or not ws:
        raise verif.Undecided("binding self-test: no suitable trace (srv %d, fallback %d, ws %d)" % (len(srv), len(fb), len(ws)))
    cases = []

    def mut(base, label, f):
        m = [dict(e) for e in base]
        f(m)
        cases.append((label, m))

    b = strip(srv[0])
    cases.append(("unchanged", [dict(e) for e in b]))
    mut(b, "server name of the ClientHello is the SRV target", lambda m: m[evs(m, "hello")[0]].update(sni="target"))
    mut(b, "ALPN id missing", lambda m: m[evs(m, "hello")[-1]].update(alpn="none"))
    mut(b, "another endpoint returned", lambda m: m[evs(m, "ret")[0]].update(c=m[evs(m, "resolve")[0]]["h"]))
    mut(b, "first endpoint's socket left open", lambda m: m[evs(m, "ret")[0]].update(leaks=[m[evs(m, "connect")[0]]["c"]]))
    mut(b, "an SRV lookup missing", lambda m: m.pop(evs(m, "lookup")[0]))
    mut(b, "error returned instead of the connection", lambda m: m[evs(m, "ret")[0]].update(ok=False, err="other", nilconn=True, c=0, mode="none", contls=False))
    mut(b, "first two attempts swapped", lambda m: (lambda i, j: (m[i].update(h=m[j]["h"]), ))(evs(m, "resolve")[0], evs(m, "resolve")[1]))
    mut(b, "plain connection returned for a direct-TLS endpoint", lambda m: m[evs(m, "ret")[0]].update(mode="plain", contls=False))
    b2 = strip(fb[0])
    cases.append(("unchanged", [dict(e) for e in b2]))
    mut(b2, "fallback on the s2s port for a c2s connection", lambda m: [e.update(port=5269) for e in m if e.get("ev") == "connect" and e.get("c") == 20])
    b3 = strip(ws[0])
    cases.append(("unchanged", [dict(e) for e in b3]))
    mut(b3, "host-meta fetched from another URL", lambda m: m[evs(m, "fetch")[0]].update(ok=False))
    mut(b3, "upgrade without the xmpp subprotocol", lambda m: m[evs(m, "wsreq")[-1]].update(proto=False))
    mut(b3, "no connection and no error", lambda m: m[evs(m, "ret")[0]].update(nilconn=True, c=0, mode="none", contls=False))
    p = ctx.path("selftest-dial.ndjson")
    line = 0
    with open(p, "w") as f:
        for k, (_, mm) in enumerate(cases):
            for n, e in enumerate(mm):
                if n == 0:
                    e["t"] = k + 1
                    e["end"] = line + len(mm) + 1
                f.write(json.dumps(e) + "\n")
            line += len(mm)
    rej, _ = validate(ctx, p, name="TrDial_selftest")
    bad = [lab for k, (lab, _) in enumerate(cases) if lab == "unchanged" and (k + 1) in rej]
    if bad:
        raise verif.Undecided("binding self-test: an unchanged trace is rejected")
    missed = [lab for k, (lab, _) in enumerate(cases) if lab != "unchanged" and (k + 1) not in rej]
    if missed:
        raise verif.Undecided("binding self-test: corrupted traces ACCEPTED: %s" % missed)
    return len([c for c in cases if c[0] != "unchanged"])


def run_part(ctx):
    quick = ctx.tier == "quick"
    bg = ThreadPoolExecutor(max_workers=1)
    design = bg.submit(design_checks, ctx)        # pipeline A runs beside the driver
    try:
        if ctx.replay:
            scen = [json.load(open(ctx.replay))["case"]["scenario"]]
        else:
            scen = emit_scenarios(ctx)
        t0 = time.time()
        files, summ = run_driver(ctx, scen, shards=4 if quick else max(4, verif.NCPU // 2))
        ctx.log("ran %d scenarios against the real dialers: %d traces, %d events, %d DNS questions, %.1fs" % (
            len(scen), summ["traces"], summ["events"], summ["dns_queries"], time.time() - t0))
        n, nrej, stuck, r, tr = judge(ctx, files)
    finally:
        mc, ndev = design.result()
    ctx.log("TLC validated %d traces (%d rejected, %d of them watchdog stalls)" % (n, nrej, stuck))
    if stuck and not ctx.violations:
        raise verif.Undecided("dial: %d scenarios hit the %s watchdog (no verdict from a timeout)" % (stuck, "40 s"))
    nself = 0
    if not ctx.replay and not ctx.violations:
        nself = selftest(ctx, tr)
    via = lambda v: sum(1 for s in scen if s.get("via") == v)
    return {
        "states": mc.distinct, "transitions": mc.generated, "depth": mc.depth, "deviations_caught": ndev,
        "scenarios": len(scen), "srv_scenarios": via("srv"), "hostmeta_scenarios": via("ws"),
        "cancel_scenarios": sum(1 for s in scen if s.get("cancel", {}).get("at") != "none"),
        "evaluations": summ["evaluations"], "traces_validated_against_impl": summ["traces"], "trace_events": summ["events"],
        "dns_questions_answered": summ["dns_queries"], "trace_states": r.distinct, "rejected": nrej, "stalls": stuck,
        "binding_selftest_mutants_rejected": nself, "distinct_nontrivial": len(scen),
        "samples": summ["samples"][:2],
        "rule": "SRV part: Dialer.Dial / DialServer x S2S x NoTLS x NoLookup x default / own tls.Config x ASCII / internationalized domain x per service "
                "(xmpps, xmpp) one of NXDOMAIN, empty answer, \".\", SERVFAIL, <= 2 (thorough: 3) records with priorities and weights x per endpoint one of "
                "refused, no address, plain, direct TLS with the right / a wrong certificate x fallback endpoints x cancellation of the context during an SRV "
                "lookup, an address lookup or a TLS handshake; host-meta part: documents of <= 3 links (rel websocket / xbosh / other x wss, ws, https, unparsable "
                "URL x endpoint working, refusing the upgrade, wrong certificate, refused, no address), empty / ill-formed / missing / unreachable document x "
                "InsecureNoTLS x default / own tls.Config; every scenario of the universe is run (no sampling)",
    }
