"""C19 - extension payloads encode consistently, safely and round-trip.
A: TLC design checks: MCForm (data form life cycle: every sequence of Set/Get/Raw/Submit/TokenReader/
   Unmarshal up to a bound on every configuration) and MCCodec (stack automaton = grammar).
B: TLC enumerates the typed table of Codec.tla (exhaustive < 5000 values per type, pairwise covering
   otherwise), the payload-shape grammar per decodable type, and the form configurations.
C: harness/cmd/codec runs every encoder and decoder of every table type on every value and every
   shaped document through every decoder; TLC (TrCodec) decides WellFormed / PathsAgree / RoundTrip /
   NoFailure.  The form life cycle is driven on the real form package (exhaustive short sequences +
   seeded random ones, on constructed forms and on forms decoded from documents of every type) and
   every trace is validated by TLC against Form.tla (TrForm)."""
import json, os, re, shutil
from concurrent.futures import ThreadPoolExecutor
import verif
import codeccommon as cc

MCFORM_CFG = '''CONSTANTS
  Tier = "quick"
  Dev = %(dev)s
  MaxOps = %(maxops)d
SPECIFICATION Spec
INVARIANT TypeOK
INVARIANT C19_StoredFits
INVARIANT C19_SetIffFits
INVARIANT C19_GetAfterSet
INVARIANT C19_GetReportsIt
INVARIANT C19_SubmitShape
INVARIANT C19_SubmitValuesDefined
INVARIANT C19_DecodedFormsUsable
INVARIANT C19_SubmitLossless
INVARIANT C19_NoPanic
INVARIANT C19_CandidatesAcceptable
PROPERTY C19_FieldsStable
PROPERTY C19_TypeStable
CHECK_DEADLOCK FALSE
'''
FORM_PROPS = ["C19_StoredFits", "C19_SetIffFits", "C19_GetAfterSet", "C19_GetReportsIt", "C19_SubmitShape",
              "C19_SubmitValuesDefined", "C19_DecodedFormsUsable", "C19_SubmitLossless", "C19_NoPanic",
              "C19_CandidatesAcceptable", "C19_AmbiguityCovered", "C19_FieldsStable", "C19_TypeStable"]
# named deviations: the design check must FAIL with each of them (non-vacuity): (module, deviation, what must break)
DEVIATIONS = [("MCForm", "ScannerLimit", "C19_SubmitLossless"), ("MCForm", "EncodeByFieldType", "C19_NoPanic"),
              ("MCCodec", "PanicIsAnError", "Assumption")]
MCCODEC_CFG = '''CONSTANTS
  Tier = "quick"
  Dev = %(dev)s
  MaxLen = %(maxlen)d
  Modes = {"automaton"}
SPECIFICATION Spec
INVARIANT C13_AutomatonExact
INVARIANT C13_AutomatonAgreesWithFunction
CHECK_DEADLOCK FALSE
'''

# payload types named by the property that the table does not (yet) hold: reported as uncovered, never as passing
UNCOVERED = {
    "pubsub (Publish/Fetch/Delete/CreateNode/Get|SetConfig, Query, Condition)": "the package exposes session-bound functions only; its payloads are built inside them (needs a session driver)",
    "muc options (MaxHistory/MaxBytes/Duration/Since/Password/Nick -> config)": "the configuration type is unexported and only encoded inside Join",
    "internal/saslerr": "internal package: cannot be imported by the harness module",
    "disco.ItemIter / roster.Iter / blocklist.Iter / bookmarks.Iter / history iterators": "decode from a live session (IQ iterators)",
}


def emit_form(ctx):
    r = ctx.tlc("EmitForm", 'CONSTANTS\n  Tier = "quick"\n  Dev = {}\n  MaxOps = 5\nINIT EInit\nNEXT ENext\n',
                workers=1, timeout=300, name="EmitForm", heap="1g")
    if not r.ok:
        raise verif.Undecided("EmitForm failed:\n" + r.out[-3000:])
    p = ctx.path("formcfg.json")
    shutil.copy(os.path.join(r.dir, "formcfg.json"), p)
    shutil.rmtree(r.dir, ignore_errors=True)
    return p


def validate_form(ctx, trace, name="TrForm"):
    cfg = 'CONSTANTS\n  Tier = "quick"\n  Dev = {}\n  MaxOps = 99\nSPECIFICATION TSpec\nCONSTRAINT HW\nPOSTCONDITION Accepted\nCHECK_DEADLOCK FALSE\n'
    r = ctx.tlc("TrForm", cfg, files={"trace.ndjson": trace}, workers=1, timeout=1200, xss=True, name=name, heap="3g")
    rejected = {}
    body = r.printed("REJECTED")
    if body:
        for m in re.finditer(r"<<(\d+),\s*(\d+)>>", body[-1]):
            rejected[int(m.group(1))] = int(m.group(2))
    if not rejected and (r.rc != 0 or r.errors):
        raise verif.Undecided("form trace validation failed to run:\n" + r.out[-3000:])
    shutil.rmtree(r.dir, ignore_errors=True)
    return rejected, r


def deviation_rejected(ctx, module, dev, breaks):
    """non-vacuity: with the named deviation switched on the design check must fail on the property it is meant for"""
    if module == "MCForm":
        cfg = MCFORM_CFG % dict(maxops=2, dev='{"%s"}' % dev)
    else:
        cfg = MCCODEC_CFG % dict(maxlen=2, dev='{"%s"}' % dev)
    r = ctx.tlc(module, cfg, workers=2, timeout=600, name="%s_%s" % (module, dev), heap="1g")
    hit = (breaks in r.violated) if breaks != "Assumption" else any("Assumption" in e and "is false" in e for e in r.errors)
    out = r.out[-1500:]
    shutil.rmtree(r.dir, ignore_errors=True)
    if not hit:
        raise verif.Undecided("design check %s ACCEPTS the deviation %s (expected %s to fail): the property is vacuous\n%s" % (
            module, dev, breaks, out))
    return dev


def drive_form(ctx, sym, formcfg, scen="-", n=300, name="formtrace"):
    b = ctx.go_build("codec")
    tr = ctx.path(name + ".ndjson")
    out = ctx.run_driver(b, ["form", sym, formcfg, scen, tr], env={"FORM_N": str(n), "FORM_LEN": "5"}, timeout=900)
    return tr, json.loads(out[out.rindex("SUMMARY ") + 8:])


def report_form(ctx, trace, rejected):
    if not rejected:
        return 0
    evs = verif.read_ndjson(trace)
    trs = verif.split_traces(evs)
    meta = {m["t"]: m["meta"] for m in verif.read_ndjson(trace + ".meta")}
    groups = {}
    for t, hw in sorted(rejected.items()):
        rej = [e for e in trs[t] if e["_line"] == hw]
        e = rej[0] if rej else {}
        # grouping key: the panic message and the library frame, without the argument dump (addresses differ per run)
        site = re.sub(r"(@ [^\s(]+)\(.*\) (/\S+?:\d+).*", r"\1 \2", e.get("panic", ""))
        site = re.sub(r"\(0x[0-9a-f]+.*?\)", "()", site)[:200]
        groups.setdefault((e.get("ev"), site), []).append((t, hw, e))
    for (ev, site), members in sorted(groups.items(), key=lambda kv: kv[1][0][0])[:8]:
        members.sort(key=lambda m: len(trs[m[0]]))
        t, hw, e = members[0]
        form = ", ".join("%s %s%s%s" % (f["ft"], f["var"] or "''", " required" if f["req"] else "", (" = " + "|".join(f["def"])) if f["def"] else "")
                         for f in meta[t]["cfg"])
        ctx.violation("C19: data form life cycle: on the form [%s] operation '%s' is not a step of Form.tla%s after %s (%d traces in this class): %s" % (
            form[:300], ev, (" [" + site + "]") if site else "", json.dumps([x for x in meta[t]["ops"]][:6])[:300], len(members),
            json.dumps({k: v for k, v in e.items() if k not in ("_line", "toks")})[:400]),
            {"family": "form", "scenario": meta[t], "trace": trs[t], "rejected_line": hw, "rejected_event": e})
    return len(groups)


def selftest_form(ctx, trace, rejected=()):
    """corrupt accepted form traces: flip a Set's ok, change a Get's value, drop a submitted field, inject a panic;
    cut the lines of a submitted long text after the first one (what a scanner with a token limit does); make an
    operation on a form with an ambiguous variable panic"""
    evs = verif.read_ndjson(trace)
    trs = verif.split_traces(evs)

    def strip(tr):
        return [{k: v for k, v in e.items() if k != "_line"} for e in tr]

    def clean(tr):
        return all(e.get("panic", "") == "" for e in tr)
    base = longtr = ambtr = None
    for t, tr in trs.items():
        if t in rejected or not clean(tr):
            continue
        kinds = [e["ev"] for e in tr]
        if base is None and "set" in kinds and "get" in kinds and "submit" in kinds \
                and len({f["var"] for f in tr[0]["cfg"]}) == len(tr[0]["cfg"]) \
                and any(e["ev"] == "get" and e["ok"] and e["tv"]["v"] for e in tr) \
                and any(e["ev"] == "submit" and e["fields"] for e in tr):
            base = strip(tr)
        if longtr is None and any(e["ev"] == "submit" and any(f["ft"] == "text-multi" and len(f["vals"]) >= 3 and
                                                               any(x.startswith("L_") for x in f["vals"]) and
                                                               sum(g["var"] == f["var"] for g in tr[0]["cfg"]) == 1
                                                               for f in e["fields"]) for e in tr):
            longtr = strip(tr)
        if ambtr is None and "submit" in kinds and len({f["var"] for f in tr[0]["cfg"]}) < len(tr[0]["cfg"]) \
                and any(f["ft"] != "fixed" and sum(g["var"] == f["var"] for g in tr[0]["cfg"]) > 1 for f in tr[0]["cfg"]):
            ambtr = strip(tr)
    if base is None or ((longtr is None or ambtr is None) and not rejected):
        raise verif.Undecided("form binding self-test: no suitable trace (plain %s, long text-multi submission %s, ambiguous variable %s)" % (
            base is not None, longtr is not None, ambtr is not None))
    # (when the code under test breaks every candidate trace the mutant is skipped: the run has rejections of its own)
    muts = [("unchanged", base)] + ([("unchanged (long text)", longtr)] if longtr else []) + ([("unchanged (ambiguous variable)", ambtr)] if ambtr else [])
    nbase = len(muts)

    def mut(name, f, of=None):
        m = json.loads(json.dumps(of or base))
        f(m)
        muts.append((name, m))
    first = lambda m, ev, cond=lambda e: True: [e for e in m if e["ev"] == ev and cond(e)][0]
    mut("set.ok flipped", lambda m: first(m, "set").__setitem__("ok", not first(m, "set")["ok"]))
    mut("get value changed", lambda m: first(m, "get", lambda e: e["ok"] and e["tv"]["v"])["tv"].__setitem__("v", ["S_corrupt"]))
    mut("submitted field dropped", lambda m: first(m, "submit", lambda e: e["fields"])["fields"].pop())
    mut("panic injected", lambda m: m[-1].__setitem__("panic", "panic: injected"))

    def cut_lines(m):
        e = first(m, "submit", lambda e: any(f["ft"] == "text-multi" and len(f["vals"]) >= 3 for f in e["fields"]))
        f = [f for f in e["fields"] if f["ft"] == "text-multi" and len(f["vals"]) >= 3][0]
        k = [i for i, x in enumerate(f["vals"]) if x.startswith("L_")][0]
        f["vals"] = f["def"] = f["vals"][:k]
    if longtr:
        mut("lines of a long text cut", cut_lines, of=longtr)
    if ambtr:
        mut("panic on an ambiguous variable", lambda m: first(m, "submit").__setitem__("panic", "panic: injected"), of=ambtr)
    p = ctx.path("formself.ndjson")
    line = 0
    with open(p, "w") as f:
        for k, (_, m) in enumerate(muts):
            m[0]["t"] = k + 1
            m[0]["end"] = line + len(m) + 1
            for e in m:
                f.write(json.dumps(e) + "\n")
            line += len(m)
    rej, _ = validate_form(ctx, p, name="TrFormSelf")
    if any(k in rej for k in range(1, nbase + 1)):
        raise verif.Undecided("form binding self-test: an unchanged trace was rejected (%s)" % sorted(rej))
    missed = [muts[k - 1][0] for k in range(nbase + 1, len(muts) + 1) if k not in rej]
    if missed:
        raise verif.Undecided("form binding self-test: corrupted traces ACCEPTED: %s" % missed)
    return len(muts) - nbase


def selftest_extra(ctx, obs, tier, rejected=()):
    """corrupt an accepted used-receiver scenario: a leaf of the reused view that comes from neither document
    (law Reuse), a leaf that the second document sets and the reused view lost (Reuse), a recorded panic (NoFailure);
    an accepted value with a long text: the text comes back shorter in every view (RoundTrip);
    an accepted value with a time the wire format cannot carry, refused with an error: the refusal becomes a
    panic (NoFailure) - while the recorded refusal itself must be accepted"""
    base = longo = leno = None
    longs = ('"L_65536"', '"L_a_65536_b"')
    with open(obs) as f:
        for l in f:
            if longo is None and '"ty":"reuse"' not in l and any(x in l for x in longs):
                o = json.loads(l)
                if o["ty"] not in ("shape", "reuse", "form") and o["dec"] and all(d["err"] == "" for d in o["dec"]) \
                        and any(v in ("L_65536", "L_a_65536_b") for v in o["v"].values() if isinstance(v, str)):
                    longo = o
            if leno is None and '"f":"error"' in l and '"ty":"reuse' not in l and '"ty":"shape"' not in l:
                o = json.loads(l)
                if all(e["err"] == "" for e in o["enc"]) and o["dec"] and all(d["f"] == "error" for d in o["dec"]):
                    leno = o
            if base is not None or ('"ty": "reuse"' not in l and '"ty":"reuse"' not in l):
                continue
            o = json.loads(l)
            views = {d["p"]: d for d in o["dec"]}
            if len(views) == 10 and all(d["err"] == "" and d["val"].get("outcome") == "value" for d in o["dec"]):
                lv = {w: views["bytes/" + w]["val"]["leaves"] for w in ("zero", "fresh1", "fresh2", "reused")}
                k = [k for k in sorted(lv["reused"]) if lv["fresh2"][k] != lv["zero"][k] and lv["fresh2"][k] != lv["fresh1"][k]
                     and lv["reused"][k] == lv["fresh2"][k] and isinstance(lv["reused"][k][0], str)]
                if k:
                    base, leaf = o, k[0]
    if base is None or ((longo is None or leno is None) and not rejected):
        raise verif.Undecided("self-test: no clean observation to corrupt (used receiver %s, long text %s, refused time %s)" % (
            base is not None, longo is not None, leno is not None))
    muts = [("unchanged", json.loads(json.dumps(base)))]

    def mut(name, f):
        m = json.loads(json.dumps(base))
        f({d["p"]: d for d in m["dec"]})
        muts.append((name, m))
    mut("foreign leaf", lambda v: v["bytes/reused"]["val"]["leaves"].__setitem__(leaf, ["S_corrupt"]))
    mut("lost leaf", lambda v: v["tokens/reused"]["val"]["leaves"].__setitem__(leaf, v["tokens/fresh1"]["val"]["leaves"][leaf]))
    mut("panic recorded", lambda v: (v["bytes/reused"].__setitem__("err", "panic: injected"), v["bytes/reused"].__setitem__("f", "panic")))
    expect, unchanged = {2: "Reuse", 3: "Reuse", 4: "NoFailure"}, [1]
    # (when the code under test breaks every candidate the mutant is skipped: the run has rejections of its own)
    if longo is not None:
        # long text: every view returns the short text "S_a" in its place
        lf = [k for k, v in longo["v"].items() if v in ("L_65536", "L_a_65536_b")][0]
        m = json.loads(json.dumps(longo))
        muts.append(("unchanged (long text)", json.loads(json.dumps(longo))))
        unchanged.append(len(muts))
        for d in m["dec"]:
            if lf in d["val"]:
                d["val"][lf] = "S_a"
        muts.append(("long text cut", m))
        expect[len(muts)] = "RoundTrip"
    if leno is not None:
        # a time the format cannot carry: the refusal is fine, a panic is not
        muts.append(("unchanged (refused time)", json.loads(json.dumps(leno))))
        unchanged.append(len(muts))
        m = json.loads(json.dumps(leno))
        m["dec"][0]["err"], m["dec"][0]["f"] = "panic: injected", "panic"
        muts.append(("refusal turned into a panic", m))
        expect[len(muts)] = "NoFailure"
    for _, m in muts:
        for e in m["enc"]:
            e["tl"] = 1
    po, pt = ctx.path("selfreuse.ndjson"), ctx.path("selfreuse.tls.ndjson")
    with open(po, "w") as f:
        for _, m in muts:
            f.write(json.dumps(m) + "\n")
    with open(pt, "w") as f:
        f.write(json.dumps({"ev": "tl", "id": 1, "toks": [{"k": "s", "n": "x", "a": []}, {"k": "e", "n": "x", "a": []}]}) + "\n")
    rej, _, _ = cc.validate(ctx, po, pt, tier=tier, name="TrCodecSelfReuse", timeout=300, heap="1g")
    for k in unchanged:
        if k in rej:
            raise verif.Undecided("self-test: the %s observation was rejected: %s" % (muts[k - 1][0], rej[k]))
    missed = [muts[k - 1][0] for k, law in expect.items() if law not in rej.get(k, [])]
    if missed:
        raise verif.Undecided("self-test: corrupted observations ACCEPTED: %s (rejections %s)" % (missed, rej))
    return len(expect)


def discount_known(ctx, obs, tls, rej, tier):
    """Open known findings of the codec family: a rejected observation that matches an entry's predicate is
    re-validated by TLC with exactly the entry's named deviation switched on; if it is then accepted it is
    printed as KNOWN-FINDING and not counted."""
    entries = [f for f in ctx.open_findings() if f.get("family") == "codec" and f.get("deviation")]
    if not entries or not rej:
        return set()

    def matches(f, o, laws):
        m = f.get("match", {})
        return o["ty"] == m.get("ty") and all(o["v"].get(k) == v for k, v in m.get("v", {}).items()) \
            and sorted(laws) == sorted(m.get("laws", laws))
    cand = {}
    with open(obs) as fh:
        for i, l in enumerate(fh, 1):
            if i in rej:
                o = json.loads(l)
                for f in entries:
                    if matches(f, o, rej[i]):
                        cand[i] = (o, f)
    if not cand:
        return set()
    p = ctx.path("known.ndjson")
    order = sorted(cand)
    with open(p, "w") as fh:
        for i in order:
            fh.write(json.dumps(cand[i][0]) + "\n")
    rej2, _, _ = cc.validate(ctx, p, tls, tier=tier, name="TrCodecKnown", dev={f["deviation"] for _, f in cand.values()}, heap="1g")
    done = set()
    for k, i in enumerate(order, 1):
        if k not in rej2:
            ctx.known_finding(cand[i][1], "%s %s" % (cand[i][0]["ty"], json.dumps(cand[i][0]["v"])))
            done.add(i)
    return done


def run(ctx):
    quick = ctx.tier == "quick"
    tier = ctx.tier
    # independent TLC runs, the build and the drivers run side by side (each in its own scratch directory);
    # verdicts are only drawn after every design check has passed
    ex = ThreadPoolExecutor(max_workers=10)
    try:
        return _run(ctx, ex, quick, tier)
    finally:
        ex.shutdown(wait=True, cancel_futures=True)


def _run(ctx, ex, quick, tier):
    f_build = ex.submit(ctx.go_build, "codec")
    f_mcf = ex.submit(ctx.model_check, "MCForm", MCFORM_CFG % dict(maxops=2 if quick else 3, dev="{}"), FORM_PROPS,
                      workers=6 if quick else 12, timeout=1500, heap="3g" if quick else "8g")
    f_mcc = ex.submit(ctx.model_check, "MCCodec", MCCODEC_CFG % dict(maxlen=5, dev="{}"),
                      ["C13_AutomatonExact", "C13_AutomatonAgreesWithFunction", "C19_TimeNamesSound", "C19_ReuseLawSane",
                       "C19_LenientLawSane", "C19_LongClosed"], workers=4, timeout=600, heap="2g")
    f_dev = [ex.submit(deviation_rejected, ctx, m, d, b) for m, d, b in DEVIATIONS]
    f_formcfg = ex.submit(emit_form, ctx)
    form_scen = "-"
    if ctx.replay:
        case = json.load(open(ctx.replay))["case"]
        tier = "thorough"
        sym, _, _ = cc.emit(ctx, [], tier=tier)
        vec = ctx.path("replay.ndjson")
        counts = {}
        if case.get("family") == "form":
            open(vec, "w").write("")
            form_scen = ctx.path("replayscen.ndjson")
            open(form_scen, "w").write(json.dumps(case["scenario"]) + "\n")
        else:
            open(vec, "w").write(json.dumps({"ty": case["ty"], "v": case["v"]}) + "\n")
            counts = {case["ty"]: 1}
            form_scen = None
        types = sorted(counts)
    else:
        sym, vec, counts = cc.emit(ctx, "C19All", tier=tier)
    f_build.result()
    formcfg = f_formcfg.result()
    nconfigs = len(json.load(open(formcfg))["configs"])
    # ---- the real code: codec laws on the table, and the data form life cycle (random part: the same number of
    # sequences in total whatever the number of configurations)
    f_drive = ex.submit(cc.drive, ctx, sym, vec)
    f_fdrive = ex.submit(drive_form, ctx, sym, formcfg, form_scen, max(40, (1200 if quick else 12000) // nconfigs)) \
        if form_scen is not None else None
    obs, tls, summ = f_drive.result()
    f_val = ex.submit(cc.validate, ctx, obs, tls, tier)
    fsumm, frej, fr, nfself, nfviol, ftrace = {"traces": 0, "events": 0, "distinct": 0, "samples": [], "extra": {}}, {}, None, 0, 0, None
    f_fval = None
    if f_fdrive is not None:
        ftrace, fsumm = f_fdrive.result()
        f_fval = ex.submit(validate_form, ctx, ftrace)
    # ---- design checks: all of them must have passed before anything is said about the code
    mcf, mcc = f_mcf.result(), f_mcc.result()
    devs = [f.result() for f in f_dev]
    ctx.log("non-vacuity: the design check rejects each of the deviations %s" % ", ".join(devs))
    rej, rtl, r = f_val.result()
    ctx.log("TLC decided %d observations / %d distinct token lists: %d rejected (%d states, %.1fs)" % (
        r.checked_obs, r.checked_tls, len(rej), r.distinct, r.wall))
    if not ctx.replay and r.checked_obs != sum(counts.values()):
        raise verif.Undecided("observations %d != vectors emitted %d" % (r.checked_obs, sum(counts.values())))
    f_self = [ex.submit(cc.selftest_binding, ctx, obs, tls, tier), ex.submit(selftest_extra, ctx, obs, tier, rej),
              ex.submit(cc.selftest_kept, ctx, obs, tier, rej)] if not ctx.replay else []
    if f_fval is not None:
        frej, fr = f_fval.result()
        ctx.log("TLC validated %d form traces / %d events: %d rejected (%d states, %.1fs)" % (
            fsumm["traces"], fsumm["events"], len(frej), fr.distinct, fr.wall))
        if not ctx.replay and fsumm["traces"] - len(frej) > 10:
            f_self.append(ex.submit(selftest_form, ctx, ftrace, frej))
    known = discount_known(ctx, obs, tls, rej, tier)
    rej_left = {i: l for i, l in rej.items() if i not in known}
    nviol = cc.report(ctx, sym, obs, tls, rej_left, rtl, "C19", limit=30)
    if ftrace is not None:
        nfviol = report_form(ctx, ftrace, frej)
    nself = sum(f.result() for f in f_self)
    covered = sorted(t for t in counts if t not in ("shape", "reuse"))
    nlong = nxtime = 0
    if not ctx.replay:
        with open(vec) as fh:
            for l in fh:
                if '"ty":"reuse"' in l or '"ty":"shape"' in l:
                    continue
                nlong += '"L_' in l
                nxtime += bool(re.search(r'"T_(y|ns|max)', l))
    if ctx.replay:
        return          # a replay re-runs one stored case; the evidence file of the last full run is kept
    ctx.write_evidence("model_checking", {
        "states": mcf.distinct + mcc.distinct, "transitions": mcf.generated + mcc.generated,
        "design_check_form_states": mcf.distinct, "design_check_automaton_states": mcc.distinct,
        "traces_validated_against_impl": r.checked_obs + fsumm["traces"],
        "evaluations": r.checked_obs, "values_per_type": {t: n for t, n in counts.items() if t not in ("shape", "reuse")},
        "shaped_documents_decoded": counts.get("shape", 0),
        "values_with_a_long_text": nlong, "values_with_an_extreme_time": nxtime, "form_configurations": nconfigs,
        "reused_receiver_scenarios": counts.get("reuse", 0),
        "distinct_nontrivial": r.checked_tls, "token_lists_walked_by_automaton": r.checked_tls,
        "trace_states": r.distinct + (fr.distinct if fr else 0),
        "form_traces": fsumm["traces"], "form_events": fsumm["events"], "form_distinct_traces": fsumm["distinct"],
        "form_traces_rejected": len(frej),
        "rejected_observations": len(rej), "rejected_token_lists": len(rtl), "known_findings_discounted": len(known),
        "violation_classes": nviol + nfviol,
        "binding_selftest_mutants_rejected": nself + nfself,
        "deviations_rejected_by_design_check": devs,
        "library_panics_caught": summ["panics"] + fsumm.get("extra", {}).get("panics", 0),
        "types_covered": covered, "types_uncovered": UNCOVERED,
        "exhaustive": False,
        "rule": "per type: the full product of the field domains of Codec.tla if < 5000 values, else every pair of (field, value) choices with the other fields at their base value; "
                "times: 3 instants (before 1970, sub-second part at the end of a year, leap day) x 10 zone offset classes (UTC, +01:00, -08:00, +05:30, -03:30, +05:45, -02:45, -00:30, +14:00, -12:00) + T_zero, T_east, T_west in every type that carries a time; "
                "EXTREME times in every type that carries a time (delay, stanza.delay, xtime, forward, forward.Wrap, carbons, file.meta, history.query): the years 0, 1, 9999 (last nanosecond), -1, 10000, 53700 (a Unix time in milliseconds taken for seconds), "
                "times whose year differs between UTC and their own zone at the edges 0 and 9999/10000 (both ways), the smallest and the largest sub-second part, the largest time.Time with a defined Unix time; "
                "a time whose year (in UTC or in its own zone) is outside 0000-9999 cannot be written in the XEP-0082 profile: encoders and decoders may refuse it with an error, what is not refused is well-formed and comes back as the same instant, nothing panics; "
                "LENGTH of text: every free-text slot of every table type (LongFields of Codec.tla) carries texts of 4095, 4096, 4097 and 65536 bytes, the representative slots of RepSlots (character data, attribute, hand-written child, struct-tag child, form value inside a query, ...) and the data form slots (instructions, title, field label / desc / var / single value / one value among several / option label / option value / hidden / fixed) also 65535, 65537, 65536 bytes in 32768 characters, "
                "a long line among short lines (4096, 65535, 65536), a long line followed by short lines, 70 lines of 1000 bytes; long texts are symbols (run / lines) expanded by the driver; "
                "forms with two fields that share one var but differ in type (24 pairs) round-trip like any other; "
                "shapes: 22 productions x 3 positions x 2 base values per decodable type; "
                "used receivers: per decodable type every pair of values that differ in one field (fields of at most 6 values: the whole domain on both sides) and every single-field variation before / after the two base values, decoded one after the other into the same variable, from bytes and from tokens; forms: every single operation and every Set followed by get/submit/encode resp. unmarshal/get/set/submit, on the constructed form AND on the form decoded (token stream / bytes) from a document of each of the 6 types of Form.tla (form, result, submit, cancel, no type attribute, unknown type); every pair (decode a document of type ty, operation); plus seeded random sequences of 5 operations (incl. the 12 decode operations); 9 configurations: 4 plain ones (one without fields), one whose defaults are at a length boundary, and 4 with AMBIGUOUS variables (two or three fields of one name whose types take different Go values, in both orders, required or not, with and without defaults; two fixed fields; two fields of one name and type) next to a field with a name of its own; "
                "Set values include strings at the length boundaries (4096, 65535, 65536 bytes on one line, a long line among / before short lines, 70 lines of 1000 bytes) and a list holding a long string; for a variable that names several fields only what holds under every reading is demanded (no panic, Set fails if the value fits none of them and succeeds if it fits all, Get after Set, Raw of one of them, fixed never submitted, submission well-formed and of type submit), every law about the other variables of the form holds unchanged; "
                "distinct_nontrivial = distinct abstract token lists",
        "laws": ["InDomain", "Complete", "NoFailure (no error/panic on own output; shaped documents: value or error, no panic)",
                 "WellFormed (stack automaton, no duplicate attributes)", "PathsAgree", "RoundTrip (Expect per type, normal forms stated in Codec.tla)",
                 "Reuse (decoding into a receiver that already holds a decoded value: no panic; every leaf is what the document gives, what the receiver held if the document does not mention it, or an accumulation of both)",
                 "Kept (aliasing: a copy of the receiver taken by assignment after the first decode is unchanged by the second decode into the receiver and by encoding both; leaves reached through a pointer or a map are shared by the language and exempt: paging.Set index / count, upload.Slot urls / headers)",
                 "Form.tla: Set iff type fits, Get after Set, Raw stable, Submit ok iff required fields valued, submitted fields and values, submission has type submit, "
                 "the form's own encoding carries its type; all of them also on decoded forms of every type; no operation panics (also on forms with ambiguous variables); the lines of a submitted text are the text (nothing cut at a length boundary)",
                 "a time outside the four digit years of XEP-0082: refusal by error accepted, panic / malformed output / another instant not"],
        "samples": (summ["samples"][:1] + fsumm["samples"][:1]),
    }, assumptions=[
        "symbolic leaves: the text / address / time / integer / byte symbols of Stanza.tla; times are compared by instant (zone only for xtime)",
        "domain restrictions stated in Codec.tla (Admit): thread only with continue (muc.Invitation), NoCache => MaxAge 0 (bin.Data), valid hash algorithms (crypto documents the panic), execute names at most one action (commands.Actions)",
        "types not in the table are listed under types_uncovered and are NOT claimed"])
