"""C19 - extension payloads encode consistently, safely and round-trip.
A: TLC design checks: MCForm (data form life cycle: every sequence of Set/Get/Raw/Submit/TokenReader/
   Unmarshal up to a bound on every configuration) and MCCodec (stack automaton = grammar).
B: TLC enumerates the typed table of Codec.tla (exhaustive < 5000 values per type, pairwise covering
   otherwise), the payload-shape grammar per decodable type, and the form configurations.
C: harness/cmd/codec runs every encoder and decoder of every table type on every value and every
   shaped document through every decoder; TLC (TrCodec) decides WellFormed / PathsAgree / RoundTrip /
   NoFailure.  The form life cycle is driven on the real form package (exhaustive short sequences +
   seeded random ones, on constructed forms and on forms decoded from documents of every type) and
   every trace is validated by TLC against Form.tla (TrForm)."""
import json, os, re, shutil
import verif
import codeccommon as cc

MCFORM_CFG = '''CONSTANTS
  Tier = "quick"
  Dev = {}
  MaxOps = %(maxops)d
SPECIFICATION Spec
INVARIANT TypeOK
INVARIANT C19_StoredFits
INVARIANT C19_SetIffFits
INVARIANT C19_GetAfterSet
INVARIANT C19_GetReportsIt
INVARIANT C19_SubmitShape
INVARIANT C19_SubmitValuesDefined
INVARIANT C19_DecodedFormsUsable
PROPERTY C19_FieldsStable
PROPERTY C19_TypeStable
CHECK_DEADLOCK FALSE
'''
FORM_PROPS = ["C19_StoredFits", "C19_SetIffFits", "C19_GetAfterSet", "C19_GetReportsIt", "C19_SubmitShape",
              "C19_SubmitValuesDefined", "C19_DecodedFormsUsable", "C19_FieldsStable", "C19_TypeStable"]
MCCODEC_CFG = '''CONSTANTS
  Tier = "quick"
  Dev = {}
  MaxLen = 5
  Modes = {"automaton"}
SPECIFICATION Spec
INVARIANT C13_AutomatonExact
INVARIANT C13_AutomatonAgreesWithFunction
CHECK_DEADLOCK FALSE
'''

# payload types named by the property that the table does not (yet) hold: reported as uncovered, never as passing
UNCOVERED = {
    "pubsub (Publish/Fetch/Delete/CreateNode/Get|SetConfig, Query, Condition)": "the package exposes session-bound functions only; its payloads are built inside them (needs a session driver)",
    "muc options (MaxHistory/MaxBytes/Duration/Since/Password/Nick -> config)": "the configuration type is unexported and only encoded inside Join",
    "internal/saslerr": "internal package: cannot be imported by the harness module",
    "disco.ItemIter / roster.Iter / blocklist.Iter / bookmarks.Iter / history iterators": "decode from a live session (IQ iterators)",
}


def emit_form(ctx):
    r = ctx.tlc("EmitForm", 'CONSTANTS\n  Tier = "quick"\n  Dev = {}\n  MaxOps = 5\nINIT EInit\nNEXT ENext\n',
                workers=1, timeout=300, name="EmitForm")
    if not r.ok:
        raise verif.Undecided("EmitForm failed:\n" + r.out[-3000:])
    p = ctx.path("formcfg.json")
    shutil.copy(os.path.join(r.dir, "formcfg.json"), p)
    shutil.rmtree(r.dir, ignore_errors=True)
    return p


def validate_form(ctx, trace, name="TrForm"):
    cfg = 'CONSTANTS\n  Tier = "quick"\n  Dev = {}\n  MaxOps = 99\nSPECIFICATION TSpec\nCONSTRAINT HW\nPOSTCONDITION Accepted\nCHECK_DEADLOCK FALSE\n'
    r = ctx.tlc("TrForm", cfg, files={"trace.ndjson": trace}, workers=1, timeout=1200, xss=True, name=name)
    rejected = {}
    body = r.printed("REJECTED")
    if body:
        for m in re.finditer(r"<<(\d+),\s*(\d+)>>", body[-1]):
            rejected[int(m.group(1))] = int(m.group(2))
    if not rejected and (r.rc != 0 or r.errors):
        raise verif.Undecided("form trace validation failed to run:\n" + r.out[-3000:])
    shutil.rmtree(r.dir, ignore_errors=True)
    return rejected, r


def drive_form(ctx, sym, formcfg, scen="-", n=300, name="formtrace"):
    b = ctx.go_build("codec")
    tr = ctx.path(name + ".ndjson")
    out = ctx.run_driver(b, ["form", sym, formcfg, scen, tr], env={"FORM_N": str(n), "FORM_LEN": "5"}, timeout=900)
    return tr, json.loads(out[out.rindex("SUMMARY ") + 8:])


def report_form(ctx, trace, rejected):
    if not rejected:
        return 0
    evs = verif.read_ndjson(trace)
    trs = verif.split_traces(evs)
    meta = {m["t"]: m["meta"] for m in verif.read_ndjson(trace + ".meta")}
    groups = {}
    for t, hw in sorted(rejected.items()):
        rej = [e for e in trs[t] if e["_line"] == hw]
        e = rej[0] if rej else {}
        site = re.sub(r"\(0x[0-9a-f]+.*?\)", "()", e.get("panic", ""))[:160]
        groups.setdefault((e.get("ev"), site), []).append((t, hw, e))
    for (ev, site), members in sorted(groups.items(), key=lambda kv: kv[1][0][0])[:8]:
        members.sort(key=lambda m: len(trs[m[0]]))
        t, hw, e = members[0]
        ctx.violation("C19: data form life cycle: operation '%s' is not a step of Form.tla%s after %s (%d traces in this class): %s" % (
            ev, (" [" + site + "]") if site else "", json.dumps([x for x in meta[t]["ops"]][:6])[:300], len(members),
            json.dumps({k: v for k, v in e.items() if k not in ("_line", "toks")})[:400]),
            {"family": "form", "scenario": meta[t], "trace": trs[t], "rejected_line": hw, "rejected_event": e})
    return len(groups)


def selftest_form(ctx, trace):
    """corrupt accepted form traces: flip a Set's ok, change a Get's value, drop a submitted field, inject a panic"""
    evs = verif.read_ndjson(trace)
    trs = verif.split_traces(evs)

    def strip(tr):
        return [{k: v for k, v in e.items() if k != "_line"} for e in tr]
    base = None
    for t, tr in trs.items():
        kinds = [e["ev"] for e in tr]
        if "set" in kinds and "get" in kinds and "submit" in kinds and all(e.get("panic", "") == "" for e in tr) \
                and any(e["ev"] == "get" and e["ok"] and e["tv"]["v"] for e in tr) \
                and any(e["ev"] == "submit" and e["fields"] for e in tr):
            base = strip(tr)
            break
    if base is None:
        raise verif.Undecided("form binding self-test: no suitable trace")
    muts = [("unchanged", base)]

    def mut(name, f):
        m = json.loads(json.dumps(base))
        f(m)
        muts.append((name, m))
    first = lambda m, ev, cond=lambda e: True: [e for e in m if e["ev"] == ev and cond(e)][0]
    mut("set.ok flipped", lambda m: first(m, "set").__setitem__("ok", not first(m, "set")["ok"]))
    mut("get value changed", lambda m: first(m, "get", lambda e: e["ok"] and e["tv"]["v"])["tv"].__setitem__("v", ["S_corrupt"]))
    mut("submitted field dropped", lambda m: first(m, "submit", lambda e: e["fields"])["fields"].pop())
    mut("panic injected", lambda m: m[-1].__setitem__("panic", "panic: injected"))
    p = ctx.path("formself.ndjson")
    line = 0
    with open(p, "w") as f:
        for k, (_, m) in enumerate(muts):
            m[0]["t"] = k + 1
            m[0]["end"] = line + len(m) + 1
            for e in m:
                f.write(json.dumps(e) + "\n")
            line += len(m)
    rej, _ = validate_form(ctx, p, name="TrFormSelf")
    if 1 in rej:
        raise verif.Undecided("form binding self-test: the unchanged trace was rejected")
    missed = [muts[k - 1][0] for k in range(2, len(muts) + 1) if k not in rej]
    if missed:
        raise verif.Undecided("form binding self-test: corrupted traces ACCEPTED: %s" % missed)
    return len(muts) - 1


def selftest_reuse(ctx, obs, tier):
    """corrupt an accepted used-receiver scenario: a leaf of the reused view that comes from neither document
    (law Reuse), a leaf that the second document sets and the reused view lost (Reuse), a recorded panic (NoFailure)"""
    base = None
    with open(obs) as f:
        for l in f:
            if '"ty": "reuse"' not in l and '"ty":"reuse"' not in l:
                continue
            o = json.loads(l)
            views = {d["p"]: d for d in o["dec"]}
            if len(views) == 8 and all(d["err"] == "" and d["val"].get("outcome") == "value" for d in o["dec"]):
                lv = {w: views["bytes/" + w]["val"]["leaves"] for w in ("zero", "fresh1", "fresh2", "reused")}
                k = [k for k in sorted(lv["reused"]) if lv["fresh2"][k] != lv["zero"][k] and lv["fresh2"][k] != lv["fresh1"][k]
                     and lv["reused"][k] == lv["fresh2"][k] and isinstance(lv["reused"][k][0], str)]
                if k:
                    base, leaf = o, k[0]
                    break
    if base is None:
        raise verif.Undecided("used-receiver self-test: no clean scenario to corrupt")
    muts = [("unchanged", json.loads(json.dumps(base)))]

    def mut(name, f):
        m = json.loads(json.dumps(base))
        f({d["p"]: d for d in m["dec"]})
        muts.append((name, m))
    mut("foreign leaf", lambda v: v["bytes/reused"]["val"]["leaves"].__setitem__(leaf, ["S_corrupt"]))
    mut("lost leaf", lambda v: v["tokens/reused"]["val"]["leaves"].__setitem__(leaf, v["tokens/fresh1"]["val"]["leaves"][leaf]))
    mut("panic recorded", lambda v: v["bytes/reused"].__setitem__("err", "panic: injected"))
    po, pt = ctx.path("selfreuse.ndjson"), ctx.path("selfreuse.tls.ndjson")
    with open(po, "w") as f:
        for _, m in muts:
            f.write(json.dumps(m) + "\n")
    with open(pt, "w") as f:
        f.write(json.dumps({"ev": "tl", "id": 1, "toks": [{"k": "s", "n": "x", "a": []}, {"k": "e", "n": "x", "a": []}]}) + "\n")
    rej, _, _ = cc.validate(ctx, po, pt, tier=tier, name="TrCodecSelfReuse", timeout=300)
    if 1 in rej:
        raise verif.Undecided("used-receiver self-test: the unchanged scenario was rejected: %s" % rej[1])
    expect = {2: "Reuse", 3: "Reuse", 4: "NoFailure"}
    missed = [muts[k - 1][0] for k, law in expect.items() if law not in rej.get(k, [])]
    if missed:
        raise verif.Undecided("used-receiver self-test: corrupted scenarios ACCEPTED: %s (rejections %s)" % (missed, rej))
    return len(expect)


def discount_known(ctx, obs, tls, rej, tier):
    """Open known findings of the codec family: a rejected observation that matches an entry's predicate is
    re-validated by TLC with exactly the entry's named deviation switched on; if it is then accepted it is
    printed as KNOWN-FINDING and not counted."""
    entries = [f for f in ctx.open_findings() if f.get("family") == "codec" and f.get("deviation")]
    if not entries or not rej:
        return set()

    def matches(f, o, laws):
        m = f.get("match", {})
        return o["ty"] == m.get("ty") and all(o["v"].get(k) == v for k, v in m.get("v", {}).items()) \
            and sorted(laws) == sorted(m.get("laws", laws))
    cand = {}
    with open(obs) as fh:
        for i, l in enumerate(fh, 1):
            if i in rej:
                o = json.loads(l)
                for f in entries:
                    if matches(f, o, rej[i]):
                        cand[i] = (o, f)
    if not cand:
        return set()
    p = ctx.path("known.ndjson")
    order = sorted(cand)
    with open(p, "w") as fh:
        for i in order:
            fh.write(json.dumps(cand[i][0]) + "\n")
    rej2, _, _ = cc.validate(ctx, p, tls, tier=tier, name="TrCodecKnown", dev={f["deviation"] for _, f in cand.values()})
    done = set()
    for k, i in enumerate(order, 1):
        if k not in rej2:
            ctx.known_finding(cand[i][1], "%s %s" % (cand[i][0]["ty"], json.dumps(cand[i][0]["v"])))
            done.add(i)
    return done


def run(ctx):
    quick = ctx.tier == "quick"
    mcf = ctx.model_check("MCForm", MCFORM_CFG % dict(maxops=2 if quick else 3), FORM_PROPS, workers=6 if quick else 12,
                          timeout=1500)
    mcc = ctx.model_check("MCCodec", MCCODEC_CFG, ["C13_AutomatonExact", "C13_AutomatonAgreesWithFunction", "C19_TimeNamesSound", "C19_ReuseLawSane"], workers=4,
                          timeout=600)
    formcfg = emit_form(ctx)
    tier = ctx.tier
    form_scen = "-"
    if ctx.replay:
        case = json.load(open(ctx.replay))["case"]
        tier = "thorough"
        sym, _, _ = cc.emit(ctx, [], tier=tier)
        vec = ctx.path("replay.ndjson")
        counts = {}
        if case.get("family") == "form":
            open(vec, "w").write("")
            form_scen = ctx.path("replayscen.ndjson")
            open(form_scen, "w").write(json.dumps(case["scenario"]) + "\n")
        else:
            open(vec, "w").write(json.dumps({"ty": case["ty"], "v": case["v"]}) + "\n")
            counts = {case["ty"]: 1}
            form_scen = None
        types = sorted(counts)
    else:
        sym, vec, counts = cc.emit(ctx, "C19All", tier=tier)
    # ---- codec laws on the table
    obs, tls, summ = cc.drive(ctx, sym, vec)
    rej, rtl, r = cc.validate(ctx, obs, tls, tier=tier)
    ctx.log("TLC decided %d observations / %d distinct token lists: %d rejected (%d states, %.1fs)" % (
        r.checked_obs, r.checked_tls, len(rej), r.distinct, r.wall))
    if not ctx.replay and r.checked_obs != sum(counts.values()):
        raise verif.Undecided("observations %d != vectors emitted %d" % (r.checked_obs, sum(counts.values())))
    known = discount_known(ctx, obs, tls, rej, tier)
    rej_left = {i: l for i, l in rej.items() if i not in known}
    nviol = cc.report(ctx, sym, obs, tls, rej_left, rtl, "C19", limit=30)
    nself = (cc.selftest_binding(ctx, obs, tls, tier=tier) + selftest_reuse(ctx, obs, tier)) if not ctx.replay else 0
    # ---- data form life cycle
    fsumm, frej, fr, nfself, nfviol = {"traces": 0, "events": 0, "distinct": 0, "samples": [], "extra": {}}, {}, None, 0, 0
    if form_scen is not None:
        ftrace, fsumm = drive_form(ctx, sym, formcfg, scen=form_scen, n=300 if quick else 3000)
        frej, fr = validate_form(ctx, ftrace)
        ctx.log("TLC validated %d form traces / %d events: %d rejected (%d states, %.1fs)" % (
            fsumm["traces"], fsumm["events"], len(frej), fr.distinct, fr.wall))
        nfviol = report_form(ctx, ftrace, frej)
        if not ctx.replay:
            ok = [t for t in range(1, fsumm["traces"] + 1) if t not in frej]
            if ok:
                nfself = selftest_form(ctx, ftrace) if len(ok) > 10 else 0
    covered = sorted(t for t in counts if t not in ("shape", "reuse"))
    if ctx.replay:
        return          # a replay re-runs one stored case; the evidence file of the last full run is kept
    ctx.write_evidence("model_checking", {
        "states": mcf.distinct + mcc.distinct, "transitions": mcf.generated + mcc.generated,
        "design_check_form_states": mcf.distinct, "design_check_automaton_states": mcc.distinct,
        "traces_validated_against_impl": r.checked_obs + fsumm["traces"],
        "evaluations": r.checked_obs, "values_per_type": {t: n for t, n in counts.items() if t not in ("shape", "reuse")},
        "shaped_documents_decoded": counts.get("shape", 0),
        "reused_receiver_scenarios": counts.get("reuse", 0),
        "distinct_nontrivial": r.checked_tls, "token_lists_walked_by_automaton": r.checked_tls,
        "trace_states": r.distinct + (fr.distinct if fr else 0),
        "form_traces": fsumm["traces"], "form_events": fsumm["events"], "form_distinct_traces": fsumm["distinct"],
        "form_traces_rejected": len(frej),
        "rejected_observations": len(rej), "rejected_token_lists": len(rtl), "known_findings_discounted": len(known),
        "violation_classes": nviol + nfviol,
        "binding_selftest_mutants_rejected": nself + nfself,
        "library_panics_caught": summ["panics"] + fsumm.get("extra", {}).get("panics", 0),
        "types_covered": covered, "types_uncovered": UNCOVERED,
        "exhaustive": False,
        "rule": "per type: the full product of the field domains of Codec.tla if < 5000 values, else every pair of (field, value) choices with the other fields at their base value; "
                "times: 3 instants (before 1970, sub-second part at the end of a year, leap day) x 10 zone offset classes (UTC, +01:00, -08:00, +05:30, -03:30, +05:45, -02:45, -00:30, +14:00, -12:00) + T_zero, T_east, T_west in every type that carries a time; "
                "shapes: 22 productions x 3 positions x 2 base values per decodable type; "
                "used receivers: per decodable type every pair of values that differ in one field (fields of at most 6 values: the whole domain on both sides) and every single-field variation before / after the two base values, decoded one after the other into the same variable, from bytes and from tokens; forms: every single operation and every Set followed by get/submit/encode resp. unmarshal/get/set/submit, on the constructed form AND on the form decoded (token stream / bytes) from a document of each of the 6 types of Form.tla (form, result, submit, cancel, no type attribute, unknown type); every pair (decode a document of type ty, operation); plus seeded random sequences of 5 operations (incl. the 12 decode operations) on 4 configurations (one without fields); "
                "distinct_nontrivial = distinct abstract token lists",
        "laws": ["InDomain", "Complete", "NoFailure (no error/panic on own output; shaped documents: value or error, no panic)",
                 "WellFormed (stack automaton, no duplicate attributes)", "PathsAgree", "RoundTrip (Expect per type, normal forms stated in Codec.tla)",
                 "Reuse (decoding into a receiver that already holds a decoded value: no panic; every leaf is what the document gives, what the receiver held if the document does not mention it, or an accumulation of both)",
                 "Form.tla: Set iff type fits, Get after Set, Raw stable, Submit ok iff required fields valued, submitted fields and values, submission has type submit, "
                 "the form's own encoding carries its type; all of them also on decoded forms of every type; no operation panics"],
        "samples": (summ["samples"][:1] + fsumm["samples"][:1]),
    }, assumptions=[
        "symbolic leaves: the text / address / time / integer / byte symbols of Stanza.tla; times are compared by instant (zone only for xtime)",
        "domain restrictions stated in Codec.tla (Admit): thread only with continue (muc.Invitation), NoCache => MaxAge 0 (bin.Data), valid hash algorithms (crypto documents the panic), execute names at most one action (commands.Actions)",
        "types not in the table are listed under types_uncovered and are NOT claimed"])
