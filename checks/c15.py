"""C15 - an in-band bytestream is a reliable ordered byte pipe.
Pipeline A: TLC checks tla/IBB.tla (open handshake, writer with arbitrary packetisation and sequence numbers mod M,
wire, serve-loop delivery with the four refusal checks, reader with its wait/wake-up protocol, close handshake,
injected bad packets) exhaustively within small bounds, plus liveness under fairness, plus one deviation per invariant
(non-vacuity).  Pipelines B/C: harness/cmd/ibb joins two REAL xmpp sessions (each with its own mux + ibb.Handler) by an
in-memory pipe with a wire tap; sequential scenarios (payload lengths around block / base64-group / 768-byte encoder
chunk boundaries, partitions into Write calls with Flush, block sizes 1..769 and default, iq and message carriers, both
directions, injected bad packets at every position, refused open, full receive buffer, the 65536 sequence wrap) and
scheduler-driven schedules (reader vs serve loop vs writer at read.wait / payload.signal / transport gates) are recorded
and every trace is validated by TLC against TrIBB.tla with M = 65536.  The accepting side of the open handshake ("Opening ...
succeeds only when the peer accepted it": Listener.Accept / Expect / Close against the serve loop's open handler) has its own
specification tla/IBBListen.tla, design check with one deviation per invariant, and scheduler-driven scenarios validated against
TrIBBListen.tla (ibbcommon.run_listen_part)."""
import json, threading
import verif
import ibbcommon as ic


def describe(ev):
    k = ev.get("ev") if ev else None
    if k == "open_ret":
        return "Open returned %s although the peer's reply says otherwise (C15_OpenOnlyIfAccepted)" % ("success" if ev.get("ok") else "failure")
    if k == "read" and ev.get("eof"):
        return "Read returned end-of-file on a stream that is not closed and drained (C15_EOFOnlyAfterDrain)"
    if k == "read":
        return "Read returned %d byte(s) that are not the next bytes of the peer's stream (C15_PrefixOrder)" % ev.get("got", 0)
    if k == "reply":
        return "reply %s %s to stanza %s is not what the property requires in this state (C15_Refused / sequence rule)" % (ev.get("res"), ev.get("cond"), ev.get("id"))
    if k == "wire" and ev.get("kind") == "close":
        return "the close request went out although bytes accepted by Write had not been sent in data packets (after Close the peer must be able to drain everything), or without a Close call"
    if k == "wire":
        return "%s stanza on the wire (seq %s, %s bytes at %s) is not the writer's next packet (C15_ConsecutiveSeq)" % (ev.get("kind"), ev.get("seq"), ev.get("n"), ev.get("offs"))
    if k == "deliver":
        return "a packet was accepted whose content is not the next part of the stream, or a delivery out of order (C15_PrefixOrder)"
    if k == "panic":
        return "library code panicked in %s: %s" % (ev.get("in"), ev.get("what"))
    if k == "stuck":
        return "permanent stall: every goroutine is blocked while these calls cannot legitimately wait: %s (%s)" % (json.dumps(ev.get("blocked")), ev.get("status"))
    if k == "serve_ret":
        return "the serve loop of endpoint %s ended (%s) - a data packet must be refused with a stanza error, not end the XMPP session" % (ev.get("e"), ev.get("err"))
    if k == "end":
        return "at the end of the run a reply is missing or a stanza was never handled"
    if k in ("close_ret", "close_call"):
        return "Close returned %r in a state where the property does not allow it" % ev.get("err")
    return "event %s is not allowed by IBB.tla" % json.dumps(ev)[:200]


def report(ctx, rej, trs, meta, only=None, limit=30):
    """one violation per (scenario family, rejected event kind); returns {class: count}"""
    classes, tried = {}, {}
    for t, hw in sorted(rej.items()):
        ev = [e for e in trs[t] if e["_line"] == hw]
        ev = ev[0] if ev else None
        fam = meta[t]["scenario"]["name"].split("#")[0]
        key = "%s/%s" % (fam, (ev or {}).get("ev"))
        classes[key] = classes.get(key, 0) + 1
        if only is not None and (ev or {}).get("ev") not in only:
            continue
        if tried.get(key, 0) < 0 or tried.get(key, 0) >= 2 or len(ctx.violations) >= limit:
            continue
        sc = dict(meta[t]["scenario"])
        if sc.get("sched"):
            sc["choices"] = meta[t].get("choices") or []
        # a `stuck` state of a scheduled scenario is a verdict only if the same schedule gets stuck again
        if not ic.confirm_stall(ctx, sc, ev):
            tried[key] = tried.get(key, 0) + 1
            continue
        tried[key] = -1
        ctx.violation("%s [scenario %s, %s carrier, block size %s]" % (describe(ev), sc["name"], sc["carrier"], sc["bs"] or "default"),
                      {"family": "ibb", "scenario": sc, "choices": meta[t].get("choices"), "rejected_line": hw, "rejected_event": ev,
                       "trace": [{k: v for k, v in e.items() if k != "_line"} for e in trs[t]][-120:]})
    return classes


def design_checks(ctx, out):
    try:
        quick = ctx.tier == "quick"
        w = max(2, verif.NCPU // 2)
        runs = [("oneway-iq", dict(maxw="WOneWay2" if quick else "WOneWay3", inj=1)),
                ("oneway-msg", dict(maxw="WOneWay2" if quick else "WOneWay3", inj=1, car='{"message"}')),
                ("both", dict(maxw="WBoth1" if quick else "WBoth", inj=0, readers='{"a", "b"}'))]
        if not quick:
            runs.append(("wrap", dict(maxw="WOneWay", inj=0)))
        st = gen = 0
        for name, kw in runs:
            r = ctx.model_check("MCIBB", ic.mc_cfg(**kw), ic.INVS + ["C15_Refused"], name="MCIBB_" + name.replace("-", "_"), workers=w, timeout=1500)
            st += r.distinct
            gen += r.generated
        lv = ctx.model_check("MCIBB", ic.mc_cfg(maxw="WLive", inj=0, spec="FairSpec", props=ic.LIVE_PROPS), ["C15_DrainThenEOF", "C06_IBBReadReturns"],
                             name="MCIBB_live", workers=w, timeout=900)
        # every invariant can fail: one named deviation each
        for dev, prop in [("OpenIgnoresReply", "C15_OpenOnlyIfAccepted"), ("LostWakeup", "C15_NoLostWakeup"), ("AcceptAhead", "C15_PrefixOrder"),
                          ("EOFBeforeDrain", "C15_EOFOnlyAfterDrain"), ("PartialAppend", "C15_PrefixOrder"), ("SeqBeforeChecks", "C15_Refused")]:
            r = ctx.tlc("MCIBB", ic.mc_cfg(maxw="WOneWay2", inj=1, dev='{"%s"}' % dev), name="MCIBB_dev", workers=2, timeout=600)
            if prop not in r.violated:
                raise verif.Undecided("design check is vacuous: deviation %s does not violate %s (%s)" % (dev, prop, r.violated))
        r = ctx.tlc("MCIBB", ic.mc_cfg(maxw="WLive", inj=0, spec="FairSpec", props=ic.LIVE_PROPS, dev='{"LostWakeup"}'), name="MCIBB_livedev", workers=2, timeout=600)
        if "<temporal>" not in r.violated and "Temporal property C06_IBBReadReturns was violated" not in r.out:
            raise verif.Undecided("liveness check is vacuous: the lost wake-up deviation is not detected")
        out.update(states=st, transitions=gen, liveness_states=lv.distinct, deviations=7)
        out.update(ic.listen_design_checks(ctx, w))
    except Exception as e:      # re-raised by the main thread
        out["error"] = e


def run(ctx):
    quick = ctx.tier == "quick"
    mc = {}
    th = threading.Thread(target=design_checks if not ctx.replay else (lambda c, o: None), args=(ctx, mc))
    th.start()
    jl = None
    lrej, ltrs, lmeta, lsumm, ltr = {}, {}, {}, None, None
    try:
        case = json.load(open(ctx.replay))["case"] if ctx.replay else None
        if case and case["scenario"].get("mode") == "listen":
            lrej, ltrs, lmeta, lsumm, lr, ltr = ic.run_listen_part(ctx, "listen", case=case)
            ic.report_listen(ctx, lrej, ltrs, lmeta)
            ctx.log("replayed listener scenario %s: %d schedule(s), %d rejected" % (case["scenario"]["name"], lsumm["evaluations"], len(lrej)))
            return
        if ctx.replay:
            scen = [case["scenario"]]
            files, summ = ic.run_driver(ctx, scen, "replay", shards=1)
            parts = [("replay", files, summ)]
        else:
            ctx.go_build("ibb")
            jl = ic._bg(ic.run_listen_part, ctx, "listen", 50 if quick else None)
            seq = ic.seq_scenarios(ctx.tier, ctx.seed) + [ic.wrap_scenario()]
            sch = ic.sched_scenarios(ctx.tier)
            half = max(2, verif.NCPU // 2)
            f1, s1 = ic.run_driver(ctx, seq, "seq", shards=half)
            f2, s2 = ic.run_driver(ctx, sch, "sched", shards=min(half, len(sch)))
            parts = [("seq", f1, s1), ("sched", f2, s2)]
        files = [f for _, fs, _ in parts for f in fs]
        tr, meta = ic.merge_traces(ctx, files, "ibb-trace.ndjson")
        rej, r = ic.validate(ctx, tr)
        if jl:
            lrej, ltrs, lmeta, lsumm, lr, ltr = jl()
            jl = None
    finally:
        th.join()
        if jl:
            try:
                jl()
            except Exception:
                pass
    if "error" in mc:
        raise mc["error"]
    tot = {k: sum(s[k] for _, _, s in parts) for k in ("traces", "events", "evaluations", "stuck", "hangs", "runaway")}
    ctx.log("ran %d scenarios/schedules on the real code (%d traces, %d events); TLC validated them in %.1fs: %d rejected" % (
        tot["evaluations"], tot["traces"], tot["events"], r.wall, len(rej)))
    trs = verif.split_traces(verif.read_ndjson(tr)) if (rej or tot["hangs"]) else {}
    classes = report(ctx, rej, trs, meta)
    if lsumm:
        lclasses = ic.report_listen(ctx, lrej, ltrs, lmeta)
        if lsumm["runaway"]:
            raise verif.Undecided("ibb listener schedules that did not end (runaway): %d" % lsumm["runaway"])
        ctx.log("listener part: %d schedules of %d Accept / Expect / Close scenarios (%d distinct traces, %d events) validated against TrIBBListen in %.1fs: %d rejected %s" % (
            lsumm["evaluations"], len(ic.listen_scenarios(ctx.tier)), lsumm["traces"], lsumm["events"], lr.wall, len(lrej), json.dumps(lclasses, sort_keys=True)))
        classes.update(lclasses)
    if classes:
        ctx.log("rejections by scenario family / rejected event: %s" % json.dumps(classes, sort_keys=True))
    unexplained = [meta[t]["scenario"]["name"] for t in meta if meta[t].get("note") in ("hang", "runaway") and t not in rej]
    if unexplained and not ctx.violations:
        raise verif.Undecided("scenarios that did not finish without a rejected event (not a verdict): %s" % unexplained[:5])
    nself = selftest(ctx, tr, meta) if not ctx.replay and not rej else 0
    nlself = ic.listen_selftest(ctx, ltr, lmeta) if lsumm and not ctx.replay and not lrej else 0
    samples = [s for _, _, sm in parts for s in sm["samples"]][:2] or [{"scenario": meta[1]["scenario"], "choices": meta[1].get("choices")}]
    ctx.write_evidence("model_checking", {
        "states": mc.get("states", 0), "transitions": mc.get("transitions", 0), "liveness_states": mc.get("liveness_states", 0),
        "deviations_detected": mc.get("deviations", 0),
        "traces_validated_against_impl": tot["traces"], "evaluations": tot["evaluations"], "trace_events": tot["events"],
        "trace_states": r.distinct, "rejected": len(rej), "rejection_classes": classes,
        "sequential_scenarios": parts[0][2]["traces"], "schedules": parts[-1][2]["evaluations"] if len(parts) > 1 else 0,
        "distinct_nontrivial": tot["traces"], "binding_selftest_mutants_rejected": nself,
        "listener_states": mc.get("listen_states", 0), "listener_transitions": mc.get("listen_transitions", 0),
        "listener_deviations_detected": mc.get("listen_deviations_detected", 0),
        "listener_schedules": lsumm["evaluations"] if lsumm else 0, "listener_traces_validated": lsumm["traces"] if lsumm else 0,
        "listener_trace_events": lsumm["events"] if lsumm else 0, "listener_rejected": len(lrej), "listener_selftest_mutants_rejected": nlself,
        "listener_rule": "Listener.Accept / Expect / Close against real open requests under the scheduler: take-over by a second and third Expect for one session, cancellation of an Expect before / while / after its session is opened, cancellation of the call that took over, two expectations for two sessions opened in the other order, an expectation for a session that is never opened, a listener with nobody accepting, Expect vs Accept precedence, two opens for one session, two Accept calls, Close with a pending Accept / a pending session / a pending Expect, no listener, Close twice (in sequence and from two goroutines), Accept and Expect on a closed listener, Expect for a session id that is open already (and that id opened again), Handler.Listen for a session that has a listener and for a second session while an open request waits for an acceptor, two served sessions sharing one Handler (same session id on both, expectations on both, closing one listener, an unaccepted session on each serve loop); when everything is blocked the specification judges the state and the environment escalates: callers go away, a late Accept, listener Close",
        "exhaustive": False, "samples": samples,
        "rule": "sequential scenarios = block size in {1,2,3,4,5,767,768,769,default} x payload lengths around block, base64-group and 768-byte encoder-chunk boundaries x partitions into Write calls (optional Flush, reads in between) x iq|message carrier, both directions at once with either end closing first, bad packets (unknown sid, closed sid at both ends, sequence too low / too high / far, undecodable, partly decodable, truncated, oversize) before / between / after data at either endpoint and with either carrier, refused and accepted open, full receive buffer, 65600 packets of block size 1 across the sequence wrap; schedules = depth-first enumeration at gate granularity (pre-emption bounded, capped per scenario) of reader vs serve loop vs writer, drain-then-EOF, simultaneous close, reader-side close during writes, Read against local Close, open with immediate data, refused open, empty packet; every distinct trace is validated",
    }, assumptions=["gate granularity of the scheduler (verifYield hooks read.wait, payload.signal, open.reply, close.claim; transport reads/writes; Go blocking primitives)",
                    "bytes are identified with their position in the writer's reference stream: the driver projects every packet payload and every Read result to the offsets at which it occurs in that stream (stateless), TLC decides",
                    "a writer learns of a refusal before it sends 65536 further packets (A1 in IBB.tla)"])


def selftest(ctx, trace, meta):
    """corrupt recorded fields of an accepted trace: TLC must reject each"""
    trs = verif.split_traces(verif.read_ndjson(trace))
    good = [t for t, tr in trs.items() if len(tr) < 80 and not meta[t]["scenario"]["sched"]
            and any(e.get("ev") == "read" and e.get("got", 0) >= 2 and len(e.get("offs", [])) == 1 for e in tr)
            and any(e.get("ev") == "read" and e.get("eof") for e in tr) and any(e.get("ev") == "reply" and e.get("res") == "result" for e in tr[6:])]
    if not good:
        raise verif.Undecided("binding self-test: no suitable accepted trace")
    base = [{k: v for k, v in e.items() if k != "_line"} for e in trs[good[0]]]
    muts = []
    m = [dict(e) for e in base]
    i = [k for k, e in enumerate(m) if e.get("ev") == "read" and e.get("got", 0) >= 2 and len(e["offs"]) == 1][0]
    m[i]["offs"] = [m[i]["offs"][0] + 1]
    muts.append(("Read result shifted by one byte", m))
    m = [dict(e) for e in base]
    i = [k for k, e in enumerate(m) if e.get("ev") == "wire" and e.get("kind") == "data"][0]
    m[i]["seq"] = m[i]["seq"] + 1
    muts.append(("data packet numbered one too high", m))
    m = [dict(e) for e in base]
    i = [k for k, e in enumerate(m) if e.get("ev") == "reply" and e.get("res") == "result" and k > 6][0]
    del m[i]
    muts.append(("acknowledgement removed", m))
    m = [dict(e) for e in base]
    i = [k for k, e in enumerate(m) if e.get("ev") == "wire" and e.get("kind") == "close"]
    if i:
        j = [k for k, e in enumerate(m) if e.get("ev") == "read" and e.get("eof")][0]
        if j > i[0]:
            e = m.pop(j)
            c = [k for k, x in enumerate(m) if x.get("ev") == "read_call" and k < j][-1]
            rc = m.pop(c)
            m.insert(i[0] - 1 if m[i[0] - 1].get("ev") == "close_call" else i[0], rc)
            m.insert(m.index(rc) + 1, e)
            muts.append(("end-of-file before the stream was closed", m))
    p = ctx.path("selftest.ndjson")
    line = 0
    with open(p, "w") as f:
        for k, (_, mm) in enumerate([("unchanged", base)] + muts):
            mm[0] = dict(mm[0])
            mm[0]["t"] = k + 1
            mm[0]["end"] = line + len(mm) + 1
            for e in mm:
                f.write(json.dumps(e) + "\n")
            line += len(mm)
    rej, _ = ic.validate(ctx, p)
    if 1 in rej:
        raise verif.Undecided("binding self-test: unchanged trace rejected")
    missed = [muts[k - 2][0] for k in range(2, 2 + len(muts)) if k not in rej]
    if missed:
        raise verif.Undecided("binding self-test: corrupted traces ACCEPTED: %s" % missed)
    return len(muts)
