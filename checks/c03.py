"""C03 - the authenticated bit is only set by a completed, accepted SASL exchange.

Pipeline A: TLC design check of tla/SASL.tla (client and server machines of sasl.go, abstract
mechanism and permission verdict, every peer sequence within the bounds), plus a non-vacuity
run: with the named deviations switched on TLC must find the invariants violated.
Pipeline B: TLC (EmitSASL) emits the peer alphabets, mechanism scripts and preference lists;
the driver enumerates the tree of reachable peer sequences below every script.
Pipeline C: every run of the real xmpp.SASL / xmpp.SASLServer feature inside a full
NewSession / ReceiveSession is recorded and validated by TLC against TrSASL.tla."""
import json

import authcommon as ac
import verif

MC_CFG = '''SPECIFICATION Spec
INVARIANT C03_ClientAuthn
INVARIANT C03_ServerAuthn
INVARIANT C03_MechanismMutual
PROPERTY C03_StepOnlySelected
PROPERTY C03_NoStepAfterError
PROPERTY C03_AuthnStable
PROPERTY C03_SessionFresh
CHECK_DEADLOCK FALSE
'''
PROPS = ["C03_ClientAuthn", "C03_ServerAuthn", "C03_MechanismMutual", "C03_StepOnlySelected",
         "C03_NoStepAfterError", "C03_AuthnStable", "C03_SessionFresh"]


SHARED_STRIDE = (2, 16)   # shared family: every n-th pair (quick: schedules in rotation; thorough: all three schedules)


def consts(maxpeer=99, maxsteps=99, dev=(), maxsess=99):
    return ac.SASL_CONSTS % dict(maxpeer=maxpeer, maxsteps=maxsteps, dev=ac.dev_set(dev), maxsess=maxsess)


def nonvacuous(ctx):
    """The invariants must be able to fail: with a deviation switched on TLC has to find it."""
    runs = (("client", "ExitWithoutSuccess", "C03_ClientAuthn"),
            # (a <success/> whose content is no payload taken for the signal)
            ("client", "MalformedSuccessCounts", "C03_ClientAuthn"),
            # (a success flag that is only ever set: a premature <success/>, on which the mechanism went on, taken
            # for the signal of the exchange that completes later on a <challenge/>)
            ("client", "PrematureSuccessCounts", "C03_ClientAuthn"),
            ("server", "SkipPermission", "C03_ServerAuthn"),
            # (a negotiator that survives into the next session: TLC reports the invariant it breaks first - the
            # stale mechanism was not advertised in this session - or the action property itself)
            ("server", "KeepStateAcrossSessions", "C03_MechanismMutual|C03_SessionFresh"))
    def one(run):
        role, dev, inv = run
        # (the premature <success/> needs three steps: start, the step that goes on, the step that completes)
        cfg = consts(3, 3 if dev == "PrematureSuccessCounts" else 2, [dev], maxsess=1 if dev == "PrematureSuccessCounts" else 2).replace('Roles = {"client","server"}', 'Roles = {"%s"}' % role) + MC_CFG
        return ctx.tlc("MCSASL", cfg, timeout=300, name="MCSASL", workers=4)
    for (role, dev, inv), r in zip(runs, ac.parallel(one, runs)):
        if not set(inv.split("|")) & set(r.violated):
            raise verif.Undecided("non-vacuity: deviation %s does not violate %s:\n%s" % (dev, inv, r.out[-1500:]))
    return len(runs)


def selftest_binding(ctx, trs):
    def has(tr, ev, **kw):
        return [i for i, e in enumerate(tr) if e["ev"] == ev and all(e.get(k) == v for k, v in kw.items())]

    cl = [tr for tr in trs.values() if tr[0]["role"] == "client" and tr[-1].get("authn") and has(tr, "peer")
          and len(has(tr, "step")) >= 2]
    sv = [tr for tr in trs.values() if tr[0]["role"] == "server" and tr[-1].get("authn") and has(tr, "perm", v=True)]
    if not cl or not sv:
        raise verif.Undecided("binding self-test: no authenticated client/server trace to corrupt")
    c = [ac.strip(e) for e in cl[0]]
    s = [ac.strip(e) for e in sv[0]]
    mutants = []
    m = [dict(e) for e in c]
    idx = [i for i in has(m, "peer") if m[i]["item"]["k"] == "success"]
    for i in reversed(idx):
        del m[i]
    mutants.append(("client: <success/> events removed", m))
    m = [dict(e) for e in c]
    i = has(m, "step")[-1]
    m[i]["more"] = True
    mutants.append(("client: last step.more flipped", m))
    m = [dict(e) for e in c]
    i = has(m, "wrote", k="auth")[0]
    m[i]["m"] = "UNK"
    mutants.append(("client: mechanism attribute of <auth/> corrupted", m))
    # element kind and mechanism step are independent: the same exchange with the kinds of the peer's two
    # elements swapped (<success/> first, the mechanism goes on; it completes on a <challenge/>) authenticates nobody
    two_el = [tr for tr in cl if [e["item"]["k"] for e in tr if e["ev"] == "peer"] == ["challenge", "success"]
              and [e["more"] for e in tr if e["ev"] == "step"][-2:] == [True, False]]
    if not two_el:
        raise verif.Undecided("binding self-test: no authenticated client trace <challenge/> (more) <success/> (done) to corrupt")
    m = [ac.strip(e) for e in two_el[0]]
    for i in has(m, "peer"):
        m[i] = dict(m[i], item=dict(m[i]["item"], k={"challenge": "success", "success": "challenge"}[m[i]["item"]["k"]]))
    mutants.append(("client: kinds of the peer's two elements swapped (premature <success/>, completion on <challenge/>)", m))
    m = [dict(e) for e in s]
    i = has(m, "perm")[-1]
    m[i]["v"] = False
    mutants.append(("server: permission verdict flipped", m))
    m = [dict(e) for e in s]
    i = has(m, "step")[-1]
    m[i]["err"] = True
    m[i]["more"] = False
    mutants.append(("server: last step.err flipped", m))
    m = [dict(e) for e in s]
    del m[has(m, "perm")[-1]]
    mutants.append(("server: perm event removed", m))
    # two sessions negotiated with one feature value (one trace, "newsess" between them): the second
    # session cannot live on the first one's exchange
    two = [tr for tr in trs.values() if has(tr, "newsess") and tr[-1].get("authn")
           and [i for i in has(tr, "step") if i > has(tr, "newsess")[0]] and [i for i in has(tr, "step") if i < has(tr, "newsess")[0]]]
    if not two:
        raise verif.Undecided("binding self-test: no two-session trace whose second session authenticates")
    m = [ac.strip(e) for e in two[0]]
    cut = has(m, "newsess")[0]
    m = [e for i, e in enumerate(m) if not (i > cut and e["ev"] in ("step", "perm"))]
    mutants.append(("shared feature value: steps and verdicts of the second session removed", m))
    p = ctx.path("selftest.ndjson")
    ac.write_batch(p, [c, s] + [x for _, x in mutants])
    rej, _ = ac.validate(ctx, "TrSASL", consts(), p, name="TrSASL-selftest")
    if 1 in rej or 2 in rej:
        raise verif.Undecided("binding self-test: an unchanged trace was rejected")
    missed = [mutants[k][0] for k in range(len(mutants)) if k + 3 not in rej]
    if missed:
        raise verif.Undecided("binding self-test: corrupted traces ACCEPTED: %s" % missed)
    return len(mutants)


def describe(tr, hw):
    rej = [e for e in tr if e["_line"] == hw]
    e = rej[0] if rej else None
    what = "SASL trace is not a behaviour of SASL.tla"
    if e and e["ev"] in ("negret", "return") and e.get("authn"):
        role = tr[0]["role"]
        succ = [x["item"] for x in tr if x["ev"] == "peer" and x["item"]["k"] == "success"]
        steps = [x for x in tr if x["ev"] == "step"]
        # the peer's items and the mechanism's steps in order: a <success/> after which a step returned more
        # was premature
        late = False
        for x in tr:
            if x["ev"] == "peer":
                late = x["item"]["k"] == "success"
            elif x["ev"] == "step" and (x["more"] or x["err"]):
                late = False
        if role == "client" and not succ:
            what = "client returned Authn although the peer never sent <success/>"
        elif role == "client" and steps and not (steps[-1]["err"] or steps[-1]["more"]) and not late and any(
                not ac.payload_is_bad(x["p"]) for x in succ):
            what = ("client returned Authn although the only <success/> of the peer was premature (the mechanism went on after it) "
                    "and nothing signalled success when or after the mechanism completed (peer sent: %s)" % (
                        ", ".join(x["item"]["k"] for x in tr if x["ev"] == "peer")))
        elif role == "client" and steps and not (steps[-1]["err"] or steps[-1]["more"]):
            # (the mechanism completed and <success/> elements were seen: none of them is a success signal)
            what = "client returned Authn although every <success/> of the peer held something that is not a payload (%s): no success signal" % (
                ", ".join(repr(ac.payload_text(x["p"])) for x in succ[:3]))
        elif steps and (steps[-1]["err"] or steps[-1]["more"]):
            what = "%s returned Authn although the mechanism had not completed without error" % role
        elif role == "server":
            what = "server returned Authn without an accepting permission verdict"
        else:
            what = "Authn returned outside a completed, accepted exchange"
    elif e and e["ev"] == "step":
        what = "mechanism stepped where the exchange does not allow it (after an error / not the selected one)"
    elif e and e["ev"] == "wrote":
        what = "<%s/> written where the exchange does not allow it (mechanism %r)" % (e.get("k"), e.get("m"))
    return what, e


def run(ctx):
    quick = ctx.tier == "quick"
    pool, _ = ac.emit(ctx, "EmitSASL", consts(4, 3) + "INIT EInit\nNEXT ENext\n", ["sasl_pool.json"])
    mc = ctx.model_check("MCSASL", consts(4 if quick else 5, 3 if quick else 4, maxsess=2) + MC_CFG, PROPS, timeout=1500)
    nv = nonvacuous(ctx)

    b = ctx.go_build("sasl")
    tr = ctx.path("trace.ndjson")
    if ctx.replay:
        sc = json.load(open(ctx.replay))["case"]["scenario"]
        p = ctx.path("replay.ndjson")
        open(p, "w").write(json.dumps(sc) + "\n")
        out = ctx.run_driver(b, ["run", pool["sasl_pool.json"], p, tr], timeout=600)
    else:
        env = {"SASL_CDEPTH": "4" if quick else "5", "SASL_SDEPTH": "3" if quick else "4",
               "SASL_SDEPTH_FULL": "0" if quick else "3", "SASL_SHARED_STRIDE": str(SHARED_STRIDE[0] if quick else SHARED_STRIDE[1])}
        out = ctx.run_driver(b, ["explore", pool["sasl_pool.json"], tr], env=env, timeout=1500)
    summ = ac.summary_of(out)
    if not ctx.replay:
        # binding self-test of the shared-feature-value comparison: with a corrupted reference run the driver
        # must report the session as behaving differently
        probe = {"fam": "shared", "role": "server", "local": ["M1", "M2"], "sched": "seq", "sessions": [
            {"fam": "script", "role": "server", "local": ["M1", "M2"], "adv": [], "dev": "", "pwok": False,
             "script": [{"more": False, "err": False, "perm": "yes"}], "peer": [{"k": "auth", "p": [1, 1, 1, 1], "m": "M1"}]}] * 2}
        pp = ctx.path("shared-selftest.ndjson")
        open(pp, "w").write(json.dumps(probe) + "\n")
        for corrupt in ("0", "1"):
            o2 = ctx.run_driver(b, ["run", pool["sasl_pool.json"], pp, ctx.path("shared-selftest-trace.ndjson")],
                                env={"SASL_SELFTEST_CORRUPT": corrupt}, timeout=120)
            mm = ac.summary_of(o2)["mismatches"]
            if corrupt == "0" and mm:
                # the probe itself behaves differently when the feature value is shared: a finding, not a
                # problem of the self-test
                summ["mismatches"] = mm + summ["mismatches"]
                break
            if corrupt == "1" and len(mm) != 1:
                raise verif.Undecided("binding self-test: shared-feature-value comparison with a corrupted reference run reported %d differences, want 1" % len(mm))
    rej, r = ac.validate(ctx, "TrSASL", consts(), tr)
    ctx.log("validated %d traces / %d events: %d rejected (TLC %d states, %.1fs)" % (
        summ["traces"], summ["events"], len(rej), r.distinct, r.wall))

    trs, meta = ac.load_traces(tr)
    # OBSERVATION, not judged: the receiving side hands a mechanism the EMPTY payload for an <auth/> / <response/>
    # whose content is no payload (sasl.go decodes only where DecodedLen > 1, i.e. from four characters on). The
    # property ties the receiving side's Authn to the mechanism and the permission callback, which are satisfied.
    cls = {tuple(x["p"]): x["c"] for x in json.load(open(pool["sasl_pool.json"]))["shapes"]}
    srv_bad = 0
    for t in trs.values():
        if t[0]["role"] == "server" and t[-1].get("authn"):
            items = [e["item"] for e in t if e["ev"] == "peer" and e["item"]["k"] in ("auth", "response")]
            last = max([i for i, x in enumerate(items) if x["k"] == "auth"] or [0])
            srv_bad += any(cls.get(tuple(x["p"])) == "bad" for x in items[last:])
    if srv_bad:
        ctx.log("OBSERVATION (not judged): %d receiving-side runs authenticated after an <auth/>/<response/> whose content is no base64 payload (taken for the empty payload)" % srv_bad)
        ctx.notes.append("observation: %d receiving-side runs authenticated after an undecodable request payload (handed to the mechanism as empty)" % srv_bad)
    spins = summ["extra"].get("scram_client_steps_that_would_never_return", 0)
    if spins:
        ctx.log("OBSERVATION (not judged, mellium.im/sasl): %d challenges on which the SCRAM client's Step would never return were answered by the driver in its place" % spins)
        ctx.notes.append("observation: %d SCRAM server-first messages on which mellium.im/sasl's client Step would spin for ever (last field shorter than 3 bytes / without '='); the driver answered them with an error in the mechanism's place" % spins)
    tolerated = {}
    devs = sorted({f["deviation"] for f in ctx.open_findings() if f.get("deviation")})
    if rej and devs:
        # listed, open findings: the same traces must be accepted once the named deviation is on
        rej2, _ = ac.validate(ctx, "TrSASL", consts(dev=devs), tr, name="TrSASL-dev")
        for t in rej:
            if t not in rej2:
                tolerated[t] = True
        for f in ctx.open_findings():
            if f.get("deviation") and tolerated:
                ctx.known_finding(f, "%d traces" % len(tolerated))
    n = 0
    for t, hw in sorted(rej.items()):
        if t in tolerated:
            continue
        n += 1
        if n > 40:
            break
        what, e = describe(trs[t], hw)
        ctx.violation("%s: scenario %s; rejected event %s" % (what, json.dumps(meta.get(t))[:400], json.dumps(ac.strip(e)) if e else None),
                      {"family": "sasl", "scenario": meta.get(t), "trace": [ac.strip(x) for x in trs[t]],
                       "rejected_line": hw, "rejected_event": ac.strip(e) if e else None, "expected": "a behaviour of tla/SASL.tla",
                       })
    # sessions negotiated with one feature value that do not behave as they do alone
    for m in summ["mismatches"][:10]:
        first = next((k for k, (x, y) in enumerate(zip(m["shared"], m["alone"])) if ac.strip(x) != {k2: v for k2, v in y.items()}), min(len(m["shared"]), len(m["alone"])))
        ctx.violation("%s: first differing event %d: %s (alone: %s); scenario %s" % (
            m["what"], first + 1, json.dumps(m["shared"][first]) if first < len(m["shared"]) else None,
            json.dumps(m["alone"][first]) if first < len(m["alone"]) else None, json.dumps(m["scenario"])[:400]),
            {"family": "sasl-shared", "scenario": m["scenario"], "session": m["session"], "observed": m["shared"],
             "expected": m["alone"], "expected_rule": "every session negotiated with a shared feature value behaves as it does with a feature value of its own"})
    nself = selftest_binding(ctx, {t: x for t, x in trs.items() if t not in rej}) if not ctx.replay else 0
    ctx.write_evidence("model_checking", {
        "states": mc.distinct, "transitions": mc.generated, "depth": mc.depth,
        "traces_validated_against_impl": summ["traces"], "trace_events": summ["events"], "trace_states": r.distinct,
        "evaluations": summ["evaluations"], "distinct_nontrivial": summ["distinct"],
        "authenticated_runs": summ["extra"]["authn"], "runs_by_family": summ["extra"]["by_family"],
        "shared_feature_value_runs": summ["extra"].get("shared_runs", 0), "shared_feature_value_runs_differing": summ["extra"].get("shared_runs_differing", 0),
        "rejected": len(rej), "tolerated_known": len(tolerated),
        "observed_server_authn_after_undecodable_request_payload": srv_bad,
        "observed_scram_client_steps_that_would_never_return": spins,
        "nonvacuity_runs_violating": nv, "binding_selftest_mutants_rejected": nself,
        "element_kind_plans": "real mechanisms against a counterpart that runs the mechanism faithfully (right / wrong password) but puts its messages into elements of the kinds of a plan of SASL.tla (KindPlans): every assignment of <challenge/> / <success/> to the mechanism's messages (SCRAM-SHA-1, SCRAM-SHA-256: 2 messages; PLAIN: none) x 7 tails of further elements after the last message (nothing, success, failure, challenge, challenge success, success success, failure success) = %d runs; the oracle: a <success/> on which the mechanism goes on is premature and is not the receiver's signal for the exchange that completes later (CStep resets successSeen when the step returns more; deviation PrematureSuccessCounts)" % summ["extra"]["by_family"].get("real-kindplan/client", 0),
        "payload_shapes": "every <challenge/>, <success/> (and <failure/> text) sent to a client and every <auth/>, <response/> sent to a server with every payload shape of SASL.tla (%d shapes by length 0, '=', 1, 2, 3, 4, 5-9, 64, 65 and alphabet: base64 characters, padding in and out of place, characters outside the alphabet, blanks and line feeds; classified by the grammar of RFC 4648 in the spec) at every position of the exchange of scripted mechanisms that complete after 0, 1, 2 rounds (followed by every honest continuation), and in place of every element of a well-behaved real counterpart (client: PLAIN, ANONYMOUS, SCRAM-SHA-1; server: PLAIN, SCRAM-SHA-1)" % len(cls),
        "exhaustive": "peer sequences: every reachable prefix up to length %s (client) / %s (server) over the alphabets of SASL.tla; scripts: all of length <= 3" % (
            ("4", "3 (payload variants on the first offered mechanism only)") if quick
            else ("5", "4 (reduced alphabet, basic scripts) and 3 (full alphabet, all scripts incl. early permission checks)")),
        "design_check": "MCSASL: two sessions negotiated one after the other with the same feature value, both roles, every ordered sublist of {M1,M2,M3} as configuration (and of {M1,M2,M3,UNK} as advertisement), <= %d peer items, <= %d steps per negotiator" % (
            (4, 3) if quick else (5, 4)),
        "rule": "script family: scripted sasl.Mechanism values (Start/Next return the scripted more/err, consult the permission callback where the script says so) x depth-first tree of peer items, a prefix is extended only when the session asked for more input; selection family: every pair (local list, advertised list); real family: sasl.Plain / SCRAM-SHA-1 / SCRAM-SHA-256 on both ends with a deviating counterpart; shared family: per feature value (role, mechanisms, script) three first sessions (authenticates / leaves mid-exchange / mechanism failed) x %s run of the other families as second session, negotiated with ONE feature value and Negotiator one after the other, alternating at every read, or nested (%s); every session is compared event by event with the same session negotiated alone, successive sessions are validated by TLC as one trace (NewSession)" % (
            ("every %d-th" % (SHARED_STRIDE[0] if quick else SHARED_STRIDE[1])), "schedules in rotation" if quick else "all three schedules"),
        "samples": summ["samples"][:2],
    }, assumptions=[
        "a server-side mechanism completes only after consulting the permission callback (as PLAIN does); a mechanism that never asks is not held against sasl.go",
        "the cryptography of SCRAM is mellium.im/sasl's; real SCRAM on the receiving side is given a credential store by the harness because xmpp.SASLServer cannot pass one",
        "channel binding (-PLUS) variants are not exercised (no TLS state on the in-memory transport)",
    ])
