"""MUC family (C18, and the MUC / delivery-receipts parts of C06).

MUC: tla/MUC.tla has two layers - an OBSERVER (what the property says about calls, requests on
the wire, cancellations, the room's stanzas, returns, Joined() samples, callbacks) and a MECHANISM
(the rendezvous protocol of package muc).  Pipeline A model-checks mechanism x observer
(viol = {} for every order of calls, cancellations and stanzas; every named deviation must be
caught).  Pipeline B: TLC (tla/EmitMUC.tla) emits every well-formed script of environment steps up
to a length bound.  Pipeline C: harness/cmd/muc drives the REAL muc.Client on a served session
against the scripted room - protocol level (each step at quiescence) for the TLC scripts, and
scheduler-driven with the yield points of package muc for the narrow windows - and TLC validates
every recorded trace against the observer (tla/TrMUC.tla).

Receipts: tla/Receipts.tla / TrReceipts.tla, harness/cmd/receipts (see run_c06_receipts_part)."""
import json, os, re, shutil, subprocess
from concurrent.futures import ThreadPoolExecutor
import verif

# ----------------------------------------------------------------------------- MUC: design check
MC_CFG = '''CONSTANTS
  Rooms = %(rooms)s
  Foreign = "rx"
  CallIds <- %(ids)s
  MaxEnv = %(maxenv)d
  MaxFlight = %(maxflight)d
  Alphabet <- %(alpha)s
  Splits = %(splits)s
  Aux = %(aux)s
  Dev = %(dev)s
SPECIFICATION Spec
INVARIANT C18_JoinOK
INVARIANT C18_JoinErr
INVARIANT C18_CtxErr
INVARIANT C18_LeaveReturns
INVARIANT C18_JoinedIffIn
INVARIANT C18_ForeignIgnored
INVARIANT C18_InviteExactlyOnce
INVARIANT C18_DirectInviteExactlyOnce
INVARIANT C18_NoStall
INVARIANT C06_ServeNotWedged
CHECK_DEADLOCK FALSE
'''
MUC_PROPS = ["C18_JoinOK", "C18_JoinErr", "C18_CtxErr", "C18_LeaveReturns", "C18_JoinedIffIn", "C18_ForeignIgnored",
             "C18_InviteExactlyOnce", "C18_DirectInviteExactlyOnce", "C18_NoStall", "C06_ServeNotWedged"]
# deviation -> (alphabet, the invariant TLC must report)
MUC_DEVS = {
    "BareLookup": ("Alpha1", "C18_JoinOK"),               # DESIGN 7.1: join returns on any presence of the room
    "DepartLost": ("Alpha1", "C18_NoStall"),              # pinned code: non-blocking depart signal lost
    "NoReRegister": ("Alpha1", "C18_NoStall"),            # pinned code: rejoin after leaving never registered
    "JoinedBare": ("Alpha1", "C18_JoinedIffIn"),          # pinned code: Joined() always false
    "InvitePerMessage": ("AlphaInv", "C18_InviteExactlyOnce"),
    "InviteFirstChild": ("AlphaInv", "C18_InviteExactlyOnce"),   # mediated invitation decoded from the message's first child only
    "DirectFirstChild": ("AlphaInv", "C18_DirectInviteExactlyOnce"),   # the same for the direct-invitation handler
    "StaleBlocks": ("Alpha1", "C18_NoStall"),             # pinned code: stale hand-off entry blocks the next join
    "ErrHandoverBlocks": ("AlphaSplit", "C06_ServeNotWedged"),   # sender goroutine offers the error reply without watching the context
    "ErrReplyLeaked": ("AlphaShapeQ", "C06_ServeNotWedged"),     # the reply decoder returns on its error path without closing the reply
    # code that reads the CONTENT of the muc#user payload where the property speaks of the sender address and the type alone
    "NewNickStays": ("AlphaPlQ", "C18_JoinedIffIn"),      # unavailable self-presence with status 303 not treated as the departure
    "UnNeedsRoleNone": ("AlphaPlQ", "C18_JoinedIffIn"),   # ... only an item with role none counts as a departure
    "SelfNeeds110": ("AlphaPlQ", "C18_NoStall"),          # the self-presence completes a join only when it carries status 110
    # two channels in one room (nicknames me / me2): a presence of any of the user's own nicknames is taken for the channel's
    "OwnNickAny": ("Alpha2n", "C18_JoinOK"),
    # Subject / Invite block while a Leave of the channel is pending
    "AuxWaitsForLeave": ("Alpha1", "C18_NoStall"),
    # Join with the Nick option: the address the channel holds is forgotten when the request is made (the room may refuse) /
    # the address asked for stays registered when the room did not grant it (its presences are somebody else's)
    "RenickForgetsOld": ("Alpha2n", "C18_JoinedIffIn"),
    "RenickStale": ("Alpha2n", "C18_JoinedIffIn"),
}
DEV_EXTRA = {"OwnNickAny": dict(rooms='{"r1", "r1b"}', maxenv=4), "AuxWaitsForLeave": dict(aux='{"subject"}', maxenv=4),
             "RenickForgetsOld": dict(aux='{"renick"}'), "RenickStale": dict(aux='{"renick"}')}
C18_DEVS = ["BareLookup", "DepartLost", "NoReRegister", "JoinedBare", "InvitePerMessage", "InviteFirstChild", "DirectFirstChild", "StaleBlocks",
            "NewNickStays", "OwnNickAny", "AuxWaitsForLeave", "RenickForgetsOld"]      # quick tier: one per dimension; thorough: all of MUC_DEVS


def _mc(ctx, name, workers, **kw):
    kw.setdefault("splits", "FALSE")
    kw.setdefault("aux", "{}")
    kw.setdefault("dev", "{}")
    kw.setdefault("maxflight", 2)
    # the runs execute side by side (up to 9 JVMs): a JVM without a limit takes up to a quarter of the machine's memory
    return ctx.model_check("MCMUC", MC_CFG % kw, MUC_PROPS, name=name, timeout=1500, workers=workers, heap="3g" if ctx.tier == "quick" else "8g")


def muc_design_runs(ctx, specs, devs):
    """run the exhaustive design checks `specs` (name -> cfg parameters) and the deviation runs
    side by side (TLC start-up dominates the small ones); returns (runs, caught)"""
    nw = max(2, verif.NCPU // 2)

    def dev_run(d):
        alpha, inv = MUC_DEVS[d]
        splits = "TRUE" if alpha == "AlphaSplit" else "FALSE"
        kw = dict(rooms='{"r1"}', ids="Ids2" if alpha == "AlphaInv" else "Ids3", maxenv=3 if alpha == "AlphaInv" else 5,
                  maxflight=2, alpha=alpha, splits=splits, aux="{}", dev='{"%s"}' % d)
        kw.update(DEV_EXTRA.get(d, {}))
        b = ctx.tlc("MCMUC", MC_CFG % kw,
                    name="MCMUC_dev_" + d, timeout=600, workers=2, heap="2g")
        return d, inv, b

    with ThreadPoolExecutor(max_workers=len(specs) + 3) as ex:
        fr = [ex.submit(_mc, ctx, name, nw, **kw) for name, kw in specs]
        fd = [ex.submit(dev_run, d) for d in devs]
        runs = [f.result() for f in fr]
        caught = []
        for f in fd:
            d, inv, b = f.result()
            if inv not in b.violated:
                raise verif.Undecided("design check is vacuous: deviation %s does not violate %s (violated: %s)\n%s" % (d, inv, b.violated, b.out[-1500:]))
            caught.append(d)
    ctx.log("design check: deviations caught by TLC: " + ", ".join(caught))
    return runs, caught


def shapes_spec(quick):
    """design check of the error replies' shapes (well-formed / malformed, whole or in two pieces)"""
    return ("MCMUC_shapes", dict(rooms='{"r1"}', ids="Ids3", maxenv=5 if quick else 6, alpha="AlphaShapeQ" if quick else "AlphaShape", splits="TRUE"))


def payload_spec(quick):
    """design check of the presences' payload content (status codes, item variants; own / other occupant, available / unavailable)"""
    return ("MCMUC_payload", dict(rooms='{"r1"}', ids="Ids3", maxenv=5 if quick else 6, alpha="AlphaPlQ" if quick else "AlphaPl"))


def muc_design_check(ctx, quick, devs=None):
    specs = [payload_spec(quick),
             # two channels in one room under two nicknames; Subject / Invite calls at any time on a channel the application holds
             ("MCMUC_two_nicks", dict(rooms='{"r1", "r1b"}', ids="Ids3", maxenv=4 if quick else 5, alpha="Alpha2n")),
             # Join with the Nick option on a channel that has an occupant address: granted / ignored / refused / cancelled,
             # presences of the address held and of the address asked for in every order
             ("MCMUC_renick", dict(rooms='{"r1"}', ids="Ids3", maxenv=5 if quick else 6, alpha="Alpha2n", aux='{"renick"}')),
             ("MCMUC_aux", dict(rooms='{"r1"}', ids="Ids3" if quick else "Ids4", maxenv=5, alpha="AlphaSplit" if quick else "Alpha1",
                                 aux='{"subject"}' if quick else '{"subject", "invite"}')),     # (the two kinds are symmetric in the specification)
             ("MCMUC_one_room", dict(rooms='{"r1"}', ids="Ids3", maxenv=6 if quick else 8, alpha="Alpha1")),
             # every invitation message of AlphaInv: position of the payload among the children, direct / legacy element, 0-2 invites
             ("MCMUC_invites", dict(rooms='{"r1"}', ids="Ids2", maxenv=4 if quick else 5, alpha="AlphaInv")),
             shapes_spec(quick)]
    if not quick:
        specs.append(("MCMUC_two_rooms", dict(rooms='{"r1", "r2"}', ids="Ids3", maxenv=5, alpha="Alpha2")))
        specs.append(("MCMUC_split", dict(rooms='{"r1"}', ids="Ids3", maxenv=6, alpha="AlphaSplit", splits="TRUE")))
    return muc_design_runs(ctx, specs, devs if devs is not None else C18_DEVS)


# ----------------------------------------------------------------------------- MUC: scripts from TLC
EMIT_CFG = '''CONSTANTS
  ERooms = %(rooms)s
  MaxLen = %(maxlen)d
  MaxCalls = %(maxcalls)d
  MaxNoise = %(noise)d
  InvFull = %(invfull)s
  MaxSplit = %(split)d
  Cuts = %(cuts)s
  MaxShape = %(shape)d
  ErShapes = %(shapes)s
  OnlyShaped = %(onlyshaped)s
  WithTail = %(tail)s
  MaxPl = %(pl)d
  PlSet <- %(plset)s
  PlOther = %(plother)s
  OnlyPl = %(onlypl)s
  MaxAux = %(aux)d
  OnlyAux = %(onlyaux)s
  MaxRenick = %(renick)d
  OnlyRenick = %(onlyrenick)s
  OutFile = "scripts.ndjson"
SPECIFICATION Spec
'''


# shapes of an error reply (tla/MUC.tla WellFormedShapes / MalformedShapes, driver erBody) other than the plain "wf"
ER_SHAPES_WF = ["nox", "ux", "pre", "post"]
ER_SHAPES_MAL = ["bare", "noerr", "wrongns", "empty", "badby", "unktype", "text"]
ER_SHAPES = ER_SHAPES_WF + ER_SHAPES_MAL


def shaped(maxlen, split=0, cuts="{1, 2, 3}"):
    """the emission option set "one error reply of every other shape, followed by a second exchange
    that must succeed" for scripts up to maxlen steps (+ the appended exchange)"""
    o = {"shape": 1, "shapes": ER_SHAPES, "onlyshaped": True, "tail": True}
    if split:
        o.update(split=split, cuts=cuts)
    return ('{"r1"}', maxlen, 3, 0, o)


def payloads(maxlen, plset="PlAll", other=True, calls=3):
    """the emission option set "one presence - the occupant's own or another occupant's, available or unavailable, wherever
    the script has one - carries a muc#user payload out of plset (status codes x item variants), followed by a second
    exchange that must succeed" for scripts up to maxlen steps (+ the appended exchange)"""
    return ('{"r1"}', maxlen, calls, 0, {"pl": 1, "plset": plset, "plother": other, "onlypl": True, "tail": True})


def two_nicks(maxlen, calls=3):
    """two channels in ONE room under two nicknames (r1/me and r1/me2): to each the other's presences are another occupant's"""
    return ('{"r1", "r1b"}', maxlen, calls, 0)


def aux_calls(maxlen, calls=3):
    """one Subject / Invite call on a channel the application holds, while nothing or a Leave is pending on it"""
    return ('{"r1"}', maxlen, calls, 0, {"aux": 1, "onlyaux": True})


def renick(maxlen, calls=3):
    """one Join with the Nick option on a channel that has an occupant address (it asks for the other nickname), answered with
    the self-presence of either address / an error / nothing (cancel), followed by presences of the old and of the new address"""
    return ('{"r1"}', maxlen, calls, 0, {"renick": 1, "onlyrenick": True})


def muc_emit(ctx, sets):
    """sets: list of (rooms, maxlen, maxcalls, noise[, options]); options: invfull (the noise is the
    full invitation alphabet), split (number of stanzas delivered in two pieces), cuts (where),
    shape (number of error replies of a shape out of `shapes` other than the plain well-formed
    one), onlyshaped (only the scripts with such a reply), tail (each script also with a second,
    well-formed exchange appended); the emissions run side by side; returns the de-duplicated
    scenario list"""
    seen = set()
    out = []

    def emit(i, rooms, maxlen, maxcalls, noise, opt=None):
        opt = opt or {}
        return ctx.tlc("EmitMUC", EMIT_CFG % dict(rooms=rooms, maxlen=maxlen, maxcalls=maxcalls, noise=noise, invfull="TRUE" if opt.get("invfull") else "FALSE",
                                                  split=opt.get("split", 0), cuts=opt.get("cuts", "{1, 3}"),
                                                  shape=opt.get("shape", 0), shapes="{%s}" % ", ".join('"%s"' % x for x in opt.get("shapes", [])),
                                                  onlyshaped="TRUE" if opt.get("onlyshaped") else "FALSE", tail="TRUE" if opt.get("tail") else "FALSE",
                                                  pl=opt.get("pl", 0), plset=opt.get("plset", "PlFew"), plother="TRUE" if opt.get("plother") else "FALSE",
                                                  onlypl="TRUE" if opt.get("onlypl") else "FALSE",
                                                  aux=opt.get("aux", 0), onlyaux="TRUE" if opt.get("onlyaux") else "FALSE",
                                                  renick=opt.get("renick", 0), onlyrenick="TRUE" if opt.get("onlyrenick") else "FALSE"),
                       workers=1, timeout=900, name="EmitMUC_%d" % i, heap="3g")

    with ThreadPoolExecutor(max_workers=4) as ex:
        results = list(ex.map(lambda a: emit(a[0], *a[1]), enumerate(sets)))
    for i, st in enumerate(sets):
        rooms, maxlen, maxcalls, noise = st[:4]
        opt = st[4] if len(st) > 4 else {}
        r = results[i]
        f = os.path.join(r.dir, "scripts.ndjson")
        if r.rc != 0 or not os.path.exists(f):
            raise verif.Undecided("EmitMUC failed:\n" + r.out[-2000:])
        n = 0
        for line in open(f):
            if line.strip() and line not in seen:
                seen.add(line)
                out.append(json.loads(line))
                n += 1
        ctx.log("TLC emitted %d new scripts (rooms %s, length <= %d, calls <= %d, noise <= %d%s%s%s) in %.1fs" % (
            n, rooms, maxlen, maxcalls, noise, " from the full invitation alphabet" if opt.get("invfull") else "",
            ", <= %d stanza delivered in two pieces" % opt["split"] if opt.get("split") else "",
            (", one error reply of %d other shapes, each also followed by a second exchange" % len(opt["shapes"]) if opt.get("shape") else "")
            + (", %d presence (own%s) with a muc#user payload out of %s%s" % (opt["pl"], " or another occupant's" if opt.get("plother") else "", opt.get("plset", "PlFew"),
                                                                           ", each also followed by a second exchange" if opt.get("tail") else "") if opt.get("pl") else "")
            + (", %d Subject / Invite call while nothing or a Leave is pending" % opt["aux"] if opt.get("aux") else "")
            + (", %d join with the Nick option on a channel that has an occupant address, then also presences of the address asked for" % opt["renick"] if opt.get("renick") else ""), r.wall))
        os.remove(f)
    return out


def S(ty, room="r1", nick="me", call="-", n=0, lay=None, pw=False, cut=0, shape=None, codes=None, item=None):
    """the room sends a stanza; cut != 0: only its first piece for now (1 = up to the end of the start
    tag, 2 = half of the bytes, 3 = all but the end tag), the remainder with the next R(); codes / item:
    the status codes and the item variant of a presence's muc#user payload (default: the plain one)"""
    if lay is None:
        lay = ["u"] if ty == "inv" else []
    st = {"ty": ty, "room": room, "nick": nick if ty != "inv" else "-", "call": call, "n": n, "lay": lay, "pw": pw,
          "shape": (shape or "wf") if ty == "er" else "-"}
    if codes is not None:
        st["codes"] = list(codes)
    if item is not None:
        st["item"] = item
    return {"op": "send", "room": "-", "call": "-", "cut": cut, "st": st}


def R():
    return {"op": "rest", "room": "-", "call": "-"}


def C(op, room="r1"):
    return {"op": op, "room": room, "call": "-"}


def X(call):
    return {"op": "cancel", "room": "-", "call": call}


def muc_explore_scenarios(tier):
    """scripts for the scheduler-driven part: the narrow windows need the yield points"""
    s = [
        [C("join"), S("av"), C("leave"), S("un")],                       # depart signal vs. Leave's select
        [C("join"), X("c1"), S("av")],                                   # cancellation vs. the hand-off
        [C("join"), S("av"), C("leave"), S("un"), C("rejoin"), S("av")],  # join again after leaving
        [C("join"), S("er", call="c1"), C("rejoin"), S("av")],            # stale hand-off entry
        [C("join"), S("av", nick="ot"), S("av"), C("leave"), X("c2"), S("un")],
        [C("join"), S("av"), C("leave"), S("er", call="c2")],
        [C("join", "r1"), C("join", "r2"), S("av", "r2"), S("av", "r1")],
        [C("join"), S("av"), S("un"), C("rejoin"), S("av"), C("leave"), S("un")],   # kicked, back, leave
        # Subject / Invite while the Leave is pending (interleaved with its goroutines); the room answers with a payload that
        # announces a new nickname
        [C("join"), S("av"), C("leave"), C("subject"), S("un")],
        [C("join"), S("av"), C("leave"), S("un", codes=[303, 110], item="nick"), C("invite")],
        # two channels in one room under two nicknames, admitted in the other order
        [C("join", "r1"), C("join", "r1b"), S("av", nick="me2"), S("av"), C("leave", "r1b"), S("un", nick="me2")],
        # join with the Nick option, refused by the room; then the occupant (still under its old nickname) is removed
        [C("join"), S("av"), C("renick"), S("er", call="c2"), S("un")],
    ] + muc_leave_cancel_scenarios(tier) + muc_shape_scenarios(tier)
    if tier == "thorough":
        s += [
            [C("join"), S("av"), C("rejoin"), S("un"), S("av")],
            [C("join", "r1"), S("av", "r1"), C("join", "r2"), C("leave", "r1"), S("un", "r1"), S("er", "r2", call="c2")],
            [C("join"), X("c1"), C("rejoin"), S("av"), S("av")],
            [C("join"), S("av"), C("leave"), X("c2"), S("un"), C("rejoin"), S("av"), C("leave"), S("un")],
        ]
    # (the window "Leave parked before its select, the answer processed, then the other call" lies deep in the depth-first order)
    return [dict({"mode": "explore", "steps": x}, **({"maxruns": 200} if tier == "quick" and any(st["op"] == "invite" for st in x) else {})) for x in s]


def muc_leave_cancel_scenarios(tier):
    """cancellation of the leave call's context at every point of the leave path: before / after the
    room's answer (unavailable self-presence or error reply) was sent, and - the answer delivered in
    two pieces - while the serve loop / the call's sender goroutine is in the middle of reading it
    (cut 1: the start tag only - the reply is handed over, its reader waits for the payload; 2: in the
    middle of the payload; 3: everything but the end tag - the error is decoded, the serve loop waits
    for the end of the stanza).  The schedules interleave the cancellation with the yield points."""
    pre = [C("join"), S("av"), C("leave")]
    s = [
        pre + [S("er", call="c2", cut=1), X("c2"), R()],
        pre + [S("er", call="c2", cut=2), X("c2"), R()],
        pre + [S("er", call="c2"), X("c2")],
        pre + [S("un", cut=2), X("c2"), R()],
    ]
    if tier == "thorough":
        s += [
            pre + [S("er", call="c2", cut=3), X("c2"), R()],
            pre + [X("c2"), S("er", call="c2", cut=1), R()],
            pre + [S("un", cut=1), X("c2"), R()],
            pre + [S("er", call="c2", cut=1), X("c2"), R(), C("rejoin"), S("av")],
            [C("join"), S("er", call="c1", cut=1), X("c1"), R()],
        ]
    return s


def muc_shape_scenarios(tier):
    """a join / a leave answered by an error presence that carries no decodable error, then a second
    exchange on the same session which must succeed (the reply was released, the serve loop goes on)"""
    s = [
        [C("join"), S("er", call="c1", shape="bare"), C("rejoin"), S("av")],
        [C("join"), S("av"), C("leave"), S("er", call="c2", shape="badby"), C("rejoin"), S("av")],
    ]
    if tier == "thorough":
        s += [
            [C("join"), S("er", call="c1", shape="noerr", cut=1), X("c1"), R(), C("rejoin"), S("av")],
            [C("join"), S("av"), C("leave"), S("er", call="c2", shape="empty"), C("leave"), S("un")],
            [C("join"), S("av"), C("leave"), S("er", call="c2", shape="post", cut=3), R(), C("rejoin"), S("av")],
        ]
    return s


# ----------------------------------------------------------------------------- MUC: driver
def muc_hooks_present():
    return os.path.exists(os.path.join(verif.REPO, "muc", "verif_on.go"))


def muc_run(ctx, scen, name, maxpre=1, maxruns=0, shards=None):
    hooks = muc_hooks_present()
    b = ctx.go_build("muc", tags="verif muchooks" if hooks else "verif")
    shards = shards or max(1, min(8, verif.NCPU // 2, len(scen)))
    sf = ctx.path(name + "-scen.ndjson")
    with open(sf, "w") as f:
        for s in scen:
            f.write(json.dumps(s) + "\n")
    procs = []
    for i in range(shards):
        tr = ctx.path("%s-trace-%d.ndjson" % (name, i))
        env = dict(verif.GOENV, MUC_MAXPRE=str(maxpre), MUC_MAXRUNS=str(maxruns), MUC_SHARD="%d/%d" % (i, shards), GOMAXPROCS="2")
        procs.append((tr, subprocess.Popen([b, "run", sf, tr], env=env, cwd=ctx.scratch, stdout=subprocess.PIPE, stderr=subprocess.STDOUT, text=True)))
    summ = {"traces": 0, "events": 0, "evaluations": 0, "distinct": 0, "samples": [], "stuck": 0, "cut": 0, "hooks": hooks}
    files = []
    for i, (tr, p) in enumerate(procs):
        try:
            out, _ = p.communicate(timeout=3000)
        except subprocess.TimeoutExpired:
            p.kill()
            raise verif.Undecided("muc driver timed out")
        if p.returncode != 0 or "SUMMARY " not in out:
            # a crash of the DRIVER (never a verdict): retry the shard once, then give up undecided
            ctx.log("muc driver shard %d failed (exit %s), retrying once: %s" % (i, p.returncode, out[-600:]))
            env = dict(verif.GOENV, MUC_MAXPRE=str(maxpre), MUC_MAXRUNS=str(maxruns), MUC_SHARD="%d/%d" % (i, shards), GOMAXPROCS="2")
            q = subprocess.run([b, "run", sf, tr], env=env, cwd=ctx.scratch, stdout=subprocess.PIPE, stderr=subprocess.STDOUT, text=True, timeout=3000)
            out = q.stdout
            if q.returncode != 0 or "SUMMARY " not in out:
                raise verif.Undecided("muc driver failed (exit %s):\n%s" % (q.returncode, out[-3000:]))
        s = json.loads(out[out.rindex("SUMMARY ") + 8:])
        for k in ("traces", "events", "evaluations", "distinct"):
            summ[k] += s[k]
        summ["stuck"] += s.get("extra", {}).get("stuck", 0)
        summ["cut"] += s.get("extra", {}).get("cut", 0)
        summ["samples"] += s["samples"][:1]
        files.append(tr)
    return files, summ


def merge_traces(ctx, files, name):
    """concatenate shard traces, renumbering t and end; returns (path, meta dict)"""
    dst = ctx.path(name)
    meta = {}
    line = 0
    t = 0
    with open(dst, "w") as out:
        for f in files:
            m = {x["t"]: x["meta"] for x in verif.read_ndjson(f + ".meta")}
            base = line
            for e in verif.read_ndjson(f):
                if e["ev"] == "reset":
                    t += 1
                    meta[t] = m[e["t"]]
                    e["t"] = t
                    e["end"] = e["end"] + base
                out.write(json.dumps(e) + "\n")
                line += 1
    return dst, meta


TR_CFG = '''CONSTANTS
  Rooms = {"r1", "r2", "r1b"}
  Foreign = "rx"
  CallIds <- Ids6
  MaxEnv = 0
  MaxFlight = 0
  Alphabet = {}
  Splits = FALSE
  Aux = {}
  Dev = {}
SPECIFICATION TSpec
CONSTRAINT HW
POSTCONDITION Accepted
CHECK_DEADLOCK FALSE
'''


def tlc_validate(ctx, module, cfg, trace, name=None):
    r = ctx.tlc(module, cfg, files={"trace.ndjson": trace}, workers=1, timeout=2400, xss=True, deque=True, name=name)
    rejected = {}
    body = r.printed("REJECTED")
    if body:
        for m in re.finditer(r"<<(\d+),\s*(\d+)>>", body[-1]):
            rejected[int(m.group(1))] = int(m.group(2))
    if not rejected and (r.rc != 0 or r.errors):
        raise verif.Undecided("trace validation failed to run:\n" + r.out[-6000:])
    return rejected, r


def muc_validate(ctx, trace, name=None, c06only=False):
    cfg = TR_CFG.replace("Dev = {}", 'Dev = {"C06Only"}') if c06only else TR_CFG
    return tlc_validate(ctx, "TrMUC", cfg, trace, name=name)


def muc_explain(tr, hw):
    """a short reading of the rejected event of a MUC trace (tr: events with _line), for the
    VIOLATION text: (clause, text). The verdict itself is TLC's."""
    calls, cancelled, wire, done = {}, set(), set(), set()
    ev = None
    for e in tr:
        if e["_line"] == hw:
            ev = e
            break
        k = e.get("ev")
        if k == "call":
            calls[e["c"]] = (e["kind"], e["r"])
        elif k == "cancel":
            cancelled.add(e["c"])
        elif k == "wire":
            wire.add(e["c"])
        elif k == "ret":
            done.add(e["c"])
    if ev is None:
        return "C18", "trace ended early"
    k = ev.get("ev")
    pend = [c for c in calls if c not in done]
    if k == "obs":
        # the last presence of the occupant address that has been processed (for the text only)
        sent = [e for e in tr if e["_line"] < hw and e.get("ev") == "send"]
        nh = len([e for e in tr if e["_line"] < hw and e.get("ev") == "handled"])
        own = [e["st"] for e in sent[:nh] if e["st"]["ty"] in ("av", "un") and e["st"]["room"] == room_of(ev.get("r")) and e["st"]["nick"] == nick_of(ev.get("r"))]
        last = ""
        if own:
            last = "; the last presence of the occupant address %s/%s that was processed: %s%s" % (
                room_of(ev.get("r")), nick_of(ev.get("r")), "unavailable" if own[-1]["ty"] == "un" else "available", payload_text(own[-1]) or " (plain payload)")
        return "C18_JoinedIffIn", "Channel.Joined() = %s (Me %s/%s) disagrees with the membership the room's presence implies%s" % (ev.get("j"), ev.get("addr"), ev.get("me"), last)
    if k == "ret":
        c = ev["c"]
        if c in done:
            return "C06_OneOutcome", "call %s returned twice" % c
        kind = calls.get(c, ("?", "?"))[0]
        if ev["o"] == "ok":
            return ("C18_JoinOK" if kind != "leave" else "C18_LeaveReturns"), "%s %s returned success although the room never sent the %s self-presence for its occupant address%s while it was pending" % (
                kind, c, "available" if kind != "leave" else "unavailable", " (the one it holds or the one it asked for)" if kind == "renick" else "")
        if ev["o"] == "err":
            return "C18_JoinErr", "%s %s returned stanza error %s which the room did not send for that request" % (kind, c, ev.get("cond"))
        if ev["o"] == "ctx":
            return "C18_CtxErr", "%s %s returned its context's error although the context had not ended" % (kind, c)
        if ev["o"] == "other":
            return "C18_JoinErr", "%s %s returned an error that is neither the room's stanza error nor its context's (%s) although the room sent no malformed error reply to that request" % (kind, c, ev.get("text"))
        return "C06_NoPanic" if ev["o"] == "panic" else "C18_Outcome", "%s %s ended with %s: %s" % (kind, c, ev["o"], ev.get("text"))
    if k == "quiet":
        sent = [e for e in tr if e["_line"] < hw and e.get("ev") == "send"]
        nh = len([e for e in tr if e["_line"] < hw and e.get("ev") == "handled"])
        callstall = [c for c in pend if c in cancelled or c not in wire or calls[c][0] in AUX]
        if nh < len(sent) and not callstall:
            # a whole stanza is unprocessed and nothing can move: the serve loop is stopped
            prev = sent[nh]["st"]
            what = "%s(%s%s)" % (prev["ty"], prev["room"], (" answering %s, shape %s" % (prev["call"], prev.get("shape"))) if prev["ty"] == "er" else "/" + prev["nick"])
            rets = ["%s returned %s" % (e["c"], e["o"] if e["o"] in ("ok", "ctx") else (e.get("text") or e.get("cond") or e["o"]))
                    for e in tr if e["_line"] < hw and e.get("ev") == "ret"]
            return "C06_NoStall", "the serve loop is stopped: at quiescence the stanza %s which the room sent completely is still unprocessed (%d of %d stanzas processed%s%s) - a reply handed to a caller was never released, or a handler never returned" % (
                what, nh, len(sent), "; " + "; ".join(rets) if rets else "", "; still waiting: " + ", ".join(pend) if pend else "")
        parts = []
        for c in pend:
            kind = calls[c][0]
            if kind in AUX:
                parts.append("%s call %s on the channel blocked although it waits for nothing the room sends (pending on the channel: %s)" % (
                    kind, c, ", ".join("%s %s" % (calls[d][0], d) for d in pend if d != c and calls[d][1] == calls[c][1]) or "nothing"))
            elif c in cancelled:
                parts.append("%s %s still blocked although its context was cancelled" % (kind, c))
            elif c not in wire:
                parts.append("%s %s blocked with a live context and its request never sent" % (kind, c))
            else:
                wl = min([e["_line"] for e in tr if e.get("ev") == "wire" and e.get("c") == c] + [hw])
                ans = [e["st"] for e in tr if wl < e["_line"] < hw and e.get("ev") == "send" and e["st"]["room"] == room_of(calls[c][1])
                       and (e["st"]["ty"] == "er" and e["st"]["call"] == c or e["st"]["nick"] == nick_of(calls[c][1]) and e["st"]["ty"] == ("un" if kind == "leave" else "av"))]
                if ans:
                    parts.append("%s %s still blocked although the room's answer (sent after the request was on the wire: %s%s) has been processed" % (
                        kind, c, {"un": "unavailable presence of the occupant address", "av": "self-presence", "er": "error reply"}[ans[-1]["ty"]], payload_text(ans[-1])))
                else:
                    parts.append("%s %s waiting for the room's answer" % (kind, c))
        live = [c for c in pend if c not in cancelled]
        if any(calls[c][0] in AUX for c in pend):
            clause = "C18_AuxReturns"
        elif any(c not in wire for c in live):
            clause = "C18_RequestSent"
        elif live:
            clause = "C18_LeaveReturns" if any(calls[c][0] == "leave" for c in live) else "C18_JoinCompletes"
        else:
            clause = "C06_CallReturns"
        return clause, "stall at quiescence: " + "; ".join(parts)
    if k == "handled":
        if ev.get("ty") == "inv":
            sent = [e for e in tr if e["_line"] < hw and e.get("ev") == "send"]
            nh = len([e for e in tr if e["_line"] < hw and e.get("ev") == "handled"])
            st = sent[nh]["st"] if nh < len(sent) else {}
            i = max([0] + [j + 1 for j, e in enumerate(tr) if e["_line"] < hw and e.get("ev") == "handled"])
            cbs = ["%s(ns=%s k=%s pw=%s room=%s)" % (e.get("kind"), e.get("ns"), e.get("k"), e.get("pw"), e.get("room"))
                   for e in tr[i:] if e["_line"] < hw and e.get("ev") == "invite_cb"]
            # which of the two clauses (a reading of TLC's rejection, for the label only)
            lay, pw = st.get("lay", []), "ok" if st.get("pw") else "none"
            want = sorted("med(ns=user k=%d pw=%s room=-)" % (j, pw) for j in range(st.get("n", 0))) if "u" in lay else []
            med_ok = sorted(c for c in cbs if c.startswith("med(")) == want
            return ("C18_DirectInviteExactlyOnce" if med_ok else "C18_InviteExactlyOnce"), "invitation message with children %s (b body, t thread, u muc#user payload with %d <invite/>%s, c jabber:x:conference element): the application's callbacks were not invoked exactly once per %s invitation with its fields; invoked: %s" % (
                "".join(lay) or "?", st.get("n", 0), " and the password" if st.get("pw") else "", "direct" if med_ok else "mediated", ", ".join(cbs) or "none")
        return "C18_ForeignIgnored", "callback for a presence of a room that was never joined, or stanzas processed out of order: %s" % json.dumps(ev)
    if k == "stuck":
        return "C06_NoStall", "permanent stall: %s" % ev.get("blocked")
    if k == "panic":
        return "C06_NoPanic", "panic in %s: %s" % (ev.get("who"), ev.get("text"))
    if k == "end":
        return "C06_NoStall", "run ended with calls pending or stanzas unprocessed (the serve loop ended or stopped reading: %s)" % (
            "; ".join(e.get("err", "") for e in tr if e.get("ev") == "serve_ret") or "no return of Serve recorded")
    return "C18", "event %s not allowed here" % json.dumps(ev)


AUX = ("subject", "invite")


def room_of(ch):
    """a channel id names an occupant address: r1b is a second channel in room r1 under the nickname me2"""
    return "r1" if ch == "r1b" else ch


def nick_of(ch):
    return "me2" if ch == "r1b" else "me"


C18_ONLY = ("C18_JoinedIffIn", "C18_InviteExactlyOnce", "C18_DirectInviteExactlyOnce", "C18_ForeignIgnored")


C06_LABEL = {"C18_RequestSent": "C06_CallReturns (request never sent)", "C18_AuxReturns": "C06_CallReturns (Subject / Invite)", "C18_LeaveReturns": "C06_CallReturns (Leave)",
             "C18_JoinCompletes": "C06_CallReturns (Join)", "C18_JoinOK": "C06_OwnReplyOnly (Join)", "C18_JoinErr": "C06_OwnReplyOnly (error)",
             "C18_CtxErr": "C06_OutcomeConsistent"}


def muc_report(ctx, tr_path, meta, rej, only=None, skip=(), limit=25, relabel=None):
    """turn TLC's rejections into violations (grouped by clause: at most `limit` replays)"""
    if not rej:
        return {}
    trs = verif.split_traces(verif.read_ndjson(tr_path))
    per = {}
    for t, hw in sorted(rej.items(), key=lambda x: (len(meta[x[0]]["scenario"]["steps"]), x[0])):   # shortest witnesses first
        clause, text = muc_explain(trs[t], hw)
        clause = (relabel or {}).get(clause, clause)
        if clause in skip or (only is not None and clause not in only):
            per.setdefault("(not this property: %s)" % clause, []).append(t)
            continue
        per.setdefault(clause, []).append(t)
        if len(per[clause]) > 3 or sum(len(v) for v in per.values()) > limit:
            continue
        ev = [e for e in trs[t] if e["_line"] == hw]
        sc = dict(meta[t]["scenario"])
        if sc.get("mode") == "explore":
            sc["choices"], sc["fixed"] = meta[t]["choices"], True
        ctx.violation("%s%s: %s | script %s" % ("muc " if relabel else "", clause, text, script_text(sc)),
                      {"family": "muc", "scenario": sc, "clause": clause, "trace": trs[t], "rejected_line": hw,
                       "rejected_event": ev[0] if ev else None})
    return {k: len(v) for k, v in per.items()}


def def_codes(st):
    return [110, 210] if st["ty"] == "av" and st["nick"] == "ot" else [110] if st["ty"] in ("av", "un") else []


def payload_text(st):
    """the content of a presence's muc#user payload when it is not the plain one"""
    if st.get("ty") not in ("av", "un") or st.get("codes") is None:
        return ""
    if st["codes"] == def_codes(st) and st.get("item", "-") in ("-", ""):
        return ""
    return " status=[%s]%s" % (",".join(str(c) for c in st["codes"]), " item=" + st["item"] if st.get("item", "-") not in ("-", "") else "")


def script_text(sc):
    out = []
    for s in sc["steps"]:
        if s["op"] == "send":
            st = s["st"]
            inv = ""
            if st["ty"] == "inv":
                inv = " %s n=%d%s" % ("".join(st.get("lay") or ["u"]), st["n"], " pw" if st.get("pw") else "")
            out.append("%s(%s%s%s%s%s%s)" % (st["ty"], st["room"], "/" + st["nick"] if st["nick"] != "-" else "", (" " + st["call"]) if st["call"] != "-" else inv,
                                             " " + st["shape"] if st.get("shape", "-") not in ("-", "wf") else "", payload_text(st), " cut=%d" % s["cut"] if s.get("cut") else ""))
        elif s["op"] == "rest":
            out.append("rest")
        elif s["op"] == "cancel":
            out.append("cancel(%s)" % s["call"])
        else:
            out.append("%s(%s)" % (s["op"], s["room"]))
    return " ".join(out) + (" [schedule %s]" % sc["choices"] if sc.get("fixed") else "")


def muc_selftest(ctx, trace):
    """binding self-test: corrupt recorded fields of a good trace and require rejection"""
    trs = verif.split_traces(verif.read_ndjson(trace))
    good = [t for t, tr in trs.items() if any(e.get("ev") == "ret" and e.get("o") == "ok" for e in tr)
            and any(e.get("ev") == "obs" and e.get("j") for e in tr)]
    if not good:
        good = [t for t, tr in trs.items() if any(e.get("ev") == "ret" and e.get("o") == "ok" for e in tr)]
    if not good:
        raise verif.Undecided("binding self-test: no trace with a successful call")
    base = [{k: v for k, v in e.items() if k != "_line"} for e in trs[good[0]]]
    muts = []
    i = [k for k, e in enumerate(base) if e.get("ev") == "ret" and e.get("o") == "ok"][0]
    m = [dict(e) for e in base]
    m[i]["o"] = "ctx"
    muts.append(("success flipped to context error without cancellation", m))
    m = [dict(e) for e in base]
    m[i]["o"], m[i]["cond"] = "err", "conflict"
    muts.append(("success flipped to a stanza error the room never sent", m))
    m = [dict(e) for e in base]
    j = [k for k, e in enumerate(m) if e.get("ev") == "send" and e["st"]["ty"] == "av" and e["st"]["nick"] == "me" and k < i]
    if j:
        m[j[-1]] = dict(m[j[-1]], st=dict(m[j[-1]]["st"], nick="ot"))
        h = [k for k, e in enumerate(m) if e.get("ev") == "handled" and e.get("ty") == "av" and e.get("nick") == "me" and k > j[-1]]
        if h:
            m[h[0]] = dict(m[h[0]], nick="ot")
        muts.append(("the self-presence replaced by another occupant's presence", m))
    o = [k for k, e in enumerate(base) if e.get("ev") == "obs" and e.get("j")]
    if o:
        m = [dict(e) for e in base]
        m[o[0]]["j"] = False
        muts.append(("a Joined() sample flipped", m))
    m = [dict(e) for e in base]
    m.insert(i + 1, dict(m[i]))
    muts.append(("a second return of the same call", m))
    # invitations: a trace with at least two callbacks for one message (when the run has one)
    inv = [t for t, tr in trs.items() if len([e for e in tr if e.get("ev") == "invite_cb"]) >= 2 and not any(e.get("ev") == "stuck" for e in tr)]
    bases = [("unchanged", [dict(e) for e in base])]
    if inv:
        ib = [{k: v for k, v in e.items() if k != "_line"} for e in trs[inv[0]]]
        bases.append(("unchanged (invitations)", [dict(e) for e in ib]))
        c = [k for k, e in enumerate(ib) if e.get("ev") == "invite_cb"]
        m = [dict(e) for e in ib]
        del m[c[0]]
        muts.append(("an invitation callback removed", m))
        m = [dict(e) for e in ib]
        m.insert(c[0], dict(m[c[0]]))
        muts.append(("an invitation delivered twice", m))
        m = [dict(e) for e in ib]
        m[c[1]]["k"] = m[c[0]]["k"]
        muts.append(("two callbacks with the same <invite/>, one <invite/> missing", m))
        m = [dict(e) for e in ib]
        m[c[0]]["pw"] = "none" if m[c[0]]["pw"] == "ok" else "ok"
        muts.append(("the password of an invitation not carried", m))
        j = [k for k, e in enumerate(ib) if e.get("ev") == "send" and e["st"]["ty"] == "inv"]
        if j:
            m = [dict(e) for e in ib]
            m[j[0]] = dict(m[j[0]], st=dict(m[j[0]]["st"], lay=["b"] + [x for x in m[j[0]]["st"]["lay"] if x != "b"]))
            bases.append(("unchanged but for the position of the payload among the children", m))
    # error replies: a trace in which a malformed error reply made a call return an error that is no stanza
    # error, followed by further stanzas (when the run has one)
    def mal(tr):
        sd = [k for k, e in enumerate(tr) if e.get("ev") == "send" and e["st"].get("shape") in ER_SHAPES_MAL and not e.get("part")]
        return (len(sd) == 1 and any(e.get("ev") == "ret" and e.get("o") == "other" and e.get("c") == tr[sd[0]]["st"]["call"] for e in tr[sd[0]:])
                and any(e.get("ev") == "send" for e in tr[sd[0] + 1:]) and not any(e.get("ev") in ("stuck", "panic", "rest") for e in tr))
    sh = [t for t, tr in trs.items() if mal(tr)]
    if sh:
        sb = [{k: v for k, v in e.items() if k != "_line"} for e in trs[sh[0]]]
        bases.append(("unchanged (malformed error reply)", [dict(e) for e in sb]))
        j = [k for k, e in enumerate(sb) if e.get("ev") == "send" and e["st"].get("shape") in ER_SHAPES_MAL][0]
        c = sb[j]["st"]["call"]
        m = [dict(e) for e in sb]
        m[j] = dict(m[j], st=dict(m[j]["st"], shape="wf"))
        muts.append(("a decoding error returned although the room's error reply was well-formed", m))
        m = [dict(e) for e in sb]
        k = [k for k, e in enumerate(m) if e.get("ev") == "ret" and e.get("c") == c][0]
        m[k] = dict(m[k], o="ok")
        muts.append(("success returned for a request the room answered with a (malformed) error", m))
        h = [k for k, e in enumerate(sb) if k > j and e.get("ev") == "handled" and e.get("ty") == "er" and e.get("call") == c]
        if h:
            muts.append(("the malformed error reply is never released (no stanza processed from there on)",
                         [dict(e) for k, e in enumerate(sb) if not (k >= h[0] and e.get("ev") == "handled")]))
    # payload content: a trace in which the unavailable presence of the occupant address announces a new nickname (303)
    # and Joined() is then sampled as false (when the run has one)
    def newnick(tr):
        sd = [k for k, e in enumerate(tr) if e.get("ev") == "send" and e["st"]["ty"] == "un" and e["st"]["nick"] == "me" and 303 in e["st"].get("codes", [])]
        return (len(sd) == 1 and any(e.get("ev") == "obs" and e.get("j") is False for e in tr[sd[0]:])
                and any(e.get("ev") == "obs" and e.get("j") for e in tr[:sd[0]]) and not any(e.get("ev") in ("stuck", "panic", "rest") for e in tr))
    nn = [t for t, tr in trs.items() if newnick(tr)]
    if nn:
        nb_ = [{k: v for k, v in e.items() if k != "_line"} for e in trs[nn[0]]]
        bases.append(("unchanged (unavailable presence with status 303)", [dict(e) for e in nb_]))
        j = [k for k, e in enumerate(nb_) if e.get("ev") == "send" and e["st"]["ty"] == "un" and 303 in e["st"].get("codes", [])][0]
        o = [k for k, e in enumerate(nb_) if k > j and e.get("ev") == "obs" and e.get("j") is False][0]
        m = [dict(e) for e in nb_]
        m[o] = dict(m[o], j=True)
        muts.append(("still reported as joined after the occupant's unavailable presence (status 303) was processed", m))
        m = [dict(e) for e in nb_]
        m[j] = dict(m[j], st=dict(m[j]["st"], codes=[110], item="-"))
        bases.append(("unchanged but for the content of the payload (303 / nick -> plain)", m))
    p = ctx.path("muc-selftest.ndjson")
    line = 0
    with open(p, "w") as f:
        for k, (_, mm) in enumerate(bases + muts):
            mm[0]["t"] = k + 1
            mm[0]["end"] = line + len(mm) + 1
            for e in mm:
                f.write(json.dumps(e) + "\n")
            line += len(mm)
    rej, _ = muc_validate(ctx, p, name="TrMUC_selftest")
    nb = len(bases)
    bad = [bases[k - 1][0] for k in range(1, nb + 1) if k in rej]
    if bad:
        raise verif.Undecided("binding self-test: good trace rejected: %s" % bad)
    missed = [muts[k - nb - 1][0] for k in range(nb + 1, nb + 1 + len(muts)) if k not in rej]
    if missed:
        raise verif.Undecided("binding self-test: corrupted traces ACCEPTED: %s" % missed)
    return len(muts)


# ----------------------------------------------------------------------------- C06, MUC part
def run_c06_muc_part(ctx):
    """MUC part of C06: one outcome per Join/Leave call, no panic, no call or serve loop left
    blocked for good, in scheduler-driven interleavings of calls, the room's answers and
    cancellation.  Violations are reported under the calling check's property (C06); the pure
    membership / callback clauses of C18 are left to C18."""
    quick = ctx.tier == "quick"
    mcr = mcs = None
    if ctx.replay:
        case = json.load(open(ctx.replay))["case"]
        if case.get("family") != "muc":
            return {}
        scen = [case["scenario"]]
        files, summ = muc_run(ctx, scen, "c06muc", shards=1)
    else:
        # design check of the hand-over of an error reply (session -> sender goroutine -> call), the room
        # delivering stanzas whole or in two pieces; the deviation "error offered without watching the
        # context" must wedge the serve loop
        # ... and of the shapes of an error reply (well-formed / malformed): whatever stands inside, the reply
        # is released; the deviation "decoder returns on its error path without closing the reply" must wedge it too
        (mcr, mcs), _ = muc_design_runs(ctx, [("MCMUC_split", dict(rooms='{"r1"}', ids="Ids3", maxenv=6 if quick else 7, alpha="AlphaSplit", splits="TRUE")),
                                              shapes_spec(quick)],
                                        ["ErrHandoverBlocks", "ErrReplyLeaked"])
        base = muc_explore_scenarios(ctx.tier)
        lc = muc_leave_cancel_scenarios(ctx.tier)
        sh = muc_shape_scenarios(ctx.tier)
        scen = [x for x in base if x["steps"] not in lc and x["steps"] not in sh]
        if quick:
            scen = scen[:6]
        scen += [{"mode": "explore", "steps": x} for x in lc + sh] + [{"mode": "seq", "steps": x} for x in lc]
        # protocol level: every script up to the bound, also with one stanza delivered in two pieces, and with one
        # error reply of every other shape (each such script also continued by a second exchange that must succeed)
        seq = muc_emit(ctx, [('{"r1"}', 4 if quick else 5, 3, 0), ('{"r1"}', 5 if quick else 6, 3, 0, {"split": 1, "cuts": "{1, 2, 3}" if quick else "{1, 3}"}),
                             shaped(4 if quick else 5)])
        scen = scen + seq
        files, summ = muc_run(ctx, scen, "c06muc", maxpre=1, maxruns=40 if quick else 400)
    tr, meta = merge_traces(ctx, files, "c06muc-trace.ndjson")
    rej, r = muc_validate(ctx, tr, name="TrMUC_c06", c06only=True)
    per = muc_report(ctx, tr, meta, rej, skip=C18_ONLY, relabel=C06_LABEL)
    ctx.log("C06/muc: %d schedules (%d distinct traces, %d events), hooks %s; TLC validated in %.1fs: %d rejected %s" % (
        summ["evaluations"], summ["traces"], summ["events"], "on" if summ["hooks"] else "OFF (tree without yield points: windows not forced)",
        r.wall, len(rej), per or ""))
    return {"muc_split_design_states": mcr.distinct if mcr else 0, "muc_shapes_design_states": mcs.distinct if mcs else 0,
            "muc_error_reply_shape_scripts": len([x for x in scen if any((st.get("st") or {}).get("shape", "-") not in ("-", "wf") for st in x["steps"])]),
            "muc_schedules_run": summ["evaluations"], "muc_traces_validated": summ["traces"], "muc_trace_events": summ["events"],
            "muc_trace_states": r.distinct, "muc_rejected": len(rej), "muc_hooks": summ["hooks"], "muc_rejections_by_clause": per}


# ============================================================================= receipts (C06 part)
RC_MC = '''CONSTANTS
  Reqs = %(reqs)s
  Unknown = "zz"
  MaxEnv = %(maxenv)d
  Dev = %(dev)s
SPECIFICATION Spec
%(invs)s
CHECK_DEADLOCK FALSE
'''
RC_TR = '''CONSTANTS
  Reqs = {"m1", "m2", "m3"}
  Unknown = "zz"
  MaxEnv = 0
  Dev = {}
SPECIFICATION TSpec
CONSTRAINT HW
POSTCONDITION Accepted
CHECK_DEADLOCK FALSE
'''
RC_PROPS = ["C06_Receipts_Safe", "C06_Receipts_NoStall"]


def rc_design_check(ctx, quick):
    both = "INVARIANT C06_Receipts_Safe\nINVARIANT C06_Receipts_NoStall"
    r = ctx.model_check("MCReceipts", RC_MC % dict(reqs='{"m1", "m2"}', maxenv=6 if quick else 8, dev="{}", invs=both), RC_PROPS,
                        name="MCReceipts", timeout=900)
    for dev, invs, want in (('{"CloseOnCancel"}', "INVARIANT C06_Receipts_Safe", "C06_Receipts_Safe"),       # send on a closed channel
                            ('{"LeakOnSendError"}', "INVARIANT C06_Receipts_Safe", "C06_Receipts_Safe"),     # entry of a failed send is matched
                            ('{"RegisterAfterSend"}', "INVARIANT C06_Receipts_Safe", "C06_Receipts_Safe"),   # a receipt overtakes the registration
                            ('{"CloseOnCancel", "LeakOnSendError"}', "INVARIANT C06_Receipts_NoStall", "C06_Receipts_NoStall")):  # serve loop blocked for good
        b = ctx.tlc("MCReceipts", RC_MC % dict(reqs='{"m1", "m2"}', maxenv=5, dev=dev, invs=invs), name="MCReceipts_dev", timeout=600)
        if want not in b.violated:
            raise verif.Undecided("receipts design check is vacuous: deviation %s does not violate %s\n%s" % (dev, want, b.out[-1500:]))
    return r


def rc_scenarios(tier):
    def st(*xs):
        out = []
        for x in xs:
            op, _, i = x.partition(":")
            out.append({"op": op, "id": i})
        return out
    ex = [
        st("call:m1", "peer:m1", "cancel:m1"),                    # receipt vs. cancellation (close race)
        st("call:m1", "cancel:m1", "peer:m1"),
        st("call:m1", "call:m2", "peer:m2", "peer:m1"),
        st("call:m1", "peer:zz", "peer:m1", "peer:m1"),           # unknown id, duplicate receipt
        st("closeout", "call:m1", "peer:m1"),                     # failed send, then a receipt with that id
        st("call:m1", "peer:m1", "call:m2", "cancel:m2", "peer:m2"),
    ]
    if tier == "thorough":
        ex += [
            st("call:m1", "call:m2", "peer:m1", "cancel:m1", "cancel:m2", "peer:m2"),
            st("call:m1", "peer:m2", "call:m2", "peer:m2", "cancel:m1"),
            st("call:m1", "closeout", "call:m2", "peer:m2", "peer:m1"),
        ]
    scen = [{"mode": "explore", "steps": x} for x in ex]
    # protocol level: every well-formed script up to a length bound
    alpha = ["call:m1", "call:m2", "cancel:m1", "cancel:m2", "peer:m1", "peer:m2", "peer:zz", "closeout"]
    maxlen = 4 if tier == "quick" else 5
    seqs = [[]]
    allseq = []
    for _ in range(maxlen):
        nxt = []
        for s in seqs:
            for a in alpha:
                op, _, i = a.partition(":")
                if op == "call" and a in s:
                    continue
                if op == "cancel" and ("call:" + i not in s or a in s):
                    continue
                if op == "closeout" and a in s:
                    continue
                nxt.append(s + [a])
        allseq += nxt
        seqs = nxt
    scen += [{"mode": "seq", "steps": st(*s)} for s in allseq if any(x.startswith("call") for x in s)]
    # the handler's configuration: the same protocol-level scripts (one step shorter, and also those
    # without any call: receipts nobody waits for, repeated) against the default &receipts.Handler{}
    # without the optional Unhandled callback - what a stray receipt leaves behind (a lock, a table
    # entry) shows at the next receipt / the next send
    scen += [{"mode": "seq", "nounh": True, "steps": st(*s)} for s in allseq if len(s) < maxlen and any(x.startswith("peer") for x in s)]
    scen += [{"mode": "explore", "nounh": True, "steps": x} for x in ex[:4]]
    return scen


def rc_hooks_present():
    return os.path.exists(os.path.join(verif.REPO, "receipts", "verif_on.go"))


def rc_run(ctx, scen, maxpre, maxruns, shards=None):
    hooks = rc_hooks_present()
    b = ctx.go_build("receipts", tags="verif rcpthooks" if hooks else "verif")
    shards = shards or max(1, min(8, verif.NCPU // 2, len(scen)))
    sf = ctx.path("rc-scen.ndjson")
    with open(sf, "w") as f:
        for s in scen:
            f.write(json.dumps(s) + "\n")
    procs = []
    for i in range(shards):
        tr = ctx.path("rc-trace-%d.ndjson" % i)
        env = dict(verif.GOENV, RCPT_MAXPRE=str(maxpre), RCPT_MAXRUNS=str(maxruns), RCPT_SHARD="%d/%d" % (i, shards), GOMAXPROCS="2")
        procs.append((tr, subprocess.Popen([b, "run", sf, tr], env=env, cwd=ctx.scratch, stdout=subprocess.PIPE, stderr=subprocess.STDOUT, text=True)))
    summ = {"traces": 0, "events": 0, "evaluations": 0, "distinct": 0, "samples": [], "stuck": 0, "hooks": hooks}
    files = []
    for tr, p in procs:
        try:
            out, _ = p.communicate(timeout=3000)
        except subprocess.TimeoutExpired:
            p.kill()
            raise verif.Undecided("receipts driver timed out")
        if p.returncode != 0 or "SUMMARY " not in out:
            raise verif.Undecided("receipts driver failed (exit %s):\n%s" % (p.returncode, out[-3000:]))
        s = json.loads(out[out.rindex("SUMMARY ") + 8:])
        for k in ("traces", "events", "evaluations", "distinct"):
            summ[k] += s[k]
        summ["stuck"] += s.get("extra", {}).get("stuck", 0)
        summ["samples"] += s["samples"][:1]
        files.append(tr)
    return files, summ


def rc_explain(tr, hw):
    ev = [e for e in tr if e["_line"] == hw]
    if not ev:
        return "C06", "trace ended early"
    ev = ev[0]
    k = ev.get("ev")
    if k == "panic":
        return "C06_NoPanic", "panic in the serve goroutine's handler: %s" % ev.get("text")
    if k == "quiet":
        return "C06_NoStall", "at quiescence the serve loop is still inside HandleMessage (receipt unprocessed), or a call is still blocked although its context ended / its receipt was taken"
    if k == "stuck":
        return "C06_NoStall", "permanent stall: %s" % ev.get("blocked")
    if k == "ret":
        if ev.get("o") == "ok":
            return "C06_OwnReceiptOnly", "call %s returned success without a receipt for its id" % ev.get("i")
        return "C06_Outcome", "call %s ended with %s %s" % (ev.get("i"), ev.get("o"), ev.get("text", ""))
    if k == "handled":
        return "C06_UnclaimedToHandler", "receipt %s was neither reported unhandled exactly once nor taken for a call that was waiting for it - or it was reported unhandled / dropped although its call was waiting (message on the wire, context alive)" % ev.get("id")
    return "C06", "event %s not allowed here" % json.dumps(ev)


def rc_selftest(ctx, trace):
    trs = verif.split_traces(verif.read_ndjson(trace))
    good = [t for t, tr in trs.items() if any(e.get("ev") == "ret" and e.get("o") == "ok" for e in tr)]
    if not good:
        raise verif.Undecided("receipts binding self-test: no trace with a delivered receipt")
    base = [{k: v for k, v in e.items() if k != "_line"} for e in trs[good[0]]]
    i = [k for k, e in enumerate(base) if e.get("ev") == "ret" and e.get("o") == "ok"][0]
    muts = []
    m = [dict(e) for e in base]
    m[i]["o"] = "ctx"
    muts.append(("success flipped to context error without cancellation", m))
    m = [dict(e) for e in base]
    for k, e in enumerate(m):
        if e.get("ev") in ("peer", "handled") and e.get("id") == m[i]["i"]:
            m[k] = dict(e, id="zz")
    muts.append(("the receipt carries another id", m))
    m = [dict(e) for e in base]
    h = [k for k, e in enumerate(m) if e.get("ev") == "handled"]
    if h:
        m.insert(h[0], {"ev": "unhandled", "id": m[h[0]]["id"]})
        muts.append(("receipt both delivered and reported unhandled", m))
    # the handler configuration without an Unhandled callback: a trace with two receipts nobody waits for
    def stray2(tr):
        return (tr[0].get("unh") is False and sum(1 for e in tr if e.get("ev") == "handled" and e.get("id") == "zz") >= 2
                and not any(e.get("ev") in ("panic", "stuck") for e in tr))
    nb = [t for t, tr in trs.items() if stray2(tr)]
    if not nb:
        raise verif.Undecided("receipts binding self-test: no trace of the default handler with two stray receipts")
    nbase = [{k: v for k, v in e.items() if k != "_line"} for e in trs[nb[0]]]
    h = [k for k, e in enumerate(nbase) if e.get("ev") == "handled"]
    m = [dict(e) for e in nbase]
    del m[h[1]]
    muts.append(("default handler: the second stray receipt is never finished (serve loop wedged)", m))
    m = [dict(e) for e in nbase]
    m.insert(h[0], {"ev": "unhandled", "id": "zz"})
    muts.append(("default handler: a callback that does not exist is reported", m))
    m = [dict(e) for e in nbase]
    m[0]["unh"] = True
    muts.append(("handler with the callback drops a stray receipt silently", m))
    muts.append(("unchanged (default handler)", [dict(e) for e in nbase]))
    p = ctx.path("rc-selftest.ndjson")
    line = 0
    with open(p, "w") as f:
        for k, (_, mm) in enumerate([("unchanged", [dict(e) for e in base])] + muts):
            mm[0]["t"] = k + 1
            mm[0]["end"] = line + len(mm) + 1
            for e in mm:
                f.write(json.dumps(e) + "\n")
            line += len(mm)
    rej, _ = tlc_validate(ctx, "TrReceipts", RC_TR, p, name="TrReceipts_selftest")
    if 1 in rej or len(muts) + 1 in rej:
        raise verif.Undecided("receipts binding self-test: unchanged trace rejected")
    muts = muts[:-1]
    missed = [muts[k - 2][0] for k in range(2, 2 + len(muts)) if k not in rej]
    if missed:
        raise verif.Undecided("receipts binding self-test: corrupted traces ACCEPTED: %s" % missed)
    return len(muts)


def run_c06_receipts_part(ctx):
    """Delivery-receipts part of C06: tla/Receipts.tla design check (+ deviations), scheduler-driven
    schedules of the real receipts.Handler (SendMessageElement vs. HandleMessage vs. cancellation,
    failed sends), every trace validated against tla/TrReceipts.tla."""
    quick = ctx.tier == "quick"
    mcr = rc_design_check(ctx, quick)
    if ctx.replay:
        case = json.load(open(ctx.replay))["case"]
        if case.get("family") != "receipts":
            return {}
        files, summ = rc_run(ctx, [case["scenario"]], 1, 1, shards=1)
    else:
        files, summ = rc_run(ctx, rc_scenarios(ctx.tier), maxpre=2 if quick else 3, maxruns=150 if quick else 1500)
    tr, meta = merge_traces(ctx, files, "rc-trace.ndjson")
    rej, r = tlc_validate(ctx, "TrReceipts", RC_TR, tr, name="TrReceipts")
    per = {}
    if rej:
        trs = verif.split_traces(verif.read_ndjson(tr))
        for t, hw in sorted(rej.items(), key=lambda x: (len(meta[x[0]]["scenario"]["steps"]), x[0])):
            clause, text = rc_explain(trs[t], hw)
            per.setdefault(clause, []).append(t)
            if len(per[clause]) > 3:
                continue
            sc = dict(meta[t]["scenario"])
            if sc.get("mode") == "explore":
                sc["choices"], sc["fixed"] = meta[t]["choices"], True
            ev = [e for e in trs[t] if e["_line"] == hw]
            ctx.violation("receipts %s: %s | script %s%s" % (clause, text, " ".join("%s(%s)" % (s["op"], s["id"]) for s in sc["steps"]),
                                                              " [schedule %s]" % sc["choices"] if sc.get("fixed") else ""),
                          {"family": "receipts", "scenario": sc, "clause": clause, "trace": trs[t], "rejected_line": hw,
                           "rejected_event": ev[0] if ev else None})
    per = {k: len(v) for k, v in per.items()}
    nself = rc_selftest(ctx, tr) if not ctx.replay and not rej else 0
    ctx.log("C06/receipts: design check %d states; %d schedules (%d distinct traces, %d events), hooks %s; TLC validated in %.1fs: %d rejected %s" % (
        mcr.distinct, summ["evaluations"], summ["traces"], summ["events"], "on" if summ["hooks"] else "OFF (windows not forced)", r.wall, len(rej), per or ""))
    return {"receipts_states": mcr.distinct, "receipts_transitions": mcr.generated,
            "receipts_schedules_run": summ["evaluations"], "receipts_traces_validated": summ["traces"],
            "receipts_trace_events": summ["events"], "receipts_trace_states": r.distinct, "receipts_rejected": len(rej),
            "receipts_hooks": summ["hooks"], "receipts_rejections_by_clause": per, "receipts_selftest_mutants_rejected": nself,
            "receipts_samples": summ["samples"][:1]}
