"""C20 - the entity-capabilities hash is canonical (disco.Info.Hash / AppendHash).

Pipeline A: TLC explores tla/Caps.tla (XEP-0115 5.1 written step by step over lists in the
  order a peer sent them) from every base info value of the bounded domain through every
  re-ordering (adjacent transpositions of identities, features, forms, fields, values) and
  checks C20_PermutationInvariant, C20_MatchesDeclarative, C20_InDomain; with a named
  code-like deviation substituted for Ver the same run must FAIL (non-vacuity).
Pipeline B: TLC (EmitCaps) writes, for every base value, its class, the octets of Ver and
  every presentation; the number of presentations must equal the number of distinct states
  of the design check.
Pipeline C: harness/cmd/caps runs the real Hash / AppendHash(nil) on every presentation,
  constructed and decoded from XML, with a recording hash (pre-hash string observed
  exactly) and with every supported hash function, and compares with Ver."""
import json
import os
import shutil
import verif

MC_CFG = '''CONSTANTS
  Bases <- %(bases)s
%(over)sSPECIFICATION Spec
INVARIANT C20_InDomain
INVARIANT C20_PermutationInvariant
%(decl)sCHECK_DEADLOCK FALSE
'''
EMIT_CFG = '''CONSTANTS
  Bases <- %(bases)s
  EmitBases <- %(bases)s
INIT EInit
NEXT ENext
'''

KIND_TEXT = {
    "panic": "Hash/AppendHash panicked",
    "ver": "pre-hash string differs from the XEP-0115 5.1 construction (Caps.tla Ver)",
    "perm": "pre-hash string depends on the order of the input (same sets, other order, other string)",
    "hash-vs-append": "Hash(h) differs from AppendHash(nil, h)",
    "digest": "verification string differs from base64(H(Ver))",
    "not-base64": "AppendHash(nil, h) did not return base64 text",
}


def emit(ctx, bases):
    r = ctx.tlc("EmitCaps", EMIT_CFG % {"bases": bases}, workers=1, timeout=900, name="EmitCaps")
    if not r.ok:
        raise verif.Undecided("EmitCaps failed:\n" + r.out[-2000:])
    dst = ctx.path("caps_vectors.ndjson")
    shutil.move(os.path.join(r.dir, "caps_vectors.ndjson"), dst)
    return dst, r


def drive(ctx, vectors, name="result"):
    b = ctx.go_build("caps")
    out = ctx.path(name + ".json")
    ctx.run_driver(b, ["run", vectors, out], timeout=3000)
    res = json.load(open(out))
    if res["driver_errors"]:
        raise verif.Undecided("caps driver could not build an info value: %s" % res["driver_errors"][:3])
    return res


def report(ctx, res):
    seen = {}
    for m in res["mismatches"]:
        key = (m["kind"], m["class"], (m.get("panic") or "")[:60])
        seen[key] = seen.get(key, 0) + 1
        if seen[key] > 1 and not ctx.replay:
            continue        # one replay file per kind / class / panic site is enough
        pres = [m["pres"]] if not m.get("ref") else [m["ref"], m["pres"]]
        what = "%s: %s value, %s, %s with %s hash: want %r got %r %s| %s (%d such mismatches in this run)" % (
            KIND_TEXT.get(m["kind"], m["kind"]), m["class"], m["variant"], m["call"], m["hash"],
            m["want"][:120], m["got"][:120], ("panic: " + m["panic"] + " ") if m.get("panic") else "",
            m["xml"][:400], res["mismatch_counts"].get(m["kind"], 0))
        ctx.violation(what, {"family": "caps", "kind": m["kind"], "variant": m["variant"], "call": m["call"],
                             "hash": m["hash"], "expected": m["want"], "observed": m["got"],
                             "panic": m.get("panic", ""), "xml": m["xml"],
                             "vector": {"base": m["base"], "class": m["class"], "ver": m["ver"], "pres": pres}})


def selftest(ctx, vectors):
    """Binding self-test: (a) one octet of one expectation corrupted, (b) one value of one
    presentation of a 'free' base changed - the driver must report both."""
    strict = free = None
    with open(vectors) as f:
        for l in f:
            v = json.loads(l)
            if v["class"] == "strict" and len(v["ver"]) > 4 and not v["base"]["forms"] and strict is None:
                strict = v
            if v["class"] == "free" and free is None and len(v["pres"]) > 1 and \
                    all(fm["fields"] for fm in v["base"]["forms"]) and len(v["base"]["forms"]) == 1:
                free = v
            if strict and free:
                break
    if not strict or not free:
        raise verif.Undecided("binding self-test: no suitable vectors")
    good = dict(strict, pres=strict["pres"][:2])
    bad1 = dict(good, ver=list(good["ver"]))
    bad1["ver"][2] = bad1["ver"][2] ^ 1
    bad2 = json.loads(json.dumps(dict(free, pres=free["pres"][:2])))
    fld = bad2["pres"][1]["forms"][0]["fields"][0]
    fld["var"] = fld["var"] + [122]
    exp = [("unchanged", good, None), ("expectation corrupted", bad1, "ver"), ("presentation corrupted", bad2, "perm")]
    n = 0
    for name, v, kind in exp:
        p = ctx.path("selftest.ndjson")
        open(p, "w").write(json.dumps(v) + "\n")
        res = drive(ctx, p, "selftest")
        kinds = set(res["mismatch_counts"])
        if kind is None:
            if "ver" in kinds or "digest" in kinds:
                ctx.log("binding self-test skipped: the unchanged vector itself mismatches")
                return 0
        elif kind not in kinds:
            raise verif.Undecided("binding self-test: %s but the driver reported %s" % (name, sorted(kinds)))
        else:
            n += 1
    return n


def run(ctx):
    quick = ctx.tier == "quick"
    bases = "BasesQuick" if quick else "BasesThorough"
    mc = ctx.model_check("MCCaps", MC_CFG % {"bases": bases, "over": "", "decl": "INVARIANT C20_MatchesDeclarative\n"},
                         ["C20_PermutationInvariant", "C20_MatchesDeclarative", "C20_InDomain"], timeout=1500, name="MCCaps")
    # non-vacuity: with a code-like deviation in place of Ver the invariant must be violated
    devs = []
    for dev in ("DevFormsInGivenOrder", "DevValuesInGivenOrder"):
        r = ctx.tlc("MCCaps", MC_CFG % {"bases": "BasesQuick", "over": "  Ver <- %s\n" % dev, "decl": ""},
                    timeout=600, name="MCCaps")
        if "C20_PermutationInvariant" not in r.violated:
            raise verif.Undecided("design check is vacuous: deviation %s does not violate C20_PermutationInvariant\n%s" % (dev, r.out[-1500:]))
        devs.append(dev)
    ctx.log("non-vacuity: deviations %s each violate C20_PermutationInvariant in the model" % devs)

    if ctx.replay:
        case = json.load(open(ctx.replay))["case"]
        vectors = ctx.path("replay.ndjson")
        open(vectors, "w").write(json.dumps(case["vector"]) + "\n")
        emitted = None
    else:
        vectors, er = emit(ctx, bases)
        emitted = er.wall
    res = drive(ctx, vectors)
    ctx.log("ran %d presentations of %d base values (%d strict, %d free, %d ill), %d library calls, mismatches: %s" % (
        res["evaluations"], res["bases"], res["strict"], res["free"], res["ill"], res["library_calls"],
        res["mismatch_counts"] or "none"))
    if not ctx.replay and res["evaluations"] != mc.distinct:
        raise verif.Undecided("presentations emitted (%d) differ from the states of the design check (%d)" % (
            res["evaluations"], mc.distinct))
    report(ctx, res)
    nself = selftest(ctx, vectors) if not ctx.replay else 0
    if ctx.replay:
        return          # a replay re-judges one case; the evidence file describes full runs only
    ctx.write_evidence("model_checking", {
        "states": mc.distinct, "transitions": mc.generated,
        "traces_validated_against_impl": res["evaluations"],
        "evaluations": res["library_calls"],
        "base_values": res["bases"], "strict": res["strict"], "free": res["free"], "ill": res["ill"],
        "distinct_nontrivial": res["distinct_prehash_strings"],
        "hash_functions": res["hash_functions"],
        "mismatch_counts": res["mismatch_counts"],
        "nonvacuity_deviations_rejected_by_model": devs,
        "binding_selftest_corruptions_detected": nself,
        "exhaustive": True,
        "design_check": "MCCaps %s: every base value x every order reachable by adjacent transpositions of identities, features, forms, fields, values; invariants C20_PermutationInvariant, C20_MatchesDeclarative, C20_InDomain" % bases,
        "rule": "vectors = every presentation (TLC-enumerated) of every base value: all sets of <=3 of 5 identities, all sets of <=3 of 5 features, single forms and pairs of forms (typed / no FORM_TYPE / FORM_TYPE without value / empty / two-valued FORM_TYPE, <=2 further fields of <=2 values), a small full cross product; each run constructed and decoded from XML; strict: pre-hash octets = Ver and digest = base64(H(Ver)) for every hash function; free: same string for every presentation; all: no panic, Hash = AppendHash(nil); distinct_nontrivial = distinct observed pre-hash strings",
        "samples": (res["samples"] or [])[:2],
    }, assumptions=["strings are drawn from {a, B, a-b, Ψ, aa, empty}: octet order vs. case-insensitive / terminator-sensitive / non-ASCII order is distinguished, longer strings are not explored",
                    "identities have pairwise distinct (category, type, lang); vars are distinct within a form (the property's quantifier)",
                    "a FORM_TYPE field with two different values is ill-formed (XEP-0115 5.4): only no-panic and Hash = AppendHash(nil) are required there"])
