"""Family "iter" (growth beyond C01-C20): the library's stateful request helpers.

  iterators  tla/Iter.tla      Session.IterIQ(Element), paging.Iter, roster / blocklist / pubsub / bookmarks /
                               disco (ItemIter) / commands Fetch, history.Handler.Fetch (tracked queries)
  commands   tla/Commands.tla  commands.Command.Execute + Response.Next/Prev/Complete/Cancel, ForEach

Pipeline A: TLC design checks (safety, one liveness check under fairness, one failing run per named
deviation).  Pipelines B/C: harness/cmd/iter drives the real helpers on one really served session against a
scripted responder under the single-runner scheduler (one default schedule per scenario, depth-first
exploration for the race scenarios) and TLC validates every recorded trace against TrIter / TrCommands.

run_part(ctx) returns a coverage dict; violations are reported through ctx.violation with `what` starting
"iterators:" / "commands:"."""
import json, os, random, re, subprocess, time
from concurrent.futures import ThreadPoolExecutor
import verif

ITER_INV = ["I_ReleasedOnce", "I_ReleasedOnExit", "I_ItemsInOrder", "I_Cursor", "I_PagesAsked",
            "I_NextFalseAfterEnd", "I_NextTrueIffItem", "I_ErrMeaning"]
ITER_ACT = ["I_ErrStable", "I_CloseIdempotent"]
ITER_LIVE = ["I_ServeResumes", "I_CloseReturns"]
# deviation -> the property it must break (non-vacuity); "live" = checked with FairSpec
ITER_DEV = {
    "NoReleaseOnEarlyClose": "I_ReleasedOnExit", "NoReleaseOnErrorReply": "I_ReleasedOnExit", "ReleaseTwice": "I_ReleasedOnce",
    "CursorFirst": "I_Cursor", "CursorBefore": "I_Cursor", "CursorNone": "I_Cursor", "TurnWithoutCursor": "I_PagesAsked",
    "DupAtPageTurn": "I_ItemsInOrder", "NextAfterClose": "I_NextFalseAfterEnd", "TrueWithoutItem": "I_NextTrueIffItem",
    "SilentFailure": "I_ErrMeaning",
}
ITER_DEV_LIVE = {"CloseBlocksOnPush": "I_ServeResumes", "NoReleaseOnEarlyClose": "I_ServeResumes"}
ITER_DEV_ACT = {"ReleaseTwice": "I_CloseIdempotent", "ErrCleared": "I_ErrStable"}
CMD_INV = ["CM_ReleasedOnce", "CM_ReleasedOnExit", "CM_SidCarried", "CM_EndsOnCompletion", "CM_Outcome", "CM_Callbacks"]
CMD_DEV = {
    "StaleSid": "CM_SidCarried", "WrongNode": "CM_SidCarried", "ActionDropped": "CM_SidCarried",
    "NoReleaseOnBadReply": "CM_ReleasedOnExit", "NoReleaseOnCallbackError": "CM_ReleasedOnExit", "ReleaseTwice": "CM_ReleasedOnce",
    "ContinueAfterCompleted": "CM_EndsOnCompletion", "SwallowCallbackError": "CM_Outcome", "CallbackOnBadReply": "CM_Callbacks",
}
CMD_DEV_LIVE = {"NoReleaseOnCallbackError": "CM_ServeResumes"}


def mc_cfg(scripts, dev=(), spec="Spec", inv=(), props=(), probes=None):
    c = "CONSTANTS\n  Dev = %s\n  Scripts <- %s\n" % (verif.tla_value(set(dev)), scripts)
    if probes is not None:
        c += "  WithProbes = %s\n" % ("TRUE" if probes else "FALSE")
    c += "SPECIFICATION %s\n" % spec
    c += "".join("INVARIANT %s\n" % i for i in inv) + "".join("PROPERTY %s\n" % p for p in props)
    return c + "CHECK_DEADLOCK FALSE\n"


# JVM options for the many short TLC runs (passed through ctx.tlc's heap argument, which ends up in
# JAVA_TOOL_OPTIONS): start-up dominates them, so no C2 compiler and few GC threads
SMALL = "1g -XX:TieredStopAtLevel=1 -XX:ParallelGCThreads=2"
BIG = "4g -XX:ParallelGCThreads=4"


def design_checks(ctx):
    """Pipeline A for both modules; the jobs run side by side (each TLC run is small)."""
    quick = ctx.tier == "quick"
    jobs = {}
    live = "ScriptsTiny" if quick else "ScriptsLive"
    with ThreadPoolExecutor(max_workers=5 if quick else 8) as ex:
        jobs["iter"] = ex.submit(ctx.model_check, "MCIter", mc_cfg("ScriptsQuick" if quick else "ScriptsFull", inv=ITER_INV, props=ITER_ACT, probes=not quick),
                                 ITER_INV + ITER_ACT, name="MCIter_safe", workers=4 if quick else max(4, verif.NCPU // 2), timeout=2400, heap=BIG)
        jobs["cmd"] = ex.submit(ctx.model_check, "MCCommands", mc_cfg("ScriptsQuick" if quick else "ScriptsFull", inv=CMD_INV),
                                CMD_INV, name="MCCommands_safe", workers=3, timeout=2400, heap=BIG)
        jobs["iter_live"] = ex.submit(ctx.model_check, "MCIter", mc_cfg(live, spec="FairSpec", props=ITER_LIVE, probes=False),
                                      ITER_LIVE, name="MCIter_live", workers=2, timeout=2400, heap=SMALL if quick else BIG)
        jobs["cmd_live"] = ex.submit(ctx.model_check, "MCCommands", mc_cfg(live, spec="FairSpec", props=["CM_ServeResumes"]),
                                     ["CM_ServeResumes"], name="MCCommands_live", workers=2, timeout=2400, heap=SMALL if quick else BIG)
        devs = []
        for mod, table, inv, kind in (("MCIter", ITER_DEV, ITER_INV, "inv"), ("MCIter", ITER_DEV_ACT, ITER_ACT, "act"), ("MCIter", ITER_DEV_LIVE, ITER_LIVE, "live"),
                                      ("MCCommands", CMD_DEV, CMD_INV, "inv"), ("MCCommands", CMD_DEV_LIVE, ["CM_ServeResumes"], "live")):
            for d, prop in table.items():
                probes = False if mod == "MCIter" else None
                if kind == "inv":
                    uni = "ScriptsQuick" if d == "StaleSid" else "ScriptsTiny"      # a stale session id needs three stages
                    cfg = mc_cfg(uni, dev=[d], inv=inv, probes=probes)
                elif kind == "act":
                    cfg = mc_cfg("ScriptsTiny", dev=[d], props=inv, probes=probes)
                else:
                    cfg = mc_cfg("ScriptsTiny", dev=[d], spec="FairSpec", props=inv, probes=probes)
                devs.append((mod, d, prop, kind, ex.submit(ctx.tlc, mod, cfg, name="%s_%s_%s" % (mod, d, kind), workers=2, timeout=900, heap=SMALL)))
        res = {k: f.result() for k, f in jobs.items()}
        for mod, d, prop, kind, f in devs:
            r = f.result()
            hit = (prop in r.violated) or re.search(r"Temporal propert(y|ies) [^\n]*\b%s\b[^\n]* (was|were) violated" % prop, r.out) is not None
            if r.rc == 0 or not hit:
                raise verif.Undecided("design check %s: deviation %s is not caught by %s (vacuous property?)\n%s" % (mod, d, prop, r.out[-1500:]))
    ctx.log("design checks: %d deviations, each caught by the property it is meant for" % len(devs))
    return res, len(devs)


# ------------------------------------------------------------------------------------------ scenarios
SINGLE = ["iteriq", "iteriqel", "roster", "blocklist", "pubsub", "bookmarks"]
DECODING = ["roster", "blocklist", "bookmarks"]
MULTI = [("paging", "manual"), ("history", "push"), ("disco", "auto"), ("commands", "auto")]


def pg(kind, n=0, more=False):
    return {"kind": kind, "n": n, "more": more}


def last_pages(helper, mode, N):
    res = [(pg("ok", n), "") for n in range(N + 1)] + [(pg("error"), ""), (pg("silence"), ""), (pg("eos"), "")]
    if mode == "push":
        res += [(pg(k, n), "") for k in ("error", "silence", "eos") for n in range(1, N + 1)]
        res += [(pg("bad", n), "") for n in range(N + 1)]
        res += [(pg("ok", n, True), "") for n in range(1, N + 1)]       # names a next page nobody serves
        return res
    res += [(pg("broken", n), v) for n in range(N + 1) for v in ("syntax", "cut")]
    if helper in DECODING or helper in ("paging", "disco", "commands"):
        res += [(pg("bad", n), "") for n in range(N + 1)]
    if mode == "manual" and helper not in ("paging", "pubsub", "bookmarks"):     # a result without <pubsub><items/> is no pubsub reply
        res.append((pg("ok", 0), "empty"))
    if helper in ("paging", "disco", "commands"):
        res += [(pg("ok", n, True), "") for n in range(1, N + 1)]
    return res


def full(pages):
    return ["fetch", "drain", "err", "page", "more", "close"] * (pages + 1) + ["next", "err", "close", "item"]


FULL = full(3)
PROGS = {
    "full": FULL,
    "early1": ["fetch", "next", "item", "close", "next", "err", "close", "more", "fetch"],
    "early0": ["fetch", "close", "err", "next", "close"],
    "probes": ["fetch", "err", "item", "next", "err", "item", "drain", "err", "close", "err", "next"],
    # early Close on the second page (manual: a new fetch; auto: in the middle of the second page)
    "mid_manual": ["fetch", "drain", "more", "close", "fetch", "next", "close", "err", "next", "close"],
    "mid_auto": ["fetch", "next", "next", "next", "close", "next", "err", "close"],
}


def iter_scenarios(tier, seed):
    rnd = random.Random(seed)
    N = 2
    out = []
    for h in SINGLE:
        for p, v in last_pages(h, "manual", N):
            for prog in ("full", "early1", "early0", "probes"):
                out.append(dict(part="iter", helper=h, mode="manual", script=[p], prog=full(1) if prog == "full" else PROGS[prog], variant=v, cancel=0, explore=False, progname=prog))
    for h, mode in MULTI:
        conts = [pg("ok", n, True) for n in range(1, N + 1)]
        scripts = [([p], v) for p, v in last_pages(h, mode, N)]
        scripts += [([c, p], v) for c in conts for p, v in last_pages(h, mode, N)]
        three = [([c, d, p], v) for c in conts for d in conts for p, v in last_pages(h, mode, N)]
        if tier == "quick":
            three = rnd.sample(three, 8)
            scripts = scripts[:len(last_pages(h, mode, N))] + [x for x in scripts[len(last_pages(h, mode, N)):] if rnd.random() < 0.5]
        scripts += three
        for s, v in scripts:
            progs = ["full", "early1"] + (["mid_auto"] if mode == "auto" else ["mid_manual"]) + (["probes"] if len(s) == 1 else [])
            for prog in progs:
                out.append(dict(part="iter", helper=h, mode=mode, script=s, prog=full(len(s)) if prog == "full" else PROGS[prog], variant=v, cancel=0, explore=False, progname=prog))
    if tier == "quick":      # the single-page helpers share one code path (iterIQ + xmlstream.Iter): thin them out
        keep = [x for x in out if x["helper"] not in SINGLE or (x["progname"] == "full" and x["script"][0]["kind"] in ("bad", "broken", "error"))
                or rnd.random() < 0.3]
        out = keep
    return out


def race_scenarios(tier):
    """Scheduler-driven: early Close vs. arrival of data, cancellation vs. reply."""
    X = lambda **kw: dict(dict(part="iter", variant="", cancel=0, explore=True, progname="race"), **kw)
    s = [
        X(helper="history", mode="push", script=[pg("ok", 2)], prog=["fetch", "next", "close", "err", "next"]),
        X(helper="history", mode="push", script=[pg("ok", 1, True), pg("ok", 1)], prog=FULL, cancel=1),
        X(helper="disco", mode="auto", script=[pg("ok", 1, True), pg("ok", 1)], prog=FULL, cancel=2),
        X(helper="iteriq", mode="manual", script=[pg("ok", 2)], prog=PROGS["early1"], cancel=1),
        X(helper="paging", mode="manual", script=[pg("ok", 1, True), pg("error")], prog=FULL, cancel=2),
        dict(part="commands", mode="foreach", replies=[rp("executing", "s1", "n1"), rp("completed", "s1", "n1")],
             plan=[pl("next"), pl("next")], variant="", cancel=2, explore=True, progname="race"),
        dict(part="commands", mode="chain", replies=[rp("executing", "s1", "n1")], plan=[], variant="", cancel=1, explore=True, progname="race"),
    ]
    if tier == "thorough":
        s += [
            X(helper="history", mode="push", script=[pg("ok", 2, True), pg("error", 1)], prog=PROGS["mid_manual"], cancel=2),
            X(helper="commands", mode="auto", script=[pg("ok", 2, True), pg("broken", 1)], prog=PROGS["mid_auto"], cancel=1),
            X(helper="roster", mode="manual", script=[pg("ok", 1)], prog=PROGS["probes"], cancel=1),
        ]
    return s


def rp(status, sid, node, shape="cmd"):
    return {"shape": shape, "status": status, "sid": sid, "node": node}


def pl(act, cberr=False):
    return {"act": act, "cberr": cberr}


def cmd_scenarios(tier, seed):
    rnd = random.Random(seed + 1)
    cmds = [rp("executing", "s1", "n1"), rp("executing", "s2", "n1"), rp("executing", "s1", "n2"), rp("executing", "s1", ""),
            rp("completed", "s1", "n1"), rp("canceled", "s2", "n1"), rp("", "", "n1")]
    cont = [c for c in cmds if c["status"] == "executing" and c["node"]]
    bad = [(rp("", "", "", shape=s), v) for s, vs in (("error", [""]), ("empty", [""]), ("text", [""]), ("other", ["", "wrongns"]),
                                                     ("broken", ["syntax", "cut"]), ("silence", [""]), ("eos", [""])) for v in vs]
    lasts = [(c, "") for c in cmds] + bad
    acts = ["next", "prev", "complete", "cancel"]
    out = []
    for mode in ("chain", "foreach"):
        for r, v in lasts:
            out.append(dict(part="commands", mode=mode, replies=[r], plan=[] if mode == "chain" else [pl("next")], variant=v))
            if mode == "foreach" and r["shape"] == "cmd":
                out.append(dict(part="commands", mode=mode, replies=[r], plan=[pl("next", True)], variant=v))
        for c in (cmds if mode == "chain" else cont):
            for r, v in lasts:
                if tier == "quick" and rnd.random() < 0.5:
                    continue
                a = rnd.choice(acts)
                out.append(dict(part="commands", mode=mode, replies=[c, r], plan=[pl(a), pl(rnd.choice(acts))], variant=v))
                if mode == "foreach" and r["shape"] == "cmd":
                    out.append(dict(part="commands", mode=mode, replies=[c, r], plan=[pl(a), pl("next", True)], variant=v))
        three = [(c, d, r, v) for c in cont for d in cont for r, v in lasts]
        if tier == "quick":
            three = rnd.sample(three, 25)
        for c, d, r, v in three:
            out.append(dict(part="commands", mode=mode, replies=[c, d, r], plan=[pl(rnd.choice(acts)), pl(rnd.choice(acts)), pl("next")], variant=v))
    for x in out:
        x.update(cancel=0, explore=False, progname=x["mode"])
    return out


# ------------------------------------------------------------------------------------------ driver, validation
def explore(ctx, scen, maxpre, maxruns):
    b = ctx.go_build("iter")
    shards = max(1, min(verif.NCPU, len(scen) // 4 + 1))
    sf = ctx.path("iter-scen.ndjson")
    with open(sf, "w") as f:
        for s in scen:
            f.write(json.dumps(s) + "\n")
    procs = []
    for i in range(shards):
        ti, tc = ctx.path("iter-trace-%d.ndjson" % i), ctx.path("cmd-trace-%d.ndjson" % i)
        env = dict(verif.GOENV, ITER_MAXPRE=str(maxpre), ITER_MAXRUNS=str(maxruns), ITER_SHARD="%d/%d" % (i, shards), GOMAXPROCS="2")
        procs.append((ti, tc, subprocess.Popen([b, "run", sf, ti, tc], env=env, cwd=ctx.scratch, stdout=subprocess.PIPE, stderr=subprocess.STDOUT, text=True)))
    summ = {"traces": 0, "events": 0, "evaluations": 0, "stuck": 0, "iter_traces": 0, "commands_traces": 0, "samples": []}
    files = {"iter": [], "commands": []}
    died = []
    for ti, tc, p in procs:
        try:
            out, _ = p.communicate(timeout=2400)
        except subprocess.TimeoutExpired:
            p.kill()
            raise verif.Undecided("iter driver timed out")
        if p.returncode != 0 or "SUMMARY " not in out:
            m = re.findall(r"^SCENARIO (\d+)$", out, re.M)
            if m and ("panic:" in out or "fatal error:" in out):
                died.append((scen[int(m[-1])], out[-2500:]))     # a library goroutine the driver cannot guard died
                continue
            raise verif.Undecided("iter driver failed (exit %s):\n%s" % (p.returncode, out[-3000:]))
        s = json.loads(out[out.rindex("SUMMARY ") + 8:])
        for k in ("traces", "events", "evaluations"):
            summ[k] += s[k]
        for k in ("stuck", "iter_traces", "commands_traces"):
            summ[k] += s.get("extra", {}).get(k, 0)
        summ["samples"] += s["samples"][:1]
        files["iter"].append(ti)
        files["commands"].append(tc)
    return files, summ, died


def merge(ctx, files, name):
    """Concatenate per-shard batch trace files, renumbering t / end; returns (path, {t: meta})."""
    out = ctx.path(name)
    meta = {}
    line = 0
    t = 0
    with open(out, "w") as w:
        for fn in files:
            if not os.path.exists(fn):
                continue
            evs = verif.read_ndjson(fn)
            metas = {m["t"]: m["meta"] for m in verif.read_ndjson(fn + ".meta")} if os.path.exists(fn + ".meta") else {}
            base = line
            tmap = {}
            for e in evs:
                if e.get("ev") == "reset":
                    t += 1
                    tmap[e["t"]] = t
                    e["t"] = t
                    e["end"] = e["end"] + base
                w.write(json.dumps(e) + "\n")
                line += 1
            for old, new in tmap.items():
                meta[new] = metas.get(old, {})
    return out, meta


def validate(ctx, module, trace):
    cfg = "CONSTANTS\n  Dev = {}\n  Scripts = {}\n" + ("  WithProbes = TRUE\n" if module == "TrIter" else "") + \
          "SPECIFICATION TSpec\nCONSTRAINT HW\nPOSTCONDITION Accepted\nCHECK_DEADLOCK FALSE\n"
    r = ctx.tlc(module, cfg, files={"trace.ndjson": trace}, workers=1, timeout=2400, xss=True, deque=True, name=module, heap=BIG)
    rejected = {}
    body = r.printed("REJECTED")
    if body:
        for m in re.finditer(r"<<(\d+),\s*(\d+)>>", body[-1]):
            rejected[int(m.group(1))] = int(m.group(2))
    if not rejected and (r.rc != 0 or r.errors):
        raise verif.Undecided("trace validation %s failed to run:\n%s" % (module, r.out[-5000:]))
    return rejected, r


def describe(part, ev, scen):
    """One line saying which clause the rejected event contradicts."""
    who = scen.get("helper") or ("commands." + ("ForEach" if scen.get("mode") == "foreach" else "Execute"))
    e = ev.get("ev") if ev else None
    if e in ("stuck", "runaway"):
        return "%s: permanent stall - goroutines blocked for ever (%s): the serve loop is not released / a call never returns" % (who, ev.get("blocked"))
    if e == "panic":
        return "%s: panic: %s" % (who, ev.get("msg"))
    if e == "req":
        if part == "commands":
            return "%s: the follow-up command does not carry the session id / node / action of the previous response: %s" % (who, json.dumps(ev))
        return "%s: page request does not carry the `last` cursor of the previous page as `after`: %s" % (who, json.dumps(ev))
    if e == "ret" and ev.get("op") == "next":
        return "%s: Next() = %s (item %s.%s) contradicts the responder's pages (order / exactly once / false after the end)" % (who, ev.get("ok"), ev.get("k"), ev.get("j"))
    if e == "ret" and ev.get("op") in ("err", "fetch"):
        return "%s: Err() = %s contradicts what happened (error lost, invented or not stable)" % (who, ev.get("err"))
    if e == "ret":
        return "%s: %s returned %s, which the specification does not allow here" % (who, ev.get("op"), json.dumps({k: v for k, v in ev.items() if k not in ("ev", "op", "_line")}))
    if e in ("pageinfo", "nextc"):
        return "%s: paging data of the finished page (first/last/count/index, next and previous page) is not what the responder sent: %s" % (who, json.dumps(ev))
    if e == "end":
        return "%s: not quiescent at the end: a response is still borrowed / the serve loop did not resume / a goroutine is left" % who
    if e == "hook":
        return "%s: serve loop event %s out of place (resumed without a release, or handed twice)" % (who, ev.get("point"))
    if e == "cb":
        return "%s: callback invocation %s does not match the reply" % (who, json.dumps(ev))
    if e == "call":
        return "%s: the driver's next call (%s) is not possible in the specification's state (the iterator reported a next page that does not exist, or an earlier result was wrong)" % (who, ev.get("op"))
    return "%s: event %s is not allowed by the specification" % (who, json.dumps(ev)[:200])


def judge(ctx, part, module, files, prefix):
    tr, meta = merge(ctx, files, "%s-trace.ndjson" % part)
    if not meta:
        return 0, 0, None, tr
    rej, r = validate(ctx, module, tr)
    trs = verif.split_traces(verif.read_ndjson(tr)) if rej else {}
    groups = {}
    for t, hw in sorted(rej.items()):
        ev = [e for e in trs[t] if e["_line"] == hw]
        ev = ev[0] if ev else None
        sc = meta[t].get("scenario", {})
        what = describe(part, ev, sc)
        key = re.sub(r"\d+", "#", what)[:160]
        groups.setdefault(key, []).append((t, hw, ev, sc, what))
    for key, lst in groups.items():
        t, hw, ev, sc, what = lst[0]
        ctx.violation("%s %s [%d traces like this; e.g. %s]" % (prefix, what, len(lst), json.dumps({k: sc.get(k) for k in ("helper", "mode", "script", "replies", "plan", "progname", "variant", "cancel") if k in sc})[:400]),
                      {"family": "iter", "part": part, "scenario": sc, "choices": meta[t].get("choices"), "trace": trs[t],
                       "rejected_line": hw, "rejected_event": ev, "similar": len(lst)})
    return len(meta), len(rej), r, tr


def selftest(ctx, part, module, trace):
    """Binding self-test: corrupt recorded fields of good traces; TLC must reject each."""
    trs = verif.split_traces(verif.read_ndjson(trace))
    strip = lambda tr: [{k: v for k, v in e.items() if k != "_line"} for e in tr]
    muts = []
    if part == "iter":
        good = [tr for tr in trs.values() if sum(1 for e in tr if e.get("ev") == "req") >= 2 and any(e.get("op") == "next" and e.get("ok") for e in tr)]
        if not good:
            raise verif.Undecided("binding self-test: no two-page trace")
        base = strip(good[0])
        m = [dict(e) for e in base]
        i = [k for k, e in enumerate(m) if e.get("ev") == "req"][1]
        m[i]["dir"] = "before"
        muts.append(("second request pages with before", m))
        m = [dict(e) for e in base]
        i = [k for k, e in enumerate(m) if e.get("op") == "next" and e.get("ok")][0]
        m[i]["j"] = m[i]["j"] + 1
        muts.append(("an item skipped", m))
        m = [dict(e) for e in base]
        i = [k for k, e in enumerate(m) if e.get("point") == "serve.resume"]
        if i:
            del m[i[-1]]
            muts.append(("last serve.resume missing (response never released)", m))
        m = [dict(e) for e in base]
        i = [k for k, e in enumerate(m) if e.get("ev") == "ret" and e.get("op") == "next" and not e.get("ok")][-1]
        m[i]["ok"] = True
        muts.append(("Next true after the end", m))
    else:
        good = [tr for tr in trs.values() if sum(1 for e in tr if e.get("ev") == "req") >= 2]
        if not good:
            raise verif.Undecided("binding self-test: no two-stage command trace")
        base = strip(good[0])
        m = [dict(e) for e in base]
        i = [k for k, e in enumerate(m) if e.get("ev") == "req"][1]
        m[i]["sid"] = "zz"
        muts.append(("second stage with another session id", m))
        m = [dict(e) for e in base]
        i = [k for k, e in enumerate(m) if e.get("point") == "serve.resume"]
        if i:
            del m[i[0]]
            muts.append(("a serve.resume missing", m))
    p = ctx.path("selftest-%s.ndjson" % part)
    line = 0
    with open(p, "w") as f:
        for k, (_, mm) in enumerate([("unchanged", base)] + muts):
            mm[0]["t"] = k + 1
            mm[0]["end"] = line + len(mm) + 1
            for e in mm:
                f.write(json.dumps(e) + "\n")
            line += len(mm)
    rej, _ = validate(ctx, module, p)
    if 1 in rej:
        raise verif.Undecided("binding self-test (%s): unchanged trace rejected" % part)
    missed = [muts[k - 2][0] for k in range(2, 2 + len(muts)) if k not in rej]
    if missed:
        raise verif.Undecided("binding self-test (%s): corrupted traces ACCEPTED: %s" % (part, missed))
    return len(muts)


def run_part(ctx):
    quick = ctx.tier == "quick"
    bg = ThreadPoolExecutor(max_workers=1)
    design = bg.submit(design_checks, ctx)        # pipeline A runs beside the driver
    if ctx.replay:
        case = json.load(open(ctx.replay))["case"]
        scen = [case["scenario"]]
    else:
        scen = iter_scenarios(ctx.tier, ctx.seed) + cmd_scenarios(ctx.tier, ctx.seed) + race_scenarios(ctx.tier)
        random.Random(ctx.seed).shuffle(scen)      # even load over the shards
    t0 = time.time()
    try:
        files, summ, died = explore(ctx, scen, maxpre=1 if quick else 2, maxruns=25 if quick else 1500)
    finally:
        mc, ndev = design.result()
    ctx.log("ran %d scenarios, %d schedules, %d traces (%d events) in %.1fs" % (len(scen), summ["evaluations"], summ["traces"], summ["events"], time.time() - t0))
    for sc, out in died[:5]:
        part = "commands:" if sc.get("part") == "commands" else "iterators:"
        m = re.search(r"(panic: [^\n]*|fatal error: [^\n]*)", out)
        ctx.violation("%s the driver process died in a goroutine of the library (%s) in scenario %s" % (part, m.group(1) if m else "?", json.dumps(sc)[:300]),
                      {"family": "iter", "part": sc.get("part"), "scenario": sc, "output": out})
    with ThreadPoolExecutor(max_workers=2) as ex:
        fi = ex.submit(judge, ctx, "iter", "TrIter", files["iter"], "iterators:")
        fc = ex.submit(judge, ctx, "commands", "TrCommands", files["commands"], "commands:")
        ni, ri, r1, tri = fi.result()
        nc, rc, r2, trc = fc.result()
    ctx.log("TLC validated %d iterator traces (%d rejected) and %d command traces (%d rejected)" % (ni, ri, nc, rc))
    nself = 0
    if not ctx.replay and not ctx.violations:
        nself = selftest(ctx, "iter", "TrIter", tri) + selftest(ctx, "commands", "TrCommands", trc)
    helpers = sorted({s.get("helper") or ("commands." + s["mode"]) for s in scen})
    return {
        "states": mc["iter"].distinct + mc["cmd"].distinct, "transitions": mc["iter"].generated + mc["cmd"].generated,
        "iter_states": mc["iter"].distinct, "commands_states": mc["cmd"].distinct,
        "liveness_states": mc["iter_live"].distinct + mc["cmd_live"].distinct,
        "deviations_caught": ndev,
        "scenarios": len(scen), "schedules_run": summ["evaluations"], "traces_validated_against_impl": summ["traces"],
        "iter_traces": ni, "commands_traces": nc, "trace_events": summ["events"], "rejected": ri + rc, "stuck_runs": summ["stuck"],
        "driver_deaths": len(died), "binding_selftest_mutants_rejected": nself, "helpers": helpers,
        "samples": summ["samples"][:2],
        "rule": "iterators: every script of <= 3 pages of <= 2 items (last page ok / error reply / undecodable item or RSM set / ill-formed or truncated response / silence + cancellation / end of stream; quick tier samples the 3-page scripts) x consumer programs (read to the end page by page, early Close after one item, Close at once, Close on the second page, Item/Err probes, calls after Close) x helpers; commands: <= 3 stages, every reply shape as the last stage, session id / node changing between stages, chain (Execute + Response.Next/Prev/Complete/Cancel) and ForEach (callback error at the last stage); one default schedule per scenario plus depth-first schedule exploration (pre-emption bounded) of the race scenarios; a trace is distinct if its event sequence differs",
    }
