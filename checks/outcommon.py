"""Shared pipeline of the Output family (C05 concurrency part, C10): scheduler-driven exploration of
the real session's output side, traces validated against tla/Output.tla."""
import itertools, json, os, re, subprocess
import verif

MC_CFG = '''CONSTANTS
  Procs = %(procs)s
  Programs <- %(programs)s
  PeerScripts <- %(scripts)s
  MaxChunks = 2
  Dev = {}
SPECIFICATION MCSpec
INVARIANT C10_OneCloseTag
INVARIANT C10_NothingAfterClose
INVARIANT C10_ClosedIffTag
INVARIANT C10_SendersRefused
INVARIANT C10_BothClosedAfterServe
INVARIANT C10_ServeReturnsForCause
INVARIANT C10_ServeRetTellsCause
INVARIANT C05_Contiguous
INVARIANT C05_NoStrayWrites
INVARIANT C05_StaleHandleDead
PROPERTY C05_WritesUnderLock
PROPERTY C10_DeadlineKept
PROPERTY C10_ReplacedDeadlineInert
CHECK_DEADLOCK FALSE
'''

# closed token writers used again next to the other process's transmit calls and Close (no Serve; state constraint:
# the close deadline, which plays no part without Serve, stays unset)
MC_STALE_CFG = (MC_CFG % {"procs": '{"a", "b"}', "programs": "ProgramsStale", "scripts": "PeerScriptsNone"}).replace(
    "CHECK_DEADLOCK FALSE", "CONSTRAINT NoDeadline\nCHECK_DEADLOCK FALSE")

TX_KINDS = ["send", "sendel", "encode", "encodeel", "tw", "sendiqres", "sendmsgerr", "sendpreserr", "encodemsgerr",
            "encodeiqres", "encodepreserr"]
# entry points that marshal a plain Go value BEFORE they take the output lock: two of them queued behind each
# other must still each transmit their own content (a shared scratch buffer would mix them)
MARSHAL_KINDS = ["encodemsgerr", "encodeiqres", "encodepreserr"]


# the kinds of error a handler can return (Output.tla, Herr): plain, wrapping io.EOF, io.ErrUnexpectedEOF, stanza.Error,
# context error, stream.Error, wrapped stream.Error - and a bare io.EOF
HERR_ITEMS = ["stanza_herr", "stanza_herr_weof", "stanza_herr_ueof", "stanza_herr_st", "stanza_herr_ctx", "stanza_herr_se", "stanza_herr_wse", "stanza_heof"]
# script items: dlset = the application calls SetCloseDeadline(far future), dlfire = that time arrives
DLSET_SCRIPTS = [["dlset", "stanza", "close"], ["stanza", "dlset", "stanza_reply", "stanza", "close"], ["dlset", "stanza", "dlfire"],
                 ["dlset", "stanza_reply", "stanza"], ["dlset", "stanza", "streamerr"], ["dlset", "stanza", "stanza_herr"],
                 ["dlset", "stanza", "stanza", "close"], ["stanza", "dlset", "stanza", "dlfire"]]


def stale_scenarios():
    """a token writer that was closed is used again (Close once more - the explicit Close plus a deferred one -, tokens
    written through it) at any later time: also while another goroutine, or the serve loop answering for a handler,
    holds a NEW token writer or is inside any other transmit call, in the middle of its element (big payloads: several
    transport writes per element). Two pre-emptions: after the Close, and inside the other one's element."""
    out = []
    for stale in ("twclose2", "twwrite2"):
        for other in ("tw", "send"):
            out.append({"procs": [{"name": "a", "calls": ["tw", stale]}, {"name": "b", "calls": [other]}], "serve": False, "script": [], "big": True, "maxpre": 2})
        out.append({"procs": [{"name": "a", "calls": ["tw", stale]}], "serve": True, "script": ["stanza_reply"], "big": True, "maxpre": 2})
    out.append({"procs": [{"name": "a", "calls": ["tw", "twclose2", "twwrite2", "tw"]}, {"name": "b", "calls": ["close"]}], "serve": False, "script": [], "big": False})
    return out


def scenarios(tier, focus):
    """focus: 'close' (C10) or 'tx' (C05)"""
    out = []
    k = itertools.cycle(TX_KINDS)
    def tx():
        return next(k)
    if focus == "close":
        progs2 = [["close"], ["close", "close"], ["tx"], ["close", "tx"], ["tx", "close"]]
        for a, b in itertools.combinations_with_replacement(progs2, 2):
            out.append({"procs": [{"name": "a", "calls": a}, {"name": "b", "calls": b}], "serve": False, "script": [], "big": False})
        # three goroutines: one holds the output lock while a Close and a transmit call queue behind it
        for ka, kc in (("tw", "send"), ("send", "encode"), ("encodeel", "sendel"), ("sendiqres", "tw")):
            out.append({"procs": [{"name": "a", "calls": [ka]}, {"name": "b", "calls": ["close"]}, {"name": "c", "calls": [kc]}], "serve": False, "script": [], "big": False})
        # the transport fails the write of the closing tag: closed all the same, once
        for a, b in [(["close", "close"], ["tx"]), (["close", "tx"], ["close"]), (["close"], ["close", "tx"])]:
            out.append({"procs": [{"name": "a", "calls": a}, {"name": "b", "calls": b}], "serve": False, "script": [], "big": False, "failclose": True})
        out.append({"procs": [{"name": "a", "calls": ["tx"]}], "serve": True, "script": ["close"], "big": False, "failclose": True})
        out.append({"procs": [{"name": "a", "calls": ["close", "tx"]}], "serve": True, "script": ["stanza_herr"], "big": False, "failclose": True})
        # SetCloseDeadline then Close, the peer never closes: Serve ends with an error when the deadline passes
        for a in (["close"], ["tx", "close"]):
            out.append({"procs": [{"name": "a", "calls": a}], "serve": True, "script": ["deadline"], "big": False})
        out.append({"procs": [{"name": "a", "calls": ["close"]}], "serve": True, "script": ["stanza_reply", "deadline"], "big": False})
        # the deadline is set first and passes later; in between a transmit call whose context is done
        # (its write may be interrupted: the encoder is broken afterwards) must not disarm it
        for a in (["sendc", "close"], ["encodec", "close"], ["close", "sendc"], ["sendc"], ["tx", "sendc", "close"]):
            out.append({"procs": [{"name": "a", "calls": a}], "serve": True, "script": ["dlset", "dlfire"], "big": False})
        # SetCloseDeadline again with a later time: the time that was replaced goes by, the peer sends a stanza and
        # closes in time (Serve: nil) / never closes until the deadline in force passes (Serve: error)
        out.append({"procs": [{"name": "a", "calls": ["close"]}], "serve": True, "script": ["dl2", "dlold", "stanza_reply", "close"], "big": False, "maxruns": 8})
        out.append({"procs": [{"name": "a", "calls": ["close"]}], "serve": True, "script": ["dl2", "dlold", "dlfire"], "big": False, "maxruns": 4})
        # the application calls SetCloseDeadline (a time virtual time has not reached) while Serve is running - or before
        # it starts: the order of the call against Serve's start and against Serve's reading is part of the schedule -,
        # the peer sends k >= 1 more top-level elements, and only THEN one of the reasons for Serve to return occurs: the
        # peer's close, a stream error received, a handler error, the deadline passing, the end of the transport
        # (Serve alone: every order of the call and of the peer's items against Serve's steps; then with a Close / a
        # transmit call of another goroutine next to it)
        for sc in DLSET_SCRIPTS:
            out.append({"procs": [], "serve": True, "script": sc, "big": False})
        for a, sc in ((["close"], DLSET_SCRIPTS[0]), (["close"], DLSET_SCRIPTS[2]), (["tx"], DLSET_SCRIPTS[3])):
            out.append({"procs": [{"name": "a", "calls": a}], "serve": True, "script": sc, "big": False})
        # the handler fails, with every kind of error a handler can return, while the peer's stream stays open: that is
        # never the end of the peer's stream (Serve alone, the element first or after another one; then next to a Close)
        for it in HERR_ITEMS:
            out.append({"procs": [], "serve": True, "script": [it], "big": False})
            out.append({"procs": [], "serve": True, "script": ["stanza", it, "stanza"], "big": False})
        for it in ("stanza_herr_weof", "stanza_herr_se", "stanza_heof"):
            out.append({"procs": [{"name": "a", "calls": ["close"]}], "serve": True, "script": [it], "big": False})
        out.append({"procs": [{"name": "a", "calls": ["sendc", "tx", "close"]}, {"name": "b", "calls": ["tx"]}], "serve": False, "script": [], "big": False})
        out.append({"procs": [{"name": "a", "calls": ["encodec"]}, {"name": "b", "calls": ["close"]}], "serve": True, "script": ["close"], "big": True})
        scripts = [[], ["close"], ["stanza_reply"], ["stanza_herr"], ["streamerr"], ["stanza_reply", "close"], ["stanza", "stanza_herr"]]
        for a in [["close"], ["tx"], ["close", "tx"], ["tx", "close"]]:
            for sc in scripts:
                out.append({"procs": [{"name": "a", "calls": a}], "serve": True, "script": sc, "big": False})
        if tier == "thorough":
            for a in (["close"], ["tx"], ["tx", "close"]):
                for sc in DLSET_SCRIPTS:
                    out.append({"procs": [{"name": "a", "calls": a}], "serve": True, "script": sc, "big": False})
            for a, b, c in itertools.combinations_with_replacement([["close"], ["tx"], ["close", "tx"]], 3):
                out.append({"procs": [{"name": "a", "calls": a}, {"name": "b", "calls": b}, {"name": "c", "calls": c}], "serve": False, "script": [], "big": False})
            for a, b in itertools.product([["close"], ["tx"]], repeat=2):
                for sc in scripts[1:]:
                    out.append({"procs": [{"name": "a", "calls": a}, {"name": "b", "calls": b}], "serve": True, "script": sc, "big": True})
    else:
        for big in (True, False):
            for a, b in itertools.combinations_with_replacement([["tx"], ["tx", "tx"]], 2):
                out.append({"procs": [{"name": "a", "calls": a}, {"name": "b", "calls": b}], "serve": False, "script": [], "big": big})
            for sc in (["stanza_reply"], ["stanza_reply", "stanza_reply"], ["stanza_reply", "close"]):
                out.append({"procs": [{"name": "a", "calls": ["tx"]}], "serve": True, "script": sc, "big": big})
        for ka, kb in itertools.combinations_with_replacement(MARSHAL_KINDS, 2):
            out.append({"procs": [{"name": "a", "calls": [ka]}, {"name": "b", "calls": [kb]}], "serve": False, "script": [], "big": ka == kb})
        out.append({"procs": [{"name": "a", "calls": ["tw"]}, {"name": "b", "calls": ["encodeiqres"]}, {"name": "c", "calls": ["encodemsgerr"]}], "serve": False, "script": [], "big": False})
        out += stale_scenarios()
        if tier == "thorough":
            for a, b, c in itertools.combinations_with_replacement([["tx"], ["tx", "tx"]], 3):
                out.append({"procs": [{"name": "a", "calls": a}, {"name": "b", "calls": b}, {"name": "c", "calls": c}], "serve": False, "script": [], "big": True})
            for sc in (["stanza_reply"], ["stanza_reply", "close"]):
                out.append({"procs": [{"name": "a", "calls": ["tx"]}, {"name": "b", "calls": ["tx", "tx"]}], "serve": True, "script": sc, "big": True})
    # concretise tx kinds (every entry point appears; the pairing rotates with the scenario index)
    res = []
    for i, s in enumerate(out):
        reps = 3 if (tier == "thorough" and focus == "tx") else 1
        for r in range(reps):
            s2 = json.loads(json.dumps(s))
            for p in s2["procs"]:
                p["calls"] = [c if c != "tx" else tx() for c in p["calls"]]
            res.append(s2)
            tx()
    return res


def explore(ctx, scen, maxpre, maxruns=0, shards=None, choices=None):
    # scenarios that let real time go by run in a driver of their own (next to the others they slow whole shards down)
    slow = [s for s in scen if s.get("maxruns")]
    if slow and len(slow) < len(scen):
        f1, s1 = explore(ctx, [s for s in scen if not s.get("maxruns")], maxpre, maxruns, shards)
        f2, s2 = explore(ctx, slow, maxpre, maxruns, len(slow))
        for k in ("traces", "events", "evaluations", "distinct", "stuck"):
            s1[k] += s2[k]
        s1["crashes"] += s2["crashes"]
        return f1 + f2, s1
    if maxruns == 0 and ctx.tier == "thorough":
        # a budget of ~100 000 schedules in all (about 35 ms each, 16 shards): a few minutes
        maxruns = max(200, min(2500, 100000 // max(1, len(scen))))
    b = ctx.go_build("output")
    shards = shards or min(verif.NCPU, max(1, len(scen)))
    sf = ctx.path("out-scen.ndjson")
    with open(sf, "w") as f:
        for s in scen:
            f.write(json.dumps(s) + "\n")
    procs = []
    for i in range(shards):
        explore.n = getattr(explore, "n", 0) + 1
        tr = ctx.path("out-trace-%d-%d-%d.ndjson" % (len(scen), i, explore.n))
        env = dict(verif.GOENV, OUT_MAXPRE=str(maxpre), OUT_MAXRUNS=str(maxruns), OUT_SHARD="%d/%d" % (i, shards),
                   VERIF_SEED=str(ctx.seed), GOMAXPROCS="2")
        if choices is not None:
            env["OUT_CHOICES"] = json.dumps(choices)
        procs.append((tr, subprocess.Popen([b, "run", sf, tr], env=env, cwd=ctx.scratch, stdout=subprocess.PIPE, stderr=subprocess.STDOUT, text=True)))
    summ = {"traces": 0, "events": 0, "evaluations": 0, "distinct": 0, "samples": [], "stuck": 0, "crashes": []}
    files = []
    for tr, p in procs:
        try:
            out, _ = p.communicate(timeout=3000)
        except subprocess.TimeoutExpired:
            p.kill()
            raise verif.Undecided("output driver timed out")
        if p.returncode != 0 or "SUMMARY " not in out:
            # a Go "fatal error" (e.g. unlock of an unlocked mutex) inside the library cannot be recovered by the driver:
            # it takes the process down. The driver notes the schedule it is running in <trace>.cur beforehand; the crash
            # is reported for that schedule, and the (incomplete) traces of this shard are left out.
            fatal = re.search(r"fatal error: [^\n]*", out)
            if fatal and "mellium.im/xmpp." in out and os.path.exists(tr + ".cur"):
                at = out.index(fatal.group(0))
                summ["crashes"].append({"fatal": fatal.group(0), "case": json.load(open(tr + ".cur")), "stack": out[at:at + 2500]})
                continue
            raise verif.Undecided("output driver failed (exit %s):\n%s" % (p.returncode, out[-3000:]))
        s = json.loads(out[out.rindex("SUMMARY ") + 8:])
        for k in ("traces", "events", "evaluations", "distinct"):
            summ[k] += s[k]
        summ["stuck"] += s.get("extra", {}).get("stuck", 0)
        summ["samples"] += s["samples"][:1]
        files.append(tr)
    return files, summ


def merge_traces(ctx, files, name="out-trace.ndjson"):
    """concatenate shard traces, renumbering t and end; returns (path, meta dict)"""
    dst = ctx.path(name)
    meta = {}
    line = 0
    t = 0
    with open(dst, "w") as out:
        for f in files:
            m = {x["t"]: x["meta"] for x in verif.read_ndjson(f + ".meta")}
            base = line
            for e in verif.read_ndjson(f):
                if e["ev"] == "reset":
                    t += 1
                    meta[t] = m[e["t"]]
                    e["t"] = t
                    e["end"] = e["end"] + base
                out.write(json.dumps(e) + "\n")
                line += 1
    return dst, meta


def validate(ctx, trace, procs, dev=()):
    cfg = ("CONSTANTS\n  Procs = %s\n  Programs = {}\n  PeerScripts = {}\n  MaxChunks = 1000\n  Dev = %s\n" % (verif.tla_value(set(procs)), verif.tla_value(set(dev)))
           + "SPECIFICATION TSpec\nCONSTRAINT HW\nPOSTCONDITION Accepted\nCHECK_DEADLOCK FALSE\n")
    r = ctx.tlc("TrOutput", cfg, files={"trace.ndjson": trace}, workers=1, timeout=2400, xss=True, deque=True, heap="6g")
    rejected = {}
    body = r.printed("REJECTED")
    if body:
        for m in re.finditer(r"<<(\d+),\s*(\d+)>>", body[-1]):
            rejected[int(m.group(1))] = int(m.group(2))
    if not rejected and (r.rc != 0 or r.errors):
        raise verif.Undecided("trace validation failed to run:\n" + r.out[-9000:])
    return rejected, r
