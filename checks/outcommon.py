"""Shared pipeline of the Output family (C05 concurrency part, C10): scheduler-driven exploration of
the real session's output side, traces validated against tla/Output.tla."""
import itertools, json, os, re, subprocess
import verif

MC_CFG = '''CONSTANTS
  Procs = %(procs)s
  Programs <- %(programs)s
  PeerScripts <- %(scripts)s
  MaxChunks = 2
  Dev = {}
SPECIFICATION Spec
INVARIANT C10_OneCloseTag
INVARIANT C10_NothingAfterClose
INVARIANT C10_ClosedIffTag
INVARIANT C10_SendersRefused
INVARIANT C10_BothClosedAfterServe
INVARIANT C05_Contiguous
INVARIANT C05_NoStrayWrites
PROPERTY C05_WritesUnderLock
PROPERTY C10_DeadlineKept
PROPERTY C10_ReplacedDeadlineInert
CHECK_DEADLOCK FALSE
'''

TX_KINDS = ["send", "sendel", "encode", "encodeel", "tw", "sendiqres", "sendmsgerr", "sendpreserr", "encodemsgerr",
            "encodeiqres", "encodepreserr"]
# entry points that marshal a plain Go value BEFORE they take the output lock: two of them queued behind each
# other must still each transmit their own content (a shared scratch buffer would mix them)
MARSHAL_KINDS = ["encodemsgerr", "encodeiqres", "encodepreserr"]


def scenarios(tier, focus):
    """focus: 'close' (C10) or 'tx' (C05)"""
    out = []
    k = itertools.cycle(TX_KINDS)
    def tx():
        return next(k)
    if focus == "close":
        progs2 = [["close"], ["close", "close"], ["tx"], ["close", "tx"], ["tx", "close"]]
        for a, b in itertools.combinations_with_replacement(progs2, 2):
            out.append({"procs": [{"name": "a", "calls": a}, {"name": "b", "calls": b}], "serve": False, "script": [], "big": False})
        # three goroutines: one holds the output lock while a Close and a transmit call queue behind it
        for ka, kc in (("tw", "send"), ("send", "encode"), ("encodeel", "sendel"), ("sendiqres", "tw")):
            out.append({"procs": [{"name": "a", "calls": [ka]}, {"name": "b", "calls": ["close"]}, {"name": "c", "calls": [kc]}], "serve": False, "script": [], "big": False})
        # the transport fails the write of the closing tag: closed all the same, once
        for a, b in [(["close", "close"], ["tx"]), (["close", "tx"], ["close"]), (["close"], ["close", "tx"])]:
            out.append({"procs": [{"name": "a", "calls": a}, {"name": "b", "calls": b}], "serve": False, "script": [], "big": False, "failclose": True})
        out.append({"procs": [{"name": "a", "calls": ["tx"]}], "serve": True, "script": ["close"], "big": False, "failclose": True})
        out.append({"procs": [{"name": "a", "calls": ["close", "tx"]}], "serve": True, "script": ["stanza_herr"], "big": False, "failclose": True})
        # SetCloseDeadline then Close, the peer never closes: Serve ends with an error when the deadline passes
        for a in (["close"], ["tx", "close"]):
            out.append({"procs": [{"name": "a", "calls": a}], "serve": True, "script": ["deadline"], "big": False})
        out.append({"procs": [{"name": "a", "calls": ["close"]}], "serve": True, "script": ["stanza_reply", "deadline"], "big": False})
        # the deadline is set first and passes later; in between a transmit call whose context is done
        # (its write may be interrupted: the encoder is broken afterwards) must not disarm it
        for a in (["sendc", "close"], ["encodec", "close"], ["close", "sendc"], ["sendc"], ["tx", "sendc", "close"]):
            out.append({"procs": [{"name": "a", "calls": a}], "serve": True, "script": ["dlset", "dlfire"], "big": False})
        # SetCloseDeadline again with a later time: the time that was replaced goes by, the peer sends a stanza and
        # closes in time (Serve: nil) / never closes until the deadline in force passes (Serve: error)
        out.append({"procs": [{"name": "a", "calls": ["close"]}], "serve": True, "script": ["dl2", "dlold", "stanza_reply", "close"], "big": False, "maxruns": 8})
        out.append({"procs": [{"name": "a", "calls": ["close"]}], "serve": True, "script": ["dl2", "dlold", "dlfire"], "big": False, "maxruns": 4})
        out.append({"procs": [{"name": "a", "calls": ["sendc", "tx", "close"]}, {"name": "b", "calls": ["tx"]}], "serve": False, "script": [], "big": False})
        out.append({"procs": [{"name": "a", "calls": ["encodec"]}, {"name": "b", "calls": ["close"]}], "serve": True, "script": ["close"], "big": True})
        scripts = [[], ["close"], ["stanza_reply"], ["stanza_herr"], ["streamerr"], ["stanza_reply", "close"], ["stanza", "stanza_herr"]]
        for a in [["close"], ["tx"], ["close", "tx"], ["tx", "close"]]:
            for sc in scripts:
                out.append({"procs": [{"name": "a", "calls": a}], "serve": True, "script": sc, "big": False})
        if tier == "thorough":
            for a, b, c in itertools.combinations_with_replacement([["close"], ["tx"], ["close", "tx"]], 3):
                out.append({"procs": [{"name": "a", "calls": a}, {"name": "b", "calls": b}, {"name": "c", "calls": c}], "serve": False, "script": [], "big": False})
            for a, b in itertools.product([["close"], ["tx"]], repeat=2):
                for sc in scripts[1:]:
                    out.append({"procs": [{"name": "a", "calls": a}, {"name": "b", "calls": b}], "serve": True, "script": sc, "big": True})
    else:
        for big in (True, False):
            for a, b in itertools.combinations_with_replacement([["tx"], ["tx", "tx"]], 2):
                out.append({"procs": [{"name": "a", "calls": a}, {"name": "b", "calls": b}], "serve": False, "script": [], "big": big})
            for sc in (["stanza_reply"], ["stanza_reply", "stanza_reply"], ["stanza_reply", "close"]):
                out.append({"procs": [{"name": "a", "calls": ["tx"]}], "serve": True, "script": sc, "big": big})
        for ka, kb in itertools.combinations_with_replacement(MARSHAL_KINDS, 2):
            out.append({"procs": [{"name": "a", "calls": [ka]}, {"name": "b", "calls": [kb]}], "serve": False, "script": [], "big": ka == kb})
        out.append({"procs": [{"name": "a", "calls": ["tw"]}, {"name": "b", "calls": ["encodeiqres"]}, {"name": "c", "calls": ["encodemsgerr"]}], "serve": False, "script": [], "big": False})
        if tier == "thorough":
            for a, b, c in itertools.combinations_with_replacement([["tx"], ["tx", "tx"]], 3):
                out.append({"procs": [{"name": "a", "calls": a}, {"name": "b", "calls": b}, {"name": "c", "calls": c}], "serve": False, "script": [], "big": True})
            for sc in (["stanza_reply"], ["stanza_reply", "close"]):
                out.append({"procs": [{"name": "a", "calls": ["tx"]}, {"name": "b", "calls": ["tx", "tx"]}], "serve": True, "script": sc, "big": True})
    # concretise tx kinds (every entry point appears; the pairing rotates with the scenario index)
    res = []
    for i, s in enumerate(out):
        reps = 3 if (tier == "thorough" and focus == "tx") else 1
        for r in range(reps):
            s2 = json.loads(json.dumps(s))
            for p in s2["procs"]:
                p["calls"] = [c if c != "tx" else tx() for c in p["calls"]]
            res.append(s2)
            tx()
    return res


def explore(ctx, scen, maxpre, maxruns=0, shards=None):
    # scenarios that let real time go by run in a driver of their own (next to the others they slow whole shards down)
    slow = [s for s in scen if s.get("maxruns")]
    if slow and len(slow) < len(scen):
        f1, s1 = explore(ctx, [s for s in scen if not s.get("maxruns")], maxpre, maxruns, shards)
        f2, s2 = explore(ctx, slow, maxpre, maxruns, len(slow))
        for k in ("traces", "events", "evaluations", "distinct", "stuck"):
            s1[k] += s2[k]
        return f1 + f2, s1
    if maxruns == 0 and ctx.tier == "thorough":
        # a budget of ~100 000 schedules in all (about 35 ms each, 16 shards): a few minutes
        maxruns = max(200, min(2500, 100000 // max(1, len(scen))))
    b = ctx.go_build("output")
    shards = shards or min(verif.NCPU, max(1, len(scen)))
    sf = ctx.path("out-scen.ndjson")
    with open(sf, "w") as f:
        for s in scen:
            f.write(json.dumps(s) + "\n")
    procs = []
    for i in range(shards):
        tr = ctx.path("out-trace-%d-%d.ndjson" % (len(scen), i))
        env = dict(verif.GOENV, OUT_MAXPRE=str(maxpre), OUT_MAXRUNS=str(maxruns), OUT_SHARD="%d/%d" % (i, shards),
                   VERIF_SEED=str(ctx.seed), GOMAXPROCS="2")
        procs.append((tr, subprocess.Popen([b, "run", sf, tr], env=env, cwd=ctx.scratch, stdout=subprocess.PIPE, stderr=subprocess.STDOUT, text=True)))
    summ = {"traces": 0, "events": 0, "evaluations": 0, "distinct": 0, "samples": [], "stuck": 0}
    files = []
    for tr, p in procs:
        try:
            out, _ = p.communicate(timeout=3000)
        except subprocess.TimeoutExpired:
            p.kill()
            raise verif.Undecided("output driver timed out")
        if p.returncode != 0 or "SUMMARY " not in out:
            raise verif.Undecided("output driver failed (exit %s):\n%s" % (p.returncode, out[-3000:]))
        s = json.loads(out[out.rindex("SUMMARY ") + 8:])
        for k in ("traces", "events", "evaluations", "distinct"):
            summ[k] += s[k]
        summ["stuck"] += s.get("extra", {}).get("stuck", 0)
        summ["samples"] += s["samples"][:1]
        files.append(tr)
    return files, summ


def merge_traces(ctx, files, name="out-trace.ndjson"):
    """concatenate shard traces, renumbering t and end; returns (path, meta dict)"""
    dst = ctx.path(name)
    meta = {}
    line = 0
    t = 0
    with open(dst, "w") as out:
        for f in files:
            m = {x["t"]: x["meta"] for x in verif.read_ndjson(f + ".meta")}
            base = line
            for e in verif.read_ndjson(f):
                if e["ev"] == "reset":
                    t += 1
                    meta[t] = m[e["t"]]
                    e["t"] = t
                    e["end"] = e["end"] + base
                out.write(json.dumps(e) + "\n")
                line += 1
    return dst, meta


def validate(ctx, trace, procs, dev=()):
    cfg = ("CONSTANTS\n  Procs = %s\n  Programs = {}\n  PeerScripts = {}\n  MaxChunks = 1000\n  Dev = %s\n" % (verif.tla_value(set(procs)), verif.tla_value(set(dev)))
           + "SPECIFICATION TSpec\nCONSTRAINT HW\nPOSTCONDITION Accepted\nCHECK_DEADLOCK FALSE\n")
    r = ctx.tlc("TrOutput", cfg, files={"trace.ndjson": trace}, workers=1, timeout=2400, xss=True, deque=True)
    rejected = {}
    body = r.printed("REJECTED")
    if body:
        for m in re.finditer(r"<<(\d+),\s*(\d+)>>", body[-1]):
            rejected[int(m.group(1))] = int(m.group(2))
    if not rejected and (r.rc != 0 or r.errors):
        raise verif.Undecided("trace validation failed to run:\n" + r.out[-9000:])
    return rejected, r
