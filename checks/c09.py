"""C09 - no peer input can panic or wedge the library.

A: TLC checks the generator of tla/PeerInput.tla (every handler-table state is reached, every
   shape of every registered stanza occurs in every such state, in both configurations of the
   handler table - every optional callback set / default zero-value handlers -, alone and twice
   in a row followed by the helper call of its handler; the local state "bytestream with
   unflushed bytes" is reached for both carriers; the IDENTITY of the served session - how it
   was made (initiated / received, client / server namespace, WebSocket framing) x the class of
   its local address (full, bare, domain, EMPTY: no origin given, none named by the peer) - is
   crossed with the addressing of the stanzas (from / to absent, empty, the session's own bare /
   full / domain address, another entity, junk)) and the run protocol (C09_Terminates under
   the fairness the property demands of the library, whatever the configuration, the local
   state of the extension and the life of the session: served once, closed by the application
   before Serve, Serve called again after it returned, never served).
B: TLC emits the shaped stanzas, the sequences (stanzas + application actions) and the
   request-helper x reply-shape scenarios; the driver adds a seeded sample of truncations.
C: every scenario runs against a really served session whose mux carries all the library's
   handlers; recovered panics, crashes of library goroutines and reproduced stalls are the only
   things TLC (tla/TrPeerInput.tla) rejects."""
import json
import os

import verif
import peerinputcommon as pc


def run(ctx):
    quick = ctx.tier == "quick"
    if ctx.replay:
        return replay(ctx)
    mc = pc.design_check(ctx)
    ctx.log("non-vacuity: %d code-like deviations of the run protocol (%s) each violate C09_Terminates" % (mc.nonvacuity, ", ".join(pc.DEVS)))
    em = pc.emit(ctx)
    ctx.log("TLC emitted %s (stanzas, sequences, reply scenarios)" % em["counts"])
    binpath, instrumented = pc.build_cover(ctx)
    covdir = os.path.join(ctx.scratch, "cov") if instrumented else None
    cuts = 1500 if quick else 20000
    nrand = 500 if quick else 10000
    tr, summ = pc.drive(ctx, binpath, em["alphabet.ndjson"], [em["seqs.ndjson"], em["replies.ndjson"]], cuts, covdir=covdir,
                        randseq=nrand)
    ctx.log("driver: %d scenarios (%d with the input cut), %d events; outcomes %s; %d worker crashes, %d stalls confirmed, %d not re-run" % (
        summ["scenarios"], summ["scenarios"] - sum(em["counts"][1:3]) - nrand, summ["events"], json.dumps(summ["outcomes"], sort_keys=True),
        summ["worker_crashes"], summ["stalls"], summ["stalls_not_rerun"]))
    rej, r = pc.validate(ctx, tr)
    ctx.log("TLC validated %d traces / %d events: %d rejected (%d states, %.1fs)" % (
        summ["traces"], summ["events"], len(rej), r.distinct, r.wall))
    groups = pc.report(ctx, tr, rej)
    if ctx.unestablished:
        # scenarios whose setup did not reach the table / local state the generator meant say
        # nothing about the library; without them the coverage claimed below would be wrong
        msg = "%d scenario(s) did not reach the state their setup is meant to establish: %s" % (len(ctx.unestablished), ctx.unestablished[:5])
        if not ctx.violations:
            raise verif.Undecided(msg)
        ctx.notes.append(msg)
    if summ["unreproduced_stalls"]:
        # a scenario that looked stalled once (a loaded machine) and completed when re-run alone is
        # neither a violation nor a reason to give up: it is recorded
        ctx.notes.append("%d scenario(s) looked stalled once and completed when re-run alone: %s" % (
            len(summ["unreproduced_stalls"]), summ["unreproduced_stalls"][:10]))
    nself = 0
    if len(rej) < summ["traces"]:
        try:
            nself = pc.selftest_binding(ctx, tr)
        except verif.Undecided as e:
            if not ctx.violations:
                raise
            # the violations found stand; the self-test needs accepted traces of certain kinds
            ctx.notes.append("binding self-test not completed on this tree: %s" % e)

    # aid to the grammar: which functions with an unchecked assertion on a peer token were reached
    scan = pc.scan_assertions(verif.REPO)
    cov = pc.function_coverage(ctx, covdir) if covdir else None
    unreached = []
    for s in scan:
        s["reached"] = None if cov is None else cov.get((s["file"], s["func_line"]), 0.0) > 0
        if s["reached"] is False:
            unreached.append("%s:%d %s" % (s["file"], s["line"], s["func"]))
    if scan:
        ctx.log("grammar aid: %d single-value type assertions on xml.Token in non-test sources; functions not reached by the generated inputs: %s" % (
            len(scan), unreached or "none"))
    else:
        ctx.log("grammar aid: no single-value type assertion on xml.Token in non-test sources")
    if unreached:
        ctx.notes.append("grammar gap (not a verdict): functions with an unchecked token assertion that no generated input reached: %s" % unreached)

    ctx.write_evidence("model_checking", {
        "states": mc.distinct, "transitions": mc.generated,
        "traces_validated_against_impl": summ["traces"], "trace_events": summ["events"], "trace_states": r.distinct,
        "evaluations": summ["scenarios"], "rejected": len(rej), "rejected_classes": len(groups),
        "distinct_nontrivial": len({k for k in summ["outcomes"]}),
        "grammar": dict(mc.grammar, emitted_stanzas=em["counts"][0], emitted_sequences=em["counts"][1],
                        emitted_reply_scenarios=em["counts"][2], truncated_scenarios=summ["scenarios"] - sum(em["counts"][1:3]) - nrand, random_sequences=nrand),
        "outcomes": summ["outcomes"], "worker_crashes": summ["worker_crashes"], "stalls_confirmed": summ["stalls"],
        "stalls_not_rerun": summ["stalls_not_rerun"], "unreproduced_stalls": len(summ["unreproduced_stalls"]),
        "binding_selftest_corruptions_rejected": nself, "nonvacuity_runs_violating": mc.nonvacuity,
        "nonvacuity_deviations": pc.DEVS,
        "unchecked_token_assertions": scan, "coverage_instrumented": bool(cov is not None),
        "exhaustive": ("every shape of every stanza of every registered (handler, kind, type, payload) alone and after every setup "
                       "of <= %s steps that reaches a table state of its handler (IBB: incl. a bytestream with written, unflushed bytes "
                       "below the block size, iq and message carrier), each in both handler configurations (every optional callback set / "
                       "default zero-value handlers); every stanza twice in a row followed by the helper call of its handler (empty table: "
                       "all handlers; every table state: %s); every helper x every reply shape; every session identity (kind x class of "
                       "the local address, incl. NO local address for every kind) x the addressing shapes of the stanzas; every "
                       "registered stanza and every stream-level input on a session closed before Serve / served a second time; every "
                       "helper on a session nobody serves" % (
                           "2-3" if quick else "3-4", "receipts, ibb" if quick else "all stateful handlers")),
        "handler_configurations": ["listen (all optional callbacks, IBB listener)", "zero (default handlers, IBB listener)", "nolisten"],
        "session_identities": {
            "kinds": ["c2s (xmpp.NewSession, own Negotiator)", "s2s (S2S bit, server namespace)", "rc2s / rs2s (xmpp.ReceiveSession)",
                      "ws (websocket.NewSession / websocket.Negotiator, WebSocket framing)"],
            "local_address_classes": ["full", "bare", "domain", "empty (zero origin, peer's stream header without 'to')"],
            "lives": ["fresh (served once)", "closed (Close before Serve)", "again (Serve called a second time after it returned)",
                      "unserved (helper called, then Close and cancel; Serve never called)"],
            "stanza_addressing": "from / to each absent, empty, the session's own bare / full / domain address, another entity, junk; "
                                 "every target x every from shape and every to shape on the sessions made the client's way, "
                                 "every from shape x every to shape for ping / unregistered iq / message / presence on every session; "
                                 "replies to the core helpers with every from shape on every session",
            "binding": "the driver logs the local address of the constructed session; the trace specification requires it to be the one the scenario means",
        },
        "local_states": ["clean", "buffered (bytes written to an accepted bytestream, below the block size, not flushed)"],
        "rule": "one scenario = one real session (full mux) of the identity the scenario names (kind of construction x class of the "
                "local address: full / bare / domain / empty), served as its life says (once / after a local Close / a second time / "
                "never), fed a TLC-emitted sequence of shaped stanzas (payload shapes, stanza attributes, from / to addressing "
                "relative to the session's own address) and application "
                "actions, or one helper call answered by TLC-emitted shaped replies; plus seeded random sequences of 4 stanzas of any "
                "handlers on a session of any identity and a seeded sample of scenarios whose last stanza is cut at every token boundary and at 3 random "
                "offsets; outcome classes per event",
        "samples": summ["samples"][:3],
    }, assumptions=[
        "handler tables are independent: a setup of handler H is followed by probes addressed to H only (plus every stanza alone)",
        "the identity of the session is crossed with the addressing of the expected payload of each target (not with every payload shape) "
        "and with the handler configuration 'listen' (the session without an address made the client's way: both configurations); table "
        "states and payload shapes run on the usual session (initiated client session with a full address); random sequences pick any identity",
        "server-side session kinds (s2s, received) carry a domain address or none; WebSocket sessions a full, a bare or no address",
        "the application side is the documented use of each handler/helper (iterate, read, close; contexts cancelled when the session is gone)",
        "configuration 'zero' leaves unset the callbacks the library treats as optional (receipts Unhandled, muc client / direct invitation "
        "callbacks, blocklist callbacks, bin Get, xtime TimeFunc, history's inner handler); roster Push, carbons F and the function of "
        "disco.HandleCaps are called unconditionally by the library and stay set",
        "a setup whose application action did not establish its state (request not sent, call failed, local state not observed) makes the "
        "run undecided (exit 2), never a violation",
        "byte strings outside the grammar (ill-formed UTF-8, nesting bombs, huge sizes) are not explored: that is fuzzing; truncations are sampled",
        "a stall is reported only if it happens again twice under a 4 s watchdog when re-run; at most 16 stalls are re-run per run",
        "races between a cancelled caller and the serve loop (receipts, history iterator closed early) need the scheduler of C06 and are not explored here",
    ])


def replay(ctx):
    case = json.load(open(ctx.replay))["case"]
    p = ctx.path("replay.ndjson")
    open(p, "w").write(json.dumps(case["scenario"]) + "\n")
    tr, summ = pc.drive(ctx, ctx.go_build("peerinput"), "-", [p], 0, name="replay")
    rej, r = pc.validate(ctx, tr, name="TrPeerInput_replay")
    pc.report(ctx, tr, rej)
    if ctx.unestablished and not ctx.violations:
        raise verif.Undecided("the setup of the replayed scenario did not establish its state: %s" % ctx.unestablished[:1])
    ctx.log("replayed 1 scenario: %d rejected; outcomes %s" % (len(rej), json.dumps(summ["outcomes"], sort_keys=True)))
