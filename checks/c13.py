"""C13 - core stanzas and errors encode consistently and round-trip.
A: TLC design check MCCodec (stack automaton = grammar of balanced fragments on every token sequence
   up to a bound; reply helpers and error normal forms as state machines over the whole domain).
B: TLC enumerates every abstract IQ / message / presence / stanza error / stream error / helper
   scenario of tla/Stanza.tla.
C: harness/cmd/codec runs xml.Marshal, Wrap/StartElement, TokenReader, WriteXML and every decoder
   (xml.Unmarshal, token decoder, NewIQ/NewMessage/NewPresence, UnmarshalError, UnmarshalIQError)
   of the real library on each value; plain struct values are sent through real sessions (Encode,
   EncodeElement, EncodeIQ/Message/Presence(+Element): the token-reader path of internal/marshal),
   two at a time, and what arrives on the wire is decoded; TLC (TrCodec) decides the laws on the
   observations."""
import json
import verif
import codeccommon as cc

TYPES = ["iq", "message", "presence", "iq.help", "message.help", "presence.help", "stanzaerror", "streamerror", "encode.pair",
         "reuse.core"]

MC_CFG = '''CONSTANTS
  Tier = "%(tier)s"
  Dev = {}
  MaxLen = %(maxlen)d
  Modes = {"automaton", "reply", "error"}
SPECIFICATION Spec
INVARIANT C13_AutomatonExact
INVARIANT C13_AutomatonAgreesWithFunction
INVARIANT C13_ReplyInDomain
INVARIANT C13_DoubleReplyRestores
INVARIANT C13_NormInDomain
INVARIANT C13_NormIdempotent
PROPERTY C13_ReplySwaps
CHECK_DEADLOCK FALSE
'''
PROPS = ["C13_AutomatonExact", "C13_AutomatonAgreesWithFunction", "C13_ReplyInDomain", "C13_DoubleReplyRestores",
         "C13_NormInDomain", "C13_NormIdempotent", "C13_AppIsForeign", "C13_ReplySwaps"]


def run(ctx):
    quick = ctx.tier == "quick"
    mc = ctx.model_check("MCCodec", MC_CFG % dict(tier="quick", maxlen=5 if quick else 6), PROPS,
                         workers=4 if quick else 8, timeout=1200, heap="3g" if quick else "6g")
    if ctx.replay:
        case = json.load(open(ctx.replay))["case"]
        sym, _, counts = cc.emit(ctx, [], tier="thorough")
        vec = ctx.path("replay.ndjson")
        open(vec, "w").write(json.dumps({"ty": case["ty"], "v": case["v"]}) + "\n")
        counts = {case["ty"]: 1}
        tier = "thorough"       # the larger domain contains the quick one
    else:
        sym, vec, counts = cc.emit(ctx, TYPES)
        tier = ctx.tier
    obs, tls, summ = cc.drive(ctx, sym, vec)
    rej, rtl, r = cc.validate(ctx, obs, tls, tier=tier)
    ctx.log("TLC decided %d observations / %d distinct token lists: %d rejected (%d states, %.1fs)" % (
        r.checked_obs, r.checked_tls, len(rej), r.distinct, r.wall))
    if not ctx.replay and r.checked_obs != sum(counts.values()):
        raise verif.Undecided("observations %d != vectors emitted %d" % (r.checked_obs, sum(counts.values())))
    nviol = cc.report(ctx, sym, obs, tls, rej, rtl, "C13")
    nself = (cc.selftest_binding(ctx, obs, tls, tier=tier) + cc.selftest_kept(ctx, obs, tier=tier, rejected=rej)) if not ctx.replay else 0
    if ctx.replay:
        return          # a replay re-runs one stored case; the evidence file of the last full run is kept
    ctx.write_evidence("model_checking", {
        "states": mc.distinct, "transitions": mc.generated,
        "traces_validated_against_impl": r.checked_obs,
        "evaluations": r.checked_obs, "distinct_nontrivial": r.checked_tls,
        "trace_states": r.distinct, "token_lists_walked_by_automaton": r.checked_tls,
        "values_per_type": counts, "rejected_observations": len(rej), "rejected_token_lists": len(rtl),
        "violation_classes": nviol, "binding_selftest_mutants_rejected": nself,
        "library_panics_caught": summ["panics"],
        "exhaustive": True,
        "rule": "every abstract value of Stanza.tla (full product of the %s symbol sets) is one vector; "
                "error texts: stanza errors carry every subset of 4 (language, text) pairs (a map: 0-4 texts, up to three different tags), "
                "stream errors every sequence of 0-3 texts over the language tags of ErrLangs in every order (plus repeated tags / empty texts up to 2); "
                "application-specific conditions: none / an ordinary foreign element on every error, and for every defined condition every foreign element whose local name collides with a name the codec treats specially "
                "(text, error, iq, message, presence, the condition names - quick: the error's own and one other -, in the application's namespace and in the other error namespace; thorough also the stream and stanza namespaces), with a nested <text/> of the error's own namespace; "
                "decoded values are VALUES (aliasing): for IQ / message / presence / stanza error / stream error every ordered pair of documents a, b (errors with 0, 1, 2, 3 texts that all differ; stanzas that differ in every attribute) is decoded one after the other into ONE variable, from bytes and from tokens; a copy of the variable taken by assignment after the first decode must still be what a fresh decode of a gives after b was decoded and after both were encoded (leaves the type reaches through a map or a pointer are shared by the language and exempt: stanza.Error.Text); "
                "plain values through a session (internal/marshal): every pair (outer call, inner call made from inside the outer call's first transport write on a second session) over the 8 Encode entry points x stanza kinds x types that do not wait x short / longer-than-buffer bodies; "
                "distinct_nontrivial = distinct abstract token lists (names, attribute names, nesting) produced by all encoders" % tier,
        "laws": ["InDomain", "Complete", "NoFailure", "WellFormed", "PathsAgree", "RoundTrip (incl. helper expectations st/result/errreply/payload/err/iqerr)",
                 "Reuse / Kept (decoding into a used receiver: no panic, the new value is what the document gives or an accumulation; a copy of the earlier value is not changed)"],
        "design_check": "MCCodec: all token sequences of length <= %d over 7 tokens; reply helpers and error normal forms over the whole domain" % (5 if quick else 6),
        "samples": summ["samples"][:2],
    }, assumptions=[
        "stanza structs marshalled by xml.Marshal are decoded inside a stream whose default namespace is the stanza's (Marshal writes no xmlns: the struct tag wins over XMLName.Space)",
        "text alphabet: the symbols of Stanza.tla (XML specials, quotes, non-ASCII incl. astral, blanks/newline/tab, CDATA end, CRLF); characters that XML 1.0 cannot carry are not quantified",
        "type fields range over the defined constants only (the property's quantifier)",
        "equivalence = equality of the abstract projection (addresses by canonical string, XMLName by namespace and local name)",
        "plain values through a session: client namespace, non-empty ids, stanza types after which the typed calls do not wait for an answer; the second call is made by the transport of the first (the only caller code that runs inside a transmit call), in one goroutine pinned to one P"])
