"""Family "framing" (growth beyond C01-C20): the stream framings and session kinds of the library - WebSocket
framing (RFC 7395, package websocket), component sessions (XEP-0114, package component), server-to-server
specifics (package s2s / XEP-0288, xmpp.NewServerSession / ReceiveServerSession) next to the TCP kinds.
Specification tla/Framing.tla.

Pipeline A: TLC explores MCFraming (the reference library over every scenario of the universe: session kind x
role x constructor x configuration x negotiation script incl. malformed / cross-framing items x established
script of peer items and local Close / Send calls) and checks the properties F_*; one liveness run; one run per
named deviation that MUST fail with the property it is meant for.
Pipeline B: TLC (tla/EmitFraming.tla) emits the scenario universe as JSON.
Pipeline C: harness/cmd/framing runs every scenario through the REAL constructors (websocket.NewSession /
ReceiveSession / Negotiator, component.NewSession / Negotiator, xmpp.New/Receive[Client|Server]Session) and Serve
and records what was fed, what was written (classified into framing-level items), handler invocations, results
and state bits; TLC validates every trace against the observer layer (tla/TrFraming.tla).  A rejected trace is
diagnosed by re-validating it against each property alone.

run_part(ctx) returns a coverage dict; violations go through ctx.violation with `what` starting "framing:"."""
import json, os, random, re, subprocess, time
from concurrent.futures import ThreadPoolExecutor
import verif

PROPS = ["F_Framing", "F_OpenCount", "F_HdrAttrs", "F_Stanza", "F_CloseOnce", "F_Calls", "F_Serve", "F_Handler",
         "F_Establish", "F_Addr", "F_Digest", "F_Bidi", "F_Bits"]
# deviation -> the property it must break (non-vacuity)
DEV = {
    "WsCloseAsTcp": "F_Framing", "WsHeaderAfterRestart": "F_Framing", "ComponentClientNs": "F_Framing",
    "NoRestartHeader": "F_OpenCount", "HeaderNoTo": "F_HdrAttrs", "S2SHeaderNoFrom": "F_HdrAttrs", "RecvHeaderNoId": "F_HdrAttrs",
    "StanzaNoNsOnWs": "F_Stanza", "S2SNoFrom": "F_Stanza", "ComponentStanzaClientNs": "F_Stanza",
    "DoubleClose": "F_CloseOnce", "CloseOnRestart": "F_CloseOnce", "SendAfterClose": "F_Calls",
    "PeerCloseError": "F_Serve", "NoCloseReply": "F_Serve", "StreamErrorNil": "F_Serve", "CrossHeaderNil": "F_Serve",
    "WsPeerCloseHanded": "F_Handler", "StreamErrorHanded": "F_Handler", "NestedCloseEndsStream": "F_Handler",
    "AcceptCrossHeader": "F_Establish", "S2SRecvRejectsFrom": "F_Establish", "BidiRequestRefused": "F_Establish",
    "ReadyOnRefusal": "F_Establish", "ReadyWithoutAck": "F_Establish", "ReadyBitOnFailure": "F_Establish",
    "S2SRecvIgnoresArgs": "F_Addr", "AddrSwapped": "F_Addr",
    "DigestUpper": "F_Digest", "HandshakeBeforeHeader": "F_Digest",
    "BidiUnasked": "F_Bidi", "BidiNotRequested": "F_Bidi", "OutClosedBitLost": "F_Bits",
}
EXPLAIN = {
    "F_Framing": "the library wrote an opening / closing element of ANOTHER framing (or a header in the wrong content namespace) "
                 "(RFC 7395 3.3: <open/> / <close/>; RFC 6120 4.2/4.4: <stream:stream> / </stream:stream>; XEP-0114: jabber:component:accept)",
    "F_OpenCount": "not exactly one stream header per (re)start, or something was written before the first header (RFC 6120 4.3.3, RFC 7395 3.4/3.7)",
    "F_HdrAttrs": "the library's stream header lacks a documented attribute (to / s2s from: RFC 6120 4.7.1-2; response id: 4.7.3; version: 4.7.5)",
    "F_Stanza": "a stanza was written in the wrong namespace / without the from an s2s stream needs (RFC 7395 3.3.3, RFC 6120 4.8.2, 8.1.2.1)",
    "F_CloseOnce": "more than one closing element, or something written after it (Session.Close doc, RFC 6120 4.4, RFC 7395 3.7)",
    "F_Calls": "Close did not write exactly one closing element / Send did not fail (and write nothing) on a closed output stream (Close / OutputStreamClosed doc)",
    "F_Serve": "Serve did not end as documented: nil after the peer's closing element (with the library's own closing element written), the stream error "
               "after a peer stream error, an error after the other framing's header / closing tag, never before the peer ended the stream",
    "F_Handler": "the handler did not get exactly the stanzas, once and in order - or it was handed a stream header / closing element / stream error "
                 "(Serve doc; RFC 7395 3.3.1: <close/> is the END of the stream)",
    "F_Establish": "the constructor did not succeed exactly when the peer completed a compliant negotiation of the session's own framing "
                   "(RFC 6120 4.7.1 / 4.8, RFC 7395 3.4, XEP-0114 3, XEP-0288 2; Ready bit doc)",
    "F_Addr": "LocalAddr / RemoteAddr of the established session are not the addresses the constructor was given (LocalAddr / RemoteAddr doc)",
    "F_Digest": "the component handshake is not the lower-case hex SHA-1 of stream id + secret, sent once after the server's header (XEP-0114 3)",
    "F_Bidi": "the bidi request was not sent exactly when the peer offered it and the feature is configured (XEP-0288 2)",
    "F_Bits": "a state bit contradicts the session (Received / S2S / OutputStreamClosed / InputStreamClosed docs)",
}
SMALL = "1g -XX:TieredStopAtLevel=1 -XX:ParallelGCThreads=2"
BIG = "3g -XX:ParallelGCThreads=4"


def mc_cfg(tier, dev=(), spec="Spec", inv=(), props=()):
    c = 'CONSTANTS\n  Dev = %s\n  Tier = "%s"\n  Scenarios <- Universe\nSPECIFICATION %s\n' % (verif.tla_value(set(dev)), tier, spec)
    c += "".join("INVARIANT %s\n" % i for i in inv) + "".join("PROPERTY %s\n" % p for p in props)
    return c + "CHECK_DEADLOCK FALSE\n"


def design_checks(ctx):
    quick = ctx.tier == "quick"
    tiers = ["quick"] if quick else ["quick", "deep3", "deep4"]
    with ThreadPoolExecutor(max_workers=6 if quick else 10) as ex:
        safe = [ex.submit(ctx.model_check, "MCFraming", mc_cfg(t, inv=PROPS), PROPS, name="MCFraming_safe_" + t,
                          workers=3 if quick else max(3, verif.NCPU // 4), timeout=2400, heap=BIG) for t in tiers]
        live = ex.submit(ctx.model_check, "MCFraming", mc_cfg("tiny" if quick else "quick", spec="FairSpec", props=["F_Terminates"]), ["F_Terminates"],
                         name="MCFraming_live", workers=2, timeout=2400, heap=SMALL if quick else BIG)
        devs = [(d, p, ex.submit(ctx.tlc, "MCFraming", mc_cfg("tiny", dev=[d], inv=[p]), name="MCFraming_" + d, workers=1, timeout=900, heap=SMALL))
                for d, p in DEV.items()]
        rs, rl = [f.result() for f in safe], live.result()
        for d, p, f in devs:
            r = f.result()
            if r.rc == 0 or p not in r.violated:
                raise verif.Undecided("design check MCFraming: deviation %s is not caught by %s (vacuous property?)\n%s" % (d, p, r.out[-1500:]))
    ctx.log("design checks: %d deviations, each caught by the property it is meant for" % len(DEV))
    return rs, rl


# ------------------------------------------------------------------------------------------ scenarios
def emit(ctx):
    r = ctx.tlc("EmitFraming", mc_cfg("tiny", spec="ESpec"), workers=1, timeout=900, name="EmitFraming", heap=BIG)
    f = os.path.join(r.dir, "framing-scenarios.json")
    if r.rc != 0 or not os.path.exists(f):
        raise verif.Undecided("EmitFraming failed:\n%s" % r.out[-2000:])
    u = json.load(open(f))
    os.remove(f)
    return u, r.wall


def deep_universe(u, which):
    """UniverseOf("deep3") / UniverseOf("deep4") of MCFraming.tla, multiplied out from the factors TLC emitted."""
    out = []
    for l in u["live"]:
        if which == "deep4" and not l["deep4"]:
            continue
        n = 3 if which == "deep3" else 4
        for s in u["estws" if l["cfg"]["kind"] == "ws" else "esttcp"]:
            if len(s) <= n:
                out.append(dict(l["cfg"], script=list(l["good"]) + list(s)))
    return out


def scenarios(ctx):
    """quick: the whole `quick` universe + a seeded sample of the deeper ones; thorough: everything."""
    u, wall = emit(ctx)
    key = lambda s: json.dumps(s, sort_keys=True)
    base = sorted(u["quick"], key=key)
    deep = {key(s): s for w in ("deep3", "deep4") for s in deep_universe(u, w)}
    for s in base:
        deep.pop(key(s), None)
    deep = [deep[k] for k in sorted(deep)]
    counts = {w: len(deep_universe(u, w)) for w in ("deep3", "deep4")}
    n_deep = len(deep)
    if ctx.tier == "quick":
        deep = random.Random(ctx.seed).sample(deep, min(len(deep), 1500))
    ctx.log("TLC emitted %d scenarios (quick universe) and the factors of %d deeper ones (%d used) in %.1fs" % (len(base), n_deep, len(deep), wall))
    return base + deep, len(base), n_deep, counts


# ------------------------------------------------------------------------------------------ driver, validation
def drive(ctx, scen):
    b = ctx.go_build("framing")
    shards = max(1, min(verif.NCPU // 2, len(scen) // 400 + 1))
    sf = ctx.path("framing-scen.ndjson")
    with open(sf, "w") as f:
        for s in scen:
            f.write(json.dumps(s) + "\n")
    procs = []
    for i in range(shards):
        tf = ctx.path("framing-trace-%d.ndjson" % i)
        env = dict(verif.GOENV, FRAMING_SHARD="%d/%d" % (i, shards), GOMAXPROCS="2", VERIF_SEED=str(ctx.seed))
        procs.append((tf, subprocess.Popen([b, "run", sf, tf], env=env, cwd=ctx.scratch, stdout=subprocess.PIPE, stderr=subprocess.STDOUT, text=True)))
    summ = {"traces": 0, "events": 0, "evaluations": 0, "samples": [], "writes": 0, "writes_not_one_element": 0, "ws_writes": 0,
            "ws_writes_not_one_element": 0}
    files, died = [], []
    for tf, p in procs:
        try:
            out, _ = p.communicate(timeout=2400)
        except subprocess.TimeoutExpired:
            p.kill()
            raise verif.Undecided("framing driver timed out")
        if p.returncode != 0 or "SUMMARY " not in out:
            m = re.findall(r"^SCENARIO (\d+)$", out, re.M)
            if m and ("panic:" in out or "fatal error:" in out):
                died.append((scen[int(m[-1])], out[-2500:]))      # a goroutine the library started itself died
                continue
            raise verif.Undecided("framing driver failed (exit %s):\n%s" % (p.returncode, out[-3000:]))
        s = json.loads(out[out.rindex("SUMMARY ") + 8:])
        for k in ("traces", "events", "evaluations"):
            summ[k] += s[k]
        for k, v in (s.get("extra") or {}).items():
            summ[k] += v
        summ["samples"] += s["samples"][:1]
        files.append(tf)
    return files, summ, died


def merge(ctx, files, name, parts=1):
    """Concatenate per-shard batch trace files into `parts` files, renumbering t / end.
    Returns ([paths], {t: meta}, {t: events})."""
    traces = []
    for fn in files:
        if not os.path.exists(fn):
            continue
        metas = {m["t"]: m["meta"] for m in verif.read_ndjson(fn + ".meta")} if os.path.exists(fn + ".meta") else {}
        for t, evs in verif.split_traces(verif.read_ndjson(fn)).items():
            traces.append((metas.get(t, {}), [{k: v for k, v in e.items() if k != "_line"} for e in evs]))
    traces.sort(key=lambda x: x[0].get("n", 0))
    paths, meta, byt = [], {}, {}
    per = (len(traces) + parts - 1) // parts if traces else 1
    for pi in range(parts):
        chunk = traces[pi * per:(pi + 1) * per]
        if not chunk:
            continue
        path = ctx.path("%s-%d.ndjson" % (name, pi))
        line = 0
        with open(path, "w") as w:
            for j, (m, evs) in enumerate(chunk):
                t = pi * per + j + 1
                evs[0]["t"] = t
                evs[0]["end"] = line + len(evs) + 1
                for e in evs:
                    w.write(json.dumps(e) + "\n")
                line += len(evs)
                meta[t] = m
                byt[t] = evs
        paths.append(path)
    return paths, meta, byt


def validate(ctx, trace, only=None, name="TrFraming"):
    cfg = "CONSTANTS\n  Dev = {}\n  Scenarios = {}\n  Only = %s\nSPECIFICATION TSpec\nCONSTRAINT HW\nPOSTCONDITION Accepted\nCHECK_DEADLOCK FALSE\n" % (
        verif.tla_value(set(only or PROPS)))
    r = ctx.tlc("TrFraming", cfg, files={"trace.ndjson": trace}, workers=1, timeout=2400, xss=True, deque=True, name=name, heap=BIG)
    rejected = {}
    body = r.printed("REJECTED")
    if body:
        for m in re.finditer(r"<<(\d+),\s*(\d+)>>", body[-1]):
            rejected[int(m.group(1))] = int(m.group(2))
    if not rejected and (r.rc != 0 or r.errors):
        raise verif.Undecided("trace validation TrFraming failed to run:\n%s" % r.out[-5000:])
    return rejected, r


def write_traces(ctx, traces, name):
    """traces: list of event lists (first = reset); writes one batch file with t = 1.."""
    p = ctx.path(name)
    line = 0
    with open(p, "w") as f:
        for k, evs in enumerate(traces):
            evs = [dict(e) for e in evs]
            evs[0]["t"] = k + 1
            evs[0]["end"] = line + len(evs) + 1
            for e in evs:
                f.write(json.dumps(e) + "\n")
            line += len(evs)
    return p


def diagnose(ctx, rejected_traces):
    """Which property rejects each trace?  One TLC run per property over the rejected traces only."""
    p = write_traces(ctx, rejected_traces, "framing-rejected.ndjson")
    res = {i: [] for i in range(len(rejected_traces))}
    with ThreadPoolExecutor(max_workers=7) as ex:
        runs = list(ex.map(lambda pr: (pr, validate(ctx, p, only=[pr] if pr else None, name="TrFraming_" + (pr or "all"))[0]), [None] + PROPS))
    full = runs[0][1]
    for pr, rej in runs[1:]:
        for t, hw in rej.items():
            if full.get(t) == hw:        # the property rejects the very event the whole specification rejects
                res[t - 1].append(pr)
    return res


def sc_desc(sc):
    d = "%s/%s via %s" % (sc["kind"], sc["role"], {"pkg": "the kind's own constructor", "gen": "xmpp.NewSession/ReceiveSession + the kind's Negotiator"}[sc["via"]])
    extra = [k for k in ("restart", "bidi", "secure") if sc.get(k)]
    if sc["kind"] == "comp":
        extra.append("secret=" + sc["secret"])
    if sc["kind"] == "s2s" and sc["role"] == "recv" and sc["via"] == "pkg":
        extra.append("args=" + sc["args"])
    return d + (" [" + ", ".join(extra) + "]" if extra else "") + " script " + ",".join(sc["script"])


def last_item(evs, idx):
    it = ""
    for e in evs[1:idx + 1]:
        if e.get("ev") == "feed":
            it = e["item"]
        elif e.get("ev") == "call":
            it = e["call"]
    return it


def judge(ctx, files):
    parts = 1 if ctx.tier == "quick" else 8
    paths, meta, byt = merge(ctx, files, "framing-trace", parts=parts)
    if not meta:
        return 0, 0, 0, paths
    with ThreadPoolExecutor(max_workers=parts) as ex:
        results = list(ex.map(lambda ip: validate(ctx, ip[1], name="TrFraming_%d" % ip[0]), enumerate(paths)))
    rej = {}
    for r, _ in results:
        rej.update(r)
    known = 0
    if rej:
        ts = sorted(rej)
        diag = diagnose(ctx, [byt[t] for t in ts])
        groups = {}
        for n, t in enumerate(ts):
            evs = byt[t]
            base = evs[0]["end"] - len(evs) - 1          # rej[t] is the 1-based line within the part file
            idx = rej[t] - base - 1
            ev = evs[idx] if 0 <= idx < len(evs) else None
            sc = evs[0]["sc"]
            props = diag[n] or ["(no single property: the event sequence itself is impossible)"]
            if ev and ev.get("ev") == "stuck":
                props = ["stall"]
            if ev and ev.get("err") == "panic":
                props = ["panic"]
            item = last_item(evs, idx if ev else len(evs) - 1)
            fields = {"kind": sc["kind"], "role": sc["role"], "via": sc["via"], "prop": props[0], "rejected_event": (ev or {}).get("ev"), "last_item": item}
            f = ctx.match_finding("framing", fields)
            if f:
                ctx.known_finding(f, "trace %d" % t)
                known += 1
                continue
            key = (tuple(props), sc["kind"], (ev or {}).get("ev"), (ev or {}).get("t", ""))
            groups.setdefault(key, []).append((t, ev, sc, props, item))
        for key, lst in sorted(groups.items(), key=lambda x: str(x[0])):
            lst.sort(key=lambda x: (len(x[2]["script"]), x[0]))          # show the shortest script of the group
            t, ev, sc, props, item = lst[0]
            expl = "; ".join(EXPLAIN.get(p, p) for p in props)
            if props == ["stall"]:
                expl = "permanent stall: the constructor / Serve never returned"
            if props == ["panic"]:
                expl = "panic in library code: %s" % ev.get("msg")
            vias = sorted({x[2]["via"] for x in lst})
            roles = sorted({x[2]["role"] for x in lst})
            what = "framing: %s: %s - on %s; after %s the event %s is not allowed [%d traces like this: roles %s, constructors %s]" % (
                "+".join(props), expl, sc_desc(sc), item or "(start)", json.dumps(ev, sort_keys=True)[:300], len(lst), "/".join(roles), "/".join(vias))
            ctx.violation(what, {"family": "framing", "scenario": meta[t].get("scenario"), "trace": byt[t], "rejected_event": ev,
                                 "properties": props, "similar": len(lst)})
    return len(meta), len(rej), known, paths


def selftest(ctx, paths):
    """Binding self-test: corrupt recorded fields of accepted traces; TLC must reject each, and accept the originals."""
    trs = {}
    for p in paths[:1]:
        for t, evs in verif.split_traces(verif.read_ndjson(p)).items():
            trs[t] = [{k: v for k, v in e.items() if k != "_line"} for e in evs]
    def find(pred):
        for evs in trs.values():
            try:
                if pred(evs):
                    return [dict(e) for e in evs]
            except (KeyError, IndexError, StopIteration):
                pass
        raise verif.Undecided("binding self-test: no suitable trace")
    first = lambda evs, f: next(k for k, e in enumerate(evs) if f(e))
    has = lambda evs, f: any(f(e) for e in evs)
    is_w = lambda t: (lambda e: e.get("ev") == "w" and e.get("t") == t)
    ev = lambda n: (lambda e: e.get("ev") == n)
    sc = lambda evs: evs[0]["sc"]
    good = lambda evs: has(evs, lambda e: e.get("ev") == "serve_ret" and e["err"] == "nil")
    ws = lambda evs: sc(evs)["kind"] == "ws" and sc(evs)["script"][-2:] == ["msg", "close"] and good(evs) and has(evs, is_w("close_ws"))
    tcp = lambda evs: sc(evs)["kind"] == "c2s" and sc(evs)["role"] == "init" and sc(evs)["script"][-2:] == ["Close", "Send"] and has(evs, ev("serve_ret"))
    comp = lambda evs: sc(evs)["kind"] == "comp" and has(evs, is_w("hs")) and has(evs, lambda e: e.get("ev") == "ctor" and e["err"] == "nil")
    s2s = lambda evs: sc(evs)["kind"] == "s2s" and sc(evs)["role"] == "init" and sc(evs)["script"][-2:] == ["Send", "close"] and good(evs)
    serr = lambda evs: sc(evs)["script"][-1] == "serr" and has(evs, lambda e: e.get("ev") == "serve_ret" and e["err"] == "stream")
    rst = lambda evs: sc(evs)["kind"] == "ws" and sc(evs)["restart"] and sc(evs)["role"] == "init" and has(evs, lambda e: e.get("ev") == "ctor" and e["err"] == "nil")
    bad = lambda evs: sc(evs)["script"][:1] == ["xopen"] and has(evs, lambda e: e.get("ev") == "ctor" and e["err"] != "nil")
    base = [find(ws), find(tcp), find(comp), find(s2s), find(serr), find(rst), find(bad)]
    muts = []
    def mut(name, src, f):
        m = [json.loads(json.dumps(e)) for e in src]
        f(m)
        muts.append((name, m))
    mut("WebSocket session closes with </stream:stream>", base[0], lambda m: m[first(m, is_w("close_ws"))].update(t="close_tcp", n="stream", ns="streams"))
    mut("the peer's <close/> reaches the handler", base[0], lambda m: m.insert(first(m, is_w("close_ws")), {"ev": "h", "n": "close", "ns": "framing"}))
    mut("the stanza never reaches the handler", base[0], lambda m: m.pop(first(m, ev("h"))))
    mut("the stanza reaches the handler twice", base[0], lambda m: m.insert(first(m, ev("h")), dict(m[first(m, ev("h"))])))
    mut("Serve returns an error after the peer's <close/>", base[0], lambda m: m[first(m, ev("serve_ret"))].update(err="other"))
    mut("no closing element in answer to the peer's", base[0], lambda m: (m.pop(first(m, is_w("close_ws"))), m[first(m, ev("serve_ret"))].update(outclosed=False)))
    mut("another item was fed than the script says", base[0], lambda m: m[first(m, lambda e: e.get("ev") == "feed" and e["item"] == "msg")].update(item="iq"))
    mut("Close writes a second closing element", base[1], lambda m: m.insert(first(m, is_w("close_tcp")), dict(m[first(m, is_w("close_tcp"))])))
    mut("Send after Close returns nil", base[1], lambda m: m[first(m, lambda e: e.get("ev") == "ret" and e["call"] == "Send")].update(err="nil"))
    mut("OutputStreamClosed bit lost", base[1], lambda m: m[first(m, lambda e: e.get("ev") == "ret" and e["call"] == "Close")].update(outclosed=False))
    mut("TCP session opens with <open/>", base[1], lambda m: m[first(m, is_w("hdr"))].update(t="open", n="open", ns="framing"))
    mut("handshake digest in upper case", base[2], lambda m: m[first(m, is_w("hs"))].update(x="case"))
    mut("handshake sent twice", base[2], lambda m: m.insert(first(m, is_w("hs")), dict(m[first(m, is_w("hs"))])))
    mut("component header in jabber:client", base[2], lambda m: m[first(m, is_w("hdr"))].update(ns="client"))
    mut("component not ready although the constructor returned nil", base[2], lambda m: m[first(m, ev("ctor"))].update(ready=False))
    mut("s2s stanza without from", base[3], lambda m: m[first(m, is_w("stanza"))].update({"from": ""}))
    mut("s2s stanza in jabber:client", base[3], lambda m: m[first(m, is_w("stanza"))].update(ns="client"))
    mut("s2s header without from", base[3], lambda m: m[first(m, is_w("hdr"))].update({"from": ""}))
    mut("LocalAddr is the peer's address", base[3], lambda m: m[first(m, ev("ctor"))].update(local="example.net"))
    mut("S2S bit missing", base[3], lambda m: m[first(m, ev("ctor"))].update(s2sbit=False))
    mut("Serve returns nil after a stream error", base[4], lambda m: m[first(m, ev("serve_ret"))].update(err="nil", msg=""))
    mut("the stream error reaches the handler", base[4], lambda m: m.insert(first(m, ev("serve_ret")), {"ev": "h", "n": "error", "ns": "streams"}))
    mut("no new <open/> after the restart", base[5], lambda m: m.pop(len(m) - 1 - first(m[::-1], is_w("open"))))
    mut("<stream:stream> after the restart", base[5], lambda m: m[len(m) - 1 - first(m[::-1], is_w("open"))].update(t="hdr", n="stream", ns="client"))
    mut("the other framing's header is accepted", base[6], lambda m: m[first(m, ev("ctor"))].update(err="nil", ready=True))
    p = write_traces(ctx, base + [m for _, m in muts], "framing-selftest.ndjson")
    rej, _ = validate(ctx, p, name="TrFraming_selftest")
    badb = [k + 1 for k in range(len(base)) if k + 1 in rej]
    if badb:
        raise verif.Undecided("binding self-test: unchanged traces %s rejected" % badb)
    missed = [muts[k][0] for k in range(len(muts)) if len(base) + k + 1 not in rej]
    if missed:
        raise verif.Undecided("binding self-test: corrupted traces ACCEPTED: %s" % missed)
    return len(muts)


def run_part(ctx):
    bg = ThreadPoolExecutor(max_workers=1)
    design = bg.submit(design_checks, ctx)          # pipeline A runs beside generation and the driver
    try:
        if ctx.replay:
            scen, n_base, n_deep, counts = [json.load(open(ctx.replay))["case"]["scenario"]], 1, 0, {}
        else:
            scen, n_base, n_deep, counts = scenarios(ctx)
        t0 = time.time()
        files, summ, died = drive(ctx, scen)
        ctx.log("ran %d scenarios through the real constructors: %d traces, %d events in %.1fs" % (len(scen), summ["traces"], summ["events"], time.time() - t0))
        for sc, out in died[:5]:
            m = re.search(r"(panic: [^\n]*|fatal error: [^\n]*)", out)
            ctx.violation("framing: the driver process died in a goroutine of the library (%s) in scenario %s" % (m.group(1) if m else "?", json.dumps(sc)[:300]),
                          {"family": "framing", "scenario": sc, "output": out})
        t1 = time.time()
        n, nrej, known, paths = judge(ctx, files)
        ctx.log("TLC validated %d traces (%d rejected, %d of them known findings) in %.1fs" % (n, nrej, known, time.time() - t1))
        nself = 0
        if not ctx.replay and not ctx.violations:
            nself = selftest(ctx, paths)
            ctx.log("binding self-test: %d corrupted traces rejected" % nself)
    finally:
        rs, rl = design.result()
    for r in rs:           # the universes python multiplied out are the ones TLC explored
        w = (r.dir and os.path.basename(r.dir).split("-")[1]).replace("MCFraming_safe_", "")
        m = re.search(r"Finished computing initial states: (\d+) distinct state", r.out)
        if w in counts and m and int(m.group(1)) != counts[w]:
            raise verif.Undecided("universe %s: TLC explored %s scenarios, the composed set has %d" % (w, m.group(1), counts[w]))
    kinds = sorted({"%s/%s/%s" % (s["kind"], s["role"], s["via"]) for s in scen})
    return {
        "states": sum(r.distinct for r in rs), "transitions": sum(r.generated for r in rs), "liveness_states": rl.distinct,
        "design_check_runs": {(r.dir and os.path.basename(r.dir).split("-")[1]): r.distinct for r in rs}, "deviations_caught": len(DEV),
        "scenarios": len(scen), "quick_universe": n_base, "deep_universe": n_deep, "evaluations": summ["evaluations"],
        "traces_validated_against_impl": summ["traces"], "trace_events": summ["events"], "rejected": nrej, "known_findings_matched": known,
        "driver_deaths": len(died), "binding_selftest_mutants_rejected": nself, "distinct_nontrivial": len(kinds), "session_kinds": kinds,
        "transport_writes": summ["writes"], "transport_writes_not_exactly_one_element": summ["writes_not_one_element"],
        "ws_transport_writes": summ["ws_writes"], "ws_transport_writes_not_exactly_one_element": summ["ws_writes_not_one_element"],
        "properties": PROPS, "samples": summ["samples"][:2],
        "rule": "every scenario of the universe emitted by TLC: session kind (c2s, s2s, ws, component) x role x constructor (the kind's own / the generic one with "
                "the kind's Negotiator) x configuration (restarting feature, bidi, Secure, component secret, ReceiveServerSession arguments) x negotiation script "
                "(compliant; a wrong item - the other framing's header, a header in a wrong namespace, a stream error, a stanza, the end of the transport, a header "
                "naming other addresses - after / instead of every prefix) x established script (stanzas, closing element, see-other-uri, the other framing's "
                "header / closing element, stream error, end of transport, local Close / Send at every position, local calls after the end; length <= 2 exhaustive, "
                "<= 4 sampled in the quick tier, exhaustive in the thorough tier)",
    }
