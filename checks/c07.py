"""C07 - every incoming get/set IQ is answered exactly once; replies are never answered.
A: TLC design check of the reply part of tla/ServeLoop.tla; B: TLC evaluates the reference
function C07_Replies on (session kind x element (type, id, from, to, namespace, payload) x
handler program x mode) vectors, each followed by a sentinel request; C: one real served session
per vector (TCP client / server, WebSocket, received, library-negotiated with binding), the
parsed output must be one of the acceptable outputs."""
import json
from concurrent.futures import ThreadPoolExecutor

import verif
import servecommon as sc


def run(ctx):
    quick = ctx.tier == "quick"
    out = ctx.path("c07_out.ndjson")
    if ctx.replay and json.load(open(ctx.replay))["case"].get("family") == "push":
        import pushcommon
        ctx.write_evidence("model_checking", {"replayed": ctx.replay, "push_handlers": pushcommon.run_part(ctx)})
        return
    if ctx.replay:
        case = json.load(open(ctx.replay))["case"]
        vf = ctx.path("replay_vec.ndjson")
        open(vf, "w").write(json.dumps(case["vector"]) + "\n")
        summ = sc.run_driver(ctx, "reply", [out, vf])
        for m in verif.read_ndjson(out):
            ctx.violation(describe(m), m)
        ctx.log("replayed 1 case: %d mismatches" % summ["mismatches"])
        return

    # growth family: the library's own IQ handlers and responders (roster / blocklist pushes, ping, version, time, disco info,
    # bits of binary) answer every request exactly once - also requests whose payload they cannot decode - and apply pushes of
    # the account itself only (Push.tla; stand-alone as bin/check XPUSH).  Runs beside the other parts.
    import pushcommon
    bg = ThreadPoolExecutor(max_workers=1)
    pushf = bg.submit(pushcommon.run_part, ctx)
    try:
        main_part(ctx, quick, out, pushf)
    finally:
        bg.shutdown(wait=True)


def main_part(ctx, quick, out, pushf):
    # design checks (and the two non-vacuity runs) beside the emission of the vectors
    ex = ThreadPoolExecutor(max_workers=4)
    jvm = sc.EMIT_JVM
    f1 = ex.submit(ctx.model_check, "MCServeLoop", sc.c07_mc_cfg("C7ItemsMC"), sc.C07_INVS, workers=3, timeout=900, name="MCServeLoop_c07", heap=jvm)
    f2 = ex.submit(ctx.model_check, "MCServeLoop", sc.c07_mc_cfg("C7ItemsSeq", length=2), sc.C07_INVS, workers=3, timeout=900,
                   name="MCServeLoop_c07seq", heap=jvm)
    # non-vacuity: the code-like deviations must break the reply rule: the default reply decided from the start element as the
    # handler left it; an error of the HANDLER for which errors.Is(err, io.EOF) holds taken for the end of the input stream
    fd = ex.submit(ctx.tlc, "MCServeLoop", sc.c07_mc_cfg("C7ItemsMC", dev='{"StartAfterHandler"}'), workers=2, timeout=900, name="MCServeLoop_c07dev", heap=jvm)
    fd2 = ex.submit(ctx.tlc, "MCServeLoop", sc.c07_mc_cfg("C7ItemsMC", dev='{"EOFLikeEndsServe"}'), workers=2, timeout=900, name="MCServeLoop_c07dev2", heap=jvm)
    try:
        res = sc.emit_parallel(ctx, "EmitServeLoop", sc.serve_emit_cfgs(ctx, "c07", 4 if quick else 6))
    finally:
        ex.shutdown(wait=True)
    mc1, mc2, dv, dv2 = f1.result(), f2.result(), fd.result(), fd2.result()
    if not dv.violated:
        raise verif.Undecided("design self-test: deviation StartAfterHandler violates no invariant of the reply rule:\n" + dv.out[-1500:])
    if not ({"C07_ExactlyOne", "C07_IsReplies"} & set(dv2.violated)):      # whichever a TLC worker reaches first
        raise verif.Undecided("design self-test: deviation EOFLikeEndsServe does not violate C07_ExactlyOne:\n" + dv2.out[-1500:])
    vecs = sc.collect(res, r"c07_vectors_\d+\.ndjson")
    nvec = sum(1 for f in vecs for _ in open(f))
    ctx.log("TLC emitted %d vectors" % nvec)
    summ = sc.run_driver_files(ctx, "reply", out, vecs)
    mism = verif.read_ndjson(out)
    ctx.log("driver: %d served sessions, %d mismatches, %d stalls; %d sessions ended with an error, %d <stream:error/> elements on the wire" % (
        summ["evaluations"], summ["mismatches"], summ["stalls"], summ["terminated_with_error"], summ["stream_error_elements_on_wire"]))
    if summ["stalls"]:
        stalled = [m for m in mism if m["kind"] == "stall"]
        raise verif.Undecided("%d sessions did not finish within the watchdog (not a verdict): %s" % (
            summ["stalls"], json.dumps(stalled[0])[:400]))
    if summ["setup_failures"]:
        raise verif.Undecided("%d sessions could not be made as the specification describes them (not a verdict): %s" % (
            summ["setup_failures"], [m for m in mism if m["kind"] == "setup"][0]["why"][:400]))
    sc.report_grouped(ctx, [m for m in mism if m["kind"] == "reply"], signature, describe)
    nself = selftest(ctx, vecs)
    # requests from the peer whose id collides with a pending request of our own (concurrent with
    # the C06 hand-off): explored under the scheduler, traces validated against Correlate.tla whose
    # trace action "replies" requires exactly one reply per get/set given to the handler
    import corcommon as cc
    import outcommon as oc
    files, csumm = cc.explore(ctx, cc.collision_scenarios(), maxpre=1 if quick else 2, maxruns=150 if quick else 2000)
    ctr, cmeta = oc.merge_traces(ctx, files, "c07-collide.ndjson")
    crej, cr = cc.validate(ctx, ctr)
    ctx.log("id-collision scenarios: %d schedules, %d traces validated, %d rejected" % (csumm["evaluations"], csumm["traces"], len(crej)))
    if crej:
        trs = verif.split_traces(verif.read_ndjson(ctr))
        for t, hw in sorted(crej.items())[:10]:
            ev = [e for e in trs[t] if e["_line"] == hw]
            ctx.violation("request colliding with a pending id not handled as the property requires: %s rejected at %s" % (
                json.dumps(cmeta[t])[:300], json.dumps(ev[0] if ev else None)[:200]),
                {"family": "correlate", "scenario": cmeta[t]["scenario"], "choices": cmeta[t]["choices"], "trace": trs[t], "rejected_line": hw})
    ctx.notes.append("id-collision scenarios (scheduler + Correlate.tla): %d schedules, %d traces, %d rejected" % (csumm["evaluations"], csumm["traces"], len(crej)))
    push = pushf.result()
    ctx.write_evidence("model_checking", {
        "push_handlers": push,
        "states": mc1.distinct + mc2.distinct, "transitions": mc1.generated + mc2.generated,
        "traces_validated_against_impl": summ["evaluations"], "vectors_emitted_by_tlc": nvec,
        "evaluations": summ["evaluations"], "distinct_nontrivial": summ["distinct_classes"],
        "nontrivial_evaluations": summ["nontrivial"], "mismatches": summ["mismatches"],
        "sessions_ended_with_error": summ["terminated_with_error"],
        "stream_error_elements_on_wire": summ["stream_error_elements_on_wire"],
        "binding_selftest_corruptions_rejected": nself,
        "deviation_caught": "StartAfterHandler -> " + ", ".join(dv.violated) + "; EOFLikeEndsServe -> " + ", ".join(dv2.violated),
        "exhaustive": ("quick: every (iq type, id, handler writes, return(3: ok, error, stanza error), mode) x 30 derived combinations with every mutation of the start element(6) 5 times: every (session kind(6: "
                       "initiated c2s / s2s, WebSocket, received c2s / s2s, library-negotiated c2s with binding), from(5: none, own bare, "
                       "own full, other entity, server)) pair x rotating (to(3), namespace(own / the other stanza namespace), payload(4), "
                       "read(4)) + other stanzas on every session kind + every (iq type, id, handler writes, mode) x error VALUE the handler returns (6: io.EOF itself, an error "
                       "wrapping io.EOF, io.ErrUnexpectedEOF, a wrapped stanza error, a stream error value bare / wrapped) x 4 derived combinations" if quick else
                       "full product iq type(6) x id(4) x payload(4) x read(4) x writes(12) x return(3) x mode(3) x 15 derived (with rotating mutation of the start element(6)) "
                       "(session kind(6), from(5), to(3), namespace(2)) combinations + other stanzas on every session kind + the full product with the 6 sentinel-like / wrapped error "
                       "values a handler may return x 2 derived combinations"),
        "rule": "every vector is one real session: negotiation, element under test, sentinel request, closing tag (WebSocket: end of "
                "transport); distinct = (session kind, element kind, type, mode, number of output elements, error) classes; "
                "non-trivial = something was written",
        "samples": summ["samples"][:3],
    }, assumptions=[
        "'terminated with a stream error' is observed as: Serve returns an error and handles nothing more (on this tree the "
        "<stream:error/> element never reaches the wire: sendError does not flush before the closing tag; the repository's "
        "serve tests expect that output)",
        "handler-written stanzas without id get a fresh id from the session (C05); ids of such elements are not compared",
        "no pending requests of the session's own (C06 covers reply hand-off)",
        "a get/set iq qualified by the other stanza namespace (jabber:server on a client stream and vice versa) is an incoming IQ "
        "of the property's quantifier ('client or server namespace'); whether a multiplexer made for the stream's namespace hands it "
        "to a registered handler is left open",
        "WebSocket sessions end with the end of the transport (the framing's closing element is outside C07)"])


def signature(m):
    v = m["vector"]
    needs = v["e"]["kind"] == "iq" and v["e"]["type"] in ("get", "set") and v["e"]["id"] not in ("none", "")
    return (v["mode"] != "plain", v["e"]["kind"], needs, v["e"]["payload"] == "none", v["p"]["w"] in ("notype", "bogustype"),
            v["p"]["ret"], v["p"].get("mut", "none") != "none" and v["p"].get("mut"), bool(m.get("serve_error")), bool(m.get("panic")), m.get("unread", 0) > 0,
            v["hdrdiffers"], v["e"]["from"] in ("none", "own"))


def describe(m):
    v = m["vector"]
    s = v["sess"]
    return ("served %s with handler program %s (mode %s; session %s made by %s negotiator, header names %s address%s; element in the "
            "%s namespace): wire %s, Serve returned %r%s; acceptable per ServeLoop!C07_Replies: %s" % (
                m["input"][:260], json.dumps(v["p"]), v["mode"], s["kind"], s["neg"], s["hdr"], ", bound" if s["bind"] else "",
                v["ens"], m["wire"][:400], m.get("serve_error"),
                (" PANIC " + m["panic"]) if m.get("panic") else "", json.dumps(v["acc"])[:400]))


def selftest(ctx, vecs):
    """corrupt expectations: drop the default reply from an acceptable output, demand a second one,
    demand a stream error; the driver must reject all three and accept the original."""
    base = None
    for l in (l for f in vecs for l in open(f)):
        v = json.loads(l)
        if (v["mode"] == "plain" and v["p"]["w"] == "none" and v["p"]["ret"] == "ok" and v["e"]["type"] == "get"
                and v["e"]["id"] == "a" and v["e"]["from"] == "peer" and len(v["acc"]) == 1 and v["acc"][0][0][0] == "su"):
            base = v
            break
    if base is None:
        raise verif.Undecided("binding self-test: no suitable vector")
    su = base["acc"][0][0]
    m1 = json.loads(json.dumps(base)); m1["acc"] = [base["acc"][0][1:]]
    m2 = json.loads(json.dumps(base)); m2["acc"] = [[su, su] + base["acc"][0][1:]]
    m3 = json.loads(json.dumps(base)); m3["acc"] = [[su, ["serr"]]]
    # the addressee: the request's own addressee, nobody
    m4 = json.loads(json.dumps(base)); m4["acc"] = [[[su[0], su[1], "ownfull"]] + base["acc"][0][1:]]
    m5 = json.loads(json.dumps(base)); m5["acc"] = [[[su[0], su[1], "none"]] + base["acc"][0][1:]]
    vf, of = ctx.path("self7.ndjson"), ctx.path("self7_out.ndjson")
    open(vf, "w").write("".join(json.dumps(x) + "\n" for x in (base, m1, m2, m3, m4, m5)))
    sc.run_driver(ctx, "reply", [of, vf])
    lines = {m["line"] for m in verif.read_ndjson(of)}
    if 1 in lines and not ctx.violations:
        raise verif.Undecided("binding self-test: the unchanged vector was rejected")
    missed = [l for l in (2, 3, 4, 5, 6) if l not in lines]
    if missed and not ctx.violations:
        raise verif.Undecided("binding self-test: corrupted expectations ACCEPTED (lines %s)" % missed)
    if missed:   # the tree under test already violates the property in the very way a corruption describes
        ctx.log("binding self-test: corrupted expectations %s match the (violating) behaviour of this tree" % missed)
    return 5 - len(missed)
