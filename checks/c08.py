"""C08 - handlers see one element at a time; stream-level input never reaches them.
A: TLC design check of the reader part of tla/ServeLoop.tla; B: TLC evaluates the reference
functions (C08_Invocations, C08_Events, C08_Outcomes) on inputs = prefix of continuing items +
one terminating item (+ something behind it) x handler program cycles; C: the Go driver renders
the bytes (client and server namespace), runs the real Serve with a recording handler that
follows the program, and compares invocation list, observed tokens and Serve's outcome class."""
import json

import verif
import servecommon as sc


def run(ctx):
    quick = ctx.tier == "quick"
    out = ctx.path("c08_out.ndjson")
    if ctx.replay:
        case = json.load(open(ctx.replay))["case"]
        vf = ctx.path("replay_vec.ndjson")
        open(vf, "w").write(json.dumps(case["vector"]) + "\n")
        summ = sc.run_driver(ctx, "read", [out, vf])
        for m in verif.read_ndjson(out):
            ctx.violation(describe(m), m)
        ctx.log("replayed 1 case: %d mismatches" % summ["mismatches"])
        return

    import concurrent.futures as cf
    with cf.ThreadPoolExecutor(max_workers=2) as ex:
        fmc = ex.submit(ctx.model_check, "MCServeLoop", sc.c08_mc_cfg("C8InputsMC" if quick else "C8InputsMC3"), sc.C08_INVS, workers=6, timeout=1500,
                        name="MCServeLoop_c08", heap=sc.EMIT_JVM if quick else None)
        # non-vacuity: the code-like deviation (an error of the stream met inside a response that was handed to a waiting requester
        # is reported to the requester only, the serve loop skips on) must break the stream-level rule
        fdv = ex.submit(ctx.tlc, "MCServeLoop", sc.c08_mc_cfg("C8InputsMC", dev='{"HandoffNotSticky"}'), workers=2, timeout=900,
                        name="MCServeLoop_c08dev", heap=sc.EMIT_JVM)
        res = sc.emit_parallel(ctx, "EmitServeLoop", sc.serve_emit_cfgs(ctx, "c08", 4 if quick else 6))
        mc, dv = fmc.result(), fdv.result()
    if not ({"C08_StreamLevelNeverDelivered", "C08_LocalCloseIrrelevant", "C08_IsReference", "C08_ResponseToRequester"} & set(dv.violated)):
        raise verif.Undecided("design self-test: deviation HandoffNotSticky violates none of the stream-level invariants:\n" + dv.out[-1500:])
    vecs = sc.collect(res, r"c08_vectors_\d+\.ndjson")
    nvec = sum(1 for f in vecs for _ in open(f))
    ctx.log("TLC emitted %d vectors" % nvec)
    summ = sc.run_driver_files(ctx, "read", out, vecs)
    mism = verif.read_ndjson(out)
    ctx.log("driver: %d served sessions (%d kinds of session x 2 rendering styles per vector), %d handler invocations, %d mismatches, %d stalls" % (
        summ["evaluations"], summ["sessions"], summ["handler_invocations"], summ["mismatches"], summ["stalls"]))
    if summ["stalls"]:
        stalled = [m for m in mism if m["kind"] == "stall"]
        raise verif.Undecided("%d sessions did not finish within the watchdog (not a verdict): %s" % (
            summ["stalls"], json.dumps(stalled[0])[:400]))
    if summ["setup_failures"]:
        raise verif.Undecided("%d sessions could not be made as the specification describes them (not a verdict): %s" % (
            summ["setup_failures"], [m for m in mism if m["kind"] == "setup"][0]["why"][:400]))
    sc.report_grouped(ctx, [m for m in mism if m["kind"] == "read"], signature, describe)
    nself = selftest(ctx, vecs)
    ctx.write_evidence("model_checking", {
        "states": mc.distinct, "transitions": mc.generated,
        "traces_validated_against_impl": summ["evaluations"], "vectors_emitted_by_tlc": nvec,
        "evaluations": summ["evaluations"], "handler_invocations": summ["handler_invocations"],
        "distinct_nontrivial": summ["distinct_classes"], "nontrivial_evaluations": summ["nontrivial"],
        "mismatches": summ["mismatches"], "binding_selftest_corruptions_rejected": nself,
        "deviation_caught": "HandoffNotSticky -> " + ", ".join(dv.violated),
        "exhaustive": "every prefix (<= %d items over %d continuing items) x 61 terminators (49 constructs nested at depth 1-3 of a stanza / "
                      "foreign element: comment, PI, directive, stream error, restart, other stream element, mismatched end tag; "
                      "11 top-level: text, comment, PI, directive, restart, other stream element, closing tag, EOF, stray end tag, "
                      "2 stream errors; none) x {nothing, one more stanza behind} x 14 program cycles; continuing items include the local side's "
                      "Close() (so that every terminator arrives with the output stream open and closed) and stanzas from the own bare / "
                      "another entity's / a no-longer-own address; the %d kinds of session (initiated / received x client / server "
                      "namespace x application / library negotiator x header names the same / another / no address x binding) rotate "
                      "against the vectors (every kind meets every terminator and program cycle); PENDING REQUESTS: the application has a request "
                      "pending and the next stanza is its response (handed to the waiting requester, which reads 0 / 1 / 2 / 3 / 5 / 13 tokens and "
                      "closes it): a plain response within every prefix that contains one x every terminator, and a response with each of the 7 "
                      "constructs at depth 1 / 2 / 3 / at its end (28) behind every prefix of <= 1 item and every prefix with a plain response" % (
                          2 if quick else 3, 6 if quick else 8, summ["sessions"]),
        "rule": "distinct = (session kind, number of invocations, outcome class) classes; non-trivial = at least one handler invocation; "
                "the session's own address in the vectors is taken from LocalAddr().Bare() of the running session and checked against "
                "the specification's address rule (ServeLoop!Local)",
        "samples": summ["samples"][:3],
    }, assumptions=[
        "handlers return nil and write nothing (handler errors and replies are C07)",
        "sessions of the client and server stanza namespaces (the property's quantifier); the WebSocket framing is not covered here",
        "the local Close() happens when Serve has consumed everything the peer sent before it (sequential, no race with a handler)",
        "after a read error that the handler ignores, what it reads further is not determined by the property: only "
        "'nothing outside its element, no stream-level token' is checked there",
        "raw EOF without closing tag: both nil and an error are accepted; a stream error element nested in a stanza may be "
        "returned as itself or as another error"])


def first_stop(v):
    for it in v["items"]:
        if it["k"] == "ws":
            continue
        if it["k"] != "el":
            return it["k"], None
        for t in it.get("body") or []:
            if t[0] in ("c", "bad"):
                return "nested", "/".join(t)
    return None, None


def signature(m):
    import re
    k, stop = first_stop(m["vector"])
    closed = any(it["k"] == "lclose" for it in m["vector"]["items"])
    return (re.sub(r"\d+", "N", re.sub(r"\(LocalAddr.*?\)|from \S+ \(not.*?\)", "", m["why"]))[:60], k, stop in ("c/restart",),
            m["vector"]["progs"][0]["mode"], closed)


def describe(m):
    v = m["vector"]
    closes = [i for i, it in enumerate(v["items"]) if it["k"] == "lclose"]
    resps = [i for i, it in enumerate(v["items"]) if it["k"] == "el" and it.get("kind") == "resp"]
    return "session %s (own address %s) served %s%s%s with handler programs %s: %s; handler log %s; Serve returned %s %r" % (
        m["sess"], m["own"], m["input"][:400],
        (" - the local side called Close() before item(s) %s arrived" % [i + 1 for i in closes]) if closes else "",
        (" - item(s) %s answer requests the application has pending (SendIQ waiting; the requester reads %d tokens of the response and closes it)" % (
            [i + 1 for i in resps], v.get("wn", 0))) if resps else "",
        json.dumps(v["progs"]), m["why"], json.dumps(m["observed"])[:400], m["outcome"], m.get("serve_error"))


def selftest(ctx, vecs):
    """corrupt expectations: one token of an invocation's expected view changed, one invocation
    dropped, the outcome class changed; the driver must reject all and accept the original."""
    base = None
    for l in (l for f in reversed(vecs) for l in open(f)):
        v = json.loads(l)
        if (len(v["inv"]) == 2 and len(v["inv"][1]["ev"]) >= 3 and v["out"] == [["nil"]]
                and all(i["free"] == 0 for i in v["inv"]) and not any("err" in e for i in v["inv"] for e in i["ev"])):
            base = v
            break
    if base is None:
        raise verif.Undecided("binding self-test: no suitable vector")
    m1 = json.loads(json.dumps(base)); m1["inv"][1]["ev"][1] = ["s", "zz"]
    m2 = json.loads(json.dumps(base)); del m2["inv"][1]
    m3 = json.loads(json.dumps(base)); m3["out"] = [["err"]]
    m4 = json.loads(json.dumps(base)); m4["inv"][0]["from"] = "ownfull"
    vf, of = ctx.path("self8.ndjson"), ctx.path("self8_out.ndjson")
    open(vf, "w").write("".join(json.dumps(x) + "\n" for x in (base, m1, m2, m3, m4)))
    sc.run_driver(ctx, "read", [of, vf])
    got = verif.read_ndjson(of)
    lines = {(m["line"], m["r"]) for m in got}
    if any(l == 1 for l, _ in lines) and not ctx.violations:
        raise verif.Undecided("binding self-test: the unchanged vector was rejected")
    missed = [(l, r) for l in (2, 3, 4, 5) for r in (0, 1) if (l, r) not in lines]
    if missed and not ctx.violations:
        raise verif.Undecided("binding self-test: corrupted expectations ACCEPTED: %s" % missed)
    if missed:   # the tree under test already violates the property in the very way a corruption describes
        ctx.log("binding self-test: corrupted expectations %s match the (violating) behaviour of this tree" % missed)
    return 8 - len(missed)
