"""C12 - negotiation carries addresses and identifiers faithfully and checks them.

Parts run here: (a) header emission, (b) header acceptance - single headers and SEQUENCES of
headers presented to one session across stream restarts -, (d) resource binding.
Part (c) (addresses across restarts) belongs to the negotiation family (Negotiation.tla:
HdrAccept / C12_EstabStable), see the hook in run().

Pipeline A: TLC design checks of tla/Header.tla (emission: every permitted encoding of every
vector is well-formed and decodes to the input; acceptance: the step rules of Expect accept
only what the property allows; sequences: header k is judged on header k alone plus the address
rule, and the Info holds nothing of an earlier stream) and tla/Bind.tla (both roles), plus
non-vacuity runs with the named deviations switched on.
Pipeline B: TLC (EmitHeader, EmitBind) writes the vectors / scenarios together with the
expectation computed from the specification.
Pipeline C: the drivers header and bind run every vector through real sessions
(xmpp.NewSession / xmpp.ReceiveSession, default and WebSocket negotiator, BindResource /
BindCustom) and compare with the expectation."""
import json
import re

import authcommon as ac
import verif

CONSTS = 'CONSTANTS\n  MaxStr = %d\n  Dev = %s\n'
BCONSTS = 'CONSTANTS\n  MaxStr = %d\n  NSess = %d\n  Dev = %s\n'      # Bind.tla

HEADER_A = "SPECIFICATION SpecA\nINVARIANT C12_EmitWellFormed\nINVARIANT C12_EmitRoundTrip\nCHECK_DEADLOCK FALSE\n"
HEADER_B = ("SPECIFICATION SpecB\nINVARIANT C12_AcceptOnlyIf\nINVARIANT C12_StreamErrorReturned\n"
            "INVARIANT C12_VerdictMatchesExpectation\nCHECK_DEADLOCK FALSE\n")
HEADER_S = ("SPECIFICATION SpecS\nINVARIANT C12_SeqAcceptOnlyIf\nINVARIANT C12_SeqInfoOwn\nINVARIANT C12_SeqStreamErrorReturned\n"
            "INVARIANT C12_SeqVerdictMatchesExpectation\nCHECK_DEADLOCK FALSE\n")
BIND = ("SPECIFICATION %s\nINVARIANT C12_BindRequestOwn\nINVARIANT C12_BindAdoptAssigned\n"
        "INVARIANT C12_BindNoReadyOnError\nINVARIANT C12_BindAnswerId\nINVARIANT C12_BindAnswerAddr\n"
        "INVARIANT C12_BindExpectation\nCHECK_DEADLOCK FALSE\n")
BIND_SHARED = ("SPECIFICATION SpecShared\nINVARIANT C12_BindFresh\nINVARIANT C12_BindOwnAccount\n"
               "INVARIANT C12_BindCallbackOwnArgs\nCHECK_DEADLOCK FALSE\n")

# family -> (driver, sub-command, vector file)
FAMILIES = {
    "header-emit": ("header", "emit", "emit_vectors.ndjson"),
    "header-emit-shared": ("header", "emit-shared", "emit_shared.ndjson"),
    "header-accept": ("header", "accept", "accept_vectors.ndjson"),
    "header-accept-seq": ("header", "accept-seq", "accept_seq.ndjson"),
    "bind-init": ("bind", "init", "bind_init.ndjson"),
    "bind-recv": ("bind", "recv", "bind_recv.ndjson"),
    "bind-shared": ("bind", "shared", "bind_shared.ndjson"),
}


def classify(family, m):
    """Name of the defect class a mismatch belongs to (used for known findings and for
    grouping the report), and a one-line description."""
    if family == "header-emit":
        d = m["diffs"]
        if any("not well-formed" in x or x.startswith("parsed to") or x.startswith("parsed from") or "does not accept the header" in x
               or "no stream header" in x for x in d):
            return "header-not-wellformed", "emitted stream header is malformed / does not carry the address: " + d[0]
        if all("In().Lang" in x for x in d):
            return "header-lang-not-recovered", "a library peer does not recover the language of the emitted header: " + d[0]
        return "header-emit-other", "emitted header differs from the specification: " + "; ".join(d[:3])
    if family == "header-emit-shared":
        d = m["diffs"]
        if m["vector"]["in"]["mode"] == "persession" and all("xml:lang" in x or "In().Lang" in x for x in d):
            return ("negotiator-config-shared-across-sessions",
                    "a Negotiator value keeps the stream configuration of the session it negotiated last: the first header of the next session carries that session's language instead of the configured one: " + d[0])
        return "header-emit-shared-other", "header emitted by a session negotiated through a shared Negotiator differs from the specification: " + "; ".join(d[:3])
    if family == "header-accept":
        v = m["vector"]
        if m["observed"] == "panic":
            return "header-accept-panic", "presenting %s makes the session constructor panic (%s)" % (m["bytes"][:120], m["detail"][:80])
        if m.get("info") and (v["exp"] != "reject" or m["observed"] != "accept"):
            return "header-accept-recovered-values", "header %s (%s, %s) is accepted and %s" % (
                m["bytes"][:200], v["in"]["role"], v["in"]["framing"], "; ".join(m["info"][:2]))
        return "header-accept-verdict", "header %s (%s, %s): expected %s, observed %s%s" % (
            m["bytes"][:200], v["in"]["role"], v["in"]["framing"], v["exp"], m["observed"],
            (" (" + "; ".join(m["info"][:2]) + ")") if m.get("info") else "")
    if family == "header-accept-seq":
        v = m["vector"]
        h1 = v["in"]["hs"][0]
        n = len(v["in"]["hs"])
        m = dict(m, bytes=m["bytes"].replace("\n", "\\n").replace("\t", "\\t"))
        if m["observed"] == "panic":
            return "header-seq-panic", "presenting %s makes the session constructor panic (%s)" % (m["bytes"][:300], m["detail"][:80])
        if m.get("info") and (v["exp"][-1] != "reject" or m["observed"] != "accept"):
            return "header-seq-recovered-values", "header %d of a session, sent after a stream restart, is accepted and %s: %s (%s, %s)" % (
                n, "; ".join(m["info"][:2]), m["bytes"][:400], h1["role"], h1["framing"])
        return "header-seq-verdict", "header %d of a session, sent after a stream restart (%s, %s): %s: expected %s, observed %s%s" % (
            n, h1["role"], h1["framing"], m["bytes"][:400], v["exp"][-1], m["observed"],
            (" (" + "; ".join(m["info"][:2]) + ")") if m.get("info") else "")
    d = m["diffs"]
    if family == "bind-init" and all(x.startswith("requested resourcepart") for x in d):
        return "bind-request-drops-resource", "bind request does not ask for the session's own resourcepart: " + d[0]
    if family == "bind-shared" and any("is not fresh" in x for x in d):
        return "bind-resource-not-fresh", "sessions negotiated with one feature list value: " + [x for x in d if "is not fresh" in x][0]
    if family == "bind-shared":
        return "bind-shared-other", "sessions negotiated with one feature list value differ from the specification: " + "; ".join(d[:3])
    return family + "-other", "resource binding differs from the specification: " + "; ".join(d[:3])


def emit(ctx, module, cfg, outputs):
    """Run an Emit* module once (generous timeout: a loaded machine is no verdict); copy the files it serialises."""
    import os
    import shutil
    r = ctx.tlc(module, cfg, workers=1, timeout=1500, xss=True, heap="4g")
    if not r.ok:
        raise verif.Undecided("%s failed:\n%s" % (module, r.out[-2500:]))
    res = {}
    for n in outputs:
        src = os.path.join(r.dir, n)
        if not os.path.exists(src):
            raise verif.Undecided("%s did not write %s" % (module, n))
        res[n] = ctx.path(n)
        shutil.copy(src, res[n])
    return res


def run_family(ctx, family, vectors):
    drv, sub, _ = FAMILIES[family]
    b = ctx.go_build(drv)
    out = ctx.run_driver(b, [sub, vectors], timeout=900, ok_codes=(0,))
    return ac.summary_of(out)


def selftest(ctx, files):
    """Corrupt one expectation per family; the driver must report exactly that difference."""
    def first(path, pred):
        for l in open(path):
            v = json.loads(l)
            if pred(v):
                return v
        raise verif.Undecided("binding self-test: no suitable vector in %s" % path)

    cases = []
    v = first(files["emit_vectors.ndjson"], lambda v: True)
    v["exp"]["version"] = "9.9"
    cases.append(("header-emit", v, lambda m: any("version" in x for x in m["diffs"])))
    v = first(files["emit_shared.ndjson"], lambda v: v["in"]["mode"] == "const" and len(v["in"]["sess"]) == 3)
    v["exp"][2]["version"] = "9.9"
    cases.append(("header-emit-shared", v, lambda m: any("session 3" in x and "version" in x for x in m["diffs"])))
    v = first(files["accept_vectors.ndjson"], lambda v: v["exp"] == "reject" and v["in"]["name"] == "othername")
    v["exp"] = "streamerror"
    cases.append(("header-accept", v, lambda m: m["observed"] == "reject"))
    # (the values an accepting session recovered: a header without id next to a look-alike of the id, declared to carry one)
    v = first(files["accept_vectors.ndjson"], lambda v: v["in"]["role"] == "recv" and v["in"]["look"]["id"] == "foreign_before"
              and v["in"]["id"] == "absent" and v["in"]["version"]["parts"] == [[1], [0]] and v["in"]["from"] == "valid")
    v["info"]["id"] = "real"
    cases.append(("header-accept", v, lambda m: m["observed"] == "accept" and any("In() id" in x for x in m["info"])))
    # sequences across restarts: (1) the verdict on the last header, (2) what the session reports after it (a last
    # header without xml:lang that is accepted, declared to carry one)
    v = first(files["accept_seq.ndjson"], lambda v: v["exp"][-1] == "reject" and v["in"]["hs"][-1]["name"] == "stream"
              and not v["in"]["hs"][-1]["version"]["present"] and v["in"]["hs"][-1]["pre"] == "none")
    v["exp"][-1] = "streamerror"
    cases.append(("header-accept-seq", v, lambda m: m["observed"] == "reject"))
    v = first(files["accept_seq.ndjson"], lambda v: len(v["in"]["hs"]) == 2 and v["exp"][-1] == "any" and v["info"]["lang"] == "own"
              and v["in"]["hs"][0]["role"] == "recv" and v["in"]["hs"][0]["to"] == "valid" and v["in"]["hs"][-1]["xmlns"] == "client"
              and v["in"]["hs"][-1]["id"] == "set" and v["in"]["hs"][-1]["to"] == "valid" and v["in"]["hs"][-1]["from"] == "valid")
    v["info"]["lang"] = "real"
    cases.append(("header-accept-seq", v, lambda m: m["observed"] == "accept" and any("In() lang" in x for x in m["info"])))
    v = first(files["bind_init.ndjson"], lambda v: v["in"]["kind"] == "result" and v["in"]["res"] == [])
    v["exp"]["addr"] = {"own": "otheraccount", "otherres": "own", "otheraccount": "own"}[v["exp"]["addr"]]
    cases.append(("bind-init", v, lambda m: any(x.startswith("LocalAddr()") for x in m["diffs"])))
    v = first(files["bind_recv.ndjson"], lambda v: v["in"]["cb"] == "requested")
    v["exp"]["id"] = [1, 1, 1]
    cases.append(("bind-recv", v, lambda m: any("has id" in x for x in m["diffs"])))
    # shared feature value: (1) a corrupted per-session expectation, (2) the freshness comparison itself:
    # two binds of one account that the "requested" callback answers with the same address, declared "fresh"
    v = first(files["bind_shared.ndjson"], lambda v: v["in"]["feats"] == ["random"] and len(v["in"]["sess"]) == 3)
    v["exp"]["per"][2]["id"] = [1, 1, 1]
    cases.append(("bind-shared", v, lambda m: any("session 3" in x and "has id" in x for x in m["diffs"])))
    v = first(files["bind_shared.ndjson"], lambda v: v["in"]["feats"] == ["requested"] and len(v["in"]["sess"]) == 2
              and all(x["acct"] == 1 and x["res"] == [0] for x in v["in"]["sess"]) and v["in"]["sched"] == [1, 2, 1, 2])
    v["exp"]["fresh"] = [True, True]
    cases.append(("bind-shared", v, lambda m: any("is not fresh" in x for x in m["diffs"])))
    def one(kc):
        k, (fam, vec, pred) = kc
        p = ctx.path("selftest-%d.ndjson" % k)
        open(p, "w").write(json.dumps(vec) + "\n")
        s = run_family(ctx, fam, p)
        if len(s["mismatches"]) != 1 or not pred(s["mismatches"][0]):
            raise verif.Undecided("binding self-test: corrupted expectation of %s was not reported: %s" % (fam, json.dumps(s["mismatches"])[:500]))
    ac.parallel(one, list(enumerate(cases)))
    return len(cases)


def nonvacuous_runs(quick):
    runs = [("MCHeader", HEADER_A, "RawAttributes", "C12_EmitWellFormed"),
            # (version numbers read into eight bits; attributes selected by their local name: over the vectors of
            # those two dimensions only)
            ("MCHeader", HEADER_B.replace("SpecB", "SpecBV"), "VersionModulo256", "C12_AcceptOnlyIf"),
            ("MCHeader", HEADER_B.replace("SpecB", "SpecBV"), "LocalNameOnly", "C12_AcceptOnlyIf"),
            # (a restart that keeps the input Info: header 2 without version / id / namespace passes on header 1's, and the
            # Info reports header 1's language; one run per invariant)
            ("MCHeader", "SPECIFICATION SpecSV\nINVARIANT C12_SeqAcceptOnlyIf\nCHECK_DEADLOCK FALSE\n", "KeepInfoAcrossRestart", "C12_SeqAcceptOnlyIf"),
            ("MCHeader", "SPECIFICATION SpecSV\nINVARIANT C12_SeqInfoOwn\nCHECK_DEADLOCK FALSE\n", "KeepInfoAcrossRestart", "C12_SeqInfoOwn"),
            ("MCBind", BIND % "SpecInit", "DropResource", "C12_BindRequestOwn"),
            ("MCBind", BIND_SHARED, "ResourcePerFeature", "C12_BindFresh")]
    if not quick:
        runs += [("MCHeader", HEADER_B, "AcceptOldVersion", "C12_AcceptOnlyIf"),
                 ("MCBind", BIND % "SpecInit", "IgnoreId", "C12_BindAdoptAssigned")]
    return runs


def nonvacuous_one(ctx, run):
    mod, cfg, dev, inv = run
    consts = BCONSTS % (1, 2, ac.dev_set([dev])) if mod == "MCBind" else CONSTS % (1, ac.dev_set([dev]))
    r = ctx.tlc(mod, consts + cfg, timeout=900, name=mod, workers=4, heap="2g")
    if inv not in r.violated:
        raise verif.Undecided("non-vacuity: deviation %s does not violate %s:\n%s" % (dev, inv, r.out[-1500:]))
    return r


def run(ctx):
    quick = ctx.tier == "quick"
    n = 2 if quick else 3
    strict = CONSTS % (n, "{}")
    bstrict = BCONSTS % (n, 3, "{}")
    bemit = BCONSTS % (n, 3 if quick else 4, "{}")    # NSess = 4: every interleaving of four sessions is emitted
    # ---------------------------------------------------------------- pipelines A and B (independent TLC runs, four at a time)
    def design(key, mod, cfg, props):
        return lambda: (key, ctx.model_check(mod, cfg, props, name=mod, workers=4, heap="3g"))
    jobs = [
        # sequences of headers across one / two restarts
        design("accept_seq", "MCHeader", strict + HEADER_S, ["C12_SeqAcceptOnlyIf", "C12_SeqInfoOwn", "C12_SeqStreamErrorReturned", "C12_SeqVerdictMatchesExpectation"]),
        # feature values shared by several interleaved sessions: resourceparts of default binds are fresh
        design("bind_shared", "MCBind", bstrict + BIND_SHARED, ["C12_BindFresh", "C12_BindOwnAccount", "C12_BindCallbackOwnArgs"]),
        design("accept", "MCHeader", strict + HEADER_B, ["C12_AcceptOnlyIf", "C12_StreamErrorReturned", "C12_VerdictMatchesExpectation"]),
        lambda: ("emit_header", emit(ctx, "EmitHeader", strict + "INIT EInit\nNEXT ENext\n", ["emit_vectors.ndjson", "emit_shared.ndjson", "accept_vectors.ndjson", "accept_seq.ndjson"])),
        lambda: ("emit_bind", emit(ctx, "EmitBind", bemit + "INIT EInit\nNEXT ENext\n", ["bind_init.ndjson", "bind_recv.ndjson", "bind_shared.ndjson"])),
        design("emit", "MCHeader", strict + HEADER_A, ["C12_EmitWellFormed", "C12_EmitRoundTrip"]),
        design("bind_init", "MCBind", bstrict + BIND % "SpecInit", ["C12_BindRequestOwn", "C12_BindAdoptAssigned", "C12_BindNoReadyOnError", "C12_BindExpectation"]),
        design("bind_recv", "MCBind", bstrict + BIND % "SpecRecv", ["C12_BindAnswerId", "C12_BindAnswerAddr", "C12_BindExpectation"]),
    ]
    nvruns = nonvacuous_runs(quick)
    jobs += [(lambda run: lambda: ("nv", nonvacuous_one(ctx, run)))(run) for run in nvruns]
    mc, files = {}, {}
    for key, r in ac.parallel(lambda j: j(), jobs):
        if key.startswith("emit_"):
            files.update(r)
        elif key != "nv":
            mc[key] = r
    nv = len(nvruns)
    # ---------------------------------------------------------------- pipeline C
    todo = dict((fam, files[FAMILIES[fam][2]]) for fam in FAMILIES)
    if ctx.replay:
        case = json.load(open(ctx.replay))["case"]
        p = ctx.path("replay.ndjson")
        open(p, "w").write(json.dumps(case["vector"]) + "\n")
        todo = {case["family"]: p}
    # part (c): restart header address rule (Negotiation.tla HdrAccept / C12_EstabStable): traces of
    # the neg driver (header scripts with matching / differing / absent addresses across restarts,
    # both roles, c2s and s2s) validated by TLC.
    partc = {"traces": 0, "rejected": 0}
    # (the vector families run next to the negotiation scenarios: separate processes)
    for drv in sorted(set(FAMILIES[fam][0] for fam in todo)):
        ctx.go_build(drv)
    from concurrent.futures import ThreadPoolExecutor
    famres = ThreadPoolExecutor(max_workers=1).submit(lambda: ac.parallel(lambda fam: run_family(ctx, fam, todo[fam]), list(todo)))
    if not ctx.replay:
        import negcommon as nc
        pools = nc.emit_pool(ctx)
        trc, summc = nc.run_scenarios(ctx, pools["pool_quick.json"], n=1500 if ctx.tier == "quick" else 20000, faults=False, name="c12c-trace")
        rejc, rc = nc.validate(ctx, trc)
        nc.report_rejections(ctx, trc, rejc, what="negotiation trace (restart header rule, C12c) not a behaviour of Negotiation.tla")
        partc = {"traces": summc["traces"], "rejected": len(rejc), "trace_states": rc.distinct}
        ctx.log("part (c): %d negotiation traces validated, %d rejected" % (summc["traces"], len(rejc)))

    open_classes = {f.get("class"): f for f in ctx.open_findings() if f.get("class")}
    totals, per_class, samples, verdicts = {}, {}, [], {}
    for fam, s in zip(todo, famres.result()):
        totals[fam] = {"vectors": s["evaluations"], "distinct": s["distinct"], "mismatches": len(s["mismatches"]), "extra": s.get("extra", {})}
        samples += s["samples"][:1]
        ctx.log("%s: %d vectors, %d mismatches" % (fam, s["evaluations"], len(s["mismatches"])))
        for m in s["mismatches"]:
            cls, what = classify(fam, m)
            per_class.setdefault(cls, []).append((fam, what, m))
    rep = totals.get("header-emit-shared", {}).get("extra", {}).get("stream_ids_repeated_within_a_scenario", 0)
    if rep:
        # (RFC 6120 4.7.3 wants stream ids unique; the property speaks only of carrying them faithfully)
        ctx.log("OBSERVATION (not judged): %d stream ids were issued twice by one Negotiator value" % rep)
        ctx.notes.append("observation: %d stream ids issued twice by sessions of one Negotiator value" % rep)
    for cls, ms in sorted(per_class.items()):
        if cls in open_classes:
            ctx.known_finding(open_classes[cls], "%d vectors" % len(ms))
            continue
        for fam, what, m in ms[:4]:
            # (random stream / request ids are masked so that the same finding gets the same replay file)
            obs = json.loads(re.sub(r"[0-9a-f]{16}", "<random id>", json.dumps({k: v for k, v in m.items() if k != "vector"})))
            ctx.violation("%s [%s, %d vectors in this class]" % (re.sub(r"[0-9a-f]{16}", "<random id>", what), cls, len(ms)),
                          {"family": fam, "class": cls, "vector": m["vector"], "observed": obs,
                           "expected": m["vector"].get("exp")})
    nself = 0
    if not ctx.replay:
        try:
            nself = selftest(ctx, files)
        except verif.Undecided as ex:
            # (the self-test presents corrupted expectations to the tree under test; a tree that violates the property may
            # also refuse the header the self-test needs accepted: the violations found above stand)
            if not ctx.violations:
                raise
            ctx.notes.append("binding self-test not conclusive on a tree with violations: %s" % str(ex)[:300])
    nvec = sum(t["vectors"] for t in totals.values())
    ctx.notes.append("part (c) restart header rule: %s" % json.dumps(partc))
    ctx.write_evidence("model_checking", {
        "states": sum(r.distinct for r in mc.values()), "transitions": sum(r.generated for r in mc.values()),
        "states_by_check": {k: r.distinct for k, r in mc.items()},
        "traces_validated_against_impl": nvec, "evaluations": nvec,
        "distinct_nontrivial": sum(t["distinct"] for t in totals.values()),
        "by_family": totals, "mismatches_by_class": {k: len(v) for k, v in per_class.items()},
        "nonvacuity_runs_violating": nv, "binding_selftest_corruptions_reported": nself,
        "exhaustive": "emission through one Negotiator value shared by 2-3 successive sessions with different addresses (constant and per-session configuration function, both roles, c2s/s2s, both framings); emission: special characters (' & < > \") in every position of resourceparts / language strings up to length %d, one value at a time and all together, both roles, c2s/s2s, TCP and WebSocket framing; acceptance: full product of role x framing x element name x default namespace x version x id x to x from x prefix (declaration / whitespace) + stream errors; version attribute: every pair (major, minor) of 37 number forms (0 1 9 10 255 256 257 512 513 65536 65537 2^32 2^32+1 2^64 2^64+1, 41-digit numbers, leading zeros, signs, blanks, nothing, letters), one part only, three parts, x both roles x both framings; look-alike attributes: for id / version / from / to / xml:lang a foreign-namespace attribute of the same local name (in front of or behind the real one) or a declaration of a prefix of that name, next to every combination of present and absent real attributes (one look-alike) and next to all / none of them (two look-alikes), both roles, both framings - verdict AND the values an accepting session recovered (In(), RemoteAddr()/LocalAddr(), the answering header) compared; SEQUENCES of headers across stream restarts (one real session, restarted by an instrumented stream feature whose Negotiate returns the connection; both roles, both framings): after a complete first header the whole acceptance product again (element name x default namespace x version x id x to x from with the address values absent / established / another valid address / unparsable, stream errors) and every look-alike vector; after a first header without addresses, and as third header after two complete ones or after a bare and a complete one (two restarts), every combination of version absent / 1.0 / 0.9 x id absent / empty / set x to x from x xml:lang x default namespace (x XML declaration / whitespace in front) - the last header is judged on its own attributes plus the address rule, and In() after it must hold that header's id / version / language / namespace and nothing an earlier header said (every header of a session carries an id and a language of its own); bind: every own resourcepart up to length %d x 12 reply kinds x 3 assigned addresses, 2 request ids x requested resources x 7 callback behaviours; shared feature list values (one or two values: BindResource(), BindCustom(nil), callbacks): 2 sessions x every interleaving x accounts x requests, 3 sessions x every interleaving x accounts, 4 sessions (%s), sessions of one feature value sharing the Negotiator or only the feature list; assigned resourceparts of default binds compared pairwise across sessions, accounts and feature values" % (n, n, "successive / all open before the first bind / nested / mixed" if quick else "every interleaving"),
        "rule": "vector families: TLC writes input and expectation, the driver compares the real sessions' behaviour with it; every mismatch is re-run once. Header sequences across restarts: the expectation for header k is a function of header k and of the ADDRESSES of the headers before it only (Header.tla ExpectAt / RecoverAt; design check C12_SeqAcceptOnlyIf, C12_SeqInfoOwn over the merge-by-attribute model of the input Info, deviation KeepInfoAcrossRestart rejected)",
        "samples": samples[:3],
        "part_c": "restart header address rule: covered by the negotiation family (Negotiation.tla C12_EstabStable), not run here",
    }, assumptions=[
        "the property gives only necessary conditions for accepting a header; vectors that meet all of them may be accepted or refused",
        "a result reply without <jid/> assigns nothing: both outcomes allowed (the pinned code becomes Ready with an empty address)",
        "after a relayed stanza error of the bind callback the property does not say whether the receiver goes on (the pinned code reports Ready)",
        "receiving s2s sessions cannot learn the initiator's address (ReceiveSession takes none): their header carries no 'to'",
        "Out().To/From of a receiving session are not compared (they stay empty in the pinned code; the property does not mention Out())",
    ])
