"""C12 - negotiation carries addresses and identifiers faithfully and checks them.

Parts run here: (a) header emission, (b) header acceptance, (d) resource binding.
Part (c) (addresses across restarts) belongs to the negotiation family (Negotiation.tla:
HdrAccept / C12_EstabStable), see the hook in run().

Pipeline A: TLC design checks of tla/Header.tla (emission: every permitted encoding of every
vector is well-formed and decodes to the input; acceptance: the step rules of Expect accept
only what the property allows) and tla/Bind.tla (both roles), plus non-vacuity runs with the
named deviations switched on.
Pipeline B: TLC (EmitHeader, EmitBind) writes the vectors / scenarios together with the
expectation computed from the specification.
Pipeline C: the drivers header and bind run every vector through real sessions
(xmpp.NewSession / xmpp.ReceiveSession, default and WebSocket negotiator, BindResource /
BindCustom) and compare with the expectation."""
import json
import re

import authcommon as ac
import verif

CONSTS = 'CONSTANTS\n  MaxStr = %d\n  Dev = %s\n'
BCONSTS = 'CONSTANTS\n  MaxStr = %d\n  NSess = %d\n  Dev = %s\n'      # Bind.tla

HEADER_A = "SPECIFICATION SpecA\nINVARIANT C12_EmitWellFormed\nINVARIANT C12_EmitRoundTrip\nCHECK_DEADLOCK FALSE\n"
HEADER_B = ("SPECIFICATION SpecB\nINVARIANT C12_AcceptOnlyIf\nINVARIANT C12_StreamErrorReturned\n"
            "INVARIANT C12_VerdictMatchesExpectation\nCHECK_DEADLOCK FALSE\n")
BIND = ("SPECIFICATION %s\nINVARIANT C12_BindRequestOwn\nINVARIANT C12_BindAdoptAssigned\n"
        "INVARIANT C12_BindNoReadyOnError\nINVARIANT C12_BindAnswerId\nINVARIANT C12_BindAnswerAddr\n"
        "INVARIANT C12_BindExpectation\nCHECK_DEADLOCK FALSE\n")
BIND_SHARED = ("SPECIFICATION SpecShared\nINVARIANT C12_BindFresh\nINVARIANT C12_BindOwnAccount\n"
               "INVARIANT C12_BindCallbackOwnArgs\nCHECK_DEADLOCK FALSE\n")

# family -> (driver, sub-command, vector file)
FAMILIES = {
    "header-emit": ("header", "emit", "emit_vectors.ndjson"),
    "header-emit-shared": ("header", "emit-shared", "emit_shared.ndjson"),
    "header-accept": ("header", "accept", "accept_vectors.ndjson"),
    "bind-init": ("bind", "init", "bind_init.ndjson"),
    "bind-recv": ("bind", "recv", "bind_recv.ndjson"),
    "bind-shared": ("bind", "shared", "bind_shared.ndjson"),
}


def classify(family, m):
    """Name of the defect class a mismatch belongs to (used for known findings and for
    grouping the report), and a one-line description."""
    if family == "header-emit":
        d = m["diffs"]
        if any("not well-formed" in x or x.startswith("parsed to") or x.startswith("parsed from") or "does not accept the header" in x
               or "no stream header" in x for x in d):
            return "header-not-wellformed", "emitted stream header is malformed / does not carry the address: " + d[0]
        if all("In().Lang" in x for x in d):
            return "header-lang-not-recovered", "a library peer does not recover the language of the emitted header: " + d[0]
        return "header-emit-other", "emitted header differs from the specification: " + "; ".join(d[:3])
    if family == "header-emit-shared":
        d = m["diffs"]
        if m["vector"]["in"]["mode"] == "persession" and all("xml:lang" in x or "In().Lang" in x for x in d):
            return ("negotiator-config-shared-across-sessions",
                    "a Negotiator value keeps the stream configuration of the session it negotiated last: the first header of the next session carries that session's language instead of the configured one: " + d[0])
        return "header-emit-shared-other", "header emitted by a session negotiated through a shared Negotiator differs from the specification: " + "; ".join(d[:3])
    if family == "header-accept":
        v = m["vector"]
        if m["observed"] == "panic":
            return "header-accept-panic", "presenting %s makes the session constructor panic (%s)" % (m["bytes"][:120], m["detail"][:80])
        if m.get("info") and (v["exp"] != "reject" or m["observed"] != "accept"):
            return "header-accept-recovered-values", "header %s (%s, %s) is accepted and %s" % (
                m["bytes"][:200], v["in"]["role"], v["in"]["framing"], "; ".join(m["info"][:2]))
        return "header-accept-verdict", "header %s (%s, %s): expected %s, observed %s%s" % (
            m["bytes"][:200], v["in"]["role"], v["in"]["framing"], v["exp"], m["observed"],
            (" (" + "; ".join(m["info"][:2]) + ")") if m.get("info") else "")
    d = m["diffs"]
    if family == "bind-init" and all(x.startswith("requested resourcepart") for x in d):
        return "bind-request-drops-resource", "bind request does not ask for the session's own resourcepart: " + d[0]
    if family == "bind-shared" and any("is not fresh" in x for x in d):
        return "bind-resource-not-fresh", "sessions negotiated with one feature list value: " + [x for x in d if "is not fresh" in x][0]
    if family == "bind-shared":
        return "bind-shared-other", "sessions negotiated with one feature list value differ from the specification: " + "; ".join(d[:3])
    return family + "-other", "resource binding differs from the specification: " + "; ".join(d[:3])


def run_family(ctx, family, vectors):
    drv, sub, _ = FAMILIES[family]
    b = ctx.go_build(drv)
    out = ctx.run_driver(b, [sub, vectors], timeout=900, ok_codes=(0,))
    return ac.summary_of(out)


def selftest(ctx, files):
    """Corrupt one expectation per family; the driver must report exactly that difference."""
    def first(path, pred):
        for l in open(path):
            v = json.loads(l)
            if pred(v):
                return v
        raise verif.Undecided("binding self-test: no suitable vector in %s" % path)

    cases = []
    v = first(files["emit_vectors.ndjson"], lambda v: True)
    v["exp"]["version"] = "9.9"
    cases.append(("header-emit", v, lambda m: any("version" in x for x in m["diffs"])))
    v = first(files["emit_shared.ndjson"], lambda v: v["in"]["mode"] == "const" and len(v["in"]["sess"]) == 3)
    v["exp"][2]["version"] = "9.9"
    cases.append(("header-emit-shared", v, lambda m: any("session 3" in x and "version" in x for x in m["diffs"])))
    v = first(files["accept_vectors.ndjson"], lambda v: v["exp"] == "reject" and v["in"]["name"] == "othername")
    v["exp"] = "streamerror"
    cases.append(("header-accept", v, lambda m: m["observed"] == "reject"))
    # (the values an accepting session recovered: a header without id next to a look-alike of the id, declared to carry one)
    v = first(files["accept_vectors.ndjson"], lambda v: v["in"]["role"] == "recv" and v["in"]["look"]["id"] == "foreign_before"
              and v["in"]["id"] == "absent" and v["in"]["version"]["parts"] == [[1], [0]] and v["in"]["from"] == "valid")
    v["info"]["id"] = "real"
    cases.append(("header-accept", v, lambda m: m["observed"] == "accept" and any("In() id" in x for x in m["info"])))
    v = first(files["bind_init.ndjson"], lambda v: v["in"]["kind"] == "result" and v["in"]["res"] == [])
    v["exp"]["addr"] = {"own": "otheraccount", "otherres": "own", "otheraccount": "own"}[v["exp"]["addr"]]
    cases.append(("bind-init", v, lambda m: any(x.startswith("LocalAddr()") for x in m["diffs"])))
    v = first(files["bind_recv.ndjson"], lambda v: v["in"]["cb"] == "requested")
    v["exp"]["id"] = [1, 1, 1]
    cases.append(("bind-recv", v, lambda m: any("has id" in x for x in m["diffs"])))
    # shared feature value: (1) a corrupted per-session expectation, (2) the freshness comparison itself:
    # two binds of one account that the "requested" callback answers with the same address, declared "fresh"
    v = first(files["bind_shared.ndjson"], lambda v: v["in"]["feats"] == ["random"] and len(v["in"]["sess"]) == 3)
    v["exp"]["per"][2]["id"] = [1, 1, 1]
    cases.append(("bind-shared", v, lambda m: any("session 3" in x and "has id" in x for x in m["diffs"])))
    v = first(files["bind_shared.ndjson"], lambda v: v["in"]["feats"] == ["requested"] and len(v["in"]["sess"]) == 2
              and all(x["acct"] == 1 and x["res"] == [0] for x in v["in"]["sess"]) and v["in"]["sched"] == [1, 2, 1, 2])
    v["exp"]["fresh"] = [True, True]
    cases.append(("bind-shared", v, lambda m: any("is not fresh" in x for x in m["diffs"])))
    for k, (fam, vec, pred) in enumerate(cases):
        p = ctx.path("selftest-%d.ndjson" % k)
        open(p, "w").write(json.dumps(vec) + "\n")
        s = run_family(ctx, fam, p)
        if len(s["mismatches"]) != 1 or not pred(s["mismatches"][0]):
            raise verif.Undecided("binding self-test: corrupted expectation of %s was not reported: %s" % (fam, json.dumps(s["mismatches"])[:500]))
    return len(cases)


def nonvacuous(ctx, quick):
    runs = [("MCHeader", HEADER_A, "RawAttributes", "C12_EmitWellFormed"),
            # (version numbers read into eight bits; attributes selected by their local name: over the vectors of
            # those two dimensions only)
            ("MCHeader", HEADER_B.replace("SpecB", "SpecBV"), "VersionModulo256", "C12_AcceptOnlyIf"),
            ("MCHeader", HEADER_B.replace("SpecB", "SpecBV"), "LocalNameOnly", "C12_AcceptOnlyIf"),
            ("MCBind", BIND % "SpecInit", "DropResource", "C12_BindRequestOwn"),
            ("MCBind", BIND_SHARED, "ResourcePerFeature", "C12_BindFresh")]
    if not quick:
        runs += [("MCHeader", HEADER_B, "AcceptOldVersion", "C12_AcceptOnlyIf"),
                 ("MCBind", BIND % "SpecInit", "IgnoreId", "C12_BindAdoptAssigned")]
    def one(run):
        mod, cfg, dev, inv = run
        consts = BCONSTS % (1, 2, ac.dev_set([dev])) if mod == "MCBind" else CONSTS % (1, ac.dev_set([dev]))
        return ctx.tlc(mod, consts + cfg, timeout=300, name=mod, workers=4)
    for (mod, cfg, dev, inv), r in zip(runs, ac.parallel(one, runs)):
        if inv not in r.violated:
            raise verif.Undecided("non-vacuity: deviation %s does not violate %s:\n%s" % (dev, inv, r.out[-1500:]))
    return len(runs)


def run(ctx):
    quick = ctx.tier == "quick"
    n = 2 if quick else 3
    strict = CONSTS % (n, "{}")
    bstrict = BCONSTS % (n, 3, "{}")
    bemit = BCONSTS % (n, 3 if quick else 4, "{}")    # NSess = 4: every interleaving of four sessions is emitted
    # ---------------------------------------------------------------- pipeline A
    mc = {}
    mc["emit"] = ctx.model_check("MCHeader", strict + HEADER_A, ["C12_EmitWellFormed", "C12_EmitRoundTrip"], name="MCHeader")
    mc["accept"] = ctx.model_check("MCHeader", strict + HEADER_B, ["C12_AcceptOnlyIf", "C12_StreamErrorReturned", "C12_VerdictMatchesExpectation"], name="MCHeader")
    mc["bind_init"] = ctx.model_check("MCBind", bstrict + BIND % "SpecInit", ["C12_BindRequestOwn", "C12_BindAdoptAssigned", "C12_BindNoReadyOnError", "C12_BindExpectation"], name="MCBind")
    mc["bind_recv"] = ctx.model_check("MCBind", bstrict + BIND % "SpecRecv", ["C12_BindAnswerId", "C12_BindAnswerAddr", "C12_BindExpectation"], name="MCBind")
    # feature values shared by several interleaved sessions: resourceparts of default binds are fresh
    mc["bind_shared"] = ctx.model_check("MCBind", bstrict + BIND_SHARED, ["C12_BindFresh", "C12_BindOwnAccount", "C12_BindCallbackOwnArgs"], name="MCBind")
    nv = nonvacuous(ctx, quick)
    # ---------------------------------------------------------------- pipeline B
    files, _ = ac.emit(ctx, "EmitHeader", strict + "INIT EInit\nNEXT ENext\n", ["emit_vectors.ndjson", "emit_shared.ndjson", "accept_vectors.ndjson"])
    f2, _ = ac.emit(ctx, "EmitBind", bemit + "INIT EInit\nNEXT ENext\n", ["bind_init.ndjson", "bind_recv.ndjson", "bind_shared.ndjson"])
    files.update(f2)
    # ---------------------------------------------------------------- pipeline C
    todo = dict((fam, files[FAMILIES[fam][2]]) for fam in FAMILIES)
    if ctx.replay:
        case = json.load(open(ctx.replay))["case"]
        p = ctx.path("replay.ndjson")
        open(p, "w").write(json.dumps(case["vector"]) + "\n")
        todo = {case["family"]: p}
    # part (c): restart header address rule (Negotiation.tla HdrAccept / C12_EstabStable): traces of
    # the neg driver (header scripts with matching / differing / absent addresses across restarts,
    # both roles, c2s and s2s) validated by TLC.
    partc = {"traces": 0, "rejected": 0}
    if not ctx.replay:
        import negcommon as nc
        pools = nc.emit_pool(ctx)
        trc, summc = nc.run_scenarios(ctx, pools["pool_quick.json"], n=1500 if ctx.tier == "quick" else 20000, faults=False, name="c12c-trace")
        rejc, rc = nc.validate(ctx, trc)
        nc.report_rejections(ctx, trc, rejc, what="negotiation trace (restart header rule, C12c) not a behaviour of Negotiation.tla")
        partc = {"traces": summc["traces"], "rejected": len(rejc), "trace_states": rc.distinct}
        ctx.log("part (c): %d negotiation traces validated, %d rejected" % (summc["traces"], len(rejc)))

    open_classes = {f.get("class"): f for f in ctx.open_findings() if f.get("class")}
    totals, per_class, samples, verdicts = {}, {}, [], {}
    for fam, path in todo.items():
        s = run_family(ctx, fam, path)
        totals[fam] = {"vectors": s["evaluations"], "distinct": s["distinct"], "mismatches": len(s["mismatches"]), "extra": s.get("extra", {})}
        samples += s["samples"][:1]
        ctx.log("%s: %d vectors, %d mismatches" % (fam, s["evaluations"], len(s["mismatches"])))
        for m in s["mismatches"]:
            cls, what = classify(fam, m)
            per_class.setdefault(cls, []).append((fam, what, m))
    rep = totals.get("header-emit-shared", {}).get("extra", {}).get("stream_ids_repeated_within_a_scenario", 0)
    if rep:
        # (RFC 6120 4.7.3 wants stream ids unique; the property speaks only of carrying them faithfully)
        ctx.log("OBSERVATION (not judged): %d stream ids were issued twice by one Negotiator value" % rep)
        ctx.notes.append("observation: %d stream ids issued twice by sessions of one Negotiator value" % rep)
    for cls, ms in sorted(per_class.items()):
        if cls in open_classes:
            ctx.known_finding(open_classes[cls], "%d vectors" % len(ms))
            continue
        for fam, what, m in ms[:4]:
            # (random stream / request ids are masked so that the same finding gets the same replay file)
            obs = json.loads(re.sub(r"[0-9a-f]{16}", "<random id>", json.dumps({k: v for k, v in m.items() if k != "vector"})))
            ctx.violation("%s [%s, %d vectors in this class]" % (re.sub(r"[0-9a-f]{16}", "<random id>", what), cls, len(ms)),
                          {"family": fam, "class": cls, "vector": m["vector"], "observed": obs,
                           "expected": m["vector"].get("exp")})
    nself = selftest(ctx, files) if not ctx.replay else 0
    nvec = sum(t["vectors"] for t in totals.values())
    ctx.notes.append("part (c) restart header rule: %s" % json.dumps(partc))
    ctx.write_evidence("model_checking", {
        "states": sum(r.distinct for r in mc.values()), "transitions": sum(r.generated for r in mc.values()),
        "states_by_check": {k: r.distinct for k, r in mc.items()},
        "traces_validated_against_impl": nvec, "evaluations": nvec,
        "distinct_nontrivial": sum(t["distinct"] for t in totals.values()),
        "by_family": totals, "mismatches_by_class": {k: len(v) for k, v in per_class.items()},
        "nonvacuity_runs_violating": nv, "binding_selftest_corruptions_reported": nself,
        "exhaustive": "emission through one Negotiator value shared by 2-3 successive sessions with different addresses (constant and per-session configuration function, both roles, c2s/s2s, both framings); emission: special characters (' & < > \") in every position of resourceparts / language strings up to length %d, one value at a time and all together, both roles, c2s/s2s, TCP and WebSocket framing; acceptance: full product of role x framing x element name x default namespace x version x id x to x from x prefix (declaration / whitespace) + stream errors; version attribute: every pair (major, minor) of 37 number forms (0 1 9 10 255 256 257 512 513 65536 65537 2^32 2^32+1 2^64 2^64+1, 41-digit numbers, leading zeros, signs, blanks, nothing, letters), one part only, three parts, x both roles x both framings; look-alike attributes: for id / version / from / to / xml:lang a foreign-namespace attribute of the same local name (in front of or behind the real one) or a declaration of a prefix of that name, next to every combination of present and absent real attributes (one look-alike) and next to all / none of them (two look-alikes), both roles, both framings - verdict AND the values an accepting session recovered (In(), RemoteAddr()/LocalAddr(), the answering header) compared; bind: every own resourcepart up to length %d x 12 reply kinds x 3 assigned addresses, 2 request ids x requested resources x 7 callback behaviours; shared feature list values (one or two values: BindResource(), BindCustom(nil), callbacks): 2 sessions x every interleaving x accounts x requests, 3 sessions x every interleaving x accounts, 4 sessions (%s), sessions of one feature value sharing the Negotiator or only the feature list; assigned resourceparts of default binds compared pairwise across sessions, accounts and feature values" % (n, n, "successive / all open before the first bind / nested / mixed" if quick else "every interleaving"),
        "rule": "vector families: TLC writes input and expectation, the driver compares the real sessions' behaviour with it; every mismatch is re-run once",
        "samples": samples[:3],
        "part_c": "restart header address rule: covered by the negotiation family (Negotiation.tla C12_EstabStable), not run here",
    }, assumptions=[
        "the property gives only necessary conditions for accepting a header; vectors that meet all of them may be accepted or refused",
        "a result reply without <jid/> assigns nothing: both outcomes allowed (the pinned code becomes Ready with an empty address)",
        "after a relayed stanza error of the bind callback the property does not say whether the receiver goes on (the pinned code reports Ready)",
        "receiving s2s sessions cannot learn the initiator's address (ReceiveSession takes none): their header carries no 'to'",
        "Out().To/From of a receiving session are not compared (they stay empty in the pinned code; the property does not mention Out())",
    ])
