"""Correlation family (C06 core): scheduler exploration of real correlated requests, traces
validated against tla/Correlate.tla."""
import json, re, subprocess
import verif

MC_SAFE = '''CONSTANTS
  Reqs = %(reqs)s
  KindOf <- %(kind)s
  Unknown = "zz"
  MaxPeer = %(maxpeer)d
  Dev = {}
SPECIFICATION Spec
INVARIANT C06_OwnReplyOnly
INVARIANT C06_AtMostOneReply
INVARIANT C06_OutcomeConsistent
INVARIANT C06_UnclaimedToHandler
INVARIANT C06_TableClean
CHECK_DEADLOCK FALSE
'''
MC_LIVE = '''CONSTANTS
  Reqs = {"i1", "m1"}
  KindOf <- Kind2
  Unknown = "zz"
  MaxPeer = 1
  Dev = {}
SPECIFICATION %(spec)s
%(props)s
CHECK_DEADLOCK FALSE
'''


def R(name, kind="iq", call="sendiq", reads=1):
    return {"name": name, "kind": kind, "call": call, "reads": reads}


def P(id, kind="iq", resp=True, err=False):
    return {"id": id, "kind": kind, "resp": resp, "err": err}


def scenarios(tier):
    s = []
    s.append({"reqs": [R("i1")], "peer": [P("i1")], "cancels": []})
    s.append({"reqs": [R("i1", call="sendiqel", reads=0)], "peer": [P("i1"), P("i1")], "cancels": []})
    s.append({"reqs": [R("i1", reads=3)], "peer": [P("i1", err=True)], "cancels": ["i1"]})
    s.append({"reqs": [R("i1", call="unmarshaliq")], "peer": [P("zz"), P("i1")], "cancels": ["i1"]})
    s.append({"reqs": [R("i1"), R("i2", call="encodeiq")], "peer": [P("i2"), P("i1")], "cancels": []})
    s.append({"reqs": [R("i1"), R("m1", "message", "sendmsg")], "peer": [P("i1", "message"), P("m1", "message"), P("i1")], "cancels": []})
    s.append({"reqs": [R("i1"), R("p1", "presence", "sendpres")], "peer": [P("p1", "presence"), P("i1", "presence", resp=False)], "cancels": ["i1"]})
    s.append({"reqs": [R("i1")], "peer": [P("i1", resp=False), P("i1")], "cancels": ["i1"]})
    s.append({"reqs": [R("i1")], "peer": [P("i1")], "cancels": [], "closeout": True})
    if tier == "thorough":
        s.append({"reqs": [R("i1"), R("i2"), R("p1", "presence", "sendpres")], "peer": [P("p1", "presence"), P("i1"), P("i2")], "cancels": ["i2"]})
        s.append({"reqs": [R("i1"), R("i2")], "peer": [P("i1"), P("i2"), P("i1")], "cancels": ["i1", "i2"]})
        s.append({"reqs": [R("i1"), R("m1", "message", "sendmsg")], "peer": [P("m1", "message"), P("i1")], "cancels": ["i2"], "closeout": True})
    for x in s:
        x.setdefault("closeout", False)
    return s


def explore(ctx, scen, maxpre, maxruns):
    b = ctx.go_build("correlate")
    shards = min(verif.NCPU, len(scen))
    sf = ctx.path("cor-scen.ndjson")
    with open(sf, "w") as f:
        for s in scen:
            f.write(json.dumps(s) + "\n")
    procs = []
    for i in range(shards):
        tr = ctx.path("cor-trace-%d.ndjson" % i)
        env = dict(verif.GOENV, COR_MAXPRE=str(maxpre), COR_MAXRUNS=str(maxruns), COR_SHARD="%d/%d" % (i, shards), GOMAXPROCS="2")
        procs.append((tr, subprocess.Popen([b, "run", sf, tr], env=env, cwd=ctx.scratch, stdout=subprocess.PIPE, stderr=subprocess.STDOUT, text=True)))
    summ = {"traces": 0, "events": 0, "evaluations": 0, "distinct": 0, "samples": [], "stuck": 0}
    files = []
    for tr, p in procs:
        try:
            out, _ = p.communicate(timeout=3000)
        except subprocess.TimeoutExpired:
            p.kill()
            raise verif.Undecided("correlate driver timed out")
        if p.returncode != 0 or "SUMMARY " not in out:
            raise verif.Undecided("correlate driver failed (exit %s):\n%s" % (p.returncode, out[-3000:]))
        s = json.loads(out[out.rindex("SUMMARY ") + 8:])
        for k in ("traces", "events", "evaluations", "distinct"):
            summ[k] += s[k]
        summ["stuck"] += s.get("extra", {}).get("stuck", 0)
        summ["samples"] += s["samples"][:1]
        files.append(tr)
    return files, summ


def validate(ctx, trace, dev=()):
    cfg = ('CONSTANTS\n  Reqs = {"i1", "i2", "i3", "m1", "p1"}\n  KindOf <- KindAll\n  Unknown = "zz"\n  MaxPeer = 99\n  Dev = %s\n' % verif.tla_value(set(dev))
           + "SPECIFICATION TSpec\nCONSTRAINT HW\nPOSTCONDITION Accepted\nCHECK_DEADLOCK FALSE\n")
    r = ctx.tlc("TrCorrelate", cfg, files={"trace.ndjson": trace}, workers=1, timeout=2400, xss=True, deque=True)
    rejected = {}
    body = r.printed("REJECTED")
    if body:
        for m in re.finditer(r"<<(\d+),\s*(\d+)>>", body[-1]):
            rejected[int(m.group(1))] = int(m.group(2))
    if not rejected and (r.rc != 0 or r.errors):
        raise verif.Undecided("trace validation failed to run:\n" + r.out[-6000:])
    return rejected, r
