"""XITER - growth beyond C01-C20: the library's stateful request helpers (family "iter").
Iterators over a response (Session.IterIQ, paging.Iter, roster / blocklist / pubsub / bookmarks / disco /
commands Fetch, tracked history queries) against tla/Iter.tla and ad-hoc command sessions against
tla/Commands.tla; see checks/itercommon.py.  `bin/check XITER [--tier thorough]`."""
import itercommon as ic


def run(ctx):
    cov = ic.run_part(ctx)
    cov["exhaustive"] = False
    ctx.write_evidence("model_checking", cov, assumptions=[
        "gate granularity of the scheduler (verifYield hooks of package xmpp, transport reads/writes, Go blocking primitives)",
        "consumers end every iteration with Close and close every command payload they are handed (the helpers' premise)",
        "the responder answers page / stage requests in order; items are told apart by ids the responder chooses",
        "error values are compared by class (none / stanza error / context error / other)",
    ])
