"""Family "push" (growth beyond C01-C20): the library's handlers for UNSOLICITED stanzas and its small
request/response services - roster pushes (RFC 6121 2.1.6), message carbons (XEP-0280), blocking commands
(XEP-0191), ping / version / time / disco#info / disco#items responders registered in a mux, and the
client-side helpers of the same packages.  Specification tla/Push.tla.

Pipeline A: TLC explores MCPush (the reference algorithm over every stanza of the grammar x handler
configuration, and sequences over a core alphabet) and checks the properties P_*; one liveness run; one
run per named deviation that MUST fail with the property it is meant for.
Pipeline B: TLC (tla/EmitPush.tla) emits the grammar and the configurations; this module composes the
scripts (every stanza under every configuration that matters for it, followed by a probe; seeded
sequences).
Pipeline C: harness/cmd/push runs every script on a REAL served session and records callbacks, replies and
helper results; TLC validates every trace against the observer layer (tla/TrPush.tla).  A rejected trace is
diagnosed by re-validating it against each property alone.

run_part(ctx) returns a coverage dict; violations go through ctx.violation with `what` starting "push:"."""
import json, os, random, re, subprocess, time
from concurrent.futures import ThreadPoolExecutor
import verif

PROPS = ["P_RosterAuthorised", "P_CarbonAuthorised", "P_OnlyRegistered", "P_FieldsCarried", "P_ExactlyOnce", "P_AtMostOneReply",
         "P_ReplyAddressed", "P_ReplyMeaning", "P_ExactlyOneReply", "P_ServeEnds", "P_HelperRequest", "P_HelperResult"]
# deviation -> the property it must break (non-vacuity)
DEV = {
    "ForgedRosterApplied": "P_RosterAuthorised", "ServerMayPushRoster": "P_RosterAuthorised", "OwnResourceMayPushRoster": "P_RosterAuthorised",
    "ForgedCarbonDelivered": "P_CarbonAuthorised", "CarbonForPlain": "P_OnlyRegistered",
    "DropVer": "P_FieldsCarried", "DropGroups": "P_FieldsCarried", "ReportDropped": "P_FieldsCarried", "ErrorThenCarriesOn": "P_AtMostOneReply", "DirectionSwapped": "P_FieldsCarried", "OuterForInner": "P_FieldsCarried",
    "CallbackTwice": "P_ExactlyOnce", "SkipSecondItem": "P_ExactlyOnce", "UnblockAllForItems": "P_ExactlyOnce",
    "ResultOnRefusal": "P_ReplyMeaning", "NoReplyOnApply": "P_ReplyMeaning", "NoDefaultReply": "P_ExactlyOneReply",
    "DoubleReply": "P_AtMostOneReply", "ReplyToMessage": "P_AtMostOneReply", "ReplyToResponse": "P_AtMostOneReply",
    "WrongId": "P_ReplyAddressed", "ReplyToSelf": "P_ReplyAddressed",
    "FeatureDuplicated": "P_ReplyMeaning", "StaticSourcesForgotten": "P_ReplyMeaning", "FeaturesIgnoreNode": "P_ReplyMeaning",
    "NodeDropped": "P_ReplyMeaning", "ServeDiesOnPush": "P_ServeEnds",
    "RequestToNobody": "P_HelperRequest", "GetForSet": "P_HelperRequest", "DeleteKeepsSubscription": "P_HelperRequest",
    "ContentDropped": "P_HelperResult", "PingFailsOnUnavailable": "P_HelperResult", "ErrorReplySwallowed": "P_HelperResult",
}
EXPLAIN = {
    "P_RosterAuthorised": "a roster push that is NOT from the account (no from / own bare JID) reached the Push callback (RFC 6121 2.1.6: MUST be ignored)",
    "P_CarbonAuthorised": "a carbon copy that is NOT from the account's bare JID was delivered to the application (XEP-0280 11: MUST be ignored)",
    "P_OnlyRegistered": "a callback ran for a stanza that is not of its kind / has no registered handler",
    "P_FieldsCarried": "a callback does not carry the fields of the stanza (item, ver, direction, inner message), or ran more often than the stanza has items",
    "P_ExactlyOnce": "a well-formed stanza from an authorised sender did not reach the application exactly once per item",
    "P_AtMostOneReply": "more than one stanza was written in reply, or a reply to something that is no IQ request",
    "P_ReplyAddressed": "the reply does not carry the request's id / is not addressed to the requester",
    "P_ReplyMeaning": "the reply does not say what happened (result for what was applied / what is registered, the documented error otherwise)",
    "P_ExactlyOneReply": "an IQ request was not answered",
    "P_ServeEnds": "Serve ended although the peer had not ended the stream and no rule allows the failure",
    "P_HelperRequest": "the helper's request is not the documented one (type, payload, addressee, fields)",
    "P_HelperResult": "the helper did not return the reply's content / the stanza error of an error reply",
}
SMALL = "1g -XX:TieredStopAtLevel=1 -XX:ParallelGCThreads=2"
BIG = "4g -XX:ParallelGCThreads=4"


def mc_cfg(tier, dev=(), spec="Spec", inv=(), props=()):
    c = 'CONSTANTS\n  Dev = %s\n  Tier = "%s"\n  Scenarios <- Universe\nSPECIFICATION %s\n' % (verif.tla_value(set(dev)), tier, spec)
    c += "".join("INVARIANT %s\n" % i for i in inv) + "".join("PROPERTY %s\n" % p for p in props)
    return c + "CHECK_DEADLOCK FALSE\n"


def design_checks(ctx):
    quick = ctx.tier == "quick"
    tiers = ["quick"] if quick else ["thorough1", "thorough2", "thorough3", "thorough4", "thorough5"]     # one TLC run per part of the universe
    with ThreadPoolExecutor(max_workers=6 if quick else 10) as ex:
        safe = [ex.submit(ctx.model_check, "MCPush", mc_cfg(t, inv=PROPS), PROPS, name="MCPush_safe_" + t,
                          workers=4 if quick else max(3, verif.NCPU // 4), timeout=2400, heap=BIG) for t in tiers]
        live = ex.submit(ctx.model_check, "MCPush", mc_cfg("tiny" if quick else "quick", spec="FairSpec", props=["P_Terminates"]), ["P_Terminates"],
                         name="MCPush_live", workers=2, timeout=2400, heap=SMALL if quick else BIG)
        devs = [(d, p, ex.submit(ctx.tlc, "MCPush", mc_cfg("tiny", dev=[d], inv=[p]), name="MCPush_" + d, workers=1, timeout=900, heap=SMALL))
                for d, p in DEV.items()]
        rs, rl = [f.result() for f in safe], live.result()
        for d, p, f in devs:
            r = f.result()
            if r.rc == 0 or p not in r.violated:
                raise verif.Undecided("design check MCPush: deviation %s is not caught by %s (vacuous property?)\n%s" % (d, p, r.out[-1500:]))
    ctx.log("design checks: %d deviations, each caught by the property it is meant for" % len(DEV))
    return rs, rl


# ------------------------------------------------------------------------------------------ scenarios
def emit_alphabet(ctx):
    r = ctx.tlc("EmitPush", mc_cfg("tiny"), workers=1, timeout=600, name="EmitPush", heap=SMALL)
    f = os.path.join(r.dir, "push-alphabet.json")
    if r.rc != 0 or not os.path.exists(f):
        raise verif.Undecided("EmitPush failed:\n" + r.out[-2000:])
    al = json.load(open(f))
    ctx.log("TLC emitted the grammar: %d stanzas (%d in the core alphabet), %d handler configurations in %.1fs" % (
        len(al["alphabet"]), len(al["core"]), len(al["cfgs"]), r.wall))
    return al


# which stanza kinds a configuration field matters for (quick tier: a changed field is exercised with those only)
MATTERS = {
    "roster": {"roster"}, "carbons": {"carbon", "plain", "info"}, "block": {"block", "unblock", "blocklist"}, "list": {"blocklist"},
    "resp": {"ping", "version", "time", "info", "items", "extra", "foreign", "empty", "bob"}, "timefn": {"time"}, "extra": {"info", "items", "extra"},
}


def with_ids(script):
    return [dict(s, id="q%d" % (i + 1)) for i, s in enumerate(script)]


def scenarios(al, tier, seed):
    rnd = random.Random(seed)
    full, probe = al["full"], al["probe"]
    key = lambda s: json.dumps(s, sort_keys=True)
    alphabet = sorted(al["alphabet"], key=key)
    core = sorted(al["core"], key=key)
    cfgs = sorted(al["cfgs"], key=key)
    out = []
    for c in cfgs:
        diff = {f for f in c if c[f] != full[f]}
        for a in alphabet:
            if tier == "quick" and c != full and len(diff) < 4 and not any(a["kind"] in MATTERS[f] for f in diff) and a["st"] != "call":
                continue
            if tier == "quick" and c != full and a["st"] == "call":
                continue        # the helpers do not depend on the handler table
            out.append(dict(cfg=c, script=[a, probe]))
    n_single = len(out)
    # sequences: pairs of the core alphabet, seeded longer sequences over the whole grammar
    ccfgs = sorted(al["corecfgs"], key=key)
    pairs = [(a, b) for a in core for b in core]
    if tier == "quick":
        pairs = rnd.sample(pairs, 400)
    else:
        pairs += [(a, b) for a in alphabet for b in core] + [(b, a) for a in alphabet for b in core]
    for a, b in pairs:
        out.append(dict(cfg=rnd.choice(ccfgs if tier == "quick" else cfgs), script=[a, b]))
    for _ in range(600 if tier == "quick" else 150000):
        n = rnd.choice([3, 3, 4] if tier == "quick" else [3, 3, 4, 5])
        out.append(dict(cfg=rnd.choice(cfgs), script=[rnd.choice(alphabet if rnd.random() < 0.7 else core) for _ in range(n)]))
    for s in out:
        s["script"] = with_ids(s["script"])
    return out, n_single


# ------------------------------------------------------------------------------------------ driver, validation
def drive(ctx, scen):
    b = ctx.go_build("push")
    shards = max(1, min(verif.NCPU // 2, len(scen) // 200 + 1))
    sf = ctx.path("push-scen.ndjson")
    with open(sf, "w") as f:
        for s in scen:
            f.write(json.dumps(s) + "\n")
    procs = []
    for i in range(shards):
        tf = ctx.path("push-trace-%d.ndjson" % i)
        env = dict(verif.GOENV, PUSH_SHARD="%d/%d" % (i, shards), GOMAXPROCS="2", VERIF_SEED=str(ctx.seed))
        procs.append((tf, subprocess.Popen([b, "run", sf, tf], env=env, cwd=ctx.scratch, stdout=subprocess.PIPE, stderr=subprocess.STDOUT, text=True)))
    summ = {"traces": 0, "events": 0, "evaluations": 0, "samples": []}
    files, died = [], []
    for tf, p in procs:
        try:
            out, _ = p.communicate(timeout=2400)
        except subprocess.TimeoutExpired:
            p.kill()
            raise verif.Undecided("push driver timed out")
        if p.returncode != 0 or "SUMMARY " not in out:
            m = re.findall(r"^SCENARIO (\d+)$", out, re.M)
            if m and ("panic:" in out or "fatal error:" in out):
                died.append((scen[int(m[-1])], out[-2500:]))      # a goroutine the library started itself died
                continue
            raise verif.Undecided("push driver failed (exit %s):\n%s" % (p.returncode, out[-3000:]))
        s = json.loads(out[out.rindex("SUMMARY ") + 8:])
        for k in ("traces", "events", "evaluations"):
            summ[k] += s[k]
        summ["samples"] += s["samples"][:1]
        files.append(tf)
    return files, summ, died


def merge(ctx, files, name, parts=1):
    """Concatenate per-shard batch trace files into `parts` files, renumbering t / end.
    Returns ([paths], {t: meta}, {t: events})."""
    traces = []
    for fn in files:
        if not os.path.exists(fn):
            continue
        metas = {m["t"]: m["meta"] for m in verif.read_ndjson(fn + ".meta")} if os.path.exists(fn + ".meta") else {}
        for t, evs in verif.split_traces(verif.read_ndjson(fn)).items():
            traces.append((metas.get(t, {}), [{k: v for k, v in e.items() if k != "_line"} for e in evs]))
    traces.sort(key=lambda x: x[0].get("n", 0))
    paths, meta, byt = [], {}, {}
    per = (len(traces) + parts - 1) // parts if traces else 1
    for pi in range(parts):
        chunk = traces[pi * per:(pi + 1) * per]
        if not chunk:
            continue
        path = ctx.path("%s-%d.ndjson" % (name, pi))
        line = 0
        with open(path, "w") as w:
            for j, (m, evs) in enumerate(chunk):
                t = pi * per + j + 1
                evs[0]["t"] = t
                evs[0]["end"] = line + len(evs) + 1
                for e in evs:
                    w.write(json.dumps(e) + "\n")
                line += len(evs)
                meta[t] = m
                byt[t] = evs
        paths.append(path)
    return paths, meta, byt


def validate(ctx, trace, only=None, name="TrPush"):
    cfg = "CONSTANTS\n  Dev = {}\n  Scenarios = {}\n  Only = %s\nSPECIFICATION TSpec\nCONSTRAINT HW\nPOSTCONDITION Accepted\nCHECK_DEADLOCK FALSE\n" % (
        verif.tla_value(set(only or PROPS)))
    r = ctx.tlc("TrPush", cfg, files={"trace.ndjson": trace}, workers=1, timeout=2400, xss=True, deque=True, name=name, heap=BIG)
    rejected = {}
    body = r.printed("REJECTED")
    if body:
        for m in re.finditer(r"<<(\d+),\s*(\d+)>>", body[-1]):
            rejected[int(m.group(1))] = int(m.group(2))
    if not rejected and (r.rc != 0 or r.errors):
        raise verif.Undecided("trace validation TrPush failed to run:\n%s" % r.out[-5000:])
    return rejected, r


def write_traces(ctx, traces, name):
    """traces: list of event lists (first = reset); writes one batch file with t = 1.."""
    p = ctx.path(name)
    line = 0
    with open(p, "w") as f:
        for k, evs in enumerate(traces):
            evs = [dict(e) for e in evs]
            evs[0]["t"] = k + 1
            evs[0]["end"] = line + len(evs) + 1
            for e in evs:
                f.write(json.dumps(e) + "\n")
            line += len(evs)
    return p


def diagnose(ctx, rejected_traces):
    """Which property rejects each trace?  One TLC run per property over the rejected traces only."""
    p = write_traces(ctx, rejected_traces, "push-rejected.ndjson")
    res = {i: [] for i in range(len(rejected_traces))}
    start, line = [], 0
    for evs in rejected_traces:
        start.append(line + 1)
        line += len(evs)
    with ThreadPoolExecutor(max_workers=6) as ex:
        runs = list(ex.map(lambda pr: (pr, validate(ctx, p, only=[pr] if pr else None, name="TrPush_" + (pr or "all"))[0]), [None] + PROPS))
    full = runs[0][1]
    for pr, rej in runs[1:]:
        for t, hw in rej.items():
            if full.get(t) == hw:        # the property rejects the very event the whole specification rejects
                res[t - 1].append(pr)
    return res


def stanza_desc(s):
    if not s:
        return "?"
    if s["st"] == "call":
        return "helper %s (responder answers %s)" % (s["kind"], s["shape"])
    d = "%s type=%s from=%s %s" % (s["st"], s["typ"], s["from"] or "(none)", s["kind"])
    if s["kind"] in ("roster", "block", "unblock"):
        d += " items=%s" % [i["jid"] + (" with report shape " + i["rep"] if i.get("rep") else "") for i in s["items"]]
    if s["shape"] != "ok":
        d += " shape=" + s["shape"]
    if s["kind"] == "carbon":
        d += " <%s/>" % s["dir"]
    return d


def current(evs, line_idx):
    """the script element being handled at event index line_idx of a trace"""
    k = 0
    for e in evs[1:line_idx]:          # a rejected delivery means that the element before it is not complete
        if e.get("ev") in ("in", "call"):
            k = e["k"]
    sc = evs[0]["script"]
    return sc[k - 1] if 1 <= k <= len(sc) else None


def judge(ctx, files):
    parts = 1 if ctx.tier == "quick" else 10
    paths, meta, byt = merge(ctx, files, "push-trace", parts=parts)
    if not meta:
        return 0, 0, paths
    with ThreadPoolExecutor(max_workers=parts) as ex:
        results = list(ex.map(lambda ip: validate(ctx, ip[1], name="TrPush_%d" % ip[0]), enumerate(paths)))
    rej = {}
    for r, _ in results:
        rej.update(r)
    if rej:
        ts = sorted(rej)
        diag = diagnose(ctx, [byt[t] for t in ts])
        groups = {}
        for i, t in enumerate(ts):
            evs = byt[t]
            # rej[t] is the 1-based line within the part file of the event that could not be consumed
            base = evs[0]["end"] - len(evs) - 1
            idx = rej[t] - base - 1
            ev = evs[idx] if 0 <= idx < len(evs) else None
            st = current(evs, idx if ev else len(evs) - 1)
            props = diag[i] or ["(no single property: the event sequence itself is impossible)"]
            if ev and ev.get("ev") == "stuck":
                props = ["stall"]
            if ev and (ev.get("err") == "panic" or ev.get("ev") == "panic"):
                props = ["panic"]
            kind = (st or {}).get("kind", "?")
            key = (tuple(props), (st or {}).get("st"), kind)
            groups.setdefault(key, []).append((t, ev, st, props))
        for key, lst in sorted(groups.items(), key=lambda x: str(x[0])):
            t, ev, st, props = lst[0]
            expl = "; ".join(EXPLAIN.get(p, p) for p in props)
            if props == ["stall"]:
                expl = "permanent stall: Serve (or a helper) never returned"
            if props == ["panic"]:
                expl = "panic in library code: %s" % (ev.get("msg") or ev.get("cond"))
            what = "push: %s: %s - on %s; rejected event %s [%d traces like this; cfg %s]" % (
                "+".join(props), expl, stanza_desc(st), json.dumps(ev)[:300], len(lst), json.dumps(byt[t][0]["cfg"]))
            ctx.violation(what, {"family": "push", "scenario": meta[t].get("scenario"), "trace": byt[t], "rejected_event": ev,
                                 "properties": props, "similar": len(lst)})
    return len(meta), len(rej), paths


def selftest(ctx, paths):
    """Binding self-test: corrupt recorded fields of accepted traces; TLC must reject each, and accept the originals."""
    trs = {}
    for p in paths[:1]:
        for t, evs in verif.split_traces(verif.read_ndjson(p)).items():
            trs[t] = [{k: v for k, v in e.items() if k != "_line"} for e in evs]
    def find(pred):
        for evs in trs.values():
            if pred(evs):
                return [dict(e) for e in evs]
        raise verif.Undecided("binding self-test: no suitable trace")
    first = lambda evs, f: next(i for i, e in enumerate(evs) if f(e))
    has = lambda evs, f: any(f(e) for e in evs)
    is_cb = lambda c: (lambda e: e.get("ev") == "cb" and e.get("cb") == c)
    wf = lambda s: s["shape"] == "ok" and all(i["jid"] not in ("", "a@@b") and i.get("rep", "") in ("", "ok") for i in s["items"])
    ros = lambda evs: (has(evs, is_cb("roster")) and evs[0]["script"][0]["kind"] == "roster" and evs[0]["cfg"]["roster"] == "ok"
                       and wf(evs[0]["script"][0]) and len(evs[0]["script"][0]["items"]) == 1 and evs[0]["script"][0]["items"][0]["groups"])
    car = lambda evs: has(evs, is_cb("carbon")) and evs[0]["script"][0]["shape"] == "ok"
    ver = lambda evs: evs[0]["script"][0]["kind"] == "version" and evs[0]["script"][0]["st"] == "iq" and evs[0]["script"][0]["shape"] == "ok" and has(evs, lambda e: e.get("ev") == "reply" and e.get("pl") == "query")
    hel = lambda evs: evs[0]["script"][0]["st"] == "call" and evs[0]["script"][0]["kind"] == "version" and evs[0]["script"][0]["shape"] == "result"
    blk = lambda evs: has(evs, is_cb("block")) and evs[0]["script"][0]["kind"] == "block" and wf(evs[0]["script"][0])
    base = [find(ros), find(car), find(ver), find(hel)]
    muts = []
    def mut(name, src, f):
        m = [json.loads(json.dumps(e)) for e in src]
        f(m)
        muts.append((name, m))
    mut("roster callback with another version", base[0], lambda m: m[first(m, is_cb("roster"))].update(ver="zz"))
    mut("roster callback with another group list", base[0], lambda m: m[first(m, is_cb("roster"))].update(groups=["x"]))
    mut("roster callback twice", base[0], lambda m: m.insert(first(m, is_cb("roster")), dict(m[first(m, is_cb("roster"))])))
    mut("roster callback missing", base[0], lambda m: m.pop(first(m, is_cb("roster"))))
    def forge(m):
        m[0]["script"][0]["from"] = "eve@example.net"
        m[0]["script"][0]["snd"] = "otheruser"
    mut("the same run for a push from another user (reply to corrected)", base[0],
        lambda m: (forge(m), m[first(m, lambda e: e.get("ev") == "reply")].update(to="eve@example.net")))
    mut("carbon direction flipped", base[1], lambda m: m[first(m, is_cb("carbon"))].update(sent=not m[first(m, is_cb("carbon"))]["sent"]))
    mut("carbon body changed", base[1], lambda m: m[first(m, is_cb("carbon"))].update(body="x"))
    mut("the same carbon from another entity", base[1], lambda m: m[0]["script"][0].update({"from": "eve@example.net/x", "snd": "otherfull"}))
    mut("reply with another id", base[2], lambda m: m[first(m, lambda e: e.get("ev") == "reply")].update(id="zz"))
    mut("reply missing", base[2], lambda m: m.pop(first(m, lambda e: e.get("ev") == "reply")))
    mut("reply twice", base[2], lambda m: m.insert(first(m, lambda e: e.get("ev") == "reply"), dict(m[first(m, lambda e: e.get("ev") == "reply")])))
    mut("version reply with another os", base[2], lambda m: m[first(m, lambda e: e.get("ev") == "reply")].update(a=["vt", "0.9", "x"]))
    mut("helper result with other content", base[3], lambda m: m[first(m, lambda e: e.get("ev") == "ret")].update(a=["srv", "1.2", "x"]))
    mut("helper request to somebody else", base[3], lambda m: m[first(m, lambda e: e.get("ev") == "req")].update(to="x.example"))
    mut("Serve returns an error at the end of the stream", base[2], lambda m: m[first(m, lambda e: e.get("ev") == "serve_ret")].update(err="other"))
    try:
        b = find(blk)
        mut("block callback with another jid", b, lambda m: m[first(m, is_cb("block"))].update(jid="x@example.org"))
        mut("block callback with another abuse report", b, lambda m: m[first(m, is_cb("block"))].update(rep="urn:xmpp:reporting:spam||"))
        mut("block command answered twice (error, then result)", b, lambda m: m.insert(
            first(m, lambda e: e.get("ev") == "reply"), dict(m[first(m, lambda e: e.get("ev") == "reply")], typ="error", cond="bad-request")))
    except verif.Undecided:
        pass
    p = write_traces(ctx, base + [m for _, m in muts], "push-selftest.ndjson")
    rej, _ = validate(ctx, p, name="TrPush_selftest")
    bad = [i + 1 for i in range(len(base)) if i + 1 in rej]
    if bad:
        raise verif.Undecided("binding self-test: unchanged traces %s rejected" % bad)
    missed = [muts[i][0] for i in range(len(muts)) if len(base) + i + 1 not in rej]
    if missed:
        raise verif.Undecided("binding self-test: corrupted traces ACCEPTED: %s" % missed)
    return len(muts)


def run_part(ctx):
    bg = ThreadPoolExecutor(max_workers=1)
    design = bg.submit(design_checks, ctx)          # pipeline A runs beside generation and the driver
    try:
        al = emit_alphabet(ctx)
        if ctx.replay:
            scen, n_single = [json.load(open(ctx.replay))["case"]["scenario"]], 1
        else:
            scen, n_single = scenarios(al, ctx.tier, ctx.seed)
        t0 = time.time()
        files, summ, died = drive(ctx, scen)
        ctx.log("ran %d scenarios on real sessions: %d traces, %d events in %.1fs" % (len(scen), summ["traces"], summ["events"], time.time() - t0))
        for sc, out in died[:5]:
            m = re.search(r"(panic: [^\n]*|fatal error: [^\n]*)", out)
            ctx.violation("push: the driver process died in a goroutine of the library (%s) in scenario %s" % (m.group(1) if m else "?", json.dumps(sc)[:300]),
                          {"family": "push", "scenario": sc, "output": out})
        t1 = time.time()
        n, nrej, paths = judge(ctx, files)
        ctx.log("TLC validated %d traces (%d rejected) in %.1fs" % (n, nrej, time.time() - t1))
        nself = 0
        if not ctx.replay and not ctx.violations:
            nself = selftest(ctx, paths)
            ctx.log("binding self-test: %d corrupted traces rejected" % nself)
    finally:
        rs, rl = design.result()
    kinds = sorted({s["kind"] + ("/call" if s["st"] == "call" else "") for sc in scen for s in sc["script"]})
    return {
        "states": sum(r.distinct for r in rs), "transitions": sum(r.generated for r in rs), "liveness_states": rl.distinct,
        "design_check_runs": {(r.dir and os.path.basename(r.dir).split("-")[1]): r.distinct for r in rs}, "deviations_caught": len(DEV),
        "grammar_stanzas": len(al["alphabet"]), "core_stanzas": len(al["core"]), "configurations": len(al["cfgs"]),
        "scenarios": len(scen), "single_stanza_scenarios": n_single, "evaluations": summ["evaluations"],
        "traces_validated_against_impl": summ["traces"], "trace_events": summ["events"], "rejected": nrej, "driver_deaths": len(died),
        "binding_selftest_mutants_rejected": nself, "distinct_nontrivial": len(kinds), "kinds": kinds,
        "samples": summ["samples"][:2],
        "rule": "every stanza of the grammar emitted by TLC (sender class none / own bare / own full / other own resource / server / other user bare+full / other domain; "
                "roster push, carbon copy, plain message, block / unblock / blocklist, ping / version / time / disco#info / disco#items / application / foreign / empty "
                "/ bits-of-binary payload as get / set / result / error; well-formed, no item, several items, unparsable JID, unknown child, carbon with delay / body before / after / empty "
                "wrapper / empty forwarded / two copies; requests to every library handler (roster, blocklist, ping, version, time, disco#info / #items, bits of binary) "
                "whose payload is well-formed XML the handler cannot or can only partly decode (unexpected children, character data, response-like children with bad "
                "values, the payload twice, unparsable max-age / base64); block / unblock items with an abuse report of 9 shapes (well-formed, stanza-id with a bad by / "
                "outside its namespace, duplicated report / text, element inside text, unknown child, no reason) alone and among plain items - each judged by the "
                "reply rule (at most one reply, exactly one unless Serve ends, id and addressee); helper calls x responder answers result / empty result / three error conditions) under every handler "
                "configuration that matters for it, each followed by a probe request; pairs over the core alphabet and seeded sequences of 3-4 stanzas",
    }
