"""C04 - session establishment fails closed under faults.
A: TLC design check of tla/Faults.tla (+ the fault/cancel rules of Negotiation.tla), six code-like
deviations must each break it.  B/C: fault ENUMERATION over the standard handshakes of the real
library - both ends real sessions (or a scripted component server) on an in-memory pipe - and over
the ABORT paths of negotiation (a scripted peer provokes a stream-level abort: unadvertised /
repeated / premature selection, stream error, garbage, bad or mismatching header, SASL failure,
malformed features); for the side under test: the peer's byte stream cut after every prefix length,
every read and every write failing, the context cancelled at every transport operation (peer keeps
playing / goes silent / has stopped reading too) - each run's trace validated by TLC; plus seeded
negotiation scenarios with faults and with failing List / Parse / Negotiate steps (Negotiation.tla)."""
import json, re
from concurrent.futures import ThreadPoolExecutor
import verif
import negcommon as nc

INVS = ["C04_FaultImpliesError", "C04_NoSwallow", "C04_ErrNotReady", "C04_OkMeansReady", "C04_NoStall"]
MC = ("CONSTANTS\n  MaxSteps = %d\n  Dev = %s\nSPECIFICATION Spec\n" + "".join("INVARIANT %s\n" % i for i in INVS)
      + "PROPERTY C04_NoStepSucceedsAfterFault\nCHECK_DEADLOCK FALSE\n")
DEVS = ["SwallowStepError", "IgnoreFault", "LoseCancellation", "ReadyOnError", "StallAfterCancel", "StepSucceedsAfterFault", "DeadlineCtxLosesCancel",
        "AbortNoticeOutsideWatch"]


def validate(ctx, trace):
    cfg = "CONSTANTS\n  MaxSteps = 99\n  Dev = {}\nSPECIFICATION TSpec\nCONSTRAINT HW\nPOSTCONDITION Accepted\nCHECK_DEADLOCK FALSE\n"
    r = ctx.tlc("TrFaults", cfg, files={"trace.ndjson": trace}, workers=1, timeout=1800, xss=True)
    rejected = {}
    body = r.printed("REJECTED")
    if body:
        for m in re.finditer(r"<<(\d+),\s*(\d+)>>", body[-1]):
            rejected[int(m.group(1))] = int(m.group(2))
    if not rejected and (r.rc != 0 or r.errors):
        raise verif.Undecided("trace validation failed to run:\n" + r.out[-5000:])
    return rejected, r


def run(ctx):
    quick = ctx.tier == "quick"
    mc = ctx.model_check("Faults", MC % (4 if quick else 6, "{}"), INVS + ["C04_NoStepSucceedsAfterFault"], timeout=600)
    ex = ThreadPoolExecutor(max_workers=6)
    def dev(d):
        bad = ctx.tlc("Faults", MC % (3, '{"%s"}' % d), name="Faults_" + d, workers=2, timeout=300)
        if bad.rc == 0:
            raise verif.Undecided("design check is vacuous: deviation %s breaks nothing" % d)
    futs = [ex.submit(dev, d) for d in DEVS] + nc.nonvacuity(ctx, ex)
    b = ctx.go_build("faults")
    tr = ctx.path("faults-trace.ndjson")
    env = {}
    if ctx.replay:
        case = json.load(open(ctx.replay))["case"]
        env["FAULTS_ONLY"] = case["run"]["handshake"]
    # the fault enumeration (sequential Go, mostly waiting) runs beside the design check of Negotiation.tla
    drv = ex.submit(ctx.run_driver, b, ["run", tr], env=env, timeout=2400)
    mcn = ctx.model_check("MCNegotiation", nc.MC_CFG % dict(pool="PoolQuick", maxcfg=2, rounds=2, maxlist=2),
                          ["C04_NoSwallow, C04_ErrNotReady (Negotiation.tla: failing Negotiate / List / Parse steps, faults and cancellation)"], timeout=1500)
    for f in futs:
        f.result()
    out = drv.result()
    ex.shutdown()
    summ = json.loads(out[out.rindex("SUMMARY ") + 8:])
    bad_base = [x for x in summ["extra"]["baselines"] if not x["baseline_ok"] and not x["handshake"].startswith(("volfail", "abort-"))]
    if bad_base:
        raise verif.Undecided("fault-free handshake does not complete (driver problem): %s" % bad_base)
    rej, r = validate(ctx, tr)
    ctx.log("%d fault-injected handshakes (%d classes): TLC validated %d traces in %.1fs, %d rejected" % (
        summ["evaluations"], summ["distinct"], summ["traces"], r.wall, len(rej)))
    meta = {m["t"]: m["meta"] for m in verif.read_ndjson(tr + ".meta")}
    trs = verif.split_traces(verif.read_ndjson(tr)) if rej else {}
    seen = set()
    for t, hw in sorted(rej.items()):
        ev = [e for e in trs[t] if e["_line"] == hw]
        m = meta[t]
        key = (m["handshake"], m["side"], m["fault"]["kind"], (ev[0] if ev else {}).get("ev"), (ev[0] if ev else {}).get("f"))
        if key in seen or len(seen) >= 25:
            continue
        seen.add(key)
        what = "handshake under a fault is not a behaviour of Faults.tla"
        if ev and ev[0].get("ev") == "stall":
            what = "the call outlived the fault / cancellation (%s)" % ev[0].get("why", "blocked until the watchdog")
        ctx.violation("%s: %s rejected at %s" % (what, json.dumps(m), json.dumps(ev[0] if ev else None)[:200]),
                      {"family": "faults", "run": m, "trace": trs[t], "rejected_line": hw, "rejected_event": ev[0] if ev else None})
    # seeded negotiation scenarios with read/write faults and cancellation (instrumented features)
    pools = nc.emit_pool(ctx)
    trn, summn = nc.run_scenarios(ctx, pools["pool_quick.json"], n=3000 if quick else 200000, faults=True, name="c04-neg")
    rejn, rn = nc.validate(ctx, trn)
    nc.report_rejections(ctx, trn, rejn, what="negotiation trace under faults (C04) not a behaviour of Negotiation.tla")
    ctx.log("negotiation scenarios with faults: %d traces, %d rejected" % (summn["traces"], len(rejn)))
    nself = selftest(ctx, tr) if not rej and not ctx.replay else 0
    ctx.write_evidence("fault_enumeration", {
        "evaluations": summ["evaluations"] + summn["evaluations"],
        "distinct_nontrivial": summ["distinct"],
        "rule": "for each handshake (sasl+bind on a secure stream, STARTTLS+SASL+bind with real TLS, WebSocket framing, a failing voluntary feature, XEP-0114 component; and the abort paths, a scripted peer provoking a stream-level abort: receiver under test - unadvertised / premature / repeated selection, stream error, garbage, unsupported version, mismatching restart header; initiator under test - stream error, unsupported version, mismatching header, garbage, malformed features, SASL failure) and each side under test: the peer's byte stream ends after every prefix length (quick: first/last 48 bytes and every 5th in between; thorough: every byte), the k-th read fails, the k-th write fails, the context is cancelled at the k-th transport operation with the peer playing on, with the peer silent and with a peer that has stopped reading as well (also with a context that carries a far-off deadline of its own), for every k; a class is (handshake, side, fault kind). Negotiation scenarios: seeded, with read / write faults, cancellation and with failing steps - each of a feature's three callbacks (List, Parse, Negotiate) may report its error before or after its I/O",
        "samples": summ["samples"][:3],
        "states": mc.distinct + mcn.distinct, "transitions": mc.generated + mcn.generated,
        "traces_validated_against_impl": summ["traces"] + summn["traces"],
        "baselines": summ["extra"]["baselines"], "rejected": len(rej) + len(rejn),
        "deviations_shown_to_break_invariants": len(DEVS) + len(nc.NEG_DEVS), "binding_selftest_mutants_rejected": nself,
        "exhaustive": not quick,
    }, assumptions=["one fault per run", "faults inside crypto/tls records are injected but their handling is crypto/tls's",
                    "a call that has not returned after the watchdog (10 s for an otherwise immediate reaction) has outlived its cancellation if at that moment it sits in a transport operation with no deadline in force and a frozen peer (nothing can end that operation any more); a call late for any other reason gets two more periods"])


def selftest(ctx, trace):
    trs = verif.split_traces(verif.read_ndjson(trace))
    good = [t for t, tr in trs.items() if any(e["ev"] == "fault" for e in tr) and any(e["ev"] == "negret" for e in tr)]
    if not good:
        raise verif.Undecided("binding self-test: no suitable trace")
    base = [{k: v for k, v in e.items() if k != "_line"} for e in trs[good[0]]]
    muts = []
    m = [dict(e) for e in base]
    for e in m:
        if e["ev"] == "return":
            e["ok"], e["ready"] = True, True
    muts.append(("success reported after a fault", m))
    m = [dict(e) for e in base]
    for e in m:
        if e["ev"] == "return":
            e["ready"] = True
    muts.append(("ready bit set on error", m))
    p = ctx.path("selftest.ndjson")
    line = 0
    with open(p, "w") as f:
        for k, (_, mm) in enumerate([("unchanged", base)] + muts):
            mm[0]["t"] = k + 1
            mm[0]["end"] = line + len(mm) + 1
            for e in mm:
                f.write(json.dumps(e) + "\n")
            line += len(mm)
    rej, _ = validate(ctx, p)
    if 1 in rej:
        raise verif.Undecided("binding self-test: unchanged trace rejected")
    missed = [muts[k - 2][0] for k in range(2, 2 + len(muts)) if k not in rej]
    if missed:
        raise verif.Undecided("binding self-test: corrupted traces ACCEPTED: %s" % missed)
    return len(muts)
