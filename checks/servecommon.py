"""Shared pipeline of the sequential serve family (C14 mux, C07 reply rule, C08 reader)."""
import concurrent.futures as cf
import json
import os
import re
import shutil

import verif

MUX_INVS = ["TypeOK", "C14_MostSpecific", "C14_CascadeIsMostSpecific", "C14_Deterministic", "C14_NoNil",
            "C14_WholeStanza", "C14_BufferIsPrefix", "C14_Defaults", "C14_PerChild", "C14_IsDispatch"]
MUX_PROPS = ["C14_RegisterRefuses"]


def mux_mc_cfg(universe, elements, hids='{"h"}', progs="L", inner=None, dev="{}", ctors='= {"new"}'):
    return ("CONSTANTS\n  Universe <- %s\n  Elements <- %s\n  Hids = %s\n  Progs = \"%s\"\n  Inner %s\n  Dev = %s\n  Ctors %s\n"
            "SPECIFICATION Spec\nVIEW View\n" % (universe, elements, hids, progs, ("<- " + inner) if inner else "= {}", dev, ctors)
            + "".join("INVARIANT %s\n" % i for i in MUX_INVS)
            + "".join("PROPERTY %s\n" % p for p in MUX_PROPS) + "CHECK_DEADLOCK FALSE\n")


def mux_emit_cfg(tier, part):
    return ('CONSTANTS\n  Universe = {}\n  Elements = {}\n  Hids = {}\n  Progs = "L"\n  Inner = {}\n  Dev = {}\n  Ctors = {"new"}\n'
            '  Tier = "%s"\n  Part = %d\nINIT Init\nNEXT ENext\n' % (tier, part))


EMIT_JVM = "4g -XX:ParallelGCThreads=2"      # a dozen JVMs run side by side: no 16 GC threads each


def emit_parallel(ctx, module, cfgs, timeout=1500):
    """Run several single-worker TLC emissions side by side; returns the TLCResults."""
    with cf.ThreadPoolExecutor(max_workers=len(cfgs)) as ex:
        futs = [ex.submit(ctx.tlc, module, cfg, None, 1, timeout, False, None, "%s_%d" % (module, i), False, EMIT_JVM)
                for i, cfg in enumerate(cfgs)]
        res = [f.result() for f in futs]
    for r in res:
        if not r.ok:
            raise verif.Undecided("%s: emission failed:\n%s" % (module, r.out[-2500:]))
    return res


def collect(res, pattern):
    files = []
    for r in res:
        for f in sorted(os.listdir(r.dir)):
            if re.match(pattern, f) and os.path.getsize(os.path.join(r.dir, f)) > 0:
                files.append(os.path.join(r.dir, f))
    return files


def emitted_counts(res):
    tot = 0
    for r in res:
        for body in r.printed("EMITTED"):
            tot += sum(int(x) for x in re.findall(r"\d+", body))
    return tot


def run_driver(ctx, sub, args, timeout=1200):
    b = ctx.go_build("serve")
    out = ctx.run_driver(b, [sub] + args, timeout=timeout)
    if "SUMMARY " not in out:
        raise verif.Undecided("driver serve %s printed no summary:\n%s" % (sub, out[-2000:]))
    return json.loads(out[out.rindex("SUMMARY ") + 8:].splitlines()[0])


def run_driver_files(ctx, sub, out, files, timeout=1200):
    """One driver process per vector file, side by side; mismatch lines are concatenated into out,
    the summaries are added up (class names united)."""
    b = ctx.go_build("serve")
    if len(files) == 1:
        return run_driver(ctx, sub, [out] + files, timeout)

    def one(i):
        o = "%s.%d" % (out, i)
        text = ctx.run_driver(b, [sub, o, files[i]], timeout=timeout)
        if "SUMMARY " not in text:
            raise verif.Undecided("driver serve %s printed no summary:\n%s" % (sub, text[-2000:]))
        return o, json.loads(text[text.rindex("SUMMARY ") + 8:].splitlines()[0])
    with cf.ThreadPoolExecutor(max_workers=len(files)) as ex:
        parts = list(ex.map(one, range(len(files))))
    tot, classes = {}, set()
    with open(out, "w") as fo:
        for o, summ in parts:
            fo.write(open(o).read())
            os.remove(o)
            classes.update(summ.pop("classes", []))
            for k, v in summ.items():
                if isinstance(v, list):
                    tot[k] = (tot.get(k, []) + v)
                elif k in ("sessions", "distinct_classes"):
                    tot[k] = max(tot.get(k, 0), v)
                else:
                    tot[k] = tot.get(k, 0) + v
    if classes:
        tot["distinct_classes"] = len(classes)
    return tot


def report_grouped(ctx, mismatches, keyfn, whatfn, limit=12):
    """One violation per group of mismatches that share a signature (a defect usually shows
    on hundreds of vectors); the replay object is the first case of the group."""
    groups = {}
    for m in mismatches:
        groups.setdefault(keyfn(m), []).append(m)
    for k, ms in sorted(groups.items(), key=lambda kv: -len(kv[1]))[:limit]:
        ctx.violation("%s (%d vectors with this signature)" % (whatfn(ms[0]), len(ms)), ms[0])
    return groups


# ---------------------------------------------------------------------------- ServeLoop (C07, C08)
C07_INVS = ["C07_ExactlyOne", "C07_NeverBoth", "C07_NoReplyToReply", "C07_Addressed", "C07_FlagExact", "C07_IsReplies"]


def c07_mc_cfg(items, modes='{"plain", "muxreg", "muxunreg"}', length=1, dev="{}"):
    return ("CONSTANTS\n  C7Dev = %s\n  C7Items <- %s\n  C7Modes = %s\n  C7Len = %d\n%s"
            "INIT Init7\nNEXT Next7\n" % (dev, items, modes, length, C08_DUMMY)
            + "".join("INVARIANT %s\n" % i for i in C07_INVS) + "CHECK_DEADLOCK FALSE\n")


C08_DUMMY = "  C8Inputs = {}\n  C8Progs = {}\n  C8Sess = {}\n  C8WReads = {}\n  C8Dev = {}\n"


def serve_emit_cfg(tier, which, part=1, nparts=1, seed=1):
    return ('CONSTANTS\n  C7Dev = {}\n  C7Items = {}\n  C7Modes = {"plain"}\n  C7Len = 0\n%s  Tier = "%s"\n  Which = "%s"\n  Seed = %d\n  Part = %d\n'
            '  NParts = %d\nINIT Init7\nNEXT ENext\n' % (C08_DUMMY, tier, which, seed % 1000, part, nparts))


def serve_emit_cfgs(ctx, which, nparts):
    return [serve_emit_cfg(ctx.tier, which, p, nparts, ctx.seed) for p in range(1, nparts + 1)]


C08_INVS = ["C08_ElementWindow", "C08_NextStartsAtNext", "C08_FromNormalised", "C08_StreamLevelNeverDelivered", "C08_ResponseToRequester",
            "C08_CloseTagEndsNil", "C08_LocalCloseIrrelevant", "C08_IsReference"]


def c08_mc_cfg(inputs="C8InputsMC", progs="C8ProgsMC", sess="C8SessMC", dev="{}"):
    return ("CONSTANTS\n  C7Dev = {}\n  C7Items = {}\n  C7Modes = {}\n  C7Len = 0\n  C8Inputs <- %s\n  C8Progs <- %s\n  C8Sess <- %s\n"
            "  C8WReads <- C8WReadsMC\n  C8Dev = %s\nINIT Init8\nNEXT Next8\n" % (inputs, progs, sess, dev)
            + "".join("INVARIANT %s\n" % i for i in C08_INVS) + "CHECK_DEADLOCK FALSE\n")
