"""C18 - MUC membership follows the room's presence exactly.

A: TLC checks tla/MUC.tla (mechanism x observer) exhaustively for every order of calls,
   cancellations and room stanzas within the bounds, and that every named deviation (the defects
   of the pinned code and the DESIGN 7.1 mutants) is caught.
B: TLC (tla/EmitMUC.tla) emits every well-formed script of calls / cancellations / stanzas up to
   the tier's length bound.
C: harness/cmd/muc runs the REAL muc.Client + Channel on a served session against the scripted
   room: every script at protocol level, plus scheduler-driven interleavings through the yield
   points of package muc for the narrow windows; TLC validates every trace (tla/TrMUC.tla)."""
import json
import verif
import muccommon as mc


def run(ctx):
    quick = ctx.tier == "quick"
    runs, caught = mc.muc_design_check(ctx, quick, devs=mc.C18_DEVS if quick else sorted(mc.MUC_DEVS))
    if ctx.replay:
        case = json.load(open(ctx.replay))["case"]
        seq, exp = [], [case["scenario"]]
        if case["scenario"].get("mode") != "explore":
            seq, exp = exp, []
    else:
        # the last two: one noise step taken from the full invitation alphabet (position of the muc#user
        # payload among the children, jabber:x:conference element, 0-2 invites, password); one stanza
        # delivered in two pieces (calls / cancellations in between); one error reply of every shape other than the
        # plain well-formed one (no children, no <error/>, foreign namespace, empty, undecodable, ..., whole or in two
        # pieces), each such script also continued by a second exchange that must succeed; one presence (the occupant's own or
        # another occupant's, available or unavailable, wherever the script has one) whose muc#user payload has other CONTENT
        # than the plain one (status codes 100 110 170 201 210 301 303 307 321 322 332 333 alone and combined, in both orders;
        # item with nick / real jid / actor and reason / other roles and affiliations / missing / after the codes; <destroy/>),
        # again continued by a second exchange; two channels in one room under two nicknames; Subject / Invite calls on a
        # channel while nothing or a Leave is pending on it
        if quick:
            sets = [('{"r1"}', 6, 4, 0), ('{"r1"}', 4, 3, 1), ('{"r1", "r2"}', 4, 3, 0),
                    ('{"r1"}', 3, 2, 1, {"invfull": True}), ('{"r1"}', 4, 3, 0, {"split": 1, "cuts": "{1, 2, 3}"}),
                    mc.shaped(4, split=1), mc.payloads(3), mc.payloads(4, plset="PlFew"), mc.two_nicks(4), mc.aux_calls(5), mc.renick(5)]
        else:
            sets = [('{"r1"}', 7, 4, 0), ('{"r1"}', 5, 4, 1), ('{"r1", "r2"}', 5, 4, 0),
                    ('{"r1"}', 4, 3, 1, {"invfull": True}), ('{"r1"}', 6, 3, 0, {"split": 1, "cuts": "{1, 2, 3}"}),
                    mc.shaped(5), mc.shaped(4, split=1), mc.payloads(4), mc.payloads(5, plset="PlFew", other=False), mc.two_nicks(4), mc.aux_calls(6, calls=4), mc.renick(6)]
        seq = mc.muc_emit(ctx, sets)
        exp = mc.muc_explore_scenarios(ctx.tier)
    files, s1, s2 = [], None, None
    if seq:
        f1, s1 = mc.muc_run(ctx, seq, "c18seq")
        files += f1
    if exp:
        f2, s2 = mc.muc_run(ctx, exp, "c18exp", maxpre=1 if quick else 2, maxruns=(60 if quick else 1200) if not ctx.replay else 1, shards=None)
        files += f2
    tr, meta = mc.merge_traces(ctx, files, "c18-trace.ndjson")
    rej, r = mc.muc_validate(ctx, tr)
    per = mc.muc_report(ctx, tr, meta, rej)
    ntr = (s1["traces"] if s1 else 0) + (s2["traces"] if s2 else 0)
    nev = (s1["events"] if s1 else 0) + (s2["events"] if s2 else 0)
    hooks = mc.muc_hooks_present()
    ctx.log("ran %d TLC scripts at protocol level and %d schedules of %d scripts under the scheduler (hooks %s); %d traces / %d events validated by TLC in %.1fs: %d rejected %s" % (
        s1["evaluations"] if s1 else 0, s2["evaluations"] if s2 else 0, len(exp), "on" if hooks else "OFF", ntr, nev, r.wall, len(rej), per or ""))
    if not hooks:
        ctx.notes.append("tree under test has no yield points in package muc (proposed-hooks/muc.diff not applied): the narrow windows were not forced")
    nself = mc.muc_selftest(ctx, tr) if not ctx.replay and not rej else 0
    samples = ((s1 or {}).get("samples", [])[:1] + (s2 or {}).get("samples", [])[:1])
    ctx.write_evidence("model_checking", {
        "states": sum(x.distinct for x in runs), "transitions": sum(x.generated for x in runs),
        "deviations_caught_by_design_check": caught,
        "scripts_from_tlc": len(seq), "scheduler_scripts": len(exp),
        "schedules_run": (s2["evaluations"] if s2 else 0),
        "traces_validated_against_impl": ntr, "trace_events": nev, "trace_states": r.distinct,
        "evaluations": (s1["evaluations"] if s1 else 0) + (s2["evaluations"] if s2 else 0),
        "distinct_nontrivial": ntr, "rejected": len(rej), "rejections_by_clause": per,
        "scripts_cut_short": (s1["cut"] if s1 else 0), "hooks": hooks,
        "binding_selftest_mutants_rejected": nself,
        "exhaustive": "every well-formed script of join/rejoin/leave/cancel calls and room stanzas (self-presence, error answer; noise: other nick, never-joined room, 0-2 invitations, unrelated stanzas) up to the tier's length bound (quick: one room <= 6 steps without noise, <= 4 with one noise step, two rooms <= 4; thorough: 7 / 5 / 5), each step taken at quiescence; plus every script <= 3 / 4 steps with one invitation message out of the full invitation alphabet (16 orders of body / thread / muc#user payload / jabber:x:conference element x 0-2 <invite/> x password: 80 messages), and every script <= 4 / 6 steps in which one stanza is delivered in two pieces (cut after the start tag, in the middle, before the end tag) with calls and cancellations in between; and every script <= 4 / 5 steps in which one error reply has one of the 11 shapes other than the plain well-formed one (well-formed: error alone, muc#user payload / character data and foreign elements before it, children after it; malformed: no children, no <error/>, <error/> of a foreign namespace, empty <error/>, undecodable attribute, unknown type, text without condition), whole or in two pieces, each also continued by a second exchange (the open call answered by its self-presence, or a new join that is admitted) which must succeed; and every script <= 3 / 4 steps in which one presence of the room - from the channel's occupant address or from another occupant, available or unavailable, before / during / after a join and as the answer to a leave - carries a muc#user payload out of 32 (status codes none / 110 / 100 / 170 / 201 / 210 / 301 / 303 / 307 / 321 / 322 / 332 / 333 alone and combined in both orders x item variants: plain, codes first, no item, nick, real jid of this session / of another resource of the account, actor and reason, outcast, role kept, visitor, owner, <destroy/> sibling), <= 4 / 5 steps with the 7 most telling ones (thorough: on the occupant's own presences), each also continued by a second exchange (which makes it a re-join with the same Channel after a kick / ban / nickname change / destruction); every script <= 4 steps on two channels in ONE room under two nicknames; every script <= 5 / 6 steps with one Subject / Invite call on a channel while nothing or a Leave is pending on it; every script <= 5 / 6 steps with one Join with the Nick option on a channel that has an occupant address (it asks for the other nickname), answered by the room with the self-presence of the address asked for / of the address held / an error / nothing (cancel), with the available and unavailable presences of BOTH addresses before, during and after the call: membership follows the presences of the address the occupant holds (the old one until the room has granted the new one). Which presence is 'the occupant's unavailable presence' / 'the self-presence for the occupant address' is decided by type and sender address alone: no clause reads the payload content",
        "payload_content_scripts": len([x for x in seq if any(mc.payload_text(st.get("st") or {}) for st in x["steps"])]),
        "two_nickname_scripts": len([x for x in seq if any(st.get("room") == "r1b" for st in x["steps"])]),
        "subject_invite_scripts": len([x for x in seq if any(st.get("op") in mc.AUX for st in x["steps"])]),
        "nick_option_scripts": len([x for x in seq if any(st.get("op") == "renick" for st in x["steps"])]),
        "samples": samples[:2],
        "invitation_scripts": len([x for x in seq if any(st.get("st", {}).get("ty") == "inv" for st in x["steps"])]),
        "error_reply_shape_scripts": len([x for x in seq + exp if any((st.get("st") or {}).get("shape", "-") not in ("-", "wf") for st in (x.get("steps") or []))]),
        "split_delivery_scripts": len([x for x in seq if any(st.get("cut") for st in x["steps"])]),
        "rule": "a trace is distinct if its event sequence differs; every presence of a script carries its muc#user payload content (status codes in document order, item variant), which the oracle never reads: membership and the answers to join / leave follow the type and the sender address of the presence alone; scheduler part: depth-first enumeration of interleavings at the yield points of package muc (before the rendezvous selects of HandlePresence, Join, Leave) and call starts, script steps (calls, cancellations, stanzas or first pieces / remainders of stanzas fed to the transport) in order, pre-emption bound %d, capped per script; the leave scripts cancel the call before / after the room's answer was sent and between the two pieces of an answer delivered split (after the start tag, in the middle, before the end tag)" % (1 if quick else 2),
    }, assumptions=["calls on one Channel are sequential (the type is not safe for concurrent calls); calls on different rooms run concurrently",
                    "ties are accepted: reply vs. cancellation, error vs. self-presence, membership after a refused leave (TestPartError pins 'not joined')",
                    "the room's stanzas are processed in the order sent (one serve loop)",
                    "the content of a presence's muc#user payload (status codes, item, <destroy/>) never decides which presence it is: 'the occupant's unavailable presence' is the presence of type unavailable from the occupant address the channel joined as, also when it announces a new nickname (303: the library does not re-key a channel) or comes with the real jid of another resource; every payload sent is decodable (undecodable ones only for rooms never joined)",
                    "Join with the Nick option: success is accepted after the self-presence of the address asked for or of the address held (the room ignored the change), a return is owed only after the former or an error; when the room confirms both addresses during one call, or grants the new one after the call has given up, nothing is required of that channel any more; the unavailable presence of an old address the room never vacated while granting the new one leaves membership undetermined; Me() is not judged on a channel that ever asked for another nickname",
                    "Subject / Invite are made only while no call or a Leave is pending on the channel; their outcome is not judged (ok or an error), only that they return and change nothing",
                    "an invitation's fields = which <invite/> (its reason), the password, for direct invitations the room; callbacks compared as a bag (order free); an Invitation without XMLName counts as mediated; the JID of a mediated invitation is not judged",
                    "stalls are not judged while the room is in the middle of a stanza (the peer always delivers the remainder)",
                    "an error reply without a decodable stanza error (malformed shapes) must end the call with SOME error - a stanza error of any condition or another error - and be released; which error is not judged"])
