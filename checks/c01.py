"""C01 - stream features are negotiated only when allowed, in order, at most once.
Pipeline A: TLC design check of tla/Negotiation.tla; B+C: seeded and enumerated scenarios of
instrumented stream features run against the real negotiator, traces validated by TLC."""
import json
import verif
import negcommon as nc


def run(ctx):
    quick = ctx.tier == "quick"
    pools = nc.emit_pool(ctx)
    props = ["C01_Eligible", "C01_ForcedOnlyTLS", "C01_ReadyComplete", "C01_BitsMonotone", "C02_NoReadyInClear",
             "C04_NoSwallow", "C12_EstabStable"]
    mc = ctx.model_check("MCNegotiation", nc.MC_CFG % dict(
        pool="PoolQuick", maxcfg=2, rounds=2 if quick else 3, maxlist=2), props, timeout=1500)
    if not quick:
        # measured (8 workers): the larger pool with <= 2 kinds per configuration 9.1 M distinct states in 58 s,
        # <= 3 kinds of the small pool 18.1 M in 115 s
        for nm, kw in (("pool", dict(pool="PoolThorough", maxcfg=2, rounds=3, maxlist=2)),
                       ("cfg3", dict(pool="PoolQuick", maxcfg=3, rounds=3, maxlist=2))):
            m2 = ctx.model_check("MCNegotiation", nc.MC_CFG % kw, props, name="MCNegotiation_" + nm, timeout=2400)
            mc.distinct += m2.distinct
            mc.generated += m2.generated
    if ctx.replay:
        sc = json.load(open(ctx.replay))["case"]["scenario"]
        p = ctx.path("replay.ndjson")
        open(p, "w").write(json.dumps(sc) + "\n")
        tr, summ = nc.run_scenarios(ctx, pools["pool_thorough.json"], scen_file=p)
    else:
        pool = pools["pool_quick.json" if quick else "pool_thorough.json"]
        tr, summ = nc.run_scenarios(ctx, pool, n=8000 if quick else 300000, faults=False, reps=1 if quick else 4)
    rej, r = nc.validate(ctx, tr)
    ctx.log("validated %d traces / %d events: %d rejected (TLC %d states, %.1fs)" % (
        summ["traces"], summ["events"], len(rej), r.distinct, r.wall))
    nc.report_rejections(ctx, tr, rej)
    nself = nc.selftest_binding(ctx, tr) if not ctx.replay and not rej else 0
    ctx.write_evidence("model_checking", {
        "states": mc.distinct, "transitions": mc.generated,
        "traces_validated_against_impl": summ["traces"],
        "trace_events": summ["events"], "trace_states": r.distinct,
        "scenarios_run": summ["evaluations"], "distinct_traces": summ["distinct"],
        "rejected": len(rej), "binding_selftest_mutants_rejected": nself,
        "design_check": ("MCNegotiation: pool of 10 feature kinds (incl. a voluntary feature reporting Ready, a feature prohibiting its own necessary bit), configurations <= 2 kinds, both roles, 3 initial states, <= 2 lists of <= 2 entries, failing List / Parse / Negotiate steps, faults and cancellation" if quick else
                         "MCNegotiation, three runs: small pool (10 kinds) x <= 2 kinds x <= 3 lists; larger pool x <= 2 kinds x <= 3 lists; small pool x <= 3 kinds x <= 3 lists; both roles, 3 initial states, lists of <= 2 entries, faults and cancellation"),
        "samples": summ["samples"][:2],
        "rule": "scenarios = seeded random (configuration <= 4 kinds from the TLC-emitted pool, role, initial bits, header script, advertisement lists with repeats/unknown names, selection script, failing steps - each of a feature's callbacks List / Parse / Negotiate may report an error, before or after its I/O -, tee, Negotiator value used before); the lazy peer selects as soon as the session waits after answering the header, also when the advertisement was never finished; a trace is distinct if its event sequence differs",
    }, assumptions=["instrumented StreamFeature values stand for arbitrary features (masks, mandatory, restart, negotiable as in NegPool.tla)",
                    "a failed establishment may carry the Ready bit only if a successfully executed step of that stream reported it (C04_ErrNotReady)"])
