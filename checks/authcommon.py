"""Shared pieces of the `auth` family (C03: SASL, C12 a/b/d: stream header and resource binding)."""
import json
import os
import re
import shutil

import verif

SASL_CONSTS = '''CONSTANTS
  Mechs = {"M1","M2","M3"}
  MaxPeer = %(maxpeer)d
  MaxSteps = %(maxsteps)d
  Roles = {"client","server"}
  MaxSess = %(maxsess)d
  Dev = %(dev)s
'''

TRACE_CFG = "SPECIFICATION TSpec\nCONSTRAINT HW\nPOSTCONDITION Accepted\nCHECK_DEADLOCK FALSE\n"


def dev_set(names):
    return "{" + ", ".join('"%s"' % n for n in sorted(names)) + "}"


def validate(ctx, module, consts, trace, name=None, timeout=1200):
    """Batch trace validation; returns ({trace no: rejected line}, TLCResult)."""
    r = ctx.tlc(module, consts + TRACE_CFG, files={"trace.ndjson": trace}, workers=1, timeout=timeout,
                xss=True, name=name or module)
    rejected = {}
    body = r.printed("REJECTED")
    if body:
        for m in re.finditer(r"<<(\d+),\s*(\d+)>>", body[-1]):
            rejected[int(m.group(1))] = int(m.group(2))
    if not rejected and (r.rc != 0 or r.errors):
        raise verif.Undecided("trace validation %s failed to run:\n%s" % (module, r.out[-3000:]))
    return rejected, r


def emit(ctx, module, cfg, outputs):
    """Run an Emit* module once; copy the files it serialises into the scratch dir."""
    r = ctx.tlc(module, cfg, workers=1, timeout=300, xss=True)
    if not r.ok:
        raise verif.Undecided("%s failed:\n%s" % (module, r.out[-2500:]))
    res = {}
    for n in outputs:
        src = os.path.join(r.dir, n)
        if not os.path.exists(src):
            raise verif.Undecided("%s did not write %s" % (module, n))
        dst = ctx.path(n)
        shutil.copy(src, dst)
        res[n] = dst
    return res, r


def parallel(f, items):
    """f over items, a few at a time (independent TLC runs: each is mostly JVM start-up and parsing);
    results in the order of items, the first exception is raised."""
    from concurrent.futures import ThreadPoolExecutor
    with ThreadPoolExecutor(max_workers=4) as ex:
        return list(ex.map(f, items))


def summary_of(out):
    return json.loads(out[out.rindex("SUMMARY ") + 8:])


def load_traces(trace):
    evs = verif.read_ndjson(trace)
    trs = verif.split_traces(evs)
    meta = {}
    if os.path.exists(trace + ".meta"):
        meta = {m["t"]: m["meta"] for m in verif.read_ndjson(trace + ".meta")}
    return trs, meta


def payload_text(p):
    """A payload of SASL.tla (symbols) as the driver renders it."""
    outside = "!%-*_"
    return "".join({1: "Q", 2: "=", 4: " ", 5: "\n"}.get(c, outside[i % len(outside)]) for i, c in enumerate(p))


def payload_is_bad(p):
    """Mirror of SASL.tla's PClass(p) = "bad" for messages only (the verdict is TLC's)."""
    q = [c for c in p if c not in (4, 5)]
    if q in ([], [2]):
        return False
    if len(q) % 4 or any(c not in (1, 2) for c in q):
        return True
    pads = [i for i, c in enumerate(q) if c == 2]
    return any(i < len(q) - 2 for i in pads) or (bool(pads) and q[-1] != 2)


def strip(e):
    return {k: v for k, v in e.items() if k != "_line"}


def write_batch(path, traces):
    """traces: list of event lists (first = reset line); renumbers t / end."""
    line = 0
    with open(path, "w") as f:
        for k, tr in enumerate(traces):
            tr = [dict(e) for e in tr]
            tr[0]["t"] = k + 1
            tr[0]["end"] = line + len(tr) + 1
            for e in tr:
                f.write(json.dumps(e) + "\n")
            line += len(tr)
