"""Shared pipeline of the codec family (C13, C19).

B  TLC (tla/EmitCodec.tla) enumerates the abstract value sets and the symbol table.
C  harness/cmd/codec runs the real encoders/decoders on every value and writes one
   observation per value + the table of distinct abstract token lists.
   TLC (tla/TrCodec.tla) walks every token list with the stack automaton and evaluates the
   laws of Codec.tla on every observation; it prints the rejected observations with the
   names of the laws they break.  The verdict is TLC's; python only groups and reports."""
import json, os, re, shutil
import verif


def emit(ctx, types, tier=None):
    """types: list of type names, or the name of a TLA+ set of type names (e.g. "C19All")"""
    tier = tier or ctx.tier
    et = ("EmitTypes <- " + types) if isinstance(types, str) else ("EmitTypes = " + verif.tla_value(set(types)))
    cfg = 'CONSTANTS\n  Tier = "%s"\n  Dev = {}\n  %s\nINIT Init\nNEXT Next\n' % (tier, et)
    r = ctx.tlc("EmitCodec", cfg, workers=1, timeout=600, name="EmitCodec", heap="3g")
    if not r.ok:
        raise verif.Undecided("EmitCodec failed:\n" + r.out[-3000:])
    counts = {}
    for m in re.finditer(r'<<"EMITTED", "([^"]+)", (\d+)>>', r.out):
        counts[m.group(1)] = int(m.group(2))
    if isinstance(types, str):
        types = sorted(counts)
    sym = ctx.path("symbols.json")
    shutil.copy(os.path.join(r.dir, "symbols.json"), sym)
    vec = ctx.path("vectors.ndjson")
    with open(vec, "w") as out:
        for ty in sorted(types):
            p = os.path.join(r.dir, "vec_%s.ndjson" % ty)
            if not os.path.exists(p):
                raise verif.Undecided("EmitCodec wrote no vectors for " + ty)
            with open(p) as f:
                shutil.copyfileobj(f, out)
    shutil.rmtree(r.dir, ignore_errors=True)
    return sym, vec, counts


def drive(ctx, sym, vec, name="obs", raw=False, timeout=1200):
    b = ctx.go_build("codec")
    obs, tls = ctx.path(name + ".ndjson"), ctx.path(name + ".tls.ndjson")
    out = ctx.run_driver(b, ["run", sym, vec, obs, tls], env={"CODEC_RAW": "1" if raw else "0"}, timeout=timeout)
    summ = json.loads(out[out.rindex("SUMMARY ") + 8:])
    if summ.get("unknown_types"):
        raise verif.Undecided("driver has no adapter for emitted types %s" % summ["unknown_types"])
    return obs, tls, summ


def validate(ctx, obs, tls, tier=None, timeout=1500, name="TrCodec", dev=(), heap="6g"):
    """-> (rejected: {observation number (1-based line of obs): [law names]}, rejected token list ids, TLCResult)"""
    tier = tier or ctx.tier
    cfg = 'CONSTANTS\n  Tier = "%s"\n  Dev = %s\nSPECIFICATION TSpec\nCONSTRAINT HW\nPOSTCONDITION Accepted\nCHECK_DEADLOCK FALSE\n' % (
        tier, verif.tla_value(set(dev)))
    r = ctx.tlc("TrCodec", cfg, files={"obs.ndjson": obs, "tls.ndjson": tls}, workers=1, timeout=timeout, xss=True,
                name=name, heap=heap)
    checked = r.printed("CHECKED")
    if not checked:
        raise verif.Undecided("trace validation did not reach its postcondition:\n" + r.out[-3000:])
    nt, no = [int(x) for x in re.findall(r"\d+", checked[-1])[:2]]
    rejected = {}
    body = r.printed("REJECTED")
    if body:
        for m in re.finditer(r"<<(\d+),\s*\{([^}]*)\}>>", body[-1]):
            rejected[int(m.group(1))] = sorted(re.findall(r'"([^"]+)"', m.group(2)))
    rtl = []
    body = r.printed("REJECTEDTL")
    if body:
        rtl = [int(x) for x in re.findall(r"\d+", body[-1])]
    other = [e for e in r.errors if "ostcondition" not in e]
    if other or (r.rc != 0 and not rejected):
        raise verif.Undecided("trace validation failed to run:\n" + r.out[-3000:])
    r.checked_tls, r.checked_obs = nt, no
    shutil.rmtree(r.dir, ignore_errors=True)
    return rejected, rtl, r


def read_line(path, n):
    with open(path) as f:
        for i, l in enumerate(f, 1):
            if i == n:
                return json.loads(l)
    return None


def signature(o, laws):
    """grouping key of a rejected observation: type, laws, failing paths (not part of the verdict)"""
    bad = sorted({e["p"] + ":" + e["err"][:40] for e in o["enc"] if e["err"] or not e["strict"]} |
                 {d["p"] + ":" + d["err"][:40] for d in o["dec"] if d["err"]})
    ty = o["ty"] + (":" + str(o["v"].get("ty")) if o["ty"] in ("reuse", "reuse.core", "shape") and isinstance(o.get("v"), dict) else "")
    return (ty, tuple(laws), tuple(bad[:3]))


def diagnose(o):
    """human-readable hint (not part of the verdict): per expectation the distinct decoded views"""
    out = []
    byexp = {}
    for d in o["dec"]:
        if d["err"] == "":
            byexp.setdefault(d["exp"], {}).setdefault(json.dumps(d["val"], sort_keys=True), []).append(d["p"])
    for exp, vals in byexp.items():
        if len(vals) > 1:
            out.append("views for '%s' disagree: %s" % (exp, " VS ".join("%s=%s" % (",".join(ps[:2]), v[:200]) for v, ps in vals.items())))
        else:
            v, ps = list(vals.items())[0]
            out.append("decoded(%s)=%s" % (exp, v[:200]))
    return "; ".join(out)[:700]


def diagnose_kept(o):
    """human-readable hint for the aliasing law: which leaves of the copy changed"""
    views = {d["p"]: d for d in o["dec"]}
    out = []
    for mode in ("bytes", "tokens"):
        k, f1 = views.get(mode + "/kept"), views.get(mode + "/fresh1")
        if not k or not f1 or f1["val"].get("outcome") != "value":
            continue
        if k["err"] or k["val"].get("outcome") != "value":
            out.append("%s: the copy could not be read back (%s)" % (mode, k["err"][:120]))
            continue
        for leaf, want in sorted(f1["val"]["leaves"].items()):
            got = k["val"]["leaves"].get(leaf)
            if got != want:
                out.append("%s: a copy (by assignment) of the value decoded from document a held %s=%s; after document b was decoded "
                           "into the variable it was copied from, the copy holds %s" % (mode, leaf, json.dumps(want)[:160], json.dumps(got)[:160]))
    return "; ".join(out)[:900]


def selftest_kept(ctx, obs, tier=None, rejected=()):
    """aliasing law: in an accepted used-receiver scenario the copy taken after the first decode is given a leaf of the
    SECOND document (what a decoder that overwrites shared storage causes): TLC must reject it with the law Kept"""
    base = None
    with open(obs) as f:
        for l in f:
            if '"ty":"reuse' not in l:
                continue
            o = json.loads(l)
            views = {d["p"]: d for d in o["dec"]}
            if all(d["err"] == "" and d["val"].get("outcome") == "value" for d in o["dec"]) and "bytes/kept" in views:
                f1, f2 = views["bytes/fresh1"]["val"]["leaves"], views["bytes/fresh2"]["val"]["leaves"]
                ks = [k for k in sorted(f1) if f1[k] != f2[k] and views["bytes/kept"]["val"]["leaves"][k] == f1[k]]
                if ks and not views["bytes/kept"]["val"].get("refs", True):
                    base, leaf = o, ks[0]
                    break
    if base is None:
        if rejected:
            return 0        # the code under test breaks every candidate: the run has rejections of its own
        raise verif.Undecided("aliasing self-test: no clean used-receiver scenario to corrupt")
    muts = [json.loads(json.dumps(base)), json.loads(json.dumps(base))]
    v = {d["p"]: d for d in muts[1]["dec"]}
    v["bytes/kept"]["val"]["leaves"][leaf] = v["bytes/fresh2"]["val"]["leaves"][leaf]
    po, pt = ctx.path("selfkept.ndjson"), ctx.path("selfkept.tls.ndjson")
    with open(po, "w") as f:
        for m in muts:
            f.write(json.dumps(m) + "\n")
    with open(pt, "w") as f:
        f.write(json.dumps({"ev": "tl", "id": 1, "toks": [{"k": "s", "n": "x", "a": []}, {"k": "e", "n": "x", "a": []}]}) + "\n")
    rej, _, _ = validate(ctx, po, pt, tier=tier, name="TrCodecSelfKept", timeout=300, heap="1g")
    if 1 in rej:
        raise verif.Undecided("aliasing self-test: the unchanged scenario was rejected: %s" % rej[1])
    if "Kept" not in rej.get(2, []):
        raise verif.Undecided("aliasing self-test: a copy that changed was ACCEPTED (rejections %s)" % rej)
    return 1


def report(ctx, sym, obs, tls, rejected, rtl, prop, limit=12, known=None):
    """Turn TLC's rejections into violations: one per (type, laws, failing paths) class, with the
    first (smallest) value of the class re-run with raw encodings for the replay file.
    known(o, laws) -> finding entry or None lets a check discount open known findings."""
    if not rejected:
        return 0
    want = set(rejected)
    groups = {}
    with open(obs) as f:
        for i, l in enumerate(f, 1):
            if i in want:
                o = json.loads(l)
                laws = rejected[i]
                if known:
                    k = known(o, laws)
                    if k:
                        ctx.known_finding(k, "%s %s" % (o["ty"], ",".join(laws)))
                        continue
                groups.setdefault(signature(o, laws), []).append((i, o))
    toklists = {}
    if groups:
        with open(tls) as f:
            for l in f:
                t = json.loads(l)
                toklists[t["id"]] = t["toks"]
    n = 0
    for sig, members in sorted(groups.items(), key=lambda kv: kv[1][0][0])[:limit]:
        i, o = members[0]
        raw = rerun_raw(ctx, sym, o)
        case = {"family": "codec", "ty": o["ty"], "v": o["v"], "failed_laws": list(sig[1]),
                "same_class": len(members), "observation": o,
                "rejected_token_lists": {str(e["tl"]): toklists.get(e["tl"]) for e in o["enc"] if e["tl"] in rtl},
                "encodings": raw}
        what = "%s: %s value %s breaks %s%s (%d values in this class)" % (
            prop, sig[0], json.dumps(o["v"], sort_keys=True)[:260], "+".join(sig[1]),
            (" [" + "; ".join(sig[2]) + "]") if sig[2] else "", len(members))
        if "PathsAgree" in sig[1] or "RoundTrip" in sig[1]:
            what += " -- " + diagnose(o)
        if "Kept" in sig[1]:
            what += " -- " + diagnose_kept(o)
        ctx.violation(what, case)
        n += 1
    return n


def rerun_raw(ctx, sym, o):
    try:
        vec = ctx.path("one.vec.ndjson")
        open(vec, "w").write(json.dumps({"ty": o["ty"], "v": o["v"]}) + "\n")
        obs, tls, _ = drive(ctx, sym, vec, name="one", raw=True, timeout=120)
        raw = read_line(obs, 1).get("raw", {})
        # long texts are named in the value (symbols of Stanza.tla): the replay file keeps both ends of an encoding
        return {k: (v if len(v) <= 6000 else v[:3000] + " ...[%d bytes]... " % len(v) + v[-3000:]) for k, v in raw.items()}
    except verif.Undecided:
        return {}


def selftest_binding(ctx, obs, tls, tier=None):
    """Corrupt recorded observations of accepted values and require TLC to reject each:
    (a) one decoded field changed in ONE view (PathsAgree), (b) the same field changed in ALL views
    (RoundTrip), (c) one end token removed from a token list (WellFormed), (d) a duplicated
    attribute (WellFormed), (e) a required path removed (Complete), (f) a recorded panic (NoFailure).
    The unchanged observation must be accepted."""
    base = None
    with open(obs) as f:
        for l in f:
            o = json.loads(l)
            if len(o["dec"]) >= 2 and all(d["err"] == "" for d in o["dec"]) and all(e["err"] == "" for e in o["enc"]) \
                    and o["dec"][0]["exp"] == o["dec"][1]["exp"] and isinstance(pick_leaf(o["dec"][0]["val"]), str):
                base = o
                break
    if base is None:
        raise verif.Undecided("binding self-test: no clean observation to corrupt")
    toks = {}
    with open(tls) as f:
        for l in f:
            t = json.loads(l)
            toks[t["id"]] = t["toks"]
    used = sorted({e["tl"] for e in base["enc"]})
    remap = {old: k + 1 for k, old in enumerate(used)}
    lists = [toks[u] for u in used]

    def clone():
        o = json.loads(json.dumps(base))
        for e in o["enc"]:
            e["tl"] = remap[e["tl"]]
        return o
    leaf = pick_leaf(base["dec"][0]["val"])
    muts = [("unchanged", clone())]
    m = clone(); set_leaf(m["dec"][0]["val"], leaf, "S_corrupt"); muts.append(("one view corrupted", m))
    m = clone()
    for d in m["dec"]:
        if d["exp"] == base["dec"][0]["exp"]:
            set_leaf(d["val"], leaf, "S_corrupt")
    muts.append(("all views corrupted", m))
    # token list corruptions: new lists appended to the table
    tl0 = lists[0]
    ends = [k for k, t in enumerate(tl0) if t["k"] == "e"]
    starts = [k for k, t in enumerate(tl0) if t["k"] == "s"]
    if not ends or not starts:
        raise verif.Undecided("binding self-test: token list without elements")
    unbal = [t for k, t in enumerate(tl0) if k != ends[-1]]
    dup = json.loads(json.dumps(tl0)); dup[starts[0]]["a"] = ["x", "x"]
    lists += [unbal, dup]
    m = clone(); m["enc"][0]["tl"] = len(lists) - 1; muts.append(("end tag removed", m))
    m = clone(); m["enc"][0]["tl"] = len(lists); muts.append(("duplicate attribute", m))
    m = clone(); del m["dec"][0]; muts.append(("required view missing", m))
    m = clone(); m["enc"][0]["err"] = "panic: injected"; m["enc"][0]["f"] = "panic"; muts.append(("panic recorded", m))
    po, pt = ctx.path("selftest.ndjson"), ctx.path("selftest.tls.ndjson")
    with open(po, "w") as f:
        for _, m in muts:
            f.write(json.dumps(m) + "\n")
    with open(pt, "w") as f:
        for k, l in enumerate(lists):
            f.write(json.dumps({"ev": "tl", "id": k + 1, "toks": l}) + "\n")
    rej, rtl, r = validate(ctx, po, pt, tier=tier, name="TrCodecSelf", timeout=300, heap="1g")
    if 1 in rej:
        raise verif.Undecided("binding self-test: the unchanged observation was rejected: %s" % rej[1])
    expect = {2: "PathsAgree", 3: "RoundTrip", 4: "WellFormed", 5: "WellFormed", 6: "Complete", 7: "NoFailure"}
    missed = [muts[k - 1][0] for k, law in expect.items() if law not in rej.get(k, [])]
    if missed:
        raise verif.Undecided("binding self-test: corrupted observations ACCEPTED: %s (rejections %s)" % (missed, rej))
    return len(expect)


def pick_leaf(val):
    """path to the first string leaf of a projection"""
    for k in sorted(val):
        x = val[k]
        if isinstance(x, str):
            return k
    for k in sorted(val):
        if isinstance(val[k], dict):
            sub = pick_leaf(val[k])
            if sub is not None:
                return (k, sub)
    return None


def set_leaf(val, leaf, x):
    if isinstance(leaf, tuple):
        set_leaf(val[leaf[0]], leaf[1], x)
    else:
        val[leaf] = x
