"""XDIAL - growth beyond C01-C20: how the library finds and connects to a server (family "dial").
dial.Dialer.Dial / DialServer (SRV discovery, "." target, fallback ports, implicit TLS first, priorities, TLS server
name and ALPN, cancellation, no leaked sockets) and websocket.Dialer.Dial (Web Host Metadata discovery) against
tla/Dial.tla; see checks/dialcommon.py.  `bin/check XDIAL [--tier thorough]`."""
import dialcommon as dc


def run(ctx):
    cov = dc.run_part(ctx)
    cov["exhaustive"] = "every scenario of the universe described under `rule` (bounded sizes) is run against the real code"
    ctx.write_evidence("model_checking", cov, assumptions=[
        "the fake world: Go's pure-Go resolver (net.Resolver{PreferGo}) talking DNS to an in-process server, loopback TCP listeners on an address owned by the driver process, host-meta served by an http.RoundTripper",
        "an attempt is observed as the address lookup of the endpoint's name followed by the net.Dialer's Control hook; after the context is cancelled address lookups are not observed (the resolver works in the background)",
        "sockets are observed through the Control hook's RawConn (a connection made without the configured net.Dialer is seen by the listeners only)",
        "error values are compared by class (none / context error / other); which error is returned when every endpoint fails is not documented and not checked",
        "a lookup ERROR (SERVFAIL) may or may not lead to the fallback endpoint: no document says",
        "dial.Client / dial.Server / xmpp.DialClientSession use a nil *net.Resolver for the SRV lookups, which cannot be redirected in-process: not driven (they are one-line wrappers of Dialer.Dial)",
    ])
