"""Family "request" (growth beyond C01-C20, check XREQ): the one-shot request/response helpers - exported functions
that send ONE get/set IQ on a served session, block for the correlated reply and turn it into a Go result (ping.Send,
version.Get, xtime.Get, disco.GetInfo, upload.GetSlot, carbons.Enable / Disable, roster.Set / Delete, blocklist.Add /
Remove / Report, bookmarks.Publish / Delete, pubsub.Publish / CreateNode / GetConfig / GetDefaultConfig / SetConfig /
Delete, muc.GetConfig / SetConfig, bin.Get and the ...IQ variants).  Specification tla/Request.tla (rules R1..R7).

Pipeline A: TLC explores MCRequest (the reference algorithm over the scenario universe) and checks the rules as
invariants; one liveness run (every call returns, the serve loop reaches the end of the stream); one run per named
deviation, which MUST fail with the rule it is meant for.
Pipeline B: TLC (tla/EmitRequest.tla) emits the scenario universe (helper kind x variant x argument class x peer script).
Pipeline C: harness/cmd/request runs every scenario on a REAL served session and records the request as seen on the
wire, what the handler was given, and the call's outcome; TLC validates every trace (tla/TrRequest.tla).  A rejected
trace is diagnosed by re-validating it against each rule alone.

run_part(ctx) returns a coverage dict; violations go through ctx.violation with `what` starting "request:"."""
import json, os, random, re, subprocess, time
from concurrent.futures import ThreadPoolExecutor
import verif

RULES = ["R1_Request", "R2_Result", "R3_ErrorReply", "R4_Malformed", "R5_Context", "R6_Release", "R7_NothingElse"]
LIVE = ["L_Returns", "L_Released"]
# deviation -> the rule it must break (non-vacuity)
DEV = {
    "WrongType": "R1_Request", "ToDropped": "R1_Request", "CallerIdLost": "R1_Request", "ArgDropped": "R1_Request",
    "PayloadMissing": "R1_Request", "TypeNotForced": "R1_Request", "TwoRequests": "R7_NothingElse",
    "ValueDropped": "R2_Result", "HeadersNotFiltered": "R2_Result",
    "ErrorReplyTakenAsSuccess": "R3_ErrorReply", "ErrorConditionLost": "R3_ErrorReply", "PingUnavailableFails": "R3_ErrorReply",
    "FirstChildTaken": "R4_Malformed", "ZeroValueOnMalformed": "R4_Malformed", "PanicOnMalformed": "R4_Malformed",
    "StaleValueOnMalformed": "R4_Malformed",
    "CtxErrorLost": "R5_Context", "CtxIgnored": "L_Returns",
    "ResponseNotClosed": "L_Released", "WrongIdTaken": "R6_Release", "WrongKindTaken": "R6_Release", "ReplyToHandler": "R6_Release",
    "ReplyAlsoHandled": "R6_Release", "LateReplyDropped": "R6_Release",
}
EXPLAIN = {
    "R1_Request": "the request on the wire is not the documented one (exactly one IQ of the prescribed type, addressed to the `to` argument, non-empty id / the caller's id, one payload that denotes the arguments)",
    "R2_Result": "a well-formed result did not come back as (value denoting the payload, nil error)",
    "R3_ErrorReply": "an error reply did not come back as a non-nil error carrying the stanza.Error (type and condition) of the reply",
    "R4_Malformed": "a result with a missing / foreign / partly decodable payload came back as something that is neither an error, nor the zero value (where that is usable), nor a value the payload holds",
    "R5_Context": "the call did not return the context's error when its context ended while it waited (or returned without an answer and without cancellation)",
    "R6_Release": "correlation / release of the serve loop: the call took something that is not its reply, its reply reached the handler or was withheld from it, or another stanza did not reach the handler exactly once, in order",
    "R7_NothingElse": "the call wrote more than its one request",
}
SMALL = "1g -XX:TieredStopAtLevel=1 -XX:ParallelGCThreads=2"
BIG = "3g -XX:ParallelGCThreads=4"


def mc_cfg(tier, dev=(), spec="Spec", inv=(), props=()):
    c = 'CONSTANTS\n  Dev = %s\n  Tier = "%s"\n  Scenarios <- Universe\nSPECIFICATION %s\n' % (verif.tla_value(set(dev)), tier, spec)
    c += "".join("INVARIANT %s\n" % i for i in inv) + "".join("PROPERTY %s\n" % p for p in props)
    return c + "CHECK_DEADLOCK FALSE\n"


def design_checks(ctx):
    quick = ctx.tier == "quick"
    with ThreadPoolExecutor(max_workers=6 if quick else 8) as ex:
        safe = ex.submit(ctx.model_check, "MCRequest", mc_cfg(ctx.tier, inv=RULES), RULES, name="MCRequest_safe",
                         workers=4 if quick else max(4, verif.NCPU // 2), timeout=2400, heap=BIG)
        live = ex.submit(ctx.model_check, "MCRequest", mc_cfg("tiny" if quick else "quick", spec="FairSpec", props=LIVE), LIVE,
                         name="MCRequest_live", workers=2, timeout=2400, heap=SMALL if quick else BIG)
        devs = []
        for d, p in DEV.items():
            cfg = mc_cfg("tiny", dev=[d], spec="FairSpec", props=[p]) if p in LIVE else mc_cfg("tiny", dev=[d], inv=[p])
            devs.append((d, p, ex.submit(ctx.tlc, "MCRequest", cfg, name="MCRequest_" + d, workers=1, timeout=900, heap=SMALL)))
        rs, rl = safe.result(), live.result()
        for d, p, f in devs:
            r = f.result()
            hit = bool(re.search(r"Temporal propert(y %s was|ies were) violated" % p, r.out)) if p in LIVE else p in r.violated
            if r.rc == 0 or not hit:
                raise verif.Undecided("design check MCRequest: deviation %s is not caught by %s (vacuous rule?)\n%s" % (d, p, r.out[-1500:]))
    ctx.log("design checks: %d deviations, each caught by the rule it is meant for" % len(DEV))
    return rs, rl


# ------------------------------------------------------------------------------------------ scenarios
def emit_scenarios(ctx):
    r = ctx.tlc("EmitRequest", mc_cfg(ctx.tier).replace("Scenarios <- Universe", "Scenarios <- One"), workers=1, timeout=900, name="EmitRequest", heap=SMALL)
    f = os.path.join(r.dir, "request-scenarios.ndjson")
    if r.rc != 0 or not os.path.exists(f):
        raise verif.Undecided("EmitRequest failed:\n" + r.out[-2000:])
    scen = verif.read_ndjson(f)
    scen.sort(key=lambda s: json.dumps(s, sort_keys=True))
    ctx.log("TLC emitted the scenario universe: %d scenarios in %.1fs" % (len(scen), r.wall))
    return scen


# ------------------------------------------------------------------------------------------ driver, validation
def drive(ctx, scen, tag="", stepwait_ms=None):
    b = ctx.go_build("request")
    shards = max(1, min(verif.NCPU // 2, len(scen) // 150 + 1))
    sf = ctx.path("request-scen%s.ndjson" % tag)
    with open(sf, "w") as f:
        for s in scen:
            f.write(json.dumps(s) + "\n")
    procs = []
    for i in range(shards):
        tf = ctx.path("request-trace%s-%d.ndjson" % (tag, i))
        env = dict(verif.GOENV, REQ_SHARD="%d/%d" % (i, shards), GOMAXPROCS="2", VERIF_SEED=str(ctx.seed))
        if stepwait_ms:
            env["REQ_STEPWAIT_MS"], env["REQ_SHRUNK_MS"] = str(stepwait_ms), str(max(2500, stepwait_ms // 3))
        procs.append((tf, subprocess.Popen([b, "run", sf, tf], env=env, cwd=ctx.scratch, stdout=subprocess.PIPE, stderr=subprocess.STDOUT, text=True)))
    summ = {"traces": 0, "events": 0, "evaluations": 0, "samples": []}
    files, died = [], []
    for tf, p in procs:
        try:
            out, _ = p.communicate(timeout=3000)
        except subprocess.TimeoutExpired:
            p.kill()
            raise verif.Undecided("request driver timed out")
        if p.returncode != 0 or "SUMMARY " not in out:
            m = re.findall(r"^SCENARIO (\d+)$", out, re.M)
            if m and ("panic:" in out or "fatal error:" in out) and "driver:" not in out:
                died.append((scen[int(m[-1])], out[-2500:]))      # a goroutine the library started itself died
                continue
            raise verif.Undecided("request driver failed (exit %s):\n%s" % (p.returncode, out[-3000:]))
        s = json.loads(out[out.rindex("SUMMARY ") + 8:])
        for k in ("traces", "events", "evaluations"):
            summ[k] += s[k]
        summ["samples"] += s["samples"][:1]
        files.append(tf)
    return files, summ, died


def merge(ctx, files, name, parts=1):
    """Concatenate per-shard batch trace files into `parts` files, renumbering t / end.
    Returns ([paths], {t: meta}, {t: events})."""
    traces = []
    for fn in files:
        if not os.path.exists(fn):
            continue
        metas = {m["t"]: m["meta"] for m in verif.read_ndjson(fn + ".meta")} if os.path.exists(fn + ".meta") else {}
        for t, evs in verif.split_traces(verif.read_ndjson(fn)).items():
            traces.append((metas.get(t, {}), [{k: v for k, v in e.items() if k != "_line"} for e in evs]))
    traces.sort(key=lambda x: x[0].get("n", 0))
    paths, meta, byt = [], {}, {}
    per = (len(traces) + parts - 1) // parts if traces else 1
    for pi in range(parts):
        chunk = traces[pi * per:(pi + 1) * per]
        if not chunk:
            continue
        path = ctx.path("%s-%d.ndjson" % (name, pi))
        line = 0
        with open(path, "w") as w:
            for j, (m, evs) in enumerate(chunk):
                t = pi * per + j + 1
                evs[0]["t"] = t
                evs[0]["end"] = line + len(evs) + 1
                for e in evs:
                    w.write(json.dumps(e) + "\n")
                line += len(evs)
                meta[t] = m
                byt[t] = evs
        paths.append(path)
    return paths, meta, byt


def validate(ctx, trace, only=None, name="TrRequest"):
    cfg = "CONSTANTS\n  Dev = {}\n  Scenarios = {}\n  Only = %s\nSPECIFICATION TSpec\nCONSTRAINT HW\nPOSTCONDITION Accepted\nCHECK_DEADLOCK FALSE\n" % (
        verif.tla_value(set(only or RULES)))
    r = ctx.tlc("TrRequest", cfg, files={"trace.ndjson": trace}, workers=1, timeout=2400, xss=True, deque=True, name=name, heap=BIG)
    rejected = {}
    body = r.printed("REJECTED")
    if body:
        for m in re.finditer(r"<<(\d+),\s*(\d+)>>", body[-1]):
            rejected[int(m.group(1))] = int(m.group(2))
    if not rejected and (r.rc != 0 or r.errors):
        raise verif.Undecided("trace validation TrRequest failed to run:\n%s" % r.out[-5000:])
    return rejected, r


def write_traces(ctx, traces, name):
    """traces: list of event lists (first = reset); writes one batch file with t = 1.."""
    p = ctx.path(name)
    line = 0
    with open(p, "w") as f:
        for k, evs in enumerate(traces):
            evs = [dict(e) for e in evs]
            evs[0]["t"] = k + 1
            evs[0]["end"] = line + len(evs) + 1
            for e in evs:
                f.write(json.dumps(e) + "\n")
            line += len(evs)
    return p


def diagnose(ctx, rejected_traces):
    """Which rule rejects each trace?  One TLC run per rule over the rejected traces only."""
    p = write_traces(ctx, rejected_traces, "request-rejected.ndjson")
    res = {i: [] for i in range(len(rejected_traces))}
    with ThreadPoolExecutor(max_workers=8) as ex:
        runs = list(ex.map(lambda pr: (pr, validate(ctx, p, only=[pr] if pr else None, name="TrRequest_" + (pr or "all"))[0]), [None] + RULES))
    full = runs[0][1]
    for pr, rej in runs[1:]:
        for t, hw in rej.items():
            if full.get(t) == hw:        # the rule rejects the very event the whole specification rejects
                res[t - 1].append(pr)
    return res


HELPER = {
    "ping": "ping.Send", "version": "version.Get", "time": "xtime.Get", "info": "disco.GetInfo", "slot": "upload.GetSlot",
    "cenable": "carbons.Enable", "cdisable": "carbons.Disable", "rosterset": "roster.Set", "rosterdel": "roster.Delete",
    "blockadd": "blocklist.Add", "blockremove": "blocklist.Remove", "blockreport": "blocklist.Report", "bmpublish": "bookmarks.Publish",
    "bmdelete": "bookmarks.Delete", "pspublish": "pubsub.Publish", "pscreate": "pubsub.CreateNode", "psgetcfg": "pubsub.GetConfig",
    "psgetdefault": "pubsub.GetDefaultConfig", "pssetcfg": "pubsub.SetConfig", "psdelete": "pubsub.Delete", "mucgetcfg": "muc.GetConfig",
    "mucsetcfg": "muc.SetConfig", "bob": "bin.Get",
}


def helper_name(sc):
    return HELPER.get(sc["kind"], sc["kind"]) + ("IQ" if sc["iq"] else "")


def script_desc(sc):
    return " ; ".join(i["it"] + ("(%s)" % i["shape"] if i["it"] in ("reply", "wrongid", "wrongfrom") else "") for i in sc["script"]) or "(silence)"


def reply_shape(evs, idx):
    """the shape of the item that was out when event idx happened"""
    k = 0
    for e in evs[1:idx + 1]:
        if e.get("ev") == "peer":
            k = e["k"]
    sc = evs[0]["script"]
    return sc[k - 1] if 1 <= k <= len(sc) else None


def judge(ctx, files):
    parts = 1 if ctx.tier == "quick" else 6
    paths, meta, byt = merge(ctx, files, "request-trace", parts=parts)
    if not meta:
        return 0, 0, paths, []
    with ThreadPoolExecutor(max_workers=parts) as ex:
        results = list(ex.map(lambda ip: validate(ctx, ip[1], name="TrRequest_%d" % ip[0]), enumerate(paths)))
    rej = {}
    for r, _ in results:
        rej.update(r)
    groups = {}
    if rej:
        ts = sorted(rej)
        diag = diagnose(ctx, [byt[t] for t in ts])
        for i, t in enumerate(ts):
            evs = byt[t]
            base = evs[0]["end"] - len(evs) - 1          # rej[t] is the 1-based line within the part file
            idx = rej[t] - base - 1
            ev = evs[idx] if 0 <= idx < len(evs) else None
            rules = diag[i] or ["(no single rule: the event sequence itself is impossible)"]
            if ev and ev.get("ev") == "stuck" or (ev and ev.get("err") == "stuck"):
                rules = ["stall"]
            if ev and ev.get("err") == "panic":
                rules = ["panic"]
            item = reply_shape(evs, idx if ev else len(evs) - 1)
            key = (tuple(rules), evs[0]["kind"], (item or {}).get("it"), (item or {}).get("shape") if "stall" not in rules else "")
            groups.setdefault(key, []).append((t, ev, item, rules))
    return len(meta), len(rej), paths, [(key, lst, byt, meta) for key, lst in sorted(groups.items(), key=lambda x: str(x[0]))]


def report(ctx, groups, confirmed_stalls=None):
    for key, lst, byt, meta in groups:
        t, ev, item, rules = lst[0]
        sc = {f: byt[t][0][f] for f in ("kind", "iq", "arg", "script")}
        if rules == ["stall"] and confirmed_stalls is not None and json.dumps(sc, sort_keys=True) not in confirmed_stalls:
            ctx.notes.append("request: a stall of %s on script %s did not reproduce (not reported)" % (helper_name(sc), script_desc(sc)))
            continue
        expl = "; ".join(EXPLAIN.get(p, p) for p in rules)
        if rules == ["stall"]:
            who = (ev or {}).get("who", "helper")
            expl = ("permanent stall (reproduced): the serve loop never came back for input after the call returned - the response was not closed (R6)"
                    if who == "serve" else "permanent stall (reproduced): the call never returned (R4 / R5: never a hang)")
        if rules == ["panic"]:
            expl = "panic in library code (R4: never a panic): %s" % (ev or {}).get("msg")
        helpers = sorted({helper_name({"kind": byt[x[0]][0]["kind"], "iq": byt[x[0]][0]["iq"]}) for x in lst})
        what = "request: %s: %s - %s, peer script: %s; rejected event %s [%d traces like this: %s]" % (
            "+".join(rules), expl, helper_name(sc), script_desc(sc), json.dumps(ev)[:400], len(lst), ", ".join(helpers))
        ctx.violation(what, {"family": "request", "scenario": sc, "trace": byt[t], "rejected_event": ev, "rules": rules, "similar": len(lst)})


def selftest(ctx, paths):
    """Binding self-test: corrupt recorded fields of accepted traces; TLC must reject each, and accept the originals."""
    trs = {}
    for n, p in enumerate(paths):
        for t, evs in verif.split_traces(verif.read_ndjson(p)).items():
            trs[(n, t)] = [{k: v for k, v in e.items() if k != "_line"} for e in evs]

    def find(pred):
        for evs in trs.values():
            try:
                if pred(evs):
                    return [dict(e) for e in evs]
            except (KeyError, IndexError):
                pass
        raise verif.Undecided("binding self-test: no suitable trace")
    first = lambda evs, f: next(i for i, e in enumerate(evs) if f(e))
    is_ev = lambda n: (lambda e: e.get("ev") == n)
    scr = lambda evs: [(i["it"], i["shape"]) for i in evs[0]["script"]]
    ok_value = lambda kind: (lambda evs: evs[0]["kind"] == kind and scr(evs) == [("reply", "ok"), ("extra", "")])
    base = [find(ok_value("version")), find(ok_value("slot")),
            find(lambda evs: evs[0]["kind"] == "rosterset" and not evs[0]["iq"] and scr(evs) == [("reply", "e-forbidden"), ("extra", "")]),
            find(lambda evs: scr(evs)[:2] == [("wrongid", "ok"), ("reply", "ok")] and evs[0]["kind"] == "version"),
            find(lambda evs: scr(evs) == [("extra", "")]),
            find(lambda evs: evs[0]["iq"] and evs[0]["arg"]["iqid"] == "c1" and scr(evs) == [("reply", "ok"), ("extra", "")])]
    muts = []

    def mut(name, src, f):
        m = [json.loads(json.dumps(e)) for e in src]
        f(m)
        muts.append((name, m))
    ret, req, hnd = is_ev("ret"), is_ev("req"), is_ev("handled")
    mut("result with another value", base[0], lambda m: m[first(m, ret)].update(val=["srv", "1.2", "x"]))
    mut("result with the zero value", base[0], lambda m: m[first(m, ret)].update(val=[]))
    mut("result turned into an error", base[0], lambda m: m[first(m, ret)].update(err="other", val=[]))
    mut("request with the other type", base[0], lambda m: m[first(m, req)].update(typ="set"))
    mut("request to somebody else", base[0], lambda m: m[first(m, req)].update(to="x.example"))
    mut("request without id", base[0], lambda m: (m[first(m, req)].update(id=""), [e.update(id="x") for e in m if e.get("ev") in ("peer", "handled") and e.get("id") == ""]))
    mut("request with another payload namespace", base[0], lambda m: m[first(m, req)].update(ns="jabber:iq:last"))
    mut("request written twice", base[0], lambda m: m.insert(first(m, req) + 1, dict(m[first(m, req)], ev="wire", st="iq")))
    mut("slot with a header that is not allowed", base[1], lambda m: m[first(m, ret)].update(val=m[first(m, ret)]["val"] + ["header", "X-Evil", "1"]))
    mut("request with another file name", base[1], lambda m: m[first(m, req)]["a"].__setitem__(0, "other.png"))
    mut("error reply returned as success", base[2], lambda m: m[first(m, ret)].update(err="none", cond="", etyp=""))
    mut("error reply with another condition", base[2], lambda m: m[first(m, ret)].update(cond="not-allowed"))
    mut("error reply with another type", base[2], lambda m: m[first(m, ret)].update(etyp="cancel"))
    mut("request item with another subscription", base[2], lambda m: m[first(m, req)]["a"].__setitem__(3, "none"))
    mut("the stanza after the reply never handled", base[0], lambda m: m.pop(len(m) - 1 - first(m[::-1], hnd)))
    mut("the reply also handed to the handler", base[0], lambda m: m.insert(first(m, ret) + 1, dict(ev="handled", st="iq", typ="result", id=m[first(m, req)]["id"])))

    def take_wrong(m):          # the call returns on the response with the foreign id
        i = first(m, hnd)
        r = m.pop(first(m, ret))
        m[i] = r
    mut("the response with another id taken for the answer", base[3], take_wrong)
    mut("silence: nil instead of the context's error", base[4], lambda m: m[first(m, ret)].update(err="none"))
    mut("silence: the call returns without cancellation", base[4], lambda m: m.pop(first(m, is_ev("cancel"))))
    mut("the caller's id replaced", base[5], lambda m: [e.update(id="zz") for e in m if e.get("id") == "c1"])
    mut("Serve returns an error at the end of the stream", base[0], lambda m: m[first(m, is_ev("serve_ret"))].update(err="other"))
    p = write_traces(ctx, base + [m for _, m in muts], "request-selftest.ndjson")
    rej, _ = validate(ctx, p, name="TrRequest_selftest")
    bad = [i + 1 for i in range(len(base)) if i + 1 in rej]
    if bad:
        raise verif.Undecided("binding self-test: unchanged traces %s rejected" % bad)
    missed = [muts[i][0] for i in range(len(muts)) if len(base) + i + 1 not in rej]
    if missed:
        raise verif.Undecided("binding self-test: corrupted traces ACCEPTED: %s" % missed)
    return len(muts)


def run_part(ctx):
    bg = ThreadPoolExecutor(max_workers=1)
    design = bg.submit(design_checks, ctx)          # pipeline A runs beside generation and the driver
    try:
        if ctx.replay:
            scen = [json.load(open(ctx.replay))["case"]["scenario"]]
        else:
            scen = emit_scenarios(ctx)
        t0 = time.time()
        files, summ, died = drive(ctx, scen)
        ctx.log("ran %d scenarios on real sessions: %d traces, %d events in %.1fs" % (len(scen), summ["traces"], summ["events"], time.time() - t0))
        for sc, out in died[:5]:
            m = re.search(r"(panic: [^\n]*|fatal error: [^\n]*)", out)
            ctx.violation("request: the driver process died in a goroutine of the library (%s) in scenario %s" % (m.group(1) if m else "?", json.dumps(sc)[:300]),
                          {"family": "request", "scenario": sc, "output": out})
        t1 = time.time()
        n, nrej, paths, groups = judge(ctx, files)
        ctx.log("TLC validated %d traces (%d rejected) in %.1fs" % (n, nrej, time.time() - t1))
        # a stall is reported only if it reproduces (a watchdog alone is no verdict)
        confirmed = None
        stalled = [g for g in groups if g[0][0] == ("stall",)]
        if stalled:
            again = []
            for key, lst, byt, meta in stalled[:8]:        # a handful is enough to tell a wedged library from a slow machine
                again.append({f: byt[lst[0][0]][0][f] for f in ("kind", "iq", "arg", "script")})
            files2, _, _ = drive(ctx, again, tag="-again", stepwait_ms=8000)
            _, _, _, groups2 = judge_again(ctx, files2)
            confirmed = groups2
        report(ctx, groups, confirmed)
        nself = 0
        if not ctx.replay and not ctx.violations:
            nself = selftest(ctx, paths)
            ctx.log("binding self-test: %d corrupted traces rejected" % nself)
    finally:
        rs, rl = design.result()
    kinds = sorted({helper_name(s) for s in scen})
    shapes = sorted({i["shape"] for s in scen for i in s["script"] if i["shape"]})
    return {
        "states": rs.distinct, "transitions": rs.generated, "liveness_states": rl.distinct, "deviations_caught": len(DEV),
        "scenarios": len(scen), "evaluations": summ["evaluations"], "traces_validated_against_impl": summ["traces"], "trace_events": summ["events"],
        "rejected": nrej, "driver_deaths": len(died), "binding_selftest_mutants_rejected": nself,
        "distinct_nontrivial": len(kinds), "helpers": kinds, "reply_shapes": shapes, "samples": summ["samples"][:2],
        "rule": "every scenario of the universe emitted by TLC (tla/MCRequest.tla): helper kind (23 helpers and their 20 ...IQ variants) x argument class "
                "(addressee none / server / full JID / service, node, item id, 0-2 JIDs, roster item with / without name and groups, file with / without "
                "content type, form nil / filled in, flags; the caller's stanza with / without id and with an unset / response / opposite / right type) x "
                "peer script (the reply of every shape that makes sense for the kind - well-formed plain and rich, empty, foreign payload, character data, "
                "wrong namespace, partly invalid, payload twice, four error conditions incl. one echoing the request, error without condition, bare error - "
                "followed by another stanza; a response with another id / another stanza kind with the same id / the same id from another sender before "
                "the reply; silence; cancellation followed by a late reply; a second reply), each run on a real served session",
    }


def judge_again(ctx, files):
    """Second run of the stalled scenarios: returns the set of scenarios (as JSON keys) that stalled again."""
    paths, meta, byt = merge(ctx, files, "request-again", parts=1)
    stalled = set()
    for t, evs in byt.items():
        if any(e.get("ev") == "stuck" or e.get("err") == "stuck" for e in evs):
            stalled.add(json.dumps({f: evs[0][f] for f in ("kind", "iq", "arg", "script")}, sort_keys=True))
    return None, None, None, stalled
