// Command faults enumerates transport faults and cancellations over the standard handshakes of
// the real library (both ends are real sessions joined by an in-memory pipe, the fault is
// injected into the transport of the side under test) and records one trace per run for
// validation against tla/Faults.tla.
//
//	faults run <trace.ndjson>     env: VERIF_TIER, FAULTS_ONLY=<handshake>
//
// Besides the standard handshakes (both ends real sessions) the enumeration covers the ABORT paths of
// negotiation: the side under test is a real session, its peer a script that provokes a stream-level abort
// (selects a feature that was not advertised / whose prerequisites do not hold / that was negotiated already,
// sends a stream error, garbage, a bad or mismatching header, a SASL failure, a malformed features list).
package main

import (
	"context"
	"encoding/base64"
	"crypto/ecdsa"
	"crypto/elliptic"
	"crypto/rand"
	"crypto/sha1"
	"crypto/tls"
	"crypto/x509"
	"crypto/x509/pkix"
	"encoding/hex"
	"encoding/xml"
	"errors"
	"fmt"
	"io"
	"math/big"
	"os"
	"sort"
	"strings"
	"sync"
	"sync/atomic"
	"time"

	"mellium.im/sasl"
	"mellium.im/xmlstream"
	"mellium.im/xmpp"
	"mellium.im/xmpp/component"
	"mellium.im/xmpp/jid"
	"mellium.im/xmpp/websocket"

	"verifharness/vt"
)

func mkCert(names ...string) (tls.Certificate, *x509.CertPool) {
	key, err := ecdsa.GenerateKey(elliptic.P256(), rand.Reader)
	if err != nil {
		panic(err)
	}
	tpl := &x509.Certificate{
		SerialNumber: big.NewInt(1), Subject: pkix.Name{CommonName: names[0]}, DNSNames: names,
		NotBefore: time.Now().Add(-time.Hour), NotAfter: time.Now().Add(24 * time.Hour),
		KeyUsage: x509.KeyUsageDigitalSignature | x509.KeyUsageCertSign, ExtKeyUsage: []x509.ExtKeyUsage{x509.ExtKeyUsageServerAuth},
		BasicConstraintsValid: true, IsCA: true,
	}
	der, err := x509.CreateCertificate(rand.Reader, tpl, tpl, &key.PublicKey, key)
	if err != nil {
		panic(err)
	}
	c, _ := x509.ParseCertificate(der)
	pool := x509.NewCertPool()
	pool.AddCert(c)
	return tls.Certificate{Certificate: [][]byte{der}, PrivateKey: key}, pool
}

var cert, pool = mkCert("example.net")

const (
	user     = "me"
	password = "secret"
	domain   = "example.net"
)

// fault description for one run
type Fault struct {
	Kind   string `json:"kind"` // none cut failread failwrite cancel
	At     int    `json:"at"`   // byte offset (cut) / operation index (failread, failwrite) / gate index (cancel)
	Silent bool   `json:"silent"`
	// Stuck (with Silent): the peer has stopped reading as well - writes block until a deadline
	Stuck bool `json:"stuck"`
	// Deadline: the context given to the constructor also carries a deadline of its own, an hour away
	Deadline bool `json:"deadline"`
}

type Run struct {
	Handshake string `json:"handshake"`
	Side      string `json:"side"` // client | server
	Fault     Fault  `json:"fault"`
}

// logging wrapper around a real stream feature (only on the side under test)
func wrap(f xmpp.StreamFeature, name string, lg *vt.Log) xmpp.StreamFeature {
	if lg == nil || f.Negotiate == nil {
		return f
	}
	inner := f.Negotiate
	f.Negotiate = func(ctx context.Context, s *xmpp.Session, data interface{}) (xmpp.SessionState, io.ReadWriter, error) {
		lg.Add(vt.Ev{"ev": "negotiate", "f": name})
		m, rw, err := inner(ctx, s, data)
		e := vt.Ev{"ev": "negret", "f": name, "ok": err == nil}
		if err != nil {
			e["err"] = err.Error()
		}
		lg.Add(e)
		return m, rw, err
	}
	return f
}

func failing(lg *vt.Log) xmpp.StreamFeature {
	return wrap(xmpp.StreamFeature{
		Name:      xml.Name{Space: "urn:vt:volfail", Local: "volfail"},
		Necessary: xmpp.Secure,
		List: func(ctx context.Context, e xmlstream.TokenWriter, start xml.StartElement) (bool, error) {
			if err := e.EncodeToken(start); err != nil {
				return false, err
			}
			return false, e.EncodeToken(start.End())
		},
		Parse: func(ctx context.Context, d *xml.Decoder, start *xml.StartElement) (bool, interface{}, error) {
			return false, nil, d.Skip()
		},
		Negotiate: func(ctx context.Context, s *xmpp.Session, data interface{}) (xmpp.SessionState, io.ReadWriter, error) {
			if s.State()&xmpp.Received != 0 {
				rd := s.TokenReader()
				defer rd.Close()
				if _, err := rd.Token(); err != nil {
					return 0, nil, err
				}
				if err := xmlstream.Skip(rd); err != nil {
					return 0, nil, err
				}
				return 0, nil, nil
			}
			if _, err := fmt.Fprint(s.Conn(), "<volfail xmlns='urn:vt:volfail'/>"); err != nil {
				return 0, nil, err
			}
			return 0, nil, errors.New("vt: voluntary feature fails")
		},
	}, "volfail", lg)
}

// volok: a voluntary feature that succeeds (receiving side: consumes the selection and acknowledges it).
func volok(lg *vt.Log) xmpp.StreamFeature {
	return wrap(xmpp.StreamFeature{
		Name: xml.Name{Space: "urn:vt:volok", Local: "volok"},
		List: func(ctx context.Context, e xmlstream.TokenWriter, start xml.StartElement) (bool, error) {
			if err := e.EncodeToken(start); err != nil {
				return false, err
			}
			return false, e.EncodeToken(start.End())
		},
		Parse: func(ctx context.Context, d *xml.Decoder, start *xml.StartElement) (bool, interface{}, error) {
			return false, nil, d.Skip()
		},
		Negotiate: func(ctx context.Context, s *xmpp.Session, data interface{}) (xmpp.SessionState, io.ReadWriter, error) {
			if s.State()&xmpp.Received != 0 {
				rd := s.TokenReader()
				defer rd.Close()
				if _, err := rd.Token(); err != nil {
					return 0, nil, err
				}
				if err := xmlstream.Skip(rd); err != nil {
					return 0, nil, err
				}
				_, err := fmt.Fprint(s.Conn(), "<okvol xmlns='urn:vt:volok'/>")
				return 0, nil, err
			}
			_, err := fmt.Fprint(s.Conn(), "<volok xmlns='urn:vt:volok'/>")
			return 0, nil, err
		},
	}, "volok", lg)
}

// ---------------------------------------------------------------- abort-provoking peer scripts

// pstep: wait for a piece of the session's output (await: "" nothing, "name" the start tag of an element with
// that local name, "/name" its end), then send.
type pstep struct{ await, send string }

const (
	hdrC = `<?xml version='1.0'?><stream:stream xmlns='jabber:client' xmlns:stream='http://etherx.jabber.org/streams' version='1.0' from='` + user + `@` + domain + `' to='` + domain + `'>`
	hdrS = `<?xml version='1.0'?><stream:stream xmlns='jabber:client' xmlns:stream='http://etherx.jabber.org/streams' version='1.0' from='` + domain + `' id='sid1'>`
	nsSE = `urn:ietf:params:xml:ns:xmpp-streams`
	mech = `<stream:features><mechanisms xmlns='urn:ietf:params:xml:ns:xmpp-sasl'><mechanism>PLAIN</mechanism></mechanisms></stream:features>`
)

// abortScripts: handshake name -> side under test and the script of its peer.  Every script ends with the
// peer reading on (it keeps the connection open: the side under test has to end the exchange itself).
var abortScripts = map[string]struct {
	side  string
	steps []pstep
}{
	// receiving side under test (standard features sasl + bind on a secure stream)
	"abort-unadv":     {"server", []pstep{{"", hdrC}, {"/features", `<unk xmlns='urn:vt:unk'/>`}}},
	"abort-early":     {"server", []pstep{{"", hdrC}, {"/features", `<iq type='set' id='b1'><bind xmlns='urn:ietf:params:xml:ns:xmpp-bind'/></iq>`}}},
	"abort-again":     {"server", []pstep{{"", hdrC}, {"/features", `<volok xmlns='urn:vt:volok'/>`}, {"/okvol", `<volok xmlns='urn:vt:volok'/>`}}},
	"abort-streamerr": {"server", []pstep{{"", hdrC}, {"/features", `<stream:error><host-gone xmlns='` + nsSE + `'/></stream:error></stream:stream>`}}},
	"abort-garbage":   {"server", []pstep{{"", hdrC}, {"/features", `not xml & <<`}}},
	"abort-badhdr":    {"server", []pstep{{"", strings.Replace(hdrC, "version='1.0'", "version='0.9'", 1)}}},
	"abort-rehdr": {"server", []pstep{{"", hdrC},
		{"/features", `<auth xmlns='urn:ietf:params:xml:ns:xmpp-sasl' mechanism='PLAIN'>` + base64.StdEncoding.EncodeToString([]byte("\x00"+user+"\x00"+password)) + `</auth>`},
		{"/success", strings.Replace(hdrC, "from='"+user+"@", "from='you@", 1)}}},
	// initiating side under test
	"abort-s-streamerr": {"client", []pstep{{"stream", hdrS + `<stream:error><host-unknown xmlns='` + nsSE + `'/></stream:error></stream:stream>`}}},
	"abort-s-badhdr":    {"client", []pstep{{"stream", strings.Replace(hdrS, "version='1.0'", "version='0.9'", 1)}}},
	"abort-s-hdrfrom":   {"client", []pstep{{"stream", strings.Replace(hdrS, "from='"+domain, "from='other.example", 1) + mech}}},
	"abort-s-garbage":   {"client", []pstep{{"stream", hdrS + `not xml & <<`}}},
	"abort-s-badfeat":   {"client", []pstep{{"stream", hdrS + strings.Replace(mech, "<mechanisms", "text<mechanisms", 1)}}},
	"abort-s-saslfail": {"client", []pstep{{"stream", hdrS + mech},
		{"/auth", `<failure xmlns='urn:ietf:params:xml:ns:xmpp-sasl'><not-authorized/></failure>`}}},
}

func isAbort(h string) bool { return strings.HasPrefix(h, "abort-") }

func scriptedPeer(c *vt.Conn, steps []pstep) {
	d := xml.NewDecoder(c)
	await := func(what string) bool {
		for {
			tok, err := d.RawToken()
			if err != nil {
				return false
			}
			switch t := tok.(type) {
			case xml.StartElement:
				if t.Name.Local == what {
					return true
				}
			case xml.EndElement:
				if "/"+t.Name.Local == what {
					return true
				}
			}
		}
	}
	for _, st := range steps {
		if st.await != "" && !await(st.await) {
			return
		}
		if _, err := io.WriteString(c, st.send); err != nil {
			return
		}
	}
	await("\x00") // read on until the connection ends
}

// tracked is the transport handed to the side under test: it knows whether the session is inside a transport
// operation right now (stall confirmation, see runOne).
type tracked struct {
	*vt.Conn
	inRead, inWrite int32
}

func (t *tracked) Read(p []byte) (int, error) {
	atomic.AddInt32(&t.inRead, 1)
	defer atomic.AddInt32(&t.inRead, -1)
	return t.Conn.Read(p)
}

func (t *tracked) Write(p []byte) (int, error) {
	atomic.AddInt32(&t.inWrite, 1)
	defer atomic.AddInt32(&t.inWrite, -1)
	return t.Conn.Write(p)
}

func clientFeatures(h string, lg *vt.Log) []xmpp.StreamFeature {
	var fs []xmpp.StreamFeature
	if strings.Contains(h, "tls") {
		fs = append(fs, wrap(xmpp.StartTLS(&tls.Config{ServerName: domain, RootCAs: pool, MinVersion: tls.VersionTLS12}), "tls", lg))
	}
	if strings.Contains(h, "volfail") {
		fs = append(fs, failing(lg))
	}
	fs = append(fs, wrap(xmpp.SASL("", password, sasl.Plain), "sasl", lg), wrap(xmpp.BindResource(), "bind", lg))
	return fs
}

func serverFeatures(h string, lg *vt.Log) []xmpp.StreamFeature {
	var fs []xmpp.StreamFeature
	if strings.Contains(h, "tls") {
		fs = append(fs, wrap(xmpp.StartTLS(&tls.Config{Certificates: []tls.Certificate{cert}, MinVersion: tls.VersionTLS12}), "tls", lg))
	}
	if strings.Contains(h, "volfail") {
		fs = append(fs, failing(lg))
	}
	if h == "abort-again" {
		fs = append(fs, volok(lg))
	}
	perm := func(n *sasl.Negotiator) bool {
		u, p, _ := n.Credentials()
		return string(u) == user && string(p) == password
	}
	fs = append(fs, wrap(xmpp.SASLServer(perm, sasl.Plain), "sasl", lg), wrap(xmpp.BindResource(), "bind", lg))
	return fs
}

func negotiator(h string, fs []xmpp.StreamFeature) xmpp.Negotiator {
	cfg := func(*xmpp.Session, *xmpp.StreamConfig) xmpp.StreamConfig { return xmpp.StreamConfig{Features: fs} }
	if strings.HasPrefix(h, "ws") {
		return websocket.Negotiator(cfg)
	}
	return xmpp.NewNegotiator(cfg)
}

func initState(h string) xmpp.SessionState {
	if strings.Contains(h, "tls") {
		return 0
	}
	return xmpp.Secure
}

// scripted component server (the library only implements the initiating side)
func componentPeer(c *vt.Conn, secret string) {
	d := xml.NewDecoder(c)
	for {
		tok, err := d.Token()
		if err != nil {
			return
		}
		st, ok := tok.(xml.StartElement)
		if !ok {
			continue
		}
		switch st.Name.Local {
		case "stream":
			fmt.Fprintf(c, `<stream:stream xmlns='jabber:component:accept' xmlns:stream='http://etherx.jabber.org/streams' from='%s' id='sid1'>`, domain)
		case "handshake":
			var got string
			if err := d.DecodeElement(&got, &st); err != nil {
				return
			}
			sum := sha1.Sum([]byte("sid1" + secret))
			if strings.TrimSpace(got) == hex.EncodeToString(sum[:]) {
				fmt.Fprint(c, `<handshake/>`)
			} else {
				fmt.Fprint(c, `<stream:error><not-authorized xmlns='urn:ietf:params:xml:ns:xmpp-streams'/></stream:error></stream:stream>`)
				return
			}
		}
	}
}

type baseline struct {
	reads, writes, bytesIn, gates int
	ok                            bool
}

var stallAfter = 10 * time.Second

var stallsSeen int // after a few stalls (each reported) the rest of the run uses a short watchdog

// runOne executes one handshake with one fault on the side under test and returns the trace.
func runOne(r Run) ([]vt.Ev, baseline) {
	a, b := vt.Pipe() // a: client end, b: server end
	lg := &vt.Log{}
	sut, other := a, b
	if r.Side == "server" {
		sut, other = b, a
	}
	ctx, cancel := context.WithCancel(context.Background())
	defer cancel()
	if r.Fault.Deadline {
		var c2 context.CancelFunc
		ctx, c2 = context.WithTimeout(ctx, time.Hour)
		defer c2()
	}
	octx, ocancel := context.WithTimeout(context.Background(), 20*time.Second)
	defer ocancel()
	gates := 0
	cancelled := false // (under mu)
	var mu sync.Mutex
	frozen := false
	switch r.Fault.Kind {
	case "failread":
		sut.FailRead = r.Fault.At
	case "failwrite":
		sut.FailWrite = r.Fault.At
	case "cut":
		sut.CutIn = r.Fault.At
		if r.Fault.At == 0 {
			sut.CutIn = -1
		}
	}
	// deadline currently in force on the transport of the side under test, per direction (as last set)
	var dlRead, dlWrite atomic.Value
	dlRead.Store("clear")
	dlWrite.Store("clear")
	sut.OnEvent = func(kind, arg string, n int) {
		if kind == "fault" {
			lg.Add(vt.Ev{"ev": "fault", "kind": arg, "n": n})
		}
		if kind == "deadline" {
			i := strings.IndexByte(arg, '-')
			if which := arg[:i]; which == "both" || which == "read" {
				dlRead.Store(arg[i+1:])
			}
			if which := arg[:i]; which == "both" || which == "write" {
				dlWrite.Store(arg[i+1:])
			}
		}
	}
	tsut := &tracked{Conn: sut}
	sut.Gate = func(point string) {
		mu.Lock()
		gates++
		g := gates
		mu.Unlock()
		if r.Fault.Kind == "cancel" && g == r.Fault.At {
			mu.Lock()
			was := cancelled
			cancelled = true
			mu.Unlock()
			if was {
				return
			}
			lg.Add(vt.Ev{"ev": "cancel", "at": point, "n": g})
			if r.Fault.Silent {
				mu.Lock()
				frozen = true
				mu.Unlock()
				if r.Fault.Stuck {
					sut.FreezeAll()
				} else {
					sut.Freeze()
				}
			}
			cancel()
		}
	}
	_ = frozen
	var cs, ss *xmpp.Session
	var cerr, serr error
	origin := jid.MustParse(user + "@" + domain + "/res")
	client := func(c io.ReadWriter, cx context.Context, l *vt.Log) {
		defer func() {
			if p := recover(); p != nil {
				cerr = fmt.Errorf("panic: %v", p)
			}
		}()
		if r.Handshake == "component" {
			cs, cerr = component.NewSession(cx, jid.MustParse("comp."+domain), []byte("s3cr3t"), c)
			return
		}
		cs, cerr = xmpp.NewSession(cx, jid.MustParse(domain), origin, c, initState(r.Handshake), negotiator(r.Handshake, clientFeatures(r.Handshake, l)))
	}
	server := func(c io.ReadWriter, cx context.Context, l *vt.Log) {
		defer func() {
			if p := recover(); p != nil {
				serr = fmt.Errorf("panic: %v", p)
			}
		}()
		if r.Handshake == "component" {
			componentPeer(c.(*vt.Conn), "s3cr3t")
			return
		}
		ss, serr = xmpp.ReceiveSession(cx, c, initState(r.Handshake), negotiator(r.Handshake, serverFeatures(r.Handshake, l)))
	}
	done := make(chan struct{})
	sutDone := make(chan struct{})
	go func() {
		defer close(done)
		if sc, ok := abortScripts[r.Handshake]; ok {
			scriptedPeer(other, sc.steps)
			return
		}
		if r.Side == "client" {
			server(other, octx, nil)
			if serr != nil || r.Handshake == "component" {
				other.Close() // a peer whose own negotiation failed hangs up
			}
		} else {
			client(other, octx, nil)
			if cerr != nil {
				other.Close()
			}
		}
	}()
	go func() {
		defer close(sutDone)
		if r.Side == "client" {
			client(tsut, ctx, lg)
		} else {
			server(tsut, ctx, lg)
		}
	}()
	// A call that has not returned when the (generous) watchdog fires is a stall if, at that moment, its context is
	// cancelled and it sits in a transport operation with no deadline in force: nothing can end that operation
	// any more (the peer is frozen), whatever the machine load.  A call that is late for any other reason gets
	// two more periods before it counts.
	stalled, why := false, ""
	period := stallAfter
	if r.Fault.Kind != "cancel" && stallsSeen < 3 {
		period = 30 * time.Second
	}
	for i := 0; i < 3 && !stalled; i++ {
		select {
		case <-sutDone:
			i = 3
		case <-time.After(period):
			mu.Lock()
			c := cancelled
			mu.Unlock()
			switch {
			case c && atomic.LoadInt32(&tsut.inWrite) > 0 && dlWrite.Load() != "past":
				stalled, why = true, "context cancelled, the call sits in a transport write, write deadline "+dlWrite.Load().(string)
			case c && atomic.LoadInt32(&tsut.inRead) > 0 && dlRead.Load() != "past":
				stalled, why = true, "context cancelled, the call sits in a transport read, read deadline "+dlRead.Load().(string)
			case i == 2:
				stalled, why = true, "no return after three watchdog periods"
			}
		}
	}
	if stalled {
		if stallsSeen++; stallsSeen >= 3 {
			stallAfter = 2 * time.Second
		}
		lg.Add(vt.Ev{"ev": "stall", "why": why})
		sut.Close()
		other.Close()
		<-sutDone
	}
	sess, err := cs, cerr
	if r.Side == "server" {
		sess, err = ss, serr
	}
	ready := sess != nil && sess.State()&xmpp.Ready != 0
	e := vt.Ev{"ev": "return", "ok": err == nil, "ready": ready}
	if err != nil {
		e["err"] = err.Error()
	}
	if !stalled {
		lg.Add(e)
	}
	lg.Add(vt.Ev{"ev": "end"})
	sut.Close()
	other.Close()
	<-done
	rd, wr := sut.Counts()
	mu.Lock()
	g := gates
	mu.Unlock()
	return lg.Events(), baseline{reads: rd, writes: wr, bytesIn: sut.Consumed(), gates: g, ok: err == nil}
}

func main() {
	if len(os.Args) < 3 || os.Args[1] != "run" {
		fmt.Fprintln(os.Stderr, "usage: faults run <trace.ndjson>")
		os.Exit(2)
	}
	thorough := os.Getenv("VERIF_TIER") == "thorough"
	tw, err := vt.NewTraceWriter(os.Args[2])
	if err != nil {
		panic(err)
	}
	handshakes := []string{"sasl-bind", "tls-sasl-bind", "ws-sasl-bind", "volfail-sasl-bind", "component"}
	var aborts []string
	for h := range abortScripts {
		aborts = append(aborts, h)
	}
	sort.Strings(aborts)
	handshakes = append(handshakes, aborts...)
	if o := os.Getenv("FAULTS_ONLY"); o != "" {
		handshakes = strings.Split(o, ",")
	}
	runs := 0
	classes := map[string]bool{}
	var samples []interface{}
	var notes []interface{}
	emit := func(r Run) {
		evs, _ := runOne(r)
		runs++
		t := tw.Write(vt.Ev{"silent": r.Fault.Silent, "ctxd": r.Fault.Deadline, "stuck": r.Fault.Stuck, "aborts": isAbort(r.Handshake)}, evs)
		tw.Meta(r)
		classes[fmt.Sprintf("%s/%s/%s", r.Handshake, r.Side, r.Fault.Kind)] = true
		if len(samples) < 3 && r.Fault.Kind != "none" && runs%37 == 0 {
			samples = append(samples, vt.Ev{"t": t, "run": r, "events": evs})
		}
	}
	for _, h := range handshakes {
		sides := []string{"client", "server"}
		if h == "component" {
			sides = []string{"client"}
		}
		if sc, ok := abortScripts[h]; ok {
			sides = []string{sc.side}
		}
		for _, side := range sides {
			base := Run{Handshake: h, Side: side, Fault: Fault{Kind: "none"}}
			evs, bl := runOne(base)
			runs++
			tw.Write(vt.Ev{"silent": false, "ctxd": false, "stuck": false, "aborts": isAbort(h)}, evs)
			tw.Meta(base)
			notes = append(notes, vt.Ev{"handshake": h, "side": side, "baseline_ok": bl.ok, "reads": bl.reads, "writes": bl.writes, "bytes_in": bl.bytesIn, "gates": bl.gates})
			// peer's byte stream ends after every prefix length (quick: every 5th and the first/last 48)
			for p := 0; p < bl.bytesIn; p++ {
				if !thorough && p >= 48 && p < bl.bytesIn-48 && p%5 != 0 {
					continue
				}
				if !thorough && isAbort(h) && p >= 8 && p%7 != 0 {
					continue // the abort handshakes are there for the cancellation / write-fault crossings
				}
				emit(Run{h, side, Fault{Kind: "cut", At: p}})
			}
			for k := 1; k <= bl.reads; k++ {
				emit(Run{h, side, Fault{Kind: "failread", At: k}})
			}
			for k := 1; k <= bl.writes; k++ {
				emit(Run{h, side, Fault{Kind: "failwrite", At: k}})
			}
			for k := 1; k <= bl.gates; k++ {
				emit(Run{h, side, Fault{Kind: "cancel", At: k}})
				emit(Run{h, side, Fault{Kind: "cancel", At: k, Silent: true}})
				emit(Run{h, side, Fault{Kind: "cancel", At: k, Silent: true, Stuck: true}})
				emit(Run{h, side, Fault{Kind: "cancel", At: k, Silent: true, Deadline: true}})
				if thorough || k%3 == 0 {
					emit(Run{h, side, Fault{Kind: "cancel", At: k, Deadline: true}})
					emit(Run{h, side, Fault{Kind: "cancel", At: k, Silent: true, Stuck: true, Deadline: true}})
				}
			}
		}
	}
	if err := tw.Close(); err != nil {
		panic(err)
	}
	tr, ev := tw.Counts()
	vt.Summary{Traces: tr, Events: ev, Evaluations: runs, Distinct: len(classes), Samples: samples,
		Extra: map[string]interface{}{"baselines": notes}}.Print()
}
