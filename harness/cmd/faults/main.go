// Command faults enumerates transport faults and cancellations over the standard handshakes of
// the real library (both ends are real sessions joined by an in-memory pipe, the fault is
// injected into the transport of the side under test) and records one trace per run for
// validation against tla/Faults.tla.
//
//	faults run <trace.ndjson>     env: VERIF_TIER, FAULTS_ONLY=<handshake>
package main

import (
	"context"
	"crypto/ecdsa"
	"crypto/elliptic"
	"crypto/rand"
	"crypto/sha1"
	"crypto/tls"
	"crypto/x509"
	"crypto/x509/pkix"
	"encoding/hex"
	"encoding/xml"
	"errors"
	"fmt"
	"io"
	"math/big"
	"os"
	"strings"
	"sync"
	"time"

	"mellium.im/sasl"
	"mellium.im/xmlstream"
	"mellium.im/xmpp"
	"mellium.im/xmpp/component"
	"mellium.im/xmpp/jid"
	"mellium.im/xmpp/websocket"

	"verifharness/vt"
)

func mkCert(names ...string) (tls.Certificate, *x509.CertPool) {
	key, err := ecdsa.GenerateKey(elliptic.P256(), rand.Reader)
	if err != nil {
		panic(err)
	}
	tpl := &x509.Certificate{
		SerialNumber: big.NewInt(1), Subject: pkix.Name{CommonName: names[0]}, DNSNames: names,
		NotBefore: time.Now().Add(-time.Hour), NotAfter: time.Now().Add(24 * time.Hour),
		KeyUsage: x509.KeyUsageDigitalSignature | x509.KeyUsageCertSign, ExtKeyUsage: []x509.ExtKeyUsage{x509.ExtKeyUsageServerAuth},
		BasicConstraintsValid: true, IsCA: true,
	}
	der, err := x509.CreateCertificate(rand.Reader, tpl, tpl, &key.PublicKey, key)
	if err != nil {
		panic(err)
	}
	c, _ := x509.ParseCertificate(der)
	pool := x509.NewCertPool()
	pool.AddCert(c)
	return tls.Certificate{Certificate: [][]byte{der}, PrivateKey: key}, pool
}

var cert, pool = mkCert("example.net")

const (
	user     = "me"
	password = "secret"
	domain   = "example.net"
)

// fault description for one run
type Fault struct {
	Kind   string `json:"kind"` // none cut failread failwrite cancel
	At     int    `json:"at"`   // byte offset (cut) / operation index (failread, failwrite) / gate index (cancel)
	Silent bool   `json:"silent"`
	// Stuck (with Silent): the peer has stopped reading as well - writes block until a deadline
	Stuck bool `json:"stuck"`
	// Deadline: the context given to the constructor also carries a deadline of its own, an hour away
	Deadline bool `json:"deadline"`
}

type Run struct {
	Handshake string `json:"handshake"`
	Side      string `json:"side"` // client | server
	Fault     Fault  `json:"fault"`
}

// logging wrapper around a real stream feature (only on the side under test)
func wrap(f xmpp.StreamFeature, name string, lg *vt.Log) xmpp.StreamFeature {
	if lg == nil || f.Negotiate == nil {
		return f
	}
	inner := f.Negotiate
	f.Negotiate = func(ctx context.Context, s *xmpp.Session, data interface{}) (xmpp.SessionState, io.ReadWriter, error) {
		lg.Add(vt.Ev{"ev": "negotiate", "f": name})
		m, rw, err := inner(ctx, s, data)
		e := vt.Ev{"ev": "negret", "f": name, "ok": err == nil}
		if err != nil {
			e["err"] = err.Error()
		}
		lg.Add(e)
		return m, rw, err
	}
	return f
}

func failing(lg *vt.Log) xmpp.StreamFeature {
	return wrap(xmpp.StreamFeature{
		Name:      xml.Name{Space: "urn:vt:volfail", Local: "volfail"},
		Necessary: xmpp.Secure,
		List: func(ctx context.Context, e xmlstream.TokenWriter, start xml.StartElement) (bool, error) {
			if err := e.EncodeToken(start); err != nil {
				return false, err
			}
			return false, e.EncodeToken(start.End())
		},
		Parse: func(ctx context.Context, d *xml.Decoder, start *xml.StartElement) (bool, interface{}, error) {
			return false, nil, d.Skip()
		},
		Negotiate: func(ctx context.Context, s *xmpp.Session, data interface{}) (xmpp.SessionState, io.ReadWriter, error) {
			if s.State()&xmpp.Received != 0 {
				rd := s.TokenReader()
				defer rd.Close()
				if _, err := rd.Token(); err != nil {
					return 0, nil, err
				}
				if err := xmlstream.Skip(rd); err != nil {
					return 0, nil, err
				}
				return 0, nil, nil
			}
			if _, err := fmt.Fprint(s.Conn(), "<volfail xmlns='urn:vt:volfail'/>"); err != nil {
				return 0, nil, err
			}
			return 0, nil, errors.New("vt: voluntary feature fails")
		},
	}, "volfail", lg)
}

func clientFeatures(h string, lg *vt.Log) []xmpp.StreamFeature {
	var fs []xmpp.StreamFeature
	if strings.Contains(h, "tls") {
		fs = append(fs, wrap(xmpp.StartTLS(&tls.Config{ServerName: domain, RootCAs: pool, MinVersion: tls.VersionTLS12}), "tls", lg))
	}
	if strings.Contains(h, "volfail") {
		fs = append(fs, failing(lg))
	}
	fs = append(fs, wrap(xmpp.SASL("", password, sasl.Plain), "sasl", lg), wrap(xmpp.BindResource(), "bind", lg))
	return fs
}

func serverFeatures(h string, lg *vt.Log) []xmpp.StreamFeature {
	var fs []xmpp.StreamFeature
	if strings.Contains(h, "tls") {
		fs = append(fs, wrap(xmpp.StartTLS(&tls.Config{Certificates: []tls.Certificate{cert}, MinVersion: tls.VersionTLS12}), "tls", lg))
	}
	if strings.Contains(h, "volfail") {
		fs = append(fs, failing(lg))
	}
	perm := func(n *sasl.Negotiator) bool {
		u, p, _ := n.Credentials()
		return string(u) == user && string(p) == password
	}
	fs = append(fs, wrap(xmpp.SASLServer(perm, sasl.Plain), "sasl", lg), wrap(xmpp.BindResource(), "bind", lg))
	return fs
}

func negotiator(h string, fs []xmpp.StreamFeature) xmpp.Negotiator {
	cfg := func(*xmpp.Session, *xmpp.StreamConfig) xmpp.StreamConfig { return xmpp.StreamConfig{Features: fs} }
	if strings.HasPrefix(h, "ws") {
		return websocket.Negotiator(cfg)
	}
	return xmpp.NewNegotiator(cfg)
}

func initState(h string) xmpp.SessionState {
	if strings.Contains(h, "tls") {
		return 0
	}
	return xmpp.Secure
}

// scripted component server (the library only implements the initiating side)
func componentPeer(c *vt.Conn, secret string) {
	d := xml.NewDecoder(c)
	for {
		tok, err := d.Token()
		if err != nil {
			return
		}
		st, ok := tok.(xml.StartElement)
		if !ok {
			continue
		}
		switch st.Name.Local {
		case "stream":
			fmt.Fprintf(c, `<stream:stream xmlns='jabber:component:accept' xmlns:stream='http://etherx.jabber.org/streams' from='%s' id='sid1'>`, domain)
		case "handshake":
			var got string
			if err := d.DecodeElement(&got, &st); err != nil {
				return
			}
			sum := sha1.Sum([]byte("sid1" + secret))
			if strings.TrimSpace(got) == hex.EncodeToString(sum[:]) {
				fmt.Fprint(c, `<handshake/>`)
			} else {
				fmt.Fprint(c, `<stream:error><not-authorized xmlns='urn:ietf:params:xml:ns:xmpp-streams'/></stream:error></stream:stream>`)
				return
			}
		}
	}
}

type baseline struct {
	reads, writes, bytesIn, gates int
	ok                            bool
}

var stallAfter = 10 * time.Second

var stallsSeen int // after a few stalls (each reported) the rest of the run uses a short watchdog

// runOne executes one handshake with one fault on the side under test and returns the trace.
func runOne(r Run) ([]vt.Ev, baseline) {
	a, b := vt.Pipe() // a: client end, b: server end
	lg := &vt.Log{}
	sut, other := a, b
	if r.Side == "server" {
		sut, other = b, a
	}
	ctx, cancel := context.WithCancel(context.Background())
	defer cancel()
	if r.Fault.Deadline {
		var c2 context.CancelFunc
		ctx, c2 = context.WithTimeout(ctx, time.Hour)
		defer c2()
	}
	octx, ocancel := context.WithTimeout(context.Background(), 20*time.Second)
	defer ocancel()
	gates := 0
	cancelled := false
	var mu sync.Mutex
	frozen := false
	switch r.Fault.Kind {
	case "failread":
		sut.FailRead = r.Fault.At
	case "failwrite":
		sut.FailWrite = r.Fault.At
	case "cut":
		sut.CutIn = r.Fault.At
		if r.Fault.At == 0 {
			sut.CutIn = -1
		}
	}
	sut.OnEvent = func(kind, arg string, n int) {
		if kind == "fault" {
			lg.Add(vt.Ev{"ev": "fault", "kind": arg, "n": n})
		}
	}
	sut.Gate = func(point string) {
		mu.Lock()
		gates++
		g := gates
		mu.Unlock()
		if r.Fault.Kind == "cancel" && g == r.Fault.At && !cancelled {
			cancelled = true
			lg.Add(vt.Ev{"ev": "cancel", "at": point, "n": g})
			if r.Fault.Silent {
				mu.Lock()
				frozen = true
				mu.Unlock()
				if r.Fault.Stuck {
					sut.FreezeAll()
				} else {
					sut.Freeze()
				}
			}
			cancel()
		}
	}
	_ = frozen
	var cs, ss *xmpp.Session
	var cerr, serr error
	origin := jid.MustParse(user + "@" + domain + "/res")
	client := func(c *vt.Conn, cx context.Context, l *vt.Log) {
		defer func() {
			if p := recover(); p != nil {
				cerr = fmt.Errorf("panic: %v", p)
			}
		}()
		if r.Handshake == "component" {
			cs, cerr = component.NewSession(cx, jid.MustParse("comp."+domain), []byte("s3cr3t"), c)
			return
		}
		cs, cerr = xmpp.NewSession(cx, jid.MustParse(domain), origin, c, initState(r.Handshake), negotiator(r.Handshake, clientFeatures(r.Handshake, l)))
	}
	server := func(c *vt.Conn, cx context.Context, l *vt.Log) {
		defer func() {
			if p := recover(); p != nil {
				serr = fmt.Errorf("panic: %v", p)
			}
		}()
		if r.Handshake == "component" {
			componentPeer(c, "s3cr3t")
			return
		}
		ss, serr = xmpp.ReceiveSession(cx, c, initState(r.Handshake), negotiator(r.Handshake, serverFeatures(r.Handshake, l)))
	}
	done := make(chan struct{})
	sutDone := make(chan struct{})
	go func() {
		defer close(done)
		if r.Side == "client" {
			server(other, octx, nil)
			if serr != nil || r.Handshake == "component" {
				other.Close() // a peer whose own negotiation failed hangs up
			}
		} else {
			client(other, octx, nil)
			if cerr != nil {
				other.Close()
			}
		}
	}()
	go func() {
		defer close(sutDone)
		if r.Side == "client" {
			client(sut, ctx, lg)
		} else {
			server(sut, ctx, lg)
		}
	}()
	stalled := false
	select {
	case <-sutDone:
	case <-time.After(func() time.Duration {
		if r.Fault.Kind == "cancel" || stallsSeen >= 3 {
			return stallAfter
		}
		return 30 * time.Second
	}()):
		stalled = true
		if stallsSeen++; stallsSeen >= 3 {
			stallAfter = 2 * time.Second
		}
	}
	if stalled {
		lg.Add(vt.Ev{"ev": "stall"})
		sut.Close()
		other.Close()
		<-sutDone
	}
	sess, err := cs, cerr
	if r.Side == "server" {
		sess, err = ss, serr
	}
	ready := sess != nil && sess.State()&xmpp.Ready != 0
	e := vt.Ev{"ev": "return", "ok": err == nil, "ready": ready}
	if err != nil {
		e["err"] = err.Error()
	}
	if !stalled {
		lg.Add(e)
	}
	lg.Add(vt.Ev{"ev": "end"})
	sut.Close()
	other.Close()
	<-done
	rd, wr := sut.Counts()
	mu.Lock()
	g := gates
	mu.Unlock()
	return lg.Events(), baseline{reads: rd, writes: wr, bytesIn: sut.Consumed(), gates: g, ok: err == nil}
}

func main() {
	if len(os.Args) < 3 || os.Args[1] != "run" {
		fmt.Fprintln(os.Stderr, "usage: faults run <trace.ndjson>")
		os.Exit(2)
	}
	thorough := os.Getenv("VERIF_TIER") == "thorough"
	tw, err := vt.NewTraceWriter(os.Args[2])
	if err != nil {
		panic(err)
	}
	handshakes := []string{"sasl-bind", "tls-sasl-bind", "ws-sasl-bind", "volfail-sasl-bind", "component"}
	if o := os.Getenv("FAULTS_ONLY"); o != "" {
		handshakes = strings.Split(o, ",")
	}
	runs := 0
	classes := map[string]bool{}
	var samples []interface{}
	var notes []interface{}
	emit := func(r Run) {
		evs, _ := runOne(r)
		runs++
		t := tw.Write(vt.Ev{"silent": r.Fault.Silent, "ctxd": r.Fault.Deadline}, evs)
		tw.Meta(r)
		classes[fmt.Sprintf("%s/%s/%s", r.Handshake, r.Side, r.Fault.Kind)] = true
		if len(samples) < 3 && r.Fault.Kind != "none" && runs%37 == 0 {
			samples = append(samples, vt.Ev{"t": t, "run": r, "events": evs})
		}
	}
	for _, h := range handshakes {
		sides := []string{"client", "server"}
		if h == "component" {
			sides = []string{"client"}
		}
		for _, side := range sides {
			base := Run{Handshake: h, Side: side, Fault: Fault{Kind: "none"}}
			evs, bl := runOne(base)
			runs++
			tw.Write(vt.Ev{"silent": false, "ctxd": false}, evs)
			tw.Meta(base)
			notes = append(notes, vt.Ev{"handshake": h, "side": side, "baseline_ok": bl.ok, "reads": bl.reads, "writes": bl.writes, "bytes_in": bl.bytesIn, "gates": bl.gates})
			// peer's byte stream ends after every prefix length (quick: every 5th and the first/last 48)
			for p := 0; p < bl.bytesIn; p++ {
				if !thorough && p >= 48 && p < bl.bytesIn-48 && p%5 != 0 {
					continue
				}
				emit(Run{h, side, Fault{Kind: "cut", At: p}})
			}
			for k := 1; k <= bl.reads; k++ {
				emit(Run{h, side, Fault{Kind: "failread", At: k}})
			}
			for k := 1; k <= bl.writes; k++ {
				emit(Run{h, side, Fault{Kind: "failwrite", At: k}})
			}
			for k := 1; k <= bl.gates; k++ {
				emit(Run{h, side, Fault{Kind: "cancel", At: k}})
				emit(Run{h, side, Fault{Kind: "cancel", At: k, Silent: true}})
				emit(Run{h, side, Fault{Kind: "cancel", At: k, Silent: true, Stuck: true}})
				emit(Run{h, side, Fault{Kind: "cancel", At: k, Silent: true, Deadline: true}})
				if thorough || k%3 == 0 {
					emit(Run{h, side, Fault{Kind: "cancel", At: k, Deadline: true}})
					emit(Run{h, side, Fault{Kind: "cancel", At: k, Silent: true, Stuck: true, Deadline: true}})
				}
			}
		}
	}
	if err := tw.Close(); err != nil {
		panic(err)
	}
	tr, ev := tw.Counts()
	vt.Summary{Traces: tr, Events: ev, Evaluations: runs, Distinct: len(classes), Samples: samples,
		Extra: map[string]interface{}{"baselines": notes}}.Print()
}
