// Command starttls runs the real initiating negotiation (StartTLS + SASL + an instrumented
// feature that needs a secure stream) against an adversarial scripted peer that really speaks
// TLS after <proceed/>, and records one logical trace per scenario for validation against
// tla/StartTLS.tla.
//
//	starttls run <jobs.ndjson> <trace.ndjson>
//
// A job (a record of StartTLS.tla's Jobs) is a peer script, the addresses of 1..3 successive
// sessions negotiated with ONE StartTLS feature value, and the tee settings to run each under.
package main

import (
	"bufio"
	"bytes"
	"context"
	"crypto/ecdsa"
	"crypto/elliptic"
	"crypto/rand"
	"crypto/tls"
	"crypto/x509"
	"crypto/x509/pkix"
	"encoding/json"
	"encoding/xml"
	"fmt"
	"io"
	"math/big"
	"os"
	"strings"
	"sync"
	"time"

	"mellium.im/sasl"
	"mellium.im/xmlstream"
	"mellium.im/xmpp"
	"mellium.im/xmpp/jid"

	"verifharness/vt"
)

type Script struct {
	Feat   string `json:"feat"`
	Answer string `json:"answer"`
	Inject string `json:"inject"`
	HS     string `json:"hs"`
	Cfg    string `json:"cfg"`
}

// Addr is the address dimension of StartTLS.tla: how the session is made (kind), the domain of
// its own address and the location (symbols d1..d3, l1..l3), the spelling of the own address
// where it is given, and whether the peer's headers carry a `to`.
type Addr struct {
	Kind  string `json:"kind"`
	Own   string `json:"own"`
	Loc   string `json:"loc"`
	Spell string `json:"spell"`
	HTo   string `json:"hto"`
}

// Job: sessions with the addresses of Run, one after the other, sharing one feature value.
type Job struct {
	Peer Script `json:"peer"`
	Run  []Addr `json:"run"`
	Tees []int  `json:"tees"`
}

type Scenario struct {
	Script
	Tee  int    `json:"tee"`
	Addr Addr   `json:"addr"`
	Hist []Addr `json:"hist"` // the sessions negotiated with the same feature value before this one
}

// rendering of the name symbols of StartTLS.tla
var nameOf = map[string]string{
	"d1": "example.net", "d2": "second.example", "d3": "third.example",
	"l1": "xmpp1.example.org", "l2": "xmpp2.example.org", "l3": "xmpp3.example.org",
}

// symOf is the abstraction of an observed server name: the symbol whose rendering it is (domain
// names are compared without regard to case), "other" for anything else.
func symOf(name string) string {
	for sym, n := range nameOf {
		if strings.EqualFold(n, name) {
			return sym
		}
	}
	return "other"
}

// originText is the own address as the application writes it.
func (a Addr) originText() string {
	d := nameOf[a.Own]
	if a.Spell == "upper" {
		d = strings.ToUpper(d)
	}
	if a.Kind == "s2s" {
		return d
	}
	return "me@" + d
}

func (a Addr) origin() jid.JID   { return jid.MustParse(a.originText()) }
func (a Addr) location() jid.JID { return jid.MustParse(nameOf[a.Loc]) }

// hdr is a stream header of the peer of a session with this address: `from` is the location,
// `to` (if the peer sends one) the own address, the content namespace that of the stream kind.
func (a Addr) hdr() string {
	xmlns := "jabber:client"
	if a.Kind == "s2s" {
		xmlns = "jabber:server"
	}
	to := ""
	if a.HTo == "echo" {
		to = ` to='` + a.origin().String() + `'`
	}
	return `<?xml version='1.0'?><stream:stream xmlns='` + xmlns + `' xmlns:stream='http://etherx.jabber.org/streams' version='1.0' id='s1' from='` + nameOf[a.Loc] + `'` + to + `>`
}

const (
	nsTLS  = "urn:ietf:params:xml:ns:xmpp-tls"
	nsSASL = "urn:ietf:params:xml:ns:xmpp-sasl"
)

func mkCert(names ...string) (tls.Certificate, *x509.CertPool) {
	key, err := ecdsa.GenerateKey(elliptic.P256(), rand.Reader)
	if err != nil {
		panic(err)
	}
	tpl := &x509.Certificate{
		SerialNumber: big.NewInt(1), Subject: pkix.Name{CommonName: names[0]}, DNSNames: names,
		NotBefore: time.Now().Add(-time.Hour), NotAfter: time.Now().Add(24 * time.Hour),
		KeyUsage: x509.KeyUsageDigitalSignature | x509.KeyUsageCertSign, ExtKeyUsage: []x509.ExtKeyUsage{x509.ExtKeyUsageServerAuth},
		BasicConstraintsValid: true, IsCA: true,
	}
	der, err := x509.CreateCertificate(rand.Reader, tpl, tpl, &key.PublicKey, key)
	if err != nil {
		panic(err)
	}
	c, _ := x509.ParseCertificate(der)
	pool := x509.NewCertPool()
	pool.AddCert(c)
	return tls.Certificate{Certificate: [][]byte{der}, PrivateKey: key}, pool
}

var (
	goodCert, goodPool = mkCert("example.net", "second.example", "third.example")
	badCert, _         = mkCert("wrong.example")
)

func featBytes(v string) string {
	tlsReq := `<starttls xmlns='` + nsTLS + `'><required/></starttls>`
	tlsOpt := `<starttls xmlns='` + nsTLS + `'/>`
	others := `<mechanisms xmlns='` + nsSASL + `'><mechanism>PLAIN</mechanism></mechanisms><post xmlns='urn:vt:post' req='1'/>`
	switch v {
	case "tls_required":
		return "<stream:features>" + tlsReq + "</stream:features>"
	case "tls_optional":
		return "<stream:features>" + tlsOpt + "</stream:features>"
	case "tls_absent_others":
		return "<stream:features>" + others + "</stream:features>"
	case "empty":
		return "<stream:features/>"
	case "tls_with_others":
		return "<stream:features>" + others + tlsOpt + "</stream:features>"
	case "junk":
		return "<notfeatures xmlns='urn:vt:junk'/>"
	}
	panic(v)
}

func answerBytes(a string) string {
	switch a {
	case "proceed":
		return `<proceed xmlns='` + nsTLS + `'/>`
	case "failure":
		return `<failure xmlns='` + nsTLS + `'/>`
	case "foreign":
		return `<proceed xmlns='urn:vt:foreign'/>`
	case "unknown":
		return `<whatever xmlns='` + nsTLS + `'/>`
	case "chardata":
		// character data where the answer element is expected - followed by a real <proceed/>, which
		// must not be honoured any more
		return `proceed<proceed xmlns='` + nsTLS + `'/>`
	case "whitespace":
		// white space where the answer element is expected, then an (empty) features list in clear
		return "\n \n<stream:features/>"
	case "eof":
		return ""
	}
	panic(a)
}

func injectBytes(i string, a Addr) string {
	switch i {
	case "fakestream":
		// a complete fake "protected" stream claiming that nothing is left to negotiate
		return a.hdr() + "<stream:features/>"
	case "garbage":
		return "\x00\x01garbage<<<&&&"
	}
	return ""
}

type peerObs struct {
	mu       sync.Mutex
	sni      string
	hello    bool
	hsOK     bool
	tlsXML   []string // element names the peer decoded inside TLS
	negPost  bool
	peerErrs []string
}

func runPeerGated(sc Scenario, c *vt.Conn, obs *peerObs, done chan struct{}, beforeAnswer, gotStartTLS, beforeHello func()) {
	defer close(done)
	fail := func(s string) { obs.mu.Lock(); obs.peerErrs = append(obs.peerErrs, s); obs.mu.Unlock() }
	d := xml.NewDecoder(c)
	// wait for the client's header
	for {
		tok, err := d.RawToken()
		if err != nil {
			return
		}
		if st, ok := tok.(xml.StartElement); ok && st.Name.Local == "stream" {
			break
		}
	}
	if beforeHello != nil {
		beforeHello()
	}
	io.WriteString(c, sc.Addr.hdr()+featBytes(sc.Feat))
	// wait for <starttls/> (anything else is recorded by the wire tap, we just keep reading)
	for {
		tok, err := d.RawToken()
		if err != nil {
			return
		}
		if st, ok := tok.(xml.StartElement); ok && st.Name.Local == "starttls" {
			break
		}
	}
	if gotStartTLS != nil {
		gotStartTLS()
	}
	if beforeAnswer != nil {
		beforeAnswer()
	}
	if sc.Answer == "eof" {
		c.Close()
		return
	}
	io.WriteString(c, answerBytes(sc.Answer)+injectBytes(sc.Inject, sc.Addr))
	if sc.Answer != "proceed" {
		// keep reading so that the client is never blocked on a write
		io.Copy(io.Discard, c)
		return
	}
	cert := goodCert
	if sc.HS == "fail" {
		cert = badCert
	}
	cfg := &tls.Config{
		GetConfigForClient: func(h *tls.ClientHelloInfo) (*tls.Config, error) {
			obs.mu.Lock()
			obs.hello = true
			obs.sni = h.ServerName
			obs.mu.Unlock()
			return nil, nil
		},
		Certificates: []tls.Certificate{cert},
	}
	tc := tls.Server(c, cfg)
	c.SetDeadline(time.Now().Add(20 * time.Second))
	if err := tc.Handshake(); err != nil {
		fail("handshake: " + err.Error())
		return
	}
	obs.mu.Lock()
	obs.hsOK = true
	obs.mu.Unlock()
	td := xml.NewDecoder(tc)
	step := 0
	for {
		tok, err := td.RawToken()
		if err != nil {
			return
		}
		st, ok := tok.(xml.StartElement)
		if !ok {
			continue
		}
		obs.mu.Lock()
		obs.tlsXML = append(obs.tlsXML, st.Name.Local)
		obs.mu.Unlock()
		switch {
		case st.Name.Local == "stream" && step == 0:
			step = 1
			io.WriteString(tc, sc.Addr.hdr()+"<stream:features><post xmlns='urn:vt:post' req='1'/></stream:features>")
		case st.Name.Local == "neg":
			obs.mu.Lock()
			obs.negPost = true
			obs.mu.Unlock()
			io.WriteString(tc, "<stream:features/>")
		}
	}
}

func classifyClear(wire []byte) (clear []string, tlsSeen bool) {
	// everything up to the first TLS record (0x16 0x03) is clear text
	cut := len(wire)
	for i := 0; i+1 < len(wire); i++ {
		if wire[i] == 0x16 && wire[i+1] == 0x03 {
			cut = i
			tlsSeen = true
			break
		}
	}
	var sc vt.Scanner
	for _, t := range sc.Feed(wire[:cut]) {
		if t.Kind != "start" && t.Kind != "empty" {
			if t.Kind == "text" && strings.TrimSpace(t.Text) != "" {
				clear = append(clear, "other")
			}
			continue
		}
		switch {
		case t.Name == "stream:stream":
			clear = append(clear, "hdr")
		case t.Name == "starttls" && t.Depth <= 1:
			clear = append(clear, "starttls")
		case t.Depth <= 1:
			clear = append(clear, "other")
		}
	}
	return clear, tlsSeen
}

// the features under test: one StartTLS value may be shared by several sessions
func features(startTLS xmpp.StreamFeature, negotiated *bool) []xmpp.StreamFeature {
	post := xmpp.StreamFeature{
		Name:      xml.Name{Space: "urn:vt:post", Local: "post"},
		Necessary: xmpp.Secure,
		Parse: func(ctx context.Context, d *xml.Decoder, start *xml.StartElement) (bool, interface{}, error) {
			return true, nil, d.Skip()
		},
		List: func(ctx context.Context, e xmlstream.TokenWriter, start xml.StartElement) (bool, error) {
			return true, nil
		},
		Negotiate: func(ctx context.Context, s *xmpp.Session, data interface{}) (xmpp.SessionState, io.ReadWriter, error) {
			*negotiated = true
			_, err := fmt.Fprint(s.Conn(), "<neg xmlns='urn:vt' f='post'/>")
			return 0, nil, err
		},
	}
	return []xmpp.StreamFeature{startTLS, xmpp.SASL("", "password", sasl.Plain), post}
}

type outcome struct {
	evs      []vt.Ev
	clear    []string
	retOK    bool
	tlsXML   []string
	teeIn    string
	teeOut   string
	wireHead string
}

func runOne(sc Scenario, startTLS xmpp.StreamFeature) outcome {
	return runOneGated(sc, startTLS, nil, nil)
}

// runOneGated: beforeAnswer is called by the peer after it received <starttls/> and before it
// answers; gotStartTLS is called by the peer as soon as it received <starttls/>.
func runOneGated(sc Scenario, startTLS xmpp.StreamFeature, beforeAnswer, gotStartTLS func(), beforeHello ...func()) outcome {
	a, b := vt.Pipe()
	obs := &peerObs{}
	done := make(chan struct{})
	var hello func()
	if len(beforeHello) > 0 {
		hello = beforeHello[0]
	}
	go runPeerGated(sc, b, obs, done, beforeAnswer, gotStartTLS, hello)
	negotiated := false
	var teeIn, teeOut bytes.Buffer
	cfgf := func(*xmpp.Session, *xmpp.StreamConfig) xmpp.StreamConfig {
		c := xmpp.StreamConfig{Features: features(startTLS, &negotiated)}
		if sc.Tee&1 != 0 {
			c.TeeIn = &teeIn
		}
		if sc.Tee&2 != 0 {
			c.TeeOut = &teeOut
		}
		return c
	}
	ctx, cancel := context.WithTimeout(context.Background(), 30*time.Second)
	defer cancel()
	var s *xmpp.Session
	var err error
	var pan interface{}
	func() {
		defer func() { pan = recover() }()
		switch {
		case sc.Addr.Kind == "client" && sc.Tee == 0:
			// the location is derived from the own address by the library
			s, err = xmpp.NewClientSession(ctx, sc.Addr.origin(), a, features(startTLS, &negotiated)...)
		case sc.Addr.Kind == "s2s":
			s, err = xmpp.NewSession(ctx, sc.Addr.location(), sc.Addr.origin(), a, xmpp.S2S, xmpp.NewNegotiator(cfgf))
		default:
			s, err = xmpp.NewSession(ctx, sc.Addr.location(), sc.Addr.origin(), a, 0, xmpp.NewNegotiator(cfgf))
		}
	}()
	timedOut := ctx.Err() != nil
	a.Close()
	b.Close()
	<-done
	clear, tlsSeen := classifyClear([]byte(a.WireString()))
	var evs []vt.Ev
	for _, w := range clear {
		evs = append(evs, vt.Ev{"ev": "clear_write", "what": w})
	}
	obs.mu.Lock()
	if obs.hello {
		// the name symbol of the specification the observed server name renders; which name it has to be
		// is the specification's business
		name := symOf(obs.sni)
		if sc.Cfg == "explicit" {
			name = "explicit"
		}
		evs = append(evs, vt.Ev{"ev": "handshake", "name": name, "sni": obs.sni, "server_ok": obs.hsOK,
			"origin": sc.Addr.originText(), "location": nameOf[sc.Addr.Loc]})
	}
	if negotiated {
		evs = append(evs, vt.Ev{"ev": "negotiate_post", "seen_by_peer_inside_tls": obs.negPost})
	}
	tlsXML := append([]string{}, obs.tlsXML...)
	perrs := append([]string{}, obs.peerErrs...)
	obs.mu.Unlock()
	ret := vt.Ev{"ev": "return", "ok": err == nil && pan == nil, "bits": []string{}, "tls_records": tlsSeen, "tls_state": false}
	if s != nil {
		bits := []string{}
		if s.State()&xmpp.Secure != 0 {
			bits = append(bits, "Secure")
		}
		if s.State()&xmpp.Ready != 0 {
			bits = append(bits, "Ready")
		}
		ret["bits"] = bits
		ret["tls_state"] = s.ConnectionState().Version != 0
	}
	if err != nil {
		ret["err"] = err.Error()
	}
	if pan != nil {
		ret["panic"] = fmt.Sprint(pan)
	}
	if timedOut {
		ret["timeout"] = true
	}
	if len(perrs) > 0 {
		ret["peer"] = strings.Join(perrs, "; ")
	}
	evs = append(evs, ret, vt.Ev{"ev": "end"})
	head := a.WireString()
	if i := strings.Index(head, "\x16\x03"); i >= 0 {
		head = head[:i]
	}
	return outcome{evs: evs, clear: clear, retOK: err == nil, tlsXML: tlsXML, teeIn: teeIn.String(), teeOut: teeOut.String(), wireHead: head}
}

func main() {
	if len(os.Args) < 4 || os.Args[1] != "run" {
		fmt.Fprintln(os.Stderr, "usage: starttls run <jobs.ndjson> <trace.ndjson>")
		os.Exit(2)
	}
	f, err := os.Open(os.Args[2])
	if err != nil {
		panic(err)
	}
	var jobs []Job
	rd := bufio.NewScanner(f)
	rd.Buffer(make([]byte, 1<<20), 1<<24)
	for rd.Scan() {
		var j Job
		if err := json.Unmarshal(rd.Bytes(), &j); err != nil {
			panic(err)
		}
		jobs = append(jobs, j)
	}
	f.Close()
	tw, err := vt.NewTraceWriter(os.Args[3])
	if err != nil {
		panic(err)
	}
	var mism []interface{}
	var samples []interface{}
	runs := 0
	byKind := map[string]int{}
	overlap := os.Getenv("STARTTLS_OVERLAP") != "0"
	for _, job := range jobs {
		sp := job.Peer
		if sp.Cfg == "default" {
			sp.HS = "fail" // the harness certificate is not in the system roots: verification always fails
		}
		// one StartTLS feature value shared by the successive sessions of the job
		var cfg *tls.Config
		if sp.Cfg == "explicit" {
			cfg = &tls.Config{ServerName: "example.net", RootCAs: goodPool, MinVersion: tls.VersionTLS12}
		}
		shared := xmpp.StartTLS(cfg)
		for k, addr := range job.Run {
			var ref outcome
			for ti, tee := range job.Tees {
				sc := Scenario{Script: sp, Tee: tee, Addr: addr, Hist: append([]Addr{}, job.Run[:k]...)}
				o := runOne(sc, shared)
				runs++
				byKind[addr.Kind+"/"+map[bool]string{true: "loc=own", false: "loc#own"}[addr.Loc == addr.Own]]++
				t := tw.Write(vt.Ev{"script": sc, "tee": tee, "session": k + 1}, o.evs)
				tw.Meta(vt.Ev{"scenario": sc, "job": Job{Peer: job.Peer, Run: job.Run, Tees: []int{tee}}, "session": k + 1})
				if len(samples) < 2 && tee == 0 {
					samples = append(samples, vt.Ev{"t": t, "scenario": sc, "events": o.evs})
				}
				if ti == 0 {
					ref = o
					continue
				}
				// the tee changes nothing: same clear-text bytes, same outcome, same protected content
				if o.wireHead != ref.wireHead || o.retOK != ref.retOK || strings.Join(o.tlsXML, ",") != strings.Join(ref.tlsXML, ",") {
					mism = append(mism, vt.Ev{"what": "tee changes wire or outcome", "scenario": sc,
						"with_tee": vt.Ev{"clear": o.wireHead, "ok": o.retOK, "tls": o.tlsXML},
						"without": vt.Ev{"clear": ref.wireHead, "ok": ref.retOK, "tls": ref.tlsXML}})
				}
				if tee&2 != 0 && !strings.HasPrefix(o.teeOut, o.wireHead) {
					mism = append(mism, vt.Ev{"what": "TeeOut does not start with the clear-text bytes written", "scenario": sc, "teeout": o.teeOut, "clear": o.wireHead})
				}
			}
		}
	}
	// two OVERLAPPING sessions with different domains sharing one StartTLS(nil) value: session 2 sends
	// its <starttls/> after session 1 did and before session 1's peer answers <proceed/>
	plain := func(k int) Addr {
		d := []string{"d1", "d2", "d3"}[k]
		return Addr{Kind: "c2s", Own: d, Loc: d, Spell: "lower", HTo: "absent"}
	}
	for rep := 0; rep < 3 && overlap; rep++ {
		shared := xmpp.StartTLS(nil)
		gate := make(chan struct{})  // closed when peer 2 has session 2's <starttls/>
		gate1 := make(chan struct{}) // closed when peer 1 has session 1's <starttls/>
		var wg sync.WaitGroup
		outs := make([]outcome, 2)
		scs := []Scenario{
			{Script: Script{Feat: "tls_required", Answer: "proceed", Inject: "none", HS: "fail", Cfg: "default"}, Addr: plain(0), Hist: []Addr{}},
			{Script: Script{Feat: "tls_optional", Answer: "proceed", Inject: "none", HS: "fail", Cfg: "default"}, Addr: plain(1), Hist: []Addr{plain(0)}},
		}
		for i := range scs {
			wg.Add(1)
			go func(i int) {
				defer wg.Done()
				if i == 0 {
					// session 1 asks for STARTTLS first; its peer answers only after session 2 asked too
					outs[i] = runOneGated(scs[i], shared, func() { <-gate }, func() { close(gate1) })
				} else {
					// session 2 cannot start negotiating before session 1 has asked
					outs[i] = runOneGated(scs[i], shared, nil, func() { close(gate) }, func() { <-gate1 })
				}
			}(i)
		}
		wg.Wait()
		for i := range scs {
			runs++
			tw.Write(vt.Ev{"script": scs[i], "tee": 0, "session": 10 + i}, outs[i].evs)
			tw.Meta(vt.Ev{"scenario": scs[i], "overlapping": true, "session": 10 + i})
		}
	}
	if err := tw.Close(); err != nil {
		panic(err)
	}
	tr, ev := tw.Counts()
	vt.Summary{Traces: tr, Events: ev, Evaluations: runs, Distinct: tr, Mismatches: mism, Samples: samples,
		Extra: map[string]interface{}{"sessions_by_address_kind": byKind}}.Print()
}
