package main

import (
	"context"
	"errors"
	"fmt"
	"strings"
	"sync"
	"time"

	"mellium.im/xmpp/stanza"

	"verifharness/vt"
)

// Item is one step of a scenario: a stanza the peer sends or an action of the application.
type Item struct {
	Lab  string `json:"lab"`
	Who  string `json:"who"` // "peer" | "app"
	Node *Node  `json:"node,omitempty"`
}

// Cut truncates the rendered bytes of item Item (0-based) at Off; the input ends there.
type Cut struct {
	Item int `json:"item"`
	Off  int `json:"off"`
}

// Scenario is one run. Mode "seq": Items are fed in order to a served session. Mode
// "reply": Helper is called against a served session and Items are the scripted peer's
// answers to its successive requests.
type Scenario struct {
	ID     int    `json:"id"`
	Mode   string `json:"mode"`
	Cfg    string `json:"cfg"`
	// Sess is the identity of the served session (nil: an initiated client session with a full
	// address), Life what the application has done with it before / does with it besides the
	// scenario's items ("" = "fresh": Serve is called once, right away; "closed": the
	// application has called Close before Serve; "again": when Serve has returned it is called
	// a second time; "unserved": Serve is never called - the helper runs, then the application
	// closes the session and cancels)
	Sess   *Sess  `json:"sess,omitempty"`
	Life   string `json:"life,omitempty"`
	Helper string `json:"helper,omitempty"`
	// Setup is the number of leading items that are the setup of a table state
	Setup int    `json:"setup"`
	Items []Item `json:"items"`
	Cut   *Cut   `json:"cut,omitempty"`
	// StallMS, when > 0, overrides the worker's watchdog for this scenario (set by the supervisor)
	StallMS int `json:"stall_ms,omitempty"`
}

// Result is what a worker reports for one scenario.
type Result struct {
	ID     int               `json:"id"`
	Events []vt.Ev           `json:"events"`
	Detail map[string]string `json:"detail"`
	Bad    string            `json:"bad,omitempty"` // "PANIC" | "STALL" | "" (for the supervisor)
	// the local address of the session the constructor returned: its class and its text
	OAddr  string `json:"oaddr"`
	OLocal string `json:"olocal"`
}

func useError(err error) (s string) {
	// an error value that panics when used is a panic of the library in its caller
	s = err.Error()
	var se stanza.Error
	if errors.As(err, &se) {
		_ = se.Error()
	}
	_ = errors.Is(err, stanza.Error{Condition: stanza.ServiceUnavailable})
	if len(s) > 300 {
		s = s[:300]
	}
	return s
}

type runner struct {
	sc   Scenario
	e    *env
	ctx  context.Context
	stop context.CancelFunc

	mu      sync.Mutex
	evs     []vt.Ev
	next    int // next item
	eof     bool
	calls   []*call
	started bool
	seen    int // requests answered so far (reply mode)
	detail  map[string]string
}

func (r *runner) log(ev vt.Ev) {
	r.mu.Lock()
	r.evs = append(r.evs, ev)
	r.mu.Unlock()
}

func (r *runner) end() {
	if !r.eof {
		r.eof = true
		r.log(vt.Ev{"ev": "eof"})
		if r.sc.Cut == nil {
			// a whole scenario ends the way a peer ends a stream; a cut one just stops
			if r.e.sess.Kind == "ws" {
				r.e.conn.FeedString(`<close xmlns="` + framingNS + `"/>`)
			} else {
				r.e.conn.FeedString("</stream:stream>")
			}
		}
		r.e.conn.CloseIn()
	}
}

// render is the text of a peer item on the session of the scenario: with the WebSocket
// framing every top-level element is a document of its own and names its namespace.
func (r *runner) render(it Item) string {
	n := *it.Node
	if r.e.sess.Kind == "ws" && n.K == "el" && n.NS == "" && !strings.Contains(n.N, ":") {
		n.NS = r.e.sess.ns()
	}
	return n.String(r.e.sub)
}

// feed renders item i and hands it to the library; a cut item ends the input.
func (r *runner) feed(i int) {
	it := r.sc.Items[i]
	b := r.render(it)
	cut := false
	if r.sc.Cut != nil && r.sc.Cut.Item == i {
		if r.sc.Cut.Off < len(b) {
			b = b[:r.sc.Cut.Off]
		}
		cut = true
	}
	r.log(vt.Ev{"ev": "feed", "i": i + 1, "cut": cut})
	r.e.conn.FeedString(b)
	if cut {
		r.next = len(r.sc.Items)
	}
}

// starveSeq is called by the transport, in the goroutine of the serve loop, whenever the
// library wants input and has consumed (and handled) everything sent so far.
func (r *runner) starveSeq() {
	for !r.eof {
		if r.next >= len(r.sc.Items) {
			r.end()
			return
		}
		i := r.next
		r.next++
		it := r.sc.Items[i]
		if it.Who == "peer" {
			r.feed(i)
			return
		}
		act, ok := appActions[it.Lab]
		if !ok {
			r.detail["driver"] = "unknown app action " + it.Lab
			r.end()
			return
		}
		n := r.e.reqCount()
		c := r.e.start(it.Lab, func() error { return act.f(r.ctx, r.e) })
		r.mu.Lock()
		r.calls = append(r.calls, c)
		r.mu.Unlock()
		// "loc": the local state of the extension the driver OBSERVES after the action ("?" =
		// no means to observe it); the trace specification compares it with the state the run
		// protocol derives, so that a scenario which did not reach the state the generator
		// meant is noticed
		// "est": the action did what establishes the state it is meant to establish (its request
		// went on the wire / it returned without an error); required of the actions of a setup
		loc := "?"
		if act.sends {
			// the next item is sent after the application's request is on the wire
			// (or the call has returned without sending one)
			w := r.e.waitCall(n, c, reqWait)
			if w != "req" {
				r.detail["note"] = "app action " + it.Lab + " sent no request (" + w + ")"
			}
			r.log(vt.Ev{"ev": "app", "i": i + 1, "act": it.Lab, "loc": loc, "est": w == "req"})
			continue
		}
		// an action that sends nothing (it only changes the local state of the extension) has
		// returned before the peer's next stanza is fed: the stanza meets that state
		est := false
		select {
		case <-c.done:
			est = c.out == "value"
			if act.loc != nil {
				loc = act.loc(est)
			}
			if !est {
				r.detail["note"] = "app action " + it.Lab + " failed: " + c.err
			}
		case <-time.After(reqWait):
			r.detail["note"] = "app action " + it.Lab + " did not return"
		}
		r.log(vt.Ev{"ev": "app", "i": i + 1, "act": it.Lab, "loc": loc, "est": est})
	}
}

// starveReply: the scripted peer of a reply scenario answers the helper's k-th request
// with the k-th shaped reply; when the helper is done, when the replies are exhausted or
// when the helper keeps waiting for something the peer will not send, the peer ends the stream.
func (r *runner) starveReply() {
	if r.eof {
		return
	}
	if !r.started {
		r.started = true
		h, ok := helpers[r.sc.Helper]
		if !ok {
			r.detail["driver"] = "unknown helper " + r.sc.Helper
			r.end()
			return
		}
		r.log(vt.Ev{"ev": "app", "i": 0, "act": "helper", "loc": "?", "est": true})
		c := r.e.start(r.sc.Helper, func() error { return h(r.ctx, r.e) })
		r.mu.Lock()
		r.calls = append(r.calls, c)
		r.mu.Unlock()
	}
	if selfDriven[r.sc.Helper] {
		// the helper talks to its own scripted peer; this session just waits for it
		r.e.waitReq(1<<30, 0, 2*reqWait)
		r.next = len(r.sc.Items)
		r.end()
		return
	}
	d := quiesce
	if r.seen == 0 {
		d = reqWait
	}
	switch r.e.waitReq(r.seen, 0, d) {
	case "req":
		r.seen = r.e.reqCount()
		if r.next < len(r.sc.Items) {
			i := r.next
			r.next++
			r.feed(i)
			return
		}
		r.end()
	default:
		r.end()
	}
}

// run executes the scenario and returns its trace.
func runScenario(sc Scenario) (res Result) {
	res.ID = sc.ID
	stallAfter := stallAfter
	if sc.StallMS > 0 {
		stallAfter = time.Duration(sc.StallMS) * time.Millisecond
	}
	t0 := time.Now()
	defer func() { res.Detail["ms"] = fmt.Sprint(time.Since(t0).Milliseconds()) }()
	r := &runner{sc: sc, detail: map[string]string{}}
	res.Detail = r.detail
	sess := defaultSess
	if sc.Sess != nil {
		sess = *sc.Sess
	}
	life := sc.Life
	if life == "" {
		life = "fresh"
	}
	e, err := newEnv(sc.Cfg, sess)
	if err != nil {
		r.detail["driver"] = err.Error()
		res.Events = []vt.Ev{{"ev": "driver_error"}}
		return res
	}
	r.e = e
	// what the session really is: the trace specification compares the OBSERVED class of the
	// local address with the one the generator means (a construction that did not produce it
	// says nothing about the library)
	// (reported with the reset line of the trace)
	res.OAddr, res.OLocal = addrClass(e.s.LocalAddr()), e.s.LocalAddr().String()
	e.replies, e.cut = sc.Items, sc.Cut
	e.logFeed = func(i int, cut bool) { r.log(vt.Ev{"ev": "feed", "i": i + 1, "cut": cut}) }
	r.ctx, r.stop = context.WithCancel(context.Background())
	defer r.stop()
	defer e.teardown()
	// the watchdog measures the time the LIBRARY runs without asking for input or returning:
	// it is paused while the scripted peer / application (Starve) is at work
	var wmu sync.Mutex
	inHarness, since := false, time.Now()
	starve := r.starveSeq
	if sc.Mode == "reply" {
		starve = r.starveReply
	}
	e.conn.Starve = func() {
		wmu.Lock()
		inHarness = true
		wmu.Unlock()
		starve()
		wmu.Lock()
		inHarness, since = false, time.Now()
		wmu.Unlock()
	}

	// the application closes the session (Close of the output stream) under recover and a watchdog
	localClose := func() {
		out := "nil"
		cdone := make(chan struct{})
		go func() {
			defer close(cdone)
			defer func() {
				if x := recover(); x != nil {
					out = "PANIC"
					r.detail["close"] = fmt.Sprint(x) + "\n" + trimStack(stack())
				}
			}()
			if err := e.s.Close(); err != nil {
				out = "error"
				r.detail["close"] = useErrorSafe(err, r.detail)
			}
		}()
		select {
		case <-cdone:
		case <-time.After(stallAfter):
			out = "STALL"
			r.detail["close"] = "Close did not return; goroutines:\n" + blockedGoroutines()
		}
		r.log(vt.Ev{"ev": "close", "out": out})
		if (out == "PANIC" || out == "STALL") && res.Bad == "" {
			res.Bad = out
		}
	}

	// one call of Serve: it must return - the scripted peer always ends the input.  The call
	// that follows the construction of the session at once is told by the reset line of the
	// trace (lives "fresh" and "again"), every other one is an event.
	nserve := 0
	serveOnce := func() string {
		nserve++
		if nserve > 1 || (life != "fresh" && life != "again") {
			r.log(vt.Ev{"ev": "serve"})
		}
		// what the k-th call of Serve returned is kept under "serve" (k = 1), "serve2", ...
		key := "serve"
		if nserve > 1 {
			key = fmt.Sprintf("serve%d", nserve)
		}
		var serveErr error
		var servePanic string
		done := make(chan struct{})
		wmu.Lock()
		inHarness, since = false, time.Now()
		wmu.Unlock()
		go func() {
			defer close(done)
			defer func() {
				if x := recover(); x != nil {
					servePanic = fmt.Sprint(x) + "\n" + trimStack(stack())
				}
			}()
			serveErr = e.s.Serve(e.m)
		}()
		serveOut := ""
		stalled := make(chan struct{})
		go func() {
			t := time.NewTicker(25 * time.Millisecond)
			defer t.Stop()
			for {
				select {
				case <-done:
					return
				case <-t.C:
					wmu.Lock()
					over := !inHarness && time.Since(since) > stallAfter
					wmu.Unlock()
					if over {
						close(stalled)
						return
					}
				}
			}
		}()
		select {
		case <-done:
			switch {
			case servePanic != "":
				serveOut = "PANIC"
				r.detail[key] = servePanic
			case serveErr != nil:
				serveOut = "error"
				r.detail[key] = useErrorSafe(serveErr, r.detail)
				if r.detail["serve_err_panic"] != "" {
					serveOut = "PANIC"
				}
			default:
				serveOut = "nil"
			}
		case <-stalled:
			serveOut = "STALL"
			r.detail[key] = "Serve did not return; goroutines:\n" + blockedGoroutines()
		}
		r.log(vt.Ev{"ev": "serve_ret", "out": serveOut, "k": nserve})
		if (serveOut == "PANIC" || serveOut == "STALL") && res.Bad == "" {
			res.Bad = serveOut
		}
		return serveOut
	}

	switch life {
	case "unserved":
		// nobody serves the session: the helper is called, its request goes out, no answer is
		// ever read; the application then closes the session and cancels (below)
		if h, ok := helpers[sc.Helper]; ok && sc.Mode == "reply" {
			r.log(vt.Ev{"ev": "app", "i": 0, "act": "helper", "loc": "?", "est": true})
			c := e.start(sc.Helper, func() error { return h(r.ctx, e) })
			r.mu.Lock()
			r.calls = append(r.calls, c)
			r.mu.Unlock()
			e.waitCall(0, c, reqWait)
		} else {
			r.detail["driver"] = "an unserved scenario needs a helper"
		}
		localClose()
	case "closed":
		localClose()
		serveOnce()
	case "again":
		if out := serveOnce(); out != "STALL" {
			serveOnce()
		}
	default:
		serveOnce()
	}

	// the callers still waiting are cancelled, as an application does when the session is gone
	r.mu.Lock()
	calls := append([]*call(nil), r.calls...)
	r.mu.Unlock()
	if len(calls) > 0 {
		r.log(vt.Ev{"ev": "cancel"})
		r.stop()
	}
	for k, c := range calls {
		select {
		case <-c.done:
		case <-time.After(stallAfter):
			c.out = "STALL"
			c.err = "call did not return after its context was cancelled; goroutines:\n" + blockedGoroutines()
		}
		r.log(vt.Ev{"ev": "app_ret", "k": k + 1, "out": c.out})
		if c.err != "" {
			r.detail[fmt.Sprintf("call%d:%s", k+1, c.name)] = c.err
		}
		if (c.out == "PANIC" || c.out == "STALL") && res.Bad == "" {
			res.Bad = c.out
		}
	}
	r.log(vt.Ev{"ev": "end"})
	w := e.conn.WireString()
	if len(w) > 600 {
		w = w[:600] + "..."
	}
	r.detail["wire"] = w
	r.mu.Lock()
	res.Events = r.evs
	r.mu.Unlock()
	return res
}

func useErrorSafe(err error, detail map[string]string) (s string) {
	defer func() {
		if x := recover(); x != nil {
			detail["serve_err_panic"] = fmt.Sprint(x)
			s = "error value panics when used: " + fmt.Sprint(x)
		}
	}()
	return useError(err)
}

// blockedGoroutines lists the goroutines parked inside library code (for stall reports).
func blockedGoroutines() string {
	buf := make([]byte, 1<<20)
	n := runtimeStackAll(buf)
	var out []string
	for _, g := range strings.Split(string(buf[:n]), "\n\n") {
		if strings.Contains(g, "mellium.im/xmpp") {
			ls := strings.Split(g, "\n")
			if len(ls) > 9 {
				ls = ls[:9]
			}
			out = append(out, strings.Join(ls, "\n"))
		}
		if len(out) >= 6 {
			break
		}
	}
	return strings.Join(out, "\n--\n")
}
