package main

import (
	"encoding/xml"
	"strings"
)

// Node is one node of the element trees that TLC emits (tla/PeerInput.tla: E, T, Raw):
// k = "el" (element n in namespace ns, "" = inherited, attributes a, children c),
// "text" (character data t) or "raw" (t written verbatim: a comment, a PI...).
type Node struct {
	K  string     `json:"k"`
	N  string     `json:"n"`
	NS string     `json:"ns"`
	A  [][]string `json:"a"`
	C  []Node     `json:"c"`
	T  string     `json:"t"`
}

func esc(s string) string {
	var b strings.Builder
	xml.EscapeText(&b, []byte(s))
	return b.String()
}

// render writes the node as XML text. sub replaces the placeholders of attribute values
// ("$REQ": the id of the request the library sent last).
func (n Node) render(b *strings.Builder, sub func(string) string) {
	switch n.K {
	case "text":
		b.WriteString(esc(n.T))
	case "raw":
		b.WriteString(n.T)
	default:
		b.WriteByte('<')
		b.WriteString(n.N)
		if n.NS != "" {
			b.WriteString(` xmlns="` + esc(n.NS) + `"`)
		}
		for _, a := range n.A {
			if len(a) != 2 {
				continue
			}
			b.WriteString(" " + a[0] + `="` + esc(sub(a[1])) + `"`)
		}
		if len(n.C) == 0 {
			b.WriteString("/>")
			return
		}
		b.WriteByte('>')
		for _, c := range n.C {
			c.render(b, sub)
		}
		b.WriteString("</" + n.N + ">")
	}
}

func (n Node) String(sub func(string) string) string {
	var b strings.Builder
	n.render(&b, sub)
	return b.String()
}

// tokenBoundaries returns the byte offsets just after every '>' and just before every '<'
// of s (the places where a token of the rendered stanza ends or begins).
func tokenBoundaries(s string) []int {
	seen := map[int]bool{}
	var out []int
	add := func(i int) {
		if i > 0 && i < len(s) && !seen[i] {
			seen[i] = true
			out = append(out, i)
		}
	}
	for i := 0; i < len(s); i++ {
		switch s[i] {
		case '<':
			add(i)
		case '>':
			add(i + 1)
		}
	}
	return out
}
