package main

// The application side: app actions of sequences (they create handler-table state) and the
// request helpers of the library, each used the way its documentation says (iterate, read
// the items, close what must be closed).  The names are those of tla/PeerInput.tla.

import (
	"context"
	"crypto/sha1"
	"encoding/xml"
	"errors"
	"runtime"
	"strings"
	"sync"
	"time"

	"mellium.im/xmlstream"
	"mellium.im/xmpp"
	"mellium.im/xmpp/bin"
	"mellium.im/xmpp/blocklist"
	"mellium.im/xmpp/bookmarks"
	"mellium.im/xmpp/carbons"
	"mellium.im/xmpp/commands"
	"mellium.im/xmpp/disco"
	"mellium.im/xmpp/disco/items"
	"mellium.im/xmpp/form"
	"mellium.im/xmpp/history"
	"mellium.im/xmpp/jid"
	"mellium.im/xmpp/muc"
	"mellium.im/xmpp/ping"
	"mellium.im/xmpp/pubsub"
	"mellium.im/xmpp/roster"
	"mellium.im/xmpp/stanza"
	"mellium.im/xmpp/upload"
	"mellium.im/xmpp/version"
	"mellium.im/xmpp/xtime"

	"verifharness/vt"
)

func runtimeStackAll(buf []byte) int { return runtime.Stack(buf, true) }

type appAction struct {
	sends bool // the action puts a request on the wire (the next item waits for it)
	f     func(ctx context.Context, e *env) error
	// loc, for an action that only changes the local state of the extension (it sends
	// nothing and has returned before the next item is fed): the local state observed
	// afterwards, given whether the call returned without an error (LocalStates of
	// tla/PeerInput.tla)
	loc func(ok bool) string
}

var errNoConn = errors.New("driver: no accepted IBB stream")

var appActions = map[string]appAction{
	// a tracked history query: the application iterates over the results
	"app:hist_fetch": {sends: true, f: func(ctx context.Context, e *env) error {
		it := e.histH.Fetch(ctx, history.Query{ID: "q1"}, peerJID, e.s)
		for it.Next() {
			_ = it.Current()
		}
		_ = it.Result()
		err := it.Err()
		if e2 := it.Close(); err == nil {
			err = e2
		}
		return err
	}},
	// a tracked history query that the application gives up at once: the iterator is closed before the query has
	// ended; the results and the end of the query arrive all the same
	"app:hist_abandon": {f: func(ctx context.Context, e *env) error {
		n := e.reqCount()
		it := e.histH.Fetch(ctx, history.Query{ID: "q1"}, peerJID, e.s)
		// the query is on the wire before the application gives up (otherwise nothing of it would ever reach the peer)
		if w := e.waitFor(n, func() bool { return false }, reqWait); w != "req" {
			_ = it.Close()
			return errors.New("driver: the history query was not sent")
		}
		_ = it.Close()
		return nil
	}},
	// a message sent with a receipt request: the application waits for the receipt
	"app:rcpt_send": {sends: true, f: func(ctx context.Context, e *env) error {
		// (Message.Wrap yields a start element without a namespace, which SendMessage refuses)
		start := stanza.Message{ID: "r1", To: peerJID, Type: stanza.ChatMessage}.StartElement()
		start.Name.Space = stanza.NSClient
		return e.rcptH.SendMessage(ctx, e.s, xmlstream.Wrap(nil, start))
	}},
	// another message with a receipt request sent through the handler (the helper that
	// shares the handler's table and lock with the peer's receipts)
	"app:rcpt_elem": {sends: true, f: func(ctx context.Context, e *env) error {
		return e.rcptH.SendMessageElement(ctx, e.s, nil, stanza.Message{ID: "r2", To: peerJID, Type: stanza.ChatMessage})
	}},
	// a room the application joins (and stays in)
	"app:muc_join": {sends: true, f: func(ctx context.Context, e *env) error {
		ch, err := e.mucC.Join(ctx, roomJID, e.s)
		e.mu.Lock()
		e.room = ch
		e.cond.Broadcast()
		e.mu.Unlock()
		if err == nil && ch != nil {
			_ = ch.Addr()
			_ = ch.Me()
			_ = ch.Joined()
		}
		return err
	}},
	// the application leaves the room it joined
	"app:muc_leave": {sends: true, f: func(ctx context.Context, e *env) error {
		deadline := time.Now().Add(reqWait)
		e.mu.Lock()
		for e.room == nil && time.Now().Before(deadline) {
			e.mu.Unlock()
			time.Sleep(2 * time.Millisecond)
			e.mu.Lock()
		}
		ch := e.room
		e.mu.Unlock()
		if ch == nil {
			return errors.New("driver: no joined room")
		}
		return ch.Leave(ctx, "bye")
	}},
	// the application writes to the accepted stream, fewer bytes than a block, without
	// flushing: they stay in the library's write buffer (whatever the carrier) and are
	// flushed when the stream is closed - by the application or, from inside the serve
	// loop, by the peer
	"app:ibb_write": {f: func(ctx context.Context, e *env) error {
		c := e.firstAccepted(reqWait)
		if c == nil {
			return errNoConn
		}
		n, err := c.Write([]byte("hello"))
		if err == nil && n != 5 {
			err = errors.New("driver: short write")
		}
		return err
	}, loc: func(ok bool) string {
		if ok {
			return "buffered"
		}
		return "clean"
	}},
	// the application closes the accepted stream itself
	"app:ibb_lclose": {sends: true, f: func(ctx context.Context, e *env) error {
		c := e.firstAccepted(reqWait)
		if c == nil {
			return errNoConn
		}
		// Close waits for the peer's answer without a context: bound it the documented way
		c.SetDeadline(time.Now().Add(ibbDeadline))
		return c.Close()
	}},
	// the application opens a stream towards the peer
	"app:ibb_open": {sends: true, f: func(ctx context.Context, e *env) error {
		_, err := e.ibbH.OpenIQ(ctx, stanza.IQ{To: peerJID}, e.s, true, 0, "s3")
		return err
	}},
}

type anyPayload struct {
	XMLName xml.Name
	Attrs   []xml.Attr `xml:",any,attr"`
	Text    string     `xml:",chardata"`
	Kids    []struct {
		XMLName xml.Name
		Attrs   []xml.Attr `xml:",any,attr"`
	} `xml:",any"`
}

func vtQuery() xml.TokenReader {
	return xmlstream.Wrap(nil, xml.StartElement{Name: xml.Name{Space: "urn:vt:q", Local: "query"}})
}

func readAll(r xmlstream.TokenReadCloser, err error) error {
	if err != nil {
		return err
	}
	if r == nil {
		return nil
	}
	err = drain(r)
	if e2 := r.Close(); err == nil {
		err = e2
	}
	return err
}

func closeAfter(err error, c interface{ Close() error }) error {
	if e2 := c.Close(); err == nil {
		err = e2
	}
	return err
}

var okForm = form.New(form.Title("t"), form.Text("v", form.Label("l")))

var helpers = map[string]func(ctx context.Context, e *env) error{
	"core.UnmarshalIQ": func(ctx context.Context, e *env) error {
		var v anyPayload
		return e.s.UnmarshalIQ(ctx, stanza.IQ{Type: stanza.GetIQ, To: peerJID}.Wrap(vtQuery()), &v)
	},
	"core.UnmarshalIQ.nil": func(ctx context.Context, e *env) error {
		return e.s.UnmarshalIQElement(ctx, vtQuery(), stanza.IQ{Type: stanza.SetIQ, To: peerJID}, nil)
	},
	"core.IterIQ": func(ctx context.Context, e *env) error {
		it, start, err := e.s.IterIQElement(ctx, vtQuery(), stanza.IQ{Type: stanza.GetIQ, To: peerJID})
		if err != nil {
			return err
		}
		_ = start.Name
		for it.Next() {
			st, r := it.Current()
			if st != nil {
				_ = st.Name
			}
			drain(r)
		}
		return closeAfter(it.Err(), it)
	},
	"core.SendIQ": func(ctx context.Context, e *env) error {
		return readAll(e.s.SendIQElement(ctx, vtQuery(), stanza.IQ{Type: stanza.GetIQ, To: peerJID}))
	},
	"core.EncodeIQ": func(ctx context.Context, e *env) error {
		return readAll(e.s.EncodeIQ(ctx, ping.IQ{IQ: stanza.IQ{Type: stanza.GetIQ, To: peerJID}}))
	},
	"core.SendMessage": func(ctx context.Context, e *env) error {
		return readAll(e.s.SendMessageElement(ctx, nil, stanza.Message{To: peerJID, Type: stanza.ChatMessage}))
	},
	"core.SendPresence": func(ctx context.Context, e *env) error {
		return readAll(e.s.SendPresenceElement(ctx, nil, stanza.Presence{To: peerJID}))
	},
	"ping.Send": func(ctx context.Context, e *env) error { return ping.Send(ctx, e.s, peerJID) },
	"version.Get": func(ctx context.Context, e *env) error {
		_, err := version.Get(ctx, e.s, peerJID)
		return err
	},
	"xtime.Get": func(ctx context.Context, e *env) error {
		_, err := xtime.Get(ctx, e.s, peerJID)
		return err
	},
	"bin.Get": func(ctx context.Context, e *env) error {
		_, err := bin.Get(ctx, e.s, peerJID, "sha1+8f35fef110ffc5df08d579a50083ff9308fb6242@bob.xmpp.org")
		return err
	},
	"upload.GetSlot": func(ctx context.Context, e *env) error {
		slot, err := upload.GetSlot(ctx, upload.File{Name: "a.txt", Size: 3, Type: "text/plain"}, peerJID, e.s)
		if err == nil && slot.PutURL != nil {
			_, err = slot.Put(ctx, nil)
		}
		return err
	},
	"disco.GetInfo": func(ctx context.Context, e *env) error {
		info, err := disco.GetInfo(ctx, "", peerJID, e.s)
		if err == nil {
			// what a caller does with the answer: verify the capabilities hash
			_ = info.AppendHash(nil, sha1.New())
		}
		return err
	},
	"disco.FetchItems": func(ctx context.Context, e *env) error {
		it := disco.FetchItems(ctx, items.Item{JID: peerJID}, e.s)
		n := 0
		for it.Next() && n < 8 {
			_ = it.Item()
			n++
		}
		return closeAfter(it.Err(), it)
	},
	"disco.WalkItem": func(ctx context.Context, e *env) error {
		n := 0
		return disco.WalkItem(ctx, items.Item{JID: peerJID}, e.s, func(level int, item items.Item, err error) error {
			n++
			if n > 6 || level > 2 {
				return disco.ErrSkipItem
			}
			return err
		})
	},
	"commands.Fetch": func(ctx context.Context, e *env) error {
		it := commands.Fetch(ctx, peerJID, e.s)
		n := 0
		for it.Next() && n < 8 {
			_ = it.Command()
			n++
		}
		return closeAfter(it.Err(), it)
	},
	"commands.Execute": func(ctx context.Context, e *env) error {
		resp, payload, err := commands.Command{JID: peerJID, Node: "n"}.Execute(ctx, nil, e.s)
		if err != nil {
			return err
		}
		_ = resp.Status
		err = drain(payload)
		return closeAfter(err, payload)
	},
	"commands.ForEach": func(ctx context.Context, e *env) error {
		n := 0
		return commands.Command{JID: peerJID, Node: "n"}.ForEach(ctx, nil, e.s, func(r commands.Response, p xml.TokenReader) (commands.Command, xml.TokenReader, error) {
			n++
			drain(p)
			if n > 2 {
				return commands.Command{}, nil, nil
			}
			return r.Cancel(), nil, nil
		})
	},
	"history.Fetch": func(ctx context.Context, e *env) error {
		_, err := history.Fetch(ctx, history.Query{ID: "q1"}, peerJID, e.s)
		return err
	},
	"roster.Fetch": func(ctx context.Context, e *env) error {
		it := roster.Fetch(ctx, e.s)
		for it.Next() {
			_ = it.Item()
		}
		_ = it.Version()
		return closeAfter(it.Err(), it)
	},
	"roster.Set": func(ctx context.Context, e *env) error {
		return roster.Set(ctx, e.s, roster.Item{JID: peerJID.Bare(), Name: "j"})
	},
	"roster.Delete": func(ctx context.Context, e *env) error { return roster.Delete(ctx, e.s, peerJID.Bare()) },
	"pubsub.Fetch": func(ctx context.Context, e *env) error {
		it := pubsub.Fetch(ctx, e.s, pubsub.Query{Node: "n"})
		for it.Next() {
			_, r := it.Item()
			drain(r)
		}
		return closeAfter(it.Err(), it)
	},
	"pubsub.Publish": func(ctx context.Context, e *env) error {
		_, err := pubsub.Publish(ctx, e.s, "n", "i1", xmlstream.Wrap(nil, xml.StartElement{Name: xml.Name{Space: "urn:vt:q", Local: "entry"}}))
		return err
	},
	"pubsub.CreateNode": func(ctx context.Context, e *env) error { return pubsub.CreateNode(ctx, e.s, "n", nil) },
	"pubsub.GetConfig": func(ctx context.Context, e *env) error {
		f, err := pubsub.GetConfig(ctx, e.s, "n")
		useForm(f)
		return err
	},
	"pubsub.GetDefaultConfig": func(ctx context.Context, e *env) error {
		f, err := pubsub.GetDefaultConfig(ctx, e.s)
		useForm(f)
		return err
	},
	"pubsub.SetConfig": func(ctx context.Context, e *env) error { return pubsub.SetConfig(ctx, e.s, "n", okForm) },
	"pubsub.Delete":    func(ctx context.Context, e *env) error { return pubsub.Delete(ctx, e.s, "n", "i1", true) },
	"bookmarks.Fetch": func(ctx context.Context, e *env) error {
		it := bookmarks.Fetch(ctx, e.s)
		for it.Next() {
			_ = it.Bookmark()
		}
		return closeAfter(it.Err(), it)
	},
	"bookmarks.Publish": func(ctx context.Context, e *env) error {
		return bookmarks.Publish(ctx, e.s, bookmarks.Channel{JID: roomJID.Bare(), Name: "r", Nick: "me"})
	},
	"bookmarks.Delete": func(ctx context.Context, e *env) error { return bookmarks.Delete(ctx, e.s, roomJID.Bare()) },
	"blocklist.Fetch": func(ctx context.Context, e *env) error {
		it := blocklist.Fetch(ctx, e.s)
		for it.Next() {
			_ = it.JID()
		}
		return closeAfter(it.Err(), it)
	},
	"blocklist.Add":    func(ctx context.Context, e *env) error { return blocklist.Add(ctx, e.s, peerJID) },
	"blocklist.Remove": func(ctx context.Context, e *env) error { return blocklist.Remove(ctx, e.s, peerJID) },
	"blocklist.Report": func(ctx context.Context, e *env) error {
		return blocklist.Report(ctx, e.s, blocklist.Item{JID: peerJID, Reason: blocklist.ReasonSpam, Text: "t"})
	},
	"carbons.Enable":  func(ctx context.Context, e *env) error { return carbons.Enable(ctx, e.s) },
	"carbons.Disable": func(ctx context.Context, e *env) error { return carbons.Disable(ctx, e.s) },
	"muc.GetConfig": func(ctx context.Context, e *env) error {
		f, err := muc.GetConfig(ctx, roomJID.Bare(), e.s)
		useForm(f)
		return err
	},
	"muc.SetConfig": func(ctx context.Context, e *env) error { return muc.SetConfig(ctx, roomJID.Bare(), okForm, e.s) },
	"muc.Join": func(ctx context.Context, e *env) error {
		_, err := e.mucC.Join(ctx, roomJID, e.s)
		return err
	},
	"ibb.Open": func(ctx context.Context, e *env) error {
		c, err := e.ibbH.Open(ctx, e.s, peerJID)
		if err == nil && c != nil {
			_ = c.SID()
		}
		return err
	},
	"ibb.Write": func(ctx context.Context, e *env) error {
		// the first request opens the stream, the second one carries data
		c, err := e.ibbH.OpenIQ(ctx, stanza.IQ{To: peerJID}, e.s, true, 0, "s3")
		if err != nil {
			return err
		}
		c.SetDeadline(time.Now().Add(ibbDeadline))
		if _, err = c.Write([]byte("hello")); err != nil {
			return err
		}
		return c.Flush()
	},
	"receipts.SendMessage": func(ctx context.Context, e *env) error {
		return e.rcptH.SendMessage(ctx, e.s, stanza.Message{ID: "r1", To: peerJID, Type: stanza.ChatMessage}.Wrap(nil))
	},
}

// selfDriven helpers run against a scripted peer of their own (they do not use the served session).
var selfDriven = map[string]bool{"xmpp.BindResource": true}

func init() {
	// resource binding during stream negotiation: the peer's answer to the bind request is shaped
	helpers["xmpp.BindResource"] = func(ctx context.Context, e *env) error {
		conn := vt.NewConn()
		conn.FeedString(strings.Replace(streamHeader(stanza.NSClient), ownFull, ownBare, 1) + `<stream:features><bind xmlns="urn:ietf:params:xml:ns:xmpp-bind"/></stream:features>`)
		var mu sync.Mutex
		var pend []byte
		next := 0
		conn.React = func(p []byte) {
			mu.Lock()
			defer mu.Unlock()
			pend = append(pend, p...)
			m := tagRe.FindSubmatch(pend)
			if m == nil || string(m[1]) != "iq" {
				return
			}
			id := idRe.FindSubmatch(m[2])
			pend = nil
			if id == nil || next >= len(e.replies) {
				conn.CloseIn()
				return
			}
			i := next
			next++
			b := e.replies[i].Node.String(func(v string) string { return strings.ReplaceAll(v, "$REQ", string(id[1])) })
			cut := e.cut != nil && e.cut.Item == i
			if cut && e.cut.Off < len(b) {
				b = b[:e.cut.Off]
			}
			e.logFeed(i, cut)
			conn.FeedString(b)
			if cut {
				conn.CloseIn()
			}
		}
		s, err := xmpp.NewSession(ctx, jid.MustParse("example.net"), jid.MustParse(ownBare), conn, xmpp.Secure|xmpp.Authn,
			xmpp.NewNegotiator(func(*xmpp.Session, *xmpp.StreamConfig) xmpp.StreamConfig {
				return xmpp.StreamConfig{Features: []xmpp.StreamFeature{xmpp.BindResource()}}
			}))
		if err == nil && s != nil {
			_ = s.LocalAddr()
		}
		conn.Close()
		return err
	}
}

// useForm does what a caller does with a data form it was given.
func useForm(f *form.Data) {
	if f == nil {
		return
	}
	f.ForFields(func(fd form.FieldData) {
		f.Raw(fd.Var)
		f.GetString(fd.Var)
	})
	_ = f.Len()
	_, _ = f.Submit()
}

var _ = jid.JID{}
