// Command peerinput is the conformance driver of property C09 (no peer input can panic or
// wedge the library).
//
//	peerinput run <alphabet.ndjson|-> <trace.ndjson> <scenarios.ndjson>...
//	peerinput worker          (internal: one scenario per line on stdin, one result per line on stdout)
//
// The scenarios come from TLC (tla/EmitPeerInput.tla): sequences of shaped stanzas and
// application actions, and request helpers with shaped replies.  The driver adds a seeded
// sample of truncations of the rendered input (PI_CUTS).  Every scenario is run against a
// really served session whose mux carries all the library's handlers; what happened is
// written as a trace (tla/TrPeerInput.tla decides).  Scenarios run in worker processes,
// one at a time per process, so that a panic in a goroutine the library started itself
// (which no recover of the driver can catch) is attributed to the scenario that caused it.
package main

import (
	"bufio"
	"bytes"
	"encoding/json"
	"fmt"
	"io"
	"math/rand"
	"os"
	"os/exec"
	"runtime"
	"sort"
	"strconv"
	"strings"
	"sync"
	"time"

	"verifharness/vt"
)

// watchdogs (milliseconds): the first pass uses a short one, a stall counts only if it
// happens again under the long one
var (
	firstStallMS   = 1200
	confirmStallMS = 4000
	maxRerun       = 16
)

func die(f string, a ...interface{}) {
	fmt.Fprintf(os.Stderr, f+"\n", a...)
	os.Exit(3)
}

func main() {
	if len(os.Args) < 2 {
		die("usage: peerinput run|worker ...")
	}
	switch os.Args[1] {
	case "run":
		if len(os.Args) < 5 {
			die("usage: peerinput run <alphabet|-> <trace> <scenarios>...")
		}
		supervise(os.Args[2], os.Args[3], os.Args[4:])
	case "worker":
		worker()
	default:
		die("unknown sub-command %q", os.Args[1])
	}
}

func worker() {
	if ms, err := strconv.Atoi(os.Getenv("PI_STALL_MS")); err == nil && ms > 0 {
		stallAfter = time.Duration(ms) * time.Millisecond
	}
	in := bufio.NewReaderSize(os.Stdin, 1<<20)
	out := bufio.NewWriter(os.Stdout)
	for {
		line, err := in.ReadBytes('\n')
		if len(line) > 1 {
			var sc Scenario
			if e := json.Unmarshal(line, &sc); e != nil {
				die("worker: bad scenario: %v", e)
			}
			res := runScenario(sc)
			b, e := json.Marshal(res)
			if e != nil {
				die("worker: marshal: %v", e)
			}
			out.Write(b)
			out.WriteByte('\n')
			out.Flush()
		}
		if err != nil {
			return
		}
	}
}

// rawScenario is a scenario as emitted: items are labels (looked up in the alphabet) or objects.
type rawScenario struct {
	Mode   string            `json:"mode"`
	Cfg    string            `json:"cfg"`
	Sess   *Sess             `json:"sess"`
	Life   string            `json:"life"`
	Helper string            `json:"helper"`
	Setup  int               `json:"setup"`
	Items  []json.RawMessage `json:"items"`
	Cut    *Cut              `json:"cut"`
}

func readLines(path string, f func([]byte)) {
	fh, err := os.Open(path)
	if err != nil {
		die("open %s: %v", path, err)
	}
	defer fh.Close()
	sc := bufio.NewScanner(fh)
	sc.Buffer(make([]byte, 1<<20), 1<<26)
	for sc.Scan() {
		if len(sc.Bytes()) > 0 {
			f(sc.Bytes())
		}
	}
	if err := sc.Err(); err != nil {
		die("read %s: %v", path, err)
	}
}

// alpha is the alphabet of shaped stanzas (label -> element tree) emitted by TLC.
var alpha = map[string]*Node{}

// addRandom appends n seeded random sequences of k stanzas of the alphabet (any handlers
// mixed): what an earlier stanza leaves behind in the serve loop or in another handler
// must not matter either.
func addRandom(scs []Scenario, n, k int, seed int64) []Scenario {
	if n <= 0 || len(alpha) == 0 {
		return scs
	}
	var labs []string
	for l := range alpha {
		if strings.HasPrefix(l, "ack/") || strings.HasPrefix(l, "hist.fin/") || strings.HasPrefix(l, "muc.joinerr/") {
			continue
		}
		labs = append(labs, l)
	}
	sort.Strings(labs)
	// the session identities the emitted scenarios use (Sessions of tla/PeerInput.tla)
	seen := map[Sess]bool{}
	var sessions []Sess
	for _, sc := range scs {
		x := defaultSess
		if sc.Sess != nil {
			x = *sc.Sess
		}
		if !seen[x] {
			seen[x] = true
			sessions = append(sessions, x)
		}
	}
	sort.Slice(sessions, func(i, j int) bool { return sessions[i].String() < sessions[j].String() })
	rng := rand.New(rand.NewSource(seed ^ 0x5eed))
	for i := 0; i < n; i++ {
		// in either configuration of the handler table, on a session of any identity
		sc := Scenario{Mode: "seq", Cfg: []string{"listen", "zero"}[rng.Intn(2)]}
		if len(sessions) > 0 {
			x := sessions[rng.Intn(len(sessions))]
			sc.Sess = &x
		}
		for j := 0; j < k; j++ {
			l := labs[rng.Intn(len(labs))]
			sc.Items = append(sc.Items, Item{Lab: l, Who: "peer", Node: alpha[l]})
		}
		scs = append(scs, sc)
	}
	return scs
}

func loadScenarios(alphabet string, files []string) []Scenario {
	if alphabet != "-" {
		readLines(alphabet, func(b []byte) {
			var a struct {
				Lab  string `json:"lab"`
				Node Node   `json:"node"`
			}
			if err := json.Unmarshal(b, &a); err != nil {
				die("alphabet: %v", err)
			}
			n := a.Node
			alpha[a.Lab] = &n
		})
	}
	var out []Scenario
	for _, f := range files {
		readLines(f, func(b []byte) {
			var rs rawScenario
			if err := json.Unmarshal(b, &rs); err != nil {
				die("%s: %v", f, err)
			}
			sc := Scenario{Mode: rs.Mode, Cfg: rs.Cfg, Sess: rs.Sess, Life: rs.Life, Helper: rs.Helper, Setup: rs.Setup, Cut: rs.Cut}
			for _, ri := range rs.Items {
				var lab string
				if json.Unmarshal(ri, &lab) == nil {
					if strings.HasPrefix(lab, "app:") {
						sc.Items = append(sc.Items, Item{Lab: lab, Who: "app"})
						continue
					}
					n, ok := alpha[lab]
					if !ok {
						die("%s: stanza %q is not in the alphabet", f, lab)
					}
					sc.Items = append(sc.Items, Item{Lab: lab, Who: "peer", Node: n})
					continue
				}
				var it Item
				if err := json.Unmarshal(ri, &it); err != nil {
					die("%s: item: %v", f, err)
				}
				if it.Who == "" {
					it.Who = "peer"
				}
				if it.Who == "peer" && it.Node == nil {
					die("%s: item %q without node", f, it.Lab)
				}
				sc.Items = append(sc.Items, it)
			}
			out = append(out, sc)
		})
	}
	return out
}

// addCuts appends a seeded sample of truncated scenarios: the last peer item of a sampled
// scenario is cut at every token boundary and at a few offsets inside its tags.
func addCuts(scs []Scenario, n int, seed int64) []Scenario {
	if n <= 0 {
		return scs
	}
	rng := rand.New(rand.NewSource(seed))
	var cand []int
	for i, sc := range scs {
		if len(sc.Items) > 0 && sc.Items[len(sc.Items)-1].Who == "peer" && sc.Cut == nil {
			cand = append(cand, i)
		}
	}
	rng.Shuffle(len(cand), func(i, j int) { cand[i], cand[j] = cand[j], cand[i] })
	id := func(s string) string { return s }
	var cuts []Scenario
	for _, ci := range cand {
		if len(cuts) >= n {
			break
		}
		sc := scs[ci]
		last := len(sc.Items) - 1
		s := sc.Items[last].Node.String(id)
		offs := tokenBoundaries(s)
		for k := 0; k < 3 && len(s) > 2; k++ {
			offs = append(offs, 1+rng.Intn(len(s)-1))
		}
		sort.Ints(offs)
		prev := -1
		for _, o := range offs {
			if o == prev {
				continue
			}
			prev = o
			c := sc
			c.Cut = &Cut{Item: last, Off: o}
			cuts = append(cuts, c)
		}
	}
	if len(cuts) > n {
		cuts = cuts[:n]
	}
	return append(scs, cuts...)
}

type child struct {
	cmd    *exec.Cmd
	in     io.WriteCloser
	out    *bufio.Reader
	stderr *bytes.Buffer
}

func spawn(stallMS int) *child {
	c := &child{stderr: &bytes.Buffer{}}
	c.cmd = exec.Command(os.Args[0], "worker")
	c.cmd.Env = append(os.Environ(), "PI_STALL_MS="+strconv.Itoa(stallMS))
	c.cmd.Stderr = c.stderr
	var err error
	if c.in, err = c.cmd.StdinPipe(); err != nil {
		die("spawn: %v", err)
	}
	so, err := c.cmd.StdoutPipe()
	if err != nil {
		die("spawn: %v", err)
	}
	c.out = bufio.NewReaderSize(so, 1<<20)
	if err := c.cmd.Start(); err != nil {
		die("spawn: %v", err)
	}
	return c
}

func (c *child) stop() {
	c.in.Close()
	c.cmd.Wait()
}

// do runs one scenario in the child; ok = false if the child died (its stderr is returned).
func (c *child) do(sc Scenario) (res Result, crash string, ok bool) {
	b, _ := json.Marshal(sc)
	b = append(b, '\n')
	if _, err := c.in.Write(b); err != nil {
		c.cmd.Wait()
		return res, "worker gone before the scenario was sent: " + c.stderr.String(), false
	}
	type rd struct {
		line []byte
		err  error
	}
	ch := make(chan rd, 1)
	go func() {
		line, err := c.out.ReadBytes('\n')
		ch <- rd{line, err}
	}()
	var line []byte
	var err error
	select {
	case x := <-ch:
		line, err = x.line, x.err
	case <-time.After(hardTimeout):
		// the driver itself is stuck (not a verdict about the library): kill the worker
		c.cmd.Process.Kill()
		c.cmd.Wait()
		return res, hungMarker, false
	}
	if err != nil {
		c.cmd.Wait()
		return res, c.stderr.String(), false
	}
	if err := json.Unmarshal(line, &res); err != nil {
		die("bad worker result: %v", err)
	}
	return res, "", true
}

const hungMarker = "driver: the worker did not answer within the hard timeout and was killed"

var hardTimeout = 60 * time.Second

func crashResult(sc Scenario, crash string) Result {
	if crash == hungMarker {
		return Result{ID: sc.ID, Events: []vt.Ev{{"ev": "driver_error"}}, Detail: map[string]string{"driver": hungMarker}}
	}
	// (the process died after the session had been made: what was observed of it is lost with
	// the process; the crash is what the trace tells)
	sess := defaultSess
	if sc.Sess != nil {
		sess = *sc.Sess
	}
	// keep the head of the crash report (panic value and the first frames)
	ls := strings.Split(crash, "\n")
	var keep []string
	for _, l := range ls {
		if strings.HasPrefix(l, "\t/usr/") || strings.Contains(l, "/go/src/runtime/") {
			continue
		}
		keep = append(keep, l)
		if len(keep) > 40 {
			break
		}
	}
	return Result{ID: sc.ID, Bad: "PANIC", OAddr: sess.Addr, OLocal: sess.local(),
		Events: []vt.Ev{{"ev": "crash", "out": "PANIC"}},
		Detail: map[string]string{"crash": "the process died of a panic in a goroutine started by the library:\n" + strings.Join(keep, "\n")}}
}

func supervise(alphabet, tracePath string, files []string) {
	scs := loadScenarios(alphabet, files)
	seed, _ := strconv.ParseInt(os.Getenv("VERIF_SEED"), 10, 64)
	ncuts, _ := strconv.Atoi(os.Getenv("PI_CUTS"))
	nrand, _ := strconv.Atoi(os.Getenv("PI_RANDSEQ"))
	scs = addRandom(scs, nrand, 4, seed)
	scs = addCuts(scs, ncuts, seed)
	for i := range scs {
		scs[i].ID = i
	}
	nw, _ := strconv.Atoi(os.Getenv("PI_WORKERS"))
	if nw <= 0 {
		nw = runtime.NumCPU()
		if nw > 12 {
			nw = 12
		}
	}
	if nw > len(scs) {
		nw = len(scs)
	}
	if nw < 1 {
		nw = 1
	}
	results := make([]Result, len(scs))
	jobs := make(chan int, 256)
	var wg sync.WaitGroup
	crashes := 0
	firstStalls := 0
	var cmu sync.Mutex
	for w := 0; w < nw; w++ {
		wg.Add(1)
		go func() {
			defer wg.Done()
			c := spawn(firstStallMS)
			for i := range jobs {
				// when many scenarios stall (a tree with a wedge on a common path) the first
				// pass gets impatient: it only selects candidates, the verdict comes from the re-run
				cmu.Lock()
				ns := firstStalls
				cmu.Unlock()
				sc := scs[i]
				switch {
				case ns > 400:
					sc.StallMS = 200
				case ns > 60:
					sc.StallMS = 500
				}
				res, crash, ok := c.do(sc)
				if ok && res.Bad == "STALL" {
					cmu.Lock()
					firstStalls++
					cmu.Unlock()
				}
				if !ok {
					res = crashResult(scs[i], crash)
					cmu.Lock()
					crashes++
					cmu.Unlock()
					c = spawn(firstStallMS)
				}
				results[i] = res
			}
			c.stop()
		}()
	}
	for i := range scs {
		jobs <- i
	}
	close(jobs)
	wg.Wait()

	// A stall is reported only if it happens again with a long watchdog on a quiet machine
	// (few scenarios at a time).  At most maxRerun stalls are re-run; the others are not
	// part of the verdict (their traces show what the re-run of the first ones confirmed
	// or refuted; the summary counts them).
	unreproduced := []int{}
	notRerun := []int{}
	stalls := 0
	slow := 0
	var cand []int
	for i := range results {
		if results[i].Bad == "STALL" {
			cand = append(cand, i)
		}
	}
	if len(cand) > maxRerun {
		// spread the budget over the helpers / handlers concerned
		byKey := map[string][]int{}
		var keys []string
		for _, i := range cand {
			k := scs[i].Helper
			if k == "" && len(scs[i].Items) > 0 {
				k = strings.SplitN(scs[i].Items[len(scs[i].Items)-1].Lab, "/", 2)[0]
			}
			if _, ok := byKey[k]; !ok {
				keys = append(keys, k)
			}
			byKey[k] = append(byKey[k], i)
		}
		var pick []int
		for round := 0; len(pick) < maxRerun; round++ {
			added := false
			for _, k := range keys {
				if round < len(byKey[k]) && len(pick) < maxRerun {
					pick = append(pick, byKey[k][round])
					added = true
				}
			}
			if !added {
				break
			}
		}
		picked := map[int]bool{}
		for _, i := range pick {
			picked[i] = true
		}
		for _, i := range cand {
			if !picked[i] {
				notRerun = append(notRerun, i)
			}
		}
		cand = pick
	}
	rjobs := make(chan int, len(cand)+1)
	var rmu sync.Mutex
	var rwg sync.WaitGroup
	for w := 0; w < 4 && w < len(cand); w++ {
		rwg.Add(1)
		go func() {
			defer rwg.Done()
			for i := range rjobs {
				// the short watchdog of the first pass only selects the candidates: a stall is
				// a run that exceeds the long watchdog, and it counts if it does so twice
				var res Result
				long := 0
				for try := 0; try < 2; try++ {
					c := spawn(confirmStallMS)
					r2, crash, ok := c.do(scs[i])
					if !ok {
						r2 = crashResult(scs[i], crash)
					} else {
						c.stop()
					}
					res = r2
					if r2.Bad != "STALL" {
						break
					}
					long++
				}
				rmu.Lock()
				if res.Bad == "STALL" {
					stalls++
				} else if long > 0 {
					unreproduced = append(unreproduced, i)
					res.Detail["unreproduced_stall"] = "stalled under the long watchdog once and not again"
				} else {
					slow++
				}
				results[i] = res
				rmu.Unlock()
			}
		}()
	}
	for _, i := range cand {
		rjobs <- i
	}
	close(rjobs)
	rwg.Wait()
	for _, i := range notRerun {
		// not confirmed: the trace keeps the events up to the stall and ends there without a
		// verdict of its own ("skipped" is accepted by the trace specification)
		evs := []vt.Ev{}
		for _, e := range results[i].Events {
			if o, _ := e["out"].(string); o == "STALL" {
				break
			}
			evs = append(evs, e)
		}
		results[i].Events = append(evs, vt.Ev{"ev": "skipped"})
		results[i].Bad = ""
		results[i].Detail["skipped"] = "stalled with the short watchdog; not re-run (more than the re-run budget stalled)"
	}

	tw, err := vt.NewTraceWriter(tracePath)
	if err != nil {
		die("trace: %v", err)
	}
	counts := map[string]int{}
	panics := 0
	driverErr := []string{}
	samples := []interface{}{}
	for i, res := range results {
		sc := scs[i]
		napp := 0
		labs := []string{}
		for _, it := range sc.Items {
			if it.Who == "app" {
				napp++
			}
			labs = append(labs, it.Lab)
		}
		if sc.Mode == "reply" {
			napp = 1
		}
		sess, life := defaultSess, sc.Life
		if sc.Sess != nil {
			sess = *sc.Sess
		}
		if life == "" {
			life = "fresh"
		}
		tw.Write(vt.Ev{"mode": sc.Mode, "cfg": sc.Cfg, "kind": sess.Kind, "addr": sess.Addr, "life": life, "oaddr": res.OAddr, "olocal": res.OLocal, "setup": sc.Setup, "n": len(sc.Items), "napp": napp}, res.Events)
		tw.Meta(map[string]interface{}{"scenario": sc, "labels": labs, "detail": res.Detail, "bad": res.Bad})
		for _, e := range res.Events {
			if o, ok := e["out"].(string); ok {
				counts[fmt.Sprint(e["ev"])+":"+o]++
			}
		}
		if res.Bad == "PANIC" {
			panics++
		}
		if d := res.Detail["driver"]; d != "" {
			driverErr = append(driverErr, fmt.Sprintf("scenario %d: %s", i, d))
		}
		if len(samples) < 3 && res.Bad == "" && len(sc.Items) > 1 {
			samples = append(samples, map[string]interface{}{"mode": sc.Mode, "helper": sc.Helper, "items": labs, "events": res.Events})
		}
	}
	if err := tw.Close(); err != nil {
		die("trace: %v", err)
	}
	nt, ne := tw.Counts()
	if len(driverErr) > 5 {
		driverErr = driverErr[:5]
	}
	b, _ := json.Marshal(map[string]interface{}{
		"scenarios": len(scs), "traces": nt, "events": ne, "outcomes": counts, "panics": panics,
		"stalls": stalls, "unreproduced_stalls": unreproduced, "stalls_not_rerun": len(notRerun), "slow_not_stalled": slow, "worker_crashes": crashes,
		"driver_errors": driverErr, "samples": samples, "workers": nw,
	})
	fmt.Printf("SUMMARY %s\n", b)
}
