package main

// A really served session over the controlled transport whose multiplexer carries every
// handler the library offers, constructed the way each package's tests construct them.

import (
	"context"
	"encoding/xml"
	"fmt"
	"io"
	"regexp"
	"runtime"
	"strings"
	"sync"
	"time"

	"mellium.im/xmlstream"
	"mellium.im/xmpp"
	"mellium.im/xmpp/bin"
	"mellium.im/xmpp/blocklist"
	"mellium.im/xmpp/carbons"
	"mellium.im/xmpp/component"
	"mellium.im/xmpp/delay"
	"mellium.im/xmpp/disco"
	"mellium.im/xmpp/forward"
	"mellium.im/xmpp/history"
	"mellium.im/xmpp/ibb"
	"mellium.im/xmpp/jid"
	"mellium.im/xmpp/muc"
	"mellium.im/xmpp/mux"
	"mellium.im/xmpp/ping"
	"mellium.im/xmpp/receipts"
	"mellium.im/xmpp/roster"
	"mellium.im/xmpp/stanza"
	"mellium.im/xmpp/stream"
	"mellium.im/xmpp/version"
	"mellium.im/xmpp/websocket"
	"mellium.im/xmpp/xtime"

	"verifharness/vt"
)

const (
	ownFull  = "test@example.net/res"
	ownBare  = "test@example.net"
	peerAddr = "juliet@example.com/b"
	roomAddr = "room@conf.example.net/me"
	streamNS = "http://etherx.jabber.org/streams"
)

var (
	peerJID = jid.MustParse(peerAddr)
	roomJID = jid.MustParse(roomAddr)
)

// timing knobs (never part of a verdict: a stall must reproduce, see main.go)
var (
	stallAfter  = 8 * time.Second        // watchdog for Serve / a helper after the input ended
	reqWait     = 3 * time.Second        // an app action that sends a request did not send it
	quiesce     = 150 * time.Millisecond // scripted replies exhausted, helper still waiting
	ibbDeadline = 400 * time.Millisecond // the deadline the application sets on its IBB streams
)

// nopNeg is a Negotiator that reads the peer's stream header and declares the session ready.
func nopNeg(ns string) xmpp.Negotiator {
	return func(ctx context.Context, in, out *stream.Info, s *xmpp.Session, data interface{}) (xmpp.SessionState, io.ReadWriter, interface{}, error) {
		rc := s.TokenReader()
		defer rc.Close()
		for {
			tok, err := rc.Token()
			if err != nil {
				return 0, nil, nil, err
			}
			if st, ok := tok.(xml.StartElement); ok {
				if err := in.FromStartElement(st); err != nil {
					return 0, nil, nil, err
				}
				break
			}
		}
		out.XMLNS = ns
		return xmpp.Ready, nil, nil, nil
	}
}

func streamHeader(ns string) string {
	return fmt.Sprintf(`<stream:stream from="example.net" to="%s" id="s1" version="1.0" xmlns="%s" xmlns:stream="%s">`, ownFull, ns, streamNS)
}

const framingNS = "urn:ietf:params:xml:ns:xmpp-framing"

// Sess is the identity of the served session (Sessions of tla/PeerInput.tla): how it is made
// (kind) and what its local address is (addr). The zero value / nil is the session every
// scenario used before the dimension existed: an initiated client session with a full address.
//
//	kind  c2s   xmpp.NewSession, client namespace, the application's own Negotiator
//	      s2s   xmpp.NewSession with the S2S bit, server namespace
//	      rc2s  xmpp.ReceiveSession (the local side is the server of a client connection)
//	      rs2s  xmpp.ReceiveSession with the S2S bit, server namespace
//	      ws    websocket.NewSession (the library's negotiator, WebSocket framing)
//	      comp  component.NewSession (XEP-0114 handshake, namespace jabber:component:accept)
//	addr  full | bare | domain: the origin given to the constructor and named by the "to" of the
//	      peer's stream header (received sessions: only the header names it);
//	      empty: NO origin is given (the zero jid.JID) and the peer's header has no "to"
type Sess struct {
	Kind string `json:"kind"`
	Addr string `json:"addr"`
}

var defaultSess = Sess{Kind: "c2s", Addr: "full"}

func (x Sess) String() string { return x.Kind + "/" + x.Addr }

// local is the local address the construction is meant to produce.
func (x Sess) local() string {
	switch x.Addr {
	case "full":
		return ownFull
	case "bare":
		return ownBare
	case "domain":
		return "example.net"
	}
	return ""
}

func (x Sess) ns() string {
	switch x.Kind {
	case "s2s", "rs2s":
		return stanza.NSServer
	case "comp":
		return component.NSAccept
	}
	return stanza.NSClient
}

// remote is the address of the peer of the stream.
func (x Sess) remote() string {
	switch x.Kind {
	case "s2s", "rs2s":
		return "example.com"
	case "rc2s":
		return "juliet@example.com"
	}
	return "example.net"
}

// addrClass is the class of a local address as the driver OBSERVES it on the real session.
func addrClass(j jid.JID) string {
	switch {
	case j.Equal(jid.JID{}):
		return "empty"
	case j.Resourcepart() != "":
		return "full"
	case j.Localpart() != "":
		return "bare"
	}
	return "domain"
}

// open makes the session of identity x over conn: it feeds the peer's part of the stream
// negotiation and calls the constructor of the library that the kind names.
func (x Sess) open(conn *vt.Conn) (*xmpp.Session, error) {
	ctx, cancel := context.WithTimeout(context.Background(), 30*time.Second)
	defer cancel()
	var origin jid.JID
	to := ""
	if l := x.local(); l != "" {
		origin = jid.MustParse(l)
		to = fmt.Sprintf(` to="%s"`, l)
	}
	ns := x.ns()
	header := fmt.Sprintf(`<stream:stream from="%s"%s id="s1" version="1.0" xmlns="%s" xmlns:stream="%s">`, x.remote(), to, ns, streamNS)
	switch x.Kind {
	case "c2s":
		conn.FeedString(header)
		return xmpp.NewSession(ctx, jid.MustParse(x.remote()), origin, conn, 0, nopNeg(ns))
	case "s2s":
		conn.FeedString(header)
		return xmpp.NewSession(ctx, jid.MustParse(x.remote()), origin, conn, xmpp.S2S, nopNeg(ns))
	case "rc2s":
		conn.FeedString(header)
		return xmpp.ReceiveSession(ctx, conn, 0, nopNeg(ns))
	case "rs2s":
		conn.FeedString(header)
		return xmpp.ReceiveSession(ctx, conn, xmpp.S2S, nopNeg(ns))
	case "comp":
		// the server's response header of the component protocol names the component in "from"
		// (not the local address of the session: that is the address given to the constructor)
		conn.FeedString(fmt.Sprintf(`<stream:stream from="%s" id="s1" xmlns="%s" xmlns:stream="%s"><handshake/>`, x.remote(), ns, streamNS))
		return component.NewSession(ctx, origin, []byte("secret"), conn)
	case "ws":
		conn.FeedString(fmt.Sprintf(`<open xmlns="%s" from="%s"%s id="s1" version="1.0"/><stream:features xmlns:stream="%s"/>`,
			framingNS, x.remote(), to, streamNS))
		if x.Addr == "empty" {
			// websocket.NewSession takes the server's address from the client's; an application
			// that does not know its own address yet names the server it dialled
			return xmpp.NewSession(ctx, jid.MustParse(x.remote()), origin, conn, 0,
				websocket.Negotiator(func(*xmpp.Session, *xmpp.StreamConfig) xmpp.StreamConfig { return xmpp.StreamConfig{} }))
		}
		return websocket.NewSession(ctx, origin, conn)
	}
	return nil, fmt.Errorf("driver: unknown session kind %q", x.Kind)
}

func drain(r xml.TokenReader) error {
	if r == nil {
		return nil
	}
	_, err := xmlstream.Copy(xmlstream.Discard(), r)
	return err
}

// env is one session with all the library's handlers and the application side of them.
type env struct {
	conn *vt.Conn
	s    *xmpp.Session
	m    *mux.ServeMux
	sess Sess

	ibbH  *ibb.Handler
	lis   *ibb.Listener
	histH *history.Handler
	rcptH *receipts.Handler
	mucC  *muc.Client

	mu       sync.Mutex
	cond     *sync.Cond
	accepted []*ibb.Conn
	room     *muc.Channel
	reqs     []string // ids of the requests (iq get/set, messages and presences with an id) the library wrote
	pend     []byte   // written bytes not yet scanned for start tags
	appDone  int      // number of finished app calls
	wg       sync.WaitGroup

	// for the helpers that talk to their own scripted peer (stream negotiation)
	replies []Item
	cut     *Cut
	logFeed func(i int, cut bool)
}

var (
	tagRe  = regexp.MustCompile(`<(iq|message|presence)(\s[^<>]*)?>`)
	idRe   = regexp.MustCompile(`\sid="([^"]*)"`)
	typeRe = regexp.MustCompile(`\stype="([^"]*)"`)
)

// react scans what the library writes for the start tags of requests.
func (e *env) react(p []byte) {
	e.mu.Lock()
	defer e.mu.Unlock()
	e.pend = append(e.pend, p...)
	last := strings.LastIndexByte(string(e.pend), '>')
	if last < 0 {
		return
	}
	chunk := string(e.pend[:last+1])
	e.pend = append([]byte(nil), e.pend[last+1:]...)
	for _, m := range tagRe.FindAllStringSubmatch(chunk, -1) {
		attrs := m[2]
		id := idRe.FindStringSubmatch(attrs)
		if id == nil {
			continue
		}
		typ := ""
		if t := typeRe.FindStringSubmatch(attrs); t != nil {
			typ = t[1]
		}
		if m[1] == "iq" && typ != "get" && typ != "set" {
			continue
		}
		if typ == "error" {
			continue
		}
		e.reqs = append(e.reqs, id[1])
	}
	e.cond.Broadcast()
}

func (e *env) reqCount() int {
	e.mu.Lock()
	defer e.mu.Unlock()
	return len(e.reqs)
}

func (e *env) lastReq() string {
	e.mu.Lock()
	defer e.mu.Unlock()
	if len(e.reqs) == 0 {
		return "none"
	}
	return e.reqs[len(e.reqs)-1]
}

// waitReq waits until more than n requests were written, or the number of finished app
// calls exceeds done, or d elapsed. It reports which.
func (e *env) waitReq(n, done int, d time.Duration) string {
	return e.waitFor(n, func() bool { return e.appDone > done }, d)
}

// waitCall waits until more than n requests were written, or the call c has returned, or d
// elapsed. It reports which.
func (e *env) waitCall(n int, c *call, d time.Duration) string {
	return e.waitFor(n, func() bool {
		select {
		case <-c.done:
			return true
		default:
			return false
		}
	}, d)
}

// waitFor: "req" = more than n requests written; "done" = finished() (evaluated under e.mu);
// "timeout" = d elapsed.
func (e *env) waitFor(n int, finished func() bool, d time.Duration) string {
	// the wake-up is armed AFTER the deadline is fixed and fires after it (a wake-up that
	// comes before the deadline would be lost: the waiter would go back to sleep for good)
	deadline := time.Now().Add(d)
	t := e.wakeAfter(d + 2*time.Millisecond)
	defer t.Stop()
	e.mu.Lock()
	defer e.mu.Unlock()
	for {
		switch {
		case len(e.reqs) > n:
			return "req"
		case finished():
			return "done"
		case !time.Now().Before(deadline):
			return "timeout"
		}
		e.cond.Wait()
	}
}

func (e *env) sub(v string) string {
	if strings.Contains(v, "$REQ") {
		return strings.ReplaceAll(v, "$REQ", e.lastReq())
	}
	return v
}

// newEnv builds the session. cfg is the configuration of the handler table (Cfgs of
// tla/PeerInput.tla): "listen" = every optional callback of every handler is set and an IBB
// listener is installed; "zero" = every handler in its default (zero value) configuration,
// ie. without the callbacks the library treats as optional (the callbacks a handler cannot
// work without - roster Push, carbons F, the function of disco.HandleCaps - stay); "nolisten"
// = as "listen" without an IBB listener.
//
// sess is the identity of the session (Sessions of tla/PeerInput.tla, see Sess).
func newEnv(cfg string, sess Sess) (*env, error) {
	switch cfg {
	case "listen", "zero", "nolisten":
	default:
		return nil, fmt.Errorf("driver: unknown handler configuration %q", cfg)
	}
	zero := cfg == "zero"
	e := &env{conn: vt.NewConn(), sess: sess}
	e.cond = sync.NewCond(&e.mu)
	s, err := sess.open(e.conn)
	if err != nil {
		return nil, fmt.Errorf("driver: setup of session %v failed: %w", sess, err)
	}
	e.s = s
	e.conn.React = e.react

	e.ibbH = &ibb.Handler{}
	var (
		directInvite func(muc.Invitation)
		blockH       blocklist.Handler
		timeH        xtime.Handler
		binH         bin.Handler
	)
	if zero {
		e.histH = history.NewHandler(nil)
		e.rcptH = &receipts.Handler{}
		e.mucC = &muc.Client{}
	} else {
		e.histH = history.NewHandler(mux.MessageHandlerFunc(func(m stanza.Message, r xmlstream.TokenReadEncoder) error {
			return drain(r)
		}))
		e.rcptH = &receipts.Handler{Unhandled: func(string) {}}
		e.mucC = &muc.Client{
			HandleInvite:       func(muc.Invitation) {},
			HandleUserPresence: func(stanza.Presence, muc.Item) {},
		}
		directInvite = func(muc.Invitation) {}
		blockH = blocklist.Handler{
			Block:      func(blocklist.Item) {},
			Unblock:    func(jid.JID) {},
			UnblockAll: func() {},
			List: func(c chan<- jid.JID) {
				c <- peerJID
			},
		}
		timeH = xtime.Handler{TimeFunc: func() time.Time { return time.Unix(1600000000, 0).UTC() }}
		binH = bin.Handler{Get: func(cid string) (*bin.Data, error) {
			if cid == "" {
				return nil, stanza.Error{Type: stanza.Cancel, Condition: stanza.ItemNotFound}
			}
			return &bin.Data{CID: cid, Type: "text/plain", Data: []byte("x")}, nil
		}}
	}
	e.m = mux.New(sess.ns(),
		ibb.Handle(e.ibbH),
		history.Handle(e.histH),
		receipts.Handle(e.rcptH),
		muc.HandleClient(e.mucC),
		muc.HandleInvite(directInvite),
		disco.Handle(),
		disco.HandleCaps(func(stanza.Presence, disco.Caps) {}),
		roster.Handle(roster.Handler{Push: func(ver string, item roster.Item) error {
			if item.Name == "refuse" {
				return stanza.Error{Type: stanza.Cancel, Condition: stanza.NotAcceptable}
			}
			return nil
		}}),
		blocklist.Handle(blockH),
		carbons.Handle(carbons.Handler{F: func(m stanza.Message, sent bool, inner xml.TokenReader) error {
			// what an application does with a carbon copy: unwrap the forwarded stanza
			var del delay.Delay
			r, err := forward.Unwrap(&del, inner)
			if err != nil {
				return nil
			}
			drain(r)
			return nil
		}}),
		xtime.Handle(timeH),
		version.Handle(version.Query{Name: "vt", Version: "1", OS: "none"}),
		ping.Handle(),
		bin.Handle(binH),
	)
	if cfg != "nolisten" {
		e.lis = e.ibbH.Listen(s)
		lis := e.lis
		go func() {
			for {
				c, err := lis.Accept()
				if err != nil {
					return
				}
				if ic, ok := c.(*ibb.Conn); ok {
					e.mu.Lock()
					e.accepted = append(e.accepted, ic)
					e.cond.Broadcast()
					e.mu.Unlock()
				}
			}
		}()
	}
	return e, nil
}

// wakeAfter wakes the waiters of e.cond after d.
func (e *env) wakeAfter(d time.Duration) *time.Timer {
	return time.AfterFunc(d, func() {
		e.mu.Lock()
		e.cond.Broadcast()
		e.mu.Unlock()
	})
}

func (e *env) firstAccepted(d time.Duration) *ibb.Conn {
	deadline := time.Now().Add(d)
	t := e.wakeAfter(d + 2*time.Millisecond)
	defer t.Stop()
	e.mu.Lock()
	defer e.mu.Unlock()
	for len(e.accepted) == 0 && time.Now().Before(deadline) {
		e.cond.Wait()
	}
	if len(e.accepted) == 0 {
		return nil
	}
	return e.accepted[0]
}

func (e *env) teardown() {
	if e.lis != nil {
		func() {
			defer func() { recover() }()
			e.lis.Close()
		}()
	}
	e.conn.Close()
}

// call is one application call (an app action of a sequence or the helper of a reply scenario).
type call struct {
	name string
	out  string // "value" | "error" | "PANIC" | "STALL"
	err  string
	done chan struct{}
}

// start runs f under recover; the outcome class is read after done is closed.
func (e *env) start(name string, f func() error) *call {
	c := &call{name: name, done: make(chan struct{})}
	go func() {
		defer func() {
			if x := recover(); x != nil {
				c.out = "PANIC"
				c.err = fmt.Sprint(x) + "\n" + trimStack(stack())
			}
			e.mu.Lock()
			e.appDone++
			close(c.done)
			e.cond.Broadcast()
			e.mu.Unlock()
		}()
		err := f()
		if err != nil {
			// what every caller does with an error: print it, inspect it
			c.err = useError(err)
			c.out = "error"
			return
		}
		c.out = "value"
	}()
	return c
}

func stack() string {
	buf := make([]byte, 1<<16)
	return string(buf[:runtime.Stack(buf, false)])
}

// trimStack keeps the frames of library code (the first ones below the panic).
func trimStack(s string) string {
	lines := strings.Split(s, "\n")
	var out []string
	for i := 0; i < len(lines) && len(out) < 24; i++ {
		l := lines[i]
		if strings.Contains(l, "runtime/") || strings.Contains(l, "runtime.") || strings.HasPrefix(l, "goroutine ") || strings.Contains(l, "panic(") {
			continue
		}
		out = append(out, strings.TrimSpace(l))
	}
	return strings.Join(out, "\n")
}
