// Command sasl drives the real SASL stream feature (xmpp.SASL / xmpp.SASLServer) through
// a full xmpp.NewSession / xmpp.ReceiveSession against a lazy scripted peer and records
// one trace per run for validation against tla/SASL.tla (TrSASL.tla).
//
//	sasl explore <pool.json> <trace.ndjson>              enumerate (bounds from the environment)
//	sasl run     <pool.json> <scenarios.ndjson> <trace>  run exactly the given scenarios
//
// Two scenario families:
//
//	script  the mechanisms are scripted sasl.Mechanism values whose steps return the
//	        scripted (more, resp, err); the tree of peer sequences is explored depth
//	        first, extending a prefix only when the session asked for more input;
//	real    the real sasl.Plain / sasl.ScramSha1 / sasl.ScramSha256 run on both ends
//	        (the driver owns the counterpart's sasl.Negotiator) and the counterpart
//	        deviates at one step;
//	shared  two sessions (scenarios of the families above with the same role, mechanisms
//	        and script) are negotiated, one after the other or interleaved, with ONE
//	        feature value (and one xmpp.Negotiator): every session must behave exactly as
//	        it does when it is negotiated alone with a feature value of its own.
package main

import (
	"bufio"
	"context"
	"crypto/sha1"
	"crypto/sha256"
	"encoding/base64"
	"encoding/json"
	"errors"
	"fmt"
	"hash"
	"io"
	"os"
	"strconv"
	"strings"
	"time"

	"mellium.im/sasl"
	"mellium.im/xmpp"
	"mellium.im/xmpp/jid"

	"verifharness/vt"
)

const nsSASL = "urn:ietf:params:xml:ns:xmpp-sasl"

// Syms is a payload as SASL.tla models it: the string between the tags over 1 = a
// character of the base64 alphabet, 2 = '=', 3 = a character outside the alphabet,
// 4 = a blank, 5 = a line feed. The specification classifies it; the driver only renders it.
type Syms []int

// MarshalJSON never writes null (TLC cannot read it).
func (s Syms) MarshalJSON() ([]byte, error) {
	if len(s) == 0 {
		return []byte("[]"), nil
	}
	return json.Marshal([]int(s))
}

// Item is one thing the peer puts on the wire (records of SASL.tla's alphabets).
type Item struct {
	K string `json:"k"`
	P Syms   `json:"p"`
	M string `json:"m"`
}

var okPayload = Syms{1, 1, 1, 1}

func (s Syms) is(o Syms) bool {
	if len(s) != len(o) {
		return false
	}
	for i := range s {
		if s[i] != o[i] {
			return false
		}
	}
	return true
}

// symsOf reads the symbols off the bytes a real counterpart wrote.
func symsOf(body string) Syms {
	out := make(Syms, 0, len(body))
	for i := 0; i < len(body); i++ {
		c := body[i]
		switch {
		case c >= 'A' && c <= 'Z', c >= 'a' && c <= 'z', c >= '0' && c <= '9', c == '+', c == '/':
			out = append(out, 1)
		case c == '=':
			out = append(out, 2)
		case c == ' ':
			out = append(out, 4)
		case c == '\n':
			out = append(out, 5)
		default:
			out = append(out, 3)
		}
	}
	return out
}

// StepOut is one scripted mechanism step (records of EmitSASL.tla).
type StepOut struct {
	More bool   `json:"more"`
	Err  bool   `json:"err"`
	Perm string `json:"perm"`
}

// Scenario is one run.
type Scenario struct {
	Fam    string    `json:"fam"`  // "script" | "real"
	Role   string    `json:"role"` // "client" | "server": the side played by the library
	Local  []string  `json:"local"`
	Adv    []string  `json:"adv"`    // client: what the peer advertises
	Script []StepOut `json:"script"` // script family
	Peer   []Item    `json:"peer"`   // script family: the peer's items, in order
	Dev    string    `json:"dev"`    // real family: the counterpart's deviation
	// real family: the counterpart's ShapeAt-th element (1 = the first) is replaced by Shape
	ShapeAt int   `json:"shape_at,omitempty"`
	Shape   *Item `json:"shape,omitempty"`
	PwOK    bool  `json:"pwok"` // real family: the counterpart knows the right password
	// real family, client role: the element kinds the counterpart's messages travel in (a record of
	// SASL.tla's KindPlans), chosen independently of what the mechanism makes of them
	Plan *KindPlan `json:"plan,omitempty"`
	// shared family: the sessions negotiated with one feature value and the schedule
	// ("seq": one after the other, "alt": alternating at every read on an empty transport,
	// "nest": the second session runs while the first one waits for its first SASL item)
	Sessions []Scenario `json:"sessions,omitempty"`
	Sched    string     `json:"sched,omitempty"`
}

// KindPlan: the receiver's i-th message of the mechanism travels in an element of kind Kinds[i]
// (N = len(Kinds) messages); after the last one the receiver sends the elements of Tail, one
// whenever the initiator reads on an empty transport, and then the byte stream ends.
type KindPlan struct {
	N     int      `json:"n"`
	Kinds []string `json:"kinds"`
	Tail  []string `json:"tail"`
}

// Pool is what EmitSASL.tla emits.
type Pool struct {
	KindPlans     []KindPlan  `json:"kindplans"`
	CAlpha        []Item      `json:"calpha"`
	SAlpha        []Item      `json:"salpha"`
	CShaped       []Item      `json:"cshaped"` // every answer of a server with every payload shape
	SShaped       []Item      `json:"sshaped"` // every request of a client with every payload shape
	CScriptsShape [][]StepOut `json:"cscripts_shape"`
	SScriptsShape [][]StepOut `json:"sscripts_shape"`
	CScripts      [][]StepOut `json:"cscripts"`
	SScriptsQuick [][]StepOut `json:"sscripts_quick"`
	SScripts      [][]StepOut `json:"sscripts"`
	Local         [][]string  `json:"local"`
	Adv           [][]string  `json:"adv"`
}

var errScripted = errors.New("vt: scripted mechanism error")

// featCtx is what a feature value (its mechanisms, its permission callback, the wrapper
// around its Negotiate function) knows about the driver: the session on whose behalf the
// library is running right now. Sessions that share a feature value share the featCtx.
type featCtx struct {
	cur    *run
	script []StepOut
}

type run struct {
	fc   *featCtx
	park func() // shared family: called at every read on an empty transport, before the peer acts
	sc   Scenario
	lg   *vt.Log
	conn *vt.Conn
	scan vt.Scanner

	hdrs     int  // stream headers written by the library
	sentHdr  bool // server role: the client's first header was fed
	featDone bool // server role: the library's first features list is complete
	saslEnd  bool // the feature's Negotiate has returned
	saslOK   bool
	post     int
	next     int  // script family: next peer item
	starved  bool // the library asked for more items than the scenario holds
	closed   bool

	// wire parsing
	inFeat   bool
	inMechs  bool
	inMech   bool
	mechList []string
	cur      *wrote

	// real family: the counterpart
	cp      *sasl.Negotiator
	cpName  string
	cpDone  bool
	cpStep  int
	planAt  int // real family with a kind plan: messages of the mechanism sent so far
	pending []pend
	answers int  // real family: elements of the counterpart handed to the library
	verdict bool // script family: verdict of the permission callback at this step
}

type wrote struct {
	kind, mech, payload string
}

type pend struct {
	it    Item
	bytes string
}

// ---------------------------------------------------------------- scripted mechanisms

type wcache struct {
	i     int
	inner interface{}
}

func (fc *featCtx) logStep(name string, i int, more bool, err error) {
	fc.cur.lg.Add(vt.Ev{"ev": "step", "m": name, "i": i, "more": more && err == nil, "err": err != nil})
}

// The scripted mechanisms are the symbols M1, M2, M3 (and UNK, which nobody implements) of SASL.tla. On the wire
// and in sasl.Mechanism.Name two of them carry the channel-binding suffix of real mechanism names, which must not
// matter to the session: it advertises, accepts and selects mechanisms by their whole name.
var wireNames = map[string]string{"M2": "M2-PLUS", "UNK": "UNK-PLUS"}

func wireName(sym string) string {
	if w, ok := wireNames[sym]; ok {
		return w
	}
	return sym
}

func symName(wire string) string {
	for s, w := range wireNames {
		if w == wire {
			return s
		}
	}
	return wire
}

func (fc *featCtx) scripted(name string) sasl.Mechanism {
	step := func(n *sasl.Negotiator, i int) (bool, []byte, interface{}, error) {
		out := StepOut{Err: true, Perm: "none"}
		if i < len(fc.script) {
			out = fc.script[i]
		}
		if out.Perm != "none" {
			fc.cur.verdict = out.Perm == "yes"
			ok := n.Permissions()
			if !ok {
				fc.logStep(name, i, false, sasl.ErrAuthn)
				return false, nil, wcache{i: i + 1}, sasl.ErrAuthn
			}
		}
		if out.Err {
			fc.logStep(name, i, false, errScripted)
			return false, nil, wcache{i: i + 1}, errScripted
		}
		var resp []byte
		if i%2 == 0 {
			resp = []byte(fmt.Sprintf("r%d", i))
		}
		fc.logStep(name, i, out.More, nil)
		return out.More, resp, wcache{i: i + 1}, nil
	}
	return sasl.Mechanism{
		Name:  wireName(name),
		Start: func(n *sasl.Negotiator) (bool, []byte, interface{}, error) { return step(n, 0) },
		Next: func(n *sasl.Negotiator, challenge []byte, data interface{}) (bool, []byte, interface{}, error) {
			i := 0
			if c, ok := data.(wcache); ok {
				i = c.i
			}
			return step(n, i)
		},
	}
}

// logged wraps a real mechanism so that every invocation is recorded.
func (fc *featCtx) logged(m sasl.Mechanism) sasl.Mechanism {
	return sasl.Mechanism{
		Name: m.Name,
		Start: func(n *sasl.Negotiator) (bool, []byte, interface{}, error) {
			more, resp, cache, err := m.Start(n)
			fc.logStep(m.Name, 0, more, err)
			return more, resp, wcache{i: 1, inner: cache}, err
		},
		Next: func(n *sasl.Negotiator, challenge []byte, data interface{}) (bool, []byte, interface{}, error) {
			c, _ := data.(wcache)
			if scramClientWouldSpin(m.Name, fc.cur.sc.Role, c.i, challenge) {
				// (not sasl.go's business and no question of property C03: reported as an observation)
				scramSpins++
				fc.logStep(m.Name, c.i, false, errScramSpin)
				return false, nil, wcache{i: c.i + 1, inner: c.inner}, errScramSpin
			}
			more, resp, cache, err := m.Next(n, challenge, c.inner)
			fc.logStep(m.Name, c.i, more, err)
			return more, resp, wcache{i: c.i + 1, inner: cache}, err
		},
	}
}

// scramClientWouldSpin: mellium.im/sasl v0.3.2 (scram_client.go, scramClientNext, state
// AuthTextSent) walks the comma-separated fields of the server-first message in a loop whose
// exit test ("no field left") is skipped by the `continue` taken for a field that is shorter
// than three bytes or has no '=' in second place: if the LAST field of a non-empty challenge
// is such a field, Step never returns (it spins). The driver cannot let that happen (a run
// would never end), so it answers such a challenge with an error in the mechanism's place and
// counts the case.
func scramClientWouldSpin(name, role string, i int, challenge []byte) bool {
	if role != "client" || i != 1 || !strings.HasPrefix(name, "SCRAM-") || len(challenge) == 0 {
		return false
	}
	last := challenge
	if k := strings.LastIndexByte(string(challenge), ','); k >= 0 {
		last = challenge[k+1:]
	}
	return len(last) < 3 || last[1] != '='
}

var (
	errScramSpin = errors.New("vt: mellium.im/sasl would never return from this Step (see scramClientWouldSpin)")
	scramSpins   int
)

// storeBacked makes a real SCRAM mechanism usable on the receiving side of sasl.go:
// xmpp.SASLServer has no way to hand salted credentials to the negotiator it creates, so
// the mechanism given to the library delegates every step to a real sasl.Negotiator
// that has a credential store, and consults the session's permission callback when the
// proof has been verified.
func (fc *featCtx) storeBacked(m sasl.Mechanism) sasl.Mechanism {
	return sasl.Mechanism{
		Name:  m.Name,
		Start: m.Start,
		Next: func(n *sasl.Negotiator, challenge []byte, data interface{}) (bool, []byte, interface{}, error) {
			inner, _ := data.(*sasl.Negotiator)
			if inner == nil {
				inner = sasl.NewServer(m, nil, sasl.SaltedCredentials(func(u, id []byte, mech string) ([]byte, []byte, int64, error) {
					if string(u) != user {
						return nil, nil, 0, sasl.ErrAuthn
					}
					return salt, sasl.SCRAMSaltPassword(hashOf(mech), []byte(password), salt, iters), iters, nil
				}))
			}
			more, resp, err := inner.Step(challenge)
			if err == nil && !more {
				if !n.Permissions(sasl.Credentials(func() ([]byte, []byte, []byte) { return []byte(user), []byte(password), nil })) {
					err = sasl.ErrAuthn
				}
			}
			return more, resp, inner, err
		},
	}
}

func realMech(name string) (sasl.Mechanism, bool) {
	switch name {
	case "PLAIN":
		return sasl.Plain, true
	case "ANONYMOUS":
		return sasl.Anonymous, true
	case "SCRAM-SHA-1":
		return sasl.ScramSha1, true
	case "SCRAM-SHA-256":
		return sasl.ScramSha256, true
	}
	return sasl.Mechanism{}, false
}

func hashOf(name string) func() hash.Hash {
	if name == "SCRAM-SHA-256" {
		return sha256.New
	}
	return sha1.New
}

// ---------------------------------------------------------------- the peer's bytes

// payloadBytes renders a payload of the specification. Alphabet characters are 'Q' (its low
// four bits are zero, so it is canonical in front of padding too); characters outside the
// alphabet rotate through '!', '%', '-' (of the URL-safe alphabet), '*', '_'.
func payloadBytes(p Syms) string {
	const outside = "!%-*_"
	b := make([]byte, len(p))
	for i, c := range p {
		switch c {
		case 1:
			b[i] = 'Q'
		case 2:
			b[i] = '='
		case 4:
			b[i] = ' '
		case 5:
			b[i] = '\n'
		default:
			b[i] = outside[i%len(outside)]
		}
	}
	return string(b)
}

func itemBytes(role string, it Item) string {
	switch it.K {
	case "challenge", "success", "response":
		return fmt.Sprintf("<%s xmlns='%s'>%s</%s>", it.K, nsSASL, payloadBytes(it.P), it.K)
	case "auth":
		if it.M == "" {
			return fmt.Sprintf("<auth xmlns='%s'>%s</auth>", nsSASL, payloadBytes(it.P))
		}
		return fmt.Sprintf("<auth xmlns='%s' mechanism='%s'>%s</auth>", nsSASL, wireName(it.M), payloadBytes(it.P))
	case "abort":
		return fmt.Sprintf("<abort xmlns='%s'/>", nsSASL)
	case "failure":
		if len(it.P) > 0 {
			// text where the condition element belongs
			return fmt.Sprintf("<failure xmlns='%s'>%s</failure>", nsSASL, payloadBytes(it.P))
		}
		return fmt.Sprintf("<failure xmlns='%s'><not-authorized/></failure>", nsSASL)
	case "foreign":
		return "<foo xmlns='urn:vt:foreign'>QUJD</foo>"
	case "xsuccess": // named like the SASL element, in the namespace of another SASL profile
		return "<success xmlns='urn:xmpp:sasl:2'>" + payloadBytes(it.P) + "</success>"
	case "xchallenge": // no namespace of its own: the stream's content namespace
		return "<challenge>" + payloadBytes(it.P) + "</challenge>"
	case "xauth":
		return fmt.Sprintf("<auth xmlns='urn:xmpp:sasl:2' mechanism='%s'>%s</auth>", wireName(it.M), payloadBytes(it.P))
	case "xresponse":
		return "<response>" + payloadBytes(it.P) + "</response>"
	case "other":
		if role == "client" {
			return fmt.Sprintf("<auth xmlns='%s' mechanism='M1'>=</auth>", nsSASL)
		}
		return fmt.Sprintf("<challenge xmlns='%s'>=</challenge>", nsSASL)
	case "chardata":
		// character data where an element is expected (the element that follows only
		// delimits the text for the tokenizer)
		return "QUJD<foo xmlns='urn:vt:foreign'/>"
	case "end":
		return "</stream:stream>"
	}
	return ""
}

func (r *run) feedItem(it Item, bytes string) {
	r.lg.Add(vt.Ev{"ev": "peer", "item": it})
	if it.K == "eof" {
		r.closed = true
		r.conn.CloseIn()
		return
	}
	r.conn.FeedString(bytes)
}

const clientHdr = `<?xml version='1.0'?><stream:stream xmlns='jabber:client' xmlns:stream='http://etherx.jabber.org/streams' version='1.0' from='me@example.net' to='example.net'>`
const serverHdr = `<?xml version='1.0'?><stream:stream xmlns='jabber:client' xmlns:stream='http://etherx.jabber.org/streams' version='1.0' id='s1' from='example.net' to='me@example.net'>`

func (r *run) closeIn() {
	if !r.closed {
		r.closed = true
		r.conn.CloseIn()
	}
}

// starve: the library reads and nothing is buffered; the lazy peer produces what the
// protocol position calls for. Only items of the SASL exchange are logged.
func (r *run) starve() {
	if r.closed {
		return
	}
	if r.park != nil {
		r.park()
	}
	if r.saslEnd {
		// after the feature returned: let a successful negotiation run to its end
		r.post++
		switch {
		case !r.saslOK:
			r.closeIn()
		case r.sc.Role == "client" && r.post == 1 && r.hdrs == 2:
			r.conn.FeedString(serverHdr + "<stream:features/>")
		case r.sc.Role == "server" && r.post == 1:
			r.conn.FeedString(clientHdr)
		default:
			r.closeIn()
		}
		return
	}
	if r.sc.Role == "client" {
		if r.hdrs == 0 {
			r.closeIn()
			return
		}
		if !r.sentHdr {
			r.sentHdr = true
			s := serverHdr + "<stream:features><mechanisms xmlns='" + nsSASL + "'>"
			for _, m := range r.sc.Adv {
				s += "<mechanism>" + wireName(m) + "</mechanism>"
			}
			r.conn.FeedString(s + "</mechanisms></stream:features>")
			return
		}
	} else {
		if !r.sentHdr {
			r.sentHdr = true
			r.conn.FeedString(clientHdr)
			return
		}
		if !r.featDone {
			r.closeIn()
			return
		}
	}
	// the SASL exchange proper
	if r.sc.Fam == "real" {
		if len(r.pending) == 0 {
			r.feedItem(Item{K: "eof"}, "")
			return
		}
		p := r.pending[0]
		r.pending = r.pending[1:]
		r.answers++
		if r.sc.Shape != nil && r.answers == r.sc.ShapeAt {
			p = pend{it: *r.sc.Shape, bytes: itemBytes(r.sc.Role, *r.sc.Shape)}
		}
		r.feedItem(p.it, p.bytes)
		return
	}
	if r.next >= len(r.sc.Peer) {
		r.starved = true
		r.feedItem(Item{K: "eof"}, "")
		return
	}
	it := r.sc.Peer[r.next]
	r.next++
	r.feedItem(it, itemBytes(r.sc.Role, it))
}

// react parses what the library writes.
func (r *run) react(p []byte) {
	for _, t := range r.scan.Feed(p) {
		open := t.Kind == "start" || t.Kind == "empty"
		switch {
		case open && t.Name == "stream:stream":
			r.scan.SetDepth(0)
			r.hdrs++
		case t.Name == "stream:features" && t.Kind == "start":
			r.inFeat = true
			r.mechList = []string{}
		case t.Name == "stream:features" && (t.Kind == "end" || t.Kind == "empty"):
			r.inFeat = false
			if r.sc.Role == "server" && !r.featDone {
				r.featDone = true
				if r.mechList == nil {
					r.mechList = []string{}
				}
				r.lg.Add(vt.Ev{"ev": "adv", "list": r.mechList})
			}
		case r.inFeat:
			switch {
			case open && t.Name == "mechanisms" && t.Attr["xmlns"] == nsSASL:
				r.inMechs = t.Kind == "start"
			case t.Kind == "end" && t.Name == "mechanisms":
				r.inMechs = false
			case r.inMechs && t.Kind == "start" && t.Name == "mechanism":
				r.inMech = true
			case r.inMechs && t.Kind == "text" && r.inMech:
				r.mechList = append(r.mechList, symName(t.Text))
			case r.inMechs && t.Kind == "end" && t.Name == "mechanism":
				r.inMech = false
			}
		case open && t.Depth == 0:
			kind := "other"
			if t.Attr["xmlns"] == nsSASL {
				kind = vt.Local(t.Name)
			}
			r.cur = &wrote{kind: kind, mech: symName(t.Attr["mechanism"])}
			if t.Kind == "empty" {
				r.wroteDone()
			}
		case t.Kind == "text" && t.Depth == 1 && r.cur != nil:
			r.cur.payload += t.Text
		case t.Kind == "end" && t.Depth == 0 && r.cur != nil:
			r.wroteDone()
		}
	}
}

func (r *run) wroteDone() {
	w := r.cur
	r.cur = nil
	if r.saslEnd {
		return
	}
	r.lg.Add(vt.Ev{"ev": "wrote", "k": w.kind, "m": w.mech})
	if r.sc.Fam == "real" {
		r.counterpart(w)
	}
}

// ---------------------------------------------------------------- real counterpart

const (
	user     = "me"
	password = "pass"
	iters    = 64
)

var salt = []byte("vt-fixed-salt")

func b64(b []byte) string {
	if len(b) == 0 {
		return "="
	}
	return base64.StdEncoding.EncodeToString(b)
}

func unb64(s string) []byte {
	if s == "=" || s == "" {
		return nil
	}
	b, err := base64.StdEncoding.DecodeString(s)
	if err != nil {
		return nil
	}
	return b
}

func el(kind string, payload []byte, empty bool) pend {
	body := base64.StdEncoding.EncodeToString(payload)
	if len(payload) == 0 {
		body = ""
		if !empty {
			body = "="
		}
	}
	return pend{it: Item{K: kind, P: symsOf(body)}, bytes: fmt.Sprintf("<%s xmlns='%s'>%s</%s>", kind, nsSASL, body, kind)}
}

func failureEl() pend {
	return pend{it: Item{K: "failure"}, bytes: itemBytes("", Item{K: "failure"})}
}

// counterpart reacts to a SASL element written by the library.
func (r *run) counterpart(w *wrote) {
	if r.sc.Role == "client" {
		r.counterServer(w)
	} else {
		r.counterClient(w)
	}
}

// counterServer: the driver is the server, it owns a real sasl.Negotiator.
func (r *run) counterServer(w *wrote) {
	dev := r.sc.Dev
	switch w.kind {
	case "auth":
		m, ok := realMech(w.mech)
		if !ok {
			r.pending = append(r.pending, failureEl())
			return
		}
		r.cpName = w.mech
		pw := password
		if !r.sc.PwOK {
			pw = "other"
		}
		r.cp = sasl.NewServer(m, func(n *sasl.Negotiator) bool {
			_, p, _ := n.Credentials()
			return string(p) == pw
		}, sasl.SaltedCredentials(func(u, id []byte, mech string) ([]byte, []byte, int64, error) {
			return salt, sasl.SCRAMSaltPassword(hashOf(mech), []byte(pw), salt, iters), iters, nil
		}))
		if dev == "premature_success" {
			r.pending = append(r.pending, el("success", nil, true))
			return
		}
		r.serverStep(w)
	case "response":
		if r.cp == nil {
			r.pending = append(r.pending, failureEl())
			return
		}
		if r.cpDone && r.sc.Plan != nil {
			// the tail of the plan is pending already: it does not depend on what the client writes
			return
		}
		if r.cpDone {
			// the mechanism finished on a <challenge/>; the client has answered it
			switch dev {
			case "challenge_after_completion":
				r.pending = append(r.pending, el("challenge", []byte("again"), false))
			case "final_as_challenge_eof":
			default:
				r.pending = append(r.pending, el("success", nil, true))
			}
			return
		}
		r.serverStep(w)
	}
}

// planKind: the element kind of the counterpart's next message of the mechanism.
func (r *run) planKind(honest string) string {
	k := honest
	if r.planAt < len(r.sc.Plan.Kinds) {
		k = r.sc.Plan.Kinds[r.planAt]
	}
	r.planAt++
	return k
}

func (r *run) planTail() {
	for _, k := range r.sc.Plan.Tail {
		switch k {
		case "failure":
			r.pending = append(r.pending, failureEl())
		case "challenge":
			r.pending = append(r.pending, el("challenge", nil, false))
		default:
			r.pending = append(r.pending, el(k, nil, true))
		}
	}
}

func (r *run) serverStep(w *wrote) {
	dev := r.sc.Dev
	more, resp, err := r.cp.Step(unb64(w.payload))
	r.cpStep++
	switch {
	case err != nil:
		r.cp = nil
		r.pending = append(r.pending, failureEl())
	case r.sc.Plan != nil && more:
		r.pending = append(r.pending, el(r.planKind("challenge"), resp, false))
	case r.sc.Plan != nil:
		// the mechanism is complete on the receiving side: its last message, if it has one, then the tail
		r.cpDone = true
		if len(resp) > 0 {
			r.pending = append(r.pending, el(r.planKind("success"), resp, false))
		}
		r.planTail()
	case more:
		switch {
		case dev == "success_while_more":
			r.pending = append(r.pending, el("success", resp, false))
		case dev == "failure_mid":
			r.pending = append(r.pending, failureEl())
		default:
			r.pending = append(r.pending, el("challenge", resp, false))
		}
	default:
		r.cpDone = true
		switch dev {
		case "final_as_challenge", "final_as_challenge_eof", "challenge_after_completion":
			r.pending = append(r.pending, el("challenge", resp, false))
		case "wrong_signature":
			r.pending = append(r.pending, el("success", []byte("v=AAAA"), true))
		case "repeated_success":
			r.pending = append(r.pending, el("success", resp, true), el("success", resp, true))
		default:
			r.pending = append(r.pending, el("success", resp, true))
		}
	}
}

// counterClient: the driver is the client, it owns a real sasl.Negotiator.
func (r *run) startClient() {
	dev := r.sc.Dev
	name := r.sc.Adv[0] // the mechanism the counterpart uses
	m, _ := realMech(name)
	pw := password
	if !r.sc.PwOK {
		pw = "other"
	}
	r.cp = sasl.NewClient(m, sasl.Credentials(func() ([]byte, []byte, []byte) {
		return []byte(user), []byte(pw), nil
	}))
	r.cpName = name
	_, resp, _ := r.cp.Step(nil)
	auth := func(n string, payload []byte) pend {
		return pend{it: Item{K: "auth", P: symsOf(b64(payload)), M: n},
			bytes: fmt.Sprintf("<auth xmlns='%s' mechanism='%s'>%s</auth>", nsSASL, n, b64(payload))}
	}
	switch dev {
	case "response_first":
		r.pending = append(r.pending, el("response", resp, false), auth(name, resp))
	case "unoffered":
		r.pending = append(r.pending, auth("SCRAM-SHA-256", resp))
	case "no_separators":
		r.pending = append(r.pending, auth(name, []byte("nonsense")))
	default:
		r.pending = append(r.pending, auth(name, resp))
	}
}

func (r *run) counterClient(w *wrote) {
	dev := r.sc.Dev
	switch w.kind {
	case "challenge":
		switch dev {
		case "abort_after_challenge":
			r.pending = append(r.pending, pend{it: Item{K: "abort"}, bytes: itemBytes("server", Item{K: "abort"})})
			return
		case "auth_twice":
			if r.cpStep == 0 {
				r.cpStep++
				// start over with PLAIN and the right password
				payload := []byte("\x00" + user + "\x00" + password)
				r.pending = append(r.pending, pend{it: Item{K: "auth", P: symsOf(b64(payload)), M: "PLAIN"},
					bytes: fmt.Sprintf("<auth xmlns='%s' mechanism='PLAIN'>%s</auth>", nsSASL, b64(payload))})
				return
			}
		}
		if r.cp == nil {
			return
		}
		_, resp, err := r.cp.Step(unb64(w.payload))
		if err != nil {
			r.cp = nil
			r.pending = append(r.pending, pend{it: Item{K: "abort"}, bytes: itemBytes("server", Item{K: "abort"})})
			return
		}
		r.pending = append(r.pending, el("response", resp, false))
	case "failure":
		if dev == "retry_after_failure" && r.cpStep == 0 {
			r.cpStep++
			payload := []byte("\x00" + user + "\x00" + password)
			r.pending = append(r.pending, pend{it: Item{K: "auth", P: symsOf(b64(payload)), M: "PLAIN"},
				bytes: fmt.Sprintf("<auth xmlns='%s' mechanism='PLAIN'>%s</auth>", nsSASL, b64(payload))})
		}
	}
}

// ---------------------------------------------------------------- one run

// buildFeature builds the feature value of a scenario (role, family, mechanisms, script) and
// the Negotiator that offers it. Everything it hands to the library reports to fc.cur.
func buildFeature(fc *featCtx, sc Scenario) xmpp.Negotiator {
	var mechs []sasl.Mechanism
	for _, n := range sc.Local {
		if sc.Fam == "real" {
			m, ok := realMech(n)
			if !ok {
				panic("unknown real mechanism " + n)
			}
			if sc.Role == "server" && strings.HasPrefix(n, "SCRAM-") {
				m = fc.storeBacked(m)
			}
			mechs = append(mechs, fc.logged(m))
		} else {
			mechs = append(mechs, fc.scripted(n))
		}
	}
	var feat xmpp.StreamFeature
	if sc.Role == "client" {
		feat = xmpp.SASL("", password, mechs...)
	} else {
		feat = xmpp.SASLServer(func(n *sasl.Negotiator) bool {
			r := fc.cur
			v := r.verdict
			if sc.Fam == "real" {
				u, p, _ := n.Credentials()
				v = string(u) == user && string(p) == password
			}
			r.lg.Add(vt.Ev{"ev": "perm", "v": v})
			return v
		}, mechs...)
	}
	inner := feat.Negotiate
	feat.Negotiate = func(ctx context.Context, s *xmpp.Session, data interface{}) (xmpp.SessionState, io.ReadWriter, error) {
		mask, rw, err := inner(ctx, s, data)
		r := fc.cur
		r.lg.Add(vt.Ev{"ev": "negret", "ok": err == nil, "authn": mask&xmpp.Authn != 0})
		r.saslEnd = true
		r.saslOK = err == nil
		return mask, rw, err
	}
	list := []xmpp.StreamFeature{feat}
	return xmpp.NewNegotiator(func(*xmpp.Session, *xmpp.StreamConfig) xmpp.StreamConfig {
		return xmpp.StreamConfig{Features: list}
	})
}

func newRun(fc *featCtx, sc Scenario) *run {
	r := &run{fc: fc, sc: sc, lg: &vt.Log{StopAfter: "return"}, conn: vt.NewConn()}
	r.conn.React = r.react
	r.conn.Starve = r.starve
	if sc.Fam == "real" && sc.Role == "server" {
		r.startClient()
	}
	return r
}

// exec runs the session to its end.
func (r *run) exec(neg xmpp.Negotiator) {
	sc := r.sc
	var s *xmpp.Session
	var err error
	var panicked interface{}
	func() {
		defer func() { panicked = recover() }()
		if sc.Role == "client" {
			s, err = xmpp.NewSession(context.Background(), jid.MustParse("example.net"), jid.MustParse("me@example.net"), r.conn, xmpp.Secure, neg)
		} else {
			s, err = xmpp.ReceiveSession(context.Background(), r.conn, xmpp.Secure, neg)
		}
	}()
	ev := vt.Ev{"ev": "return", "ok": err == nil && panicked == nil, "authn": false, "panic": panicked != nil}
	if s != nil {
		ev["authn"] = s.State()&xmpp.Authn != 0
	}
	if err != nil {
		ev["err"] = ascii(err.Error())
	}
	if panicked != nil {
		ev["msg"] = fmt.Sprint(panicked)
	}
	r.lg.Add(ev)
	r.conn.Close()
}

func runScenario(sc Scenario) (evs []vt.Ev, starved bool) {
	fc := &featCtx{script: sc.Script}
	r := newRun(fc, sc)
	fc.cur = r
	r.exec(buildFeature(fc, sc))
	return r.lg.Events(), r.starved
}

// runShared negotiates the sessions of sc with ONE feature value and one Negotiator. Every
// session runs in a goroutine of its own, but only one of them at a time: a session parks at
// every read on an empty transport and goes on when the schedule says so.
func runShared(sc Scenario) [][]vt.Ev {
	base := sc.Sessions[0]
	fc := &featCtx{script: base.Script}
	neg := buildFeature(fc, base)
	n := len(sc.Sessions)
	type sess struct {
		r       *run
		sig     chan string
		resume  chan struct{}
		started bool
		done    bool
		parks   int
	}
	ss := make([]*sess, n)
	for i := range ss {
		x := &sess{r: newRun(fc, sc.Sessions[i]), sig: make(chan string, 1), resume: make(chan struct{})}
		x.r.park = func() {
			x.sig <- "parked"
			<-x.resume
		}
		ss[i] = x
	}
	// step lets session i run until it parks again or returns
	step := func(i int) {
		x := ss[i]
		if x.done {
			return
		}
		fc.cur = x.r
		if !x.started {
			x.started = true
			go func() {
				x.r.exec(neg)
				x.sig <- "done"
			}()
		} else {
			x.resume <- struct{}{}
		}
		select {
		case m := <-x.sig:
			x.done = m == "done"
			x.parks++
		case <-time.After(30 * time.Second):
			fmt.Println("STALL: a session of a shared run neither read nor returned for 30s")
			os.Exit(3)
		}
	}
	finish := func(i int) {
		for !ss[i].done {
			step(i)
		}
	}
	switch sc.Sched {
	case "alt":
		for again := true; again; {
			again = false
			for i := range ss {
				if !ss[i].done {
					step(i)
					again = true
				}
			}
		}
	case "nest":
		// session 1 up to the read that asks for its first SASL item (client: after the
		// peer's header and features; server: after its own features), then the others
		for k := 0; k < 2 && !ss[0].done; k++ {
			step(0)
		}
		for i := 1; i < n; i++ {
			finish(i)
		}
		finish(0)
	default:
		for i := range ss {
			finish(i)
		}
	}
	out := make([][]vt.Ev, n)
	for i, x := range ss {
		out[i] = x.r.lg.Events()
	}
	return out
}

// ascii keeps error texts harmless for the trace file (TLC parses it as JSON).
func ascii(s string) string {
	b := make([]byte, 0, len(s))
	for i := 0; i < len(s) && len(b) < 100; i++ {
		c := s[i]
		if c >= 0x20 && c < 0x7f && c != '"' && c != '\\' {
			b = append(b, c)
		}
	}
	return string(b)
}

// ---------------------------------------------------------------- enumeration

type out struct {
	tw       *vt.TraceWriter
	runs     int
	distinct map[string]bool
	samples  []interface{}
	authn    int
	byFam    map[string]int

	keep       bool              // remember the runs for the shared family
	solo       []soloRun         // every run of the script / real families, in order
	soloEvs    map[string]string // scenario -> its events when negotiated alone (normalised)
	mismatches []interface{}
	sharedRuns int
	sharedDiff int
}

type soloRun struct {
	sc  Scenario
	evs []vt.Ev
}

// norm is what two runs of the same scenario have to agree on: every event, without the
// texts of errors.
func norm(evs []vt.Ev) string {
	l := make([]vt.Ev, len(evs))
	for i, e := range evs {
		c := vt.Ev{}
		for k, v := range e {
			if k != "err" && k != "msg" {
				c[k] = v
			}
		}
		l[i] = c
	}
	b, _ := json.Marshal(l)
	return string(b)
}

func fill(sc *Scenario) {
	if sc.Adv == nil {
		sc.Adv = []string{}
	}
	if sc.Peer == nil {
		sc.Peer = []Item{}
	}
	if sc.Script == nil {
		sc.Script = []StepOut{}
	}
	if sc.Local == nil {
		sc.Local = []string{}
	}
}

func scKey(sc Scenario) string {
	fill(&sc)
	b, _ := json.Marshal(sc)
	return string(b)
}

// shared runs one scenario of the shared family and compares every session with the same
// session negotiated alone (a feature value of its own). Sessions negotiated one after the
// other are written as ONE trace (sessions separated by "newsess": TrSASL's NewSession); a
// session that behaves differently is also written on its own so that TLC says whether it is
// still a behaviour of SASL.tla.
func (o *out) shared(sc Scenario) {
	for i := range sc.Sessions {
		fill(&sc.Sessions[i])
	}
	fill(&sc)
	var alone []string
	for _, sub := range sc.Sessions {
		k := scKey(sub)
		if _, ok := o.soloEvs[k]; !ok {
			evs, _ := runScenario(sub)
			o.soloEvs[k] = norm(evs)
		}
		alone = append(alone, o.soloEvs[k])
	}
	if os.Getenv("SASL_SELFTEST_CORRUPT") == "1" {
		// binding self-test: a reference run that lacks its last-but-one event
		var l []vt.Ev
		json.Unmarshal([]byte(alone[len(alone)-1]), &l)
		if len(l) > 2 {
			l = append(l[:len(l)-2], l[len(l)-1])
		}
		alone[len(alone)-1] = norm(l)
	}
	got := runShared(sc)
	o.sharedRuns++
	o.runs++
	o.byFam["shared/"+sc.Sessions[0].Role+"/"+sc.Sched]++
	differs := false
	for i, evs := range got {
		if norm(evs) == alone[i] {
			continue
		}
		differs = true
		var want []vt.Ev
		json.Unmarshal([]byte(alone[i]), &want)
		o.mismatches = append(o.mismatches, vt.Ev{"scenario": sc, "session": i + 1,
			"what":   fmt.Sprintf("session %d of %d negotiated with one feature value (schedule %s) does not behave as it does alone", i+1, len(got), sc.Sched),
			"shared": evs, "alone": want})
		sub := sc.Sessions[i]
		o.tw.Write(vt.Ev{"role": sub.Role, "local": sub.Local, "adv": sub.Adv}, evs)
		o.tw.Meta(sc)
	}
	if differs {
		o.sharedDiff++
	}
	if sc.Sched == "seq" || differs {
		var all []vt.Ev
		for i, evs := range got {
			if i > 0 {
				all = append(all, vt.Ev{"ev": "newsess", "adv": sc.Sessions[i].Adv})
			}
			all = append(all, evs...)
		}
		if sc.Sched == "seq" {
			first := sc.Sessions[0]
			o.tw.Write(vt.Ev{"role": first.Role, "local": first.Local, "adv": first.Adv}, all)
			o.tw.Meta(sc)
		}
	}
}

// sharedPairs: for every feature value (role, family, mechanisms, script) of the runs made so
// far, a few first sessions (one that authenticates, one that leaves in the middle of an
// exchange, one whose mechanism failed / was refused) x every stride-th run as the second
// session, schedules in rotation (all of them with allScheds).
func (o *out) sharedPairs(stride, offset int, allScheds bool, tick func()) {
	groups := map[string][]int{}
	var order []string
	for i, r := range o.solo {
		g := r.sc
		g.Adv, g.Peer, g.Dev, g.PwOK = nil, nil, "", false
		k := scKey(g)
		if _, ok := groups[k]; !ok {
			order = append(order, k)
		}
		groups[k] = append(groups[k], i)
	}
	lastStep := func(evs []vt.Ev) vt.Ev {
		var l vt.Ev
		for _, e := range evs {
			if e["ev"] == "step" {
				l = e
			}
		}
		return l
	}
	authn := func(evs []vt.Ev) bool { a, _ := evs[len(evs)-1]["authn"].(bool); return a }
	scheds := []string{"seq", "alt", "nest"}
	n := 0
	for _, k := range order {
		idx := groups[k]
		firsts := []int{-1, -1, -1}
		for _, i := range idx {
			evs := o.solo[i].evs
			l := lastStep(evs)
			switch {
			case authn(evs):
				if firsts[0] < 0 {
					firsts[0] = i
				}
			case l != nil && l["more"] == true:
				if firsts[1] < 0 {
					firsts[1] = i
				}
			case l != nil && l["err"] == true:
				if firsts[2] < 0 {
					firsts[2] = i
				}
			}
		}
		for _, a := range firsts {
			if a < 0 {
				continue
			}
			for _, b := range idx {
				n++
				if (n+offset)%stride != 0 {
					continue
				}
				for si, sched := range scheds {
					if !allScheds && si != (n/stride)%len(scheds) {
						continue
					}
					base := o.solo[a].sc
					o.shared(Scenario{Fam: "shared", Role: base.Role, Local: base.Local, Sched: sched,
						Sessions: []Scenario{o.solo[a].sc, o.solo[b].sc}})
				}
			}
			tick()
		}
	}
}

func (o *out) emit(sc Scenario, evs []vt.Ev) {
	o.runs++
	if sc.Plan != nil {
		o.byFam["real-kindplan/"+sc.Role]++
	} else {
		o.byFam[sc.Fam+"/"+sc.Role]++
	}
	key, _ := json.Marshal(evs)
	if !o.distinct[string(key)] {
		o.distinct[string(key)] = true
	}
	if sc.Adv == nil {
		sc.Adv = []string{}
	}
	if sc.Peer == nil {
		sc.Peer = []Item{}
	}
	if sc.Script == nil {
		sc.Script = []StepOut{}
	}
	t := o.tw.Write(vt.Ev{"role": sc.Role, "local": sc.Local, "adv": sc.Adv}, evs)
	o.tw.Meta(sc)
	if o.keep {
		o.solo = append(o.solo, soloRun{sc: sc, evs: evs})
		o.soloEvs[scKey(sc)] = norm(evs)
	}
	last := evs[len(evs)-1]
	if a, _ := last["authn"].(bool); a {
		o.authn++
		if len(o.samples) < 3 && (len(o.samples) == 0 || o.runs%7 == 0) {
			o.samples = append(o.samples, vt.Ev{"t": t, "scenario": sc, "events": evs})
		}
	}
}

// explore runs the tree of peer sequences below one configuration: a prefix is extended
// (by every symbol of the alphabet) only if the session asked for more input than the
// prefix holds, so exactly the reachable prefixes are run. Running out of items is the
// item "eof", which therefore never needs to be tried explicitly.
func (o *out) explore(base Scenario, alpha []Item, depth int) {
	var rec func(prefix []Item)
	rec = func(prefix []Item) {
		sc := base
		sc.Peer = append([]Item(nil), prefix...)
		evs, starved := runScenario(sc)
		if starved {
			sc.Peer = append(sc.Peer, Item{K: "eof"})
		}
		o.emit(sc, evs)
		if starved && len(prefix) < depth {
			for _, a := range alpha {
				if a.K == "eof" {
					continue
				}
				rec(append(append([]Item(nil), prefix...), a))
			}
		}
	}
	rec(nil)
}

// exploreShaped runs the tree of peer sequences in which exactly one item is taken from shaped
// (an element with one of the payload shapes of SASL.tla) - at every position of the exchange
// the session reaches: before it the peer behaves (honest(i) is its i-th item), after it the
// peer goes on with every item of after. As in explore, a prefix is extended only when the
// session asked for more input.
func (o *out) exploreShaped(base Scenario, honest func(i int) Item, shaped, after []Item, depth int) {
	var rec func(prefix []Item, used bool)
	rec = func(prefix []Item, used bool) {
		sc := base
		sc.Peer = append([]Item(nil), prefix...)
		evs, starved := runScenario(sc)
		if starved {
			sc.Peer = append(sc.Peer, Item{K: "eof"})
		}
		if used || len(prefix) == 0 {
			o.emit(sc, evs)
		}
		if !starved || len(prefix) >= depth {
			return
		}
		ext := func(a Item, u bool) { rec(append(append([]Item(nil), prefix...), a), u) }
		if used {
			for _, a := range after {
				ext(a, true)
			}
			return
		}
		for _, a := range shaped {
			if a.K == honest(len(prefix)).K || a.K == "failure" || a.K == "success" {
				ext(a, true)
			}
		}
		ext(honest(len(prefix)), false)
	}
	rec(nil, false)
}

// shapedReal: the real mechanisms with a well-behaved counterpart one of whose elements is
// replaced by an element of every shape.
func shapedReal(pool Pool) []Scenario {
	var scs []Scenario
	for _, m := range []struct {
		name string
		n    int // elements a well-behaved server sends
	}{{"PLAIN", 1}, {"ANONYMOUS", 1}, {"SCRAM-SHA-1", 2}} {
		for at := 1; at <= m.n; at++ {
			for i := range pool.CShaped {
				scs = append(scs, Scenario{Fam: "real", Role: "client", Local: []string{m.name}, Adv: []string{m.name}, Dev: "none", PwOK: true,
					ShapeAt: at, Shape: &pool.CShaped[i]})
			}
		}
	}
	for _, m := range []struct {
		name string
		n    int // elements a well-behaved client sends
	}{{"PLAIN", 1}, {"SCRAM-SHA-1", 2}} {
		for at := 1; at <= m.n; at++ {
			for _, it := range pool.SShaped {
				if (it.K == "auth") != (at == 1) {
					continue
				}
				it := it
				if it.K == "auth" {
					it.M = m.name
				}
				scs = append(scs, Scenario{Fam: "real", Role: "server", Local: []string{"SCRAM-SHA-1", "PLAIN"}, Adv: []string{m.name}, Dev: "none", PwOK: true,
					ShapeAt: at, Shape: &it})
			}
		}
	}
	return scs
}

// kindPlanned: the real mechanisms against a counterpart that knows the password (or not) and runs
// the mechanism faithfully, but puts its messages into elements of the kinds of a plan of SASL.tla
// (every assignment of <challenge/> / <success/> to the mechanism's messages x every tail).
func kindPlanned(pool Pool) []Scenario {
	var scs []Scenario
	for _, m := range []struct {
		name string
		n    int // messages of the mechanism a server sends
	}{{"PLAIN", 0}, {"SCRAM-SHA-1", 2}, {"SCRAM-SHA-256", 2}} {
		for i := range pool.KindPlans {
			if pool.KindPlans[i].N != m.n {
				continue
			}
			for _, pw := range []bool{true, false} {
				scs = append(scs, Scenario{Fam: "real", Role: "client", Local: []string{m.name}, Adv: []string{m.name}, Dev: "none", PwOK: pw,
					Plan: &pool.KindPlans[i]})
			}
		}
	}
	return scs
}

func envInt(k string, d int) int {
	if v, err := strconv.Atoi(os.Getenv(k)); err == nil {
		return v
	}
	return d
}

func contains(l []string, x string) bool {
	for _, y := range l {
		if x == y {
			return true
		}
	}
	return false
}

func realScenarios() []Scenario {
	var scs []Scenario
	cdevs := []string{"none", "final_as_challenge", "final_as_challenge_eof", "challenge_after_completion",
		"premature_success", "success_while_more", "wrong_signature", "repeated_success", "failure_mid"}
	for _, m := range []string{"PLAIN", "SCRAM-SHA-1", "SCRAM-SHA-256"} {
		for _, d := range cdevs {
			for _, pw := range []bool{true, false} {
				scs = append(scs, Scenario{Fam: "real", Role: "client", Local: []string{m}, Adv: []string{m}, Dev: d, PwOK: pw})
			}
		}
	}
	// preference and intersection with real names
	all := []string{"SCRAM-SHA-256", "SCRAM-SHA-1", "PLAIN"}
	for _, adv := range [][]string{{"PLAIN"}, {"PLAIN", "SCRAM-SHA-1"}, {"X-OAUTH2", "SCRAM-SHA-1-PLUS"}, {}, {"SCRAM-SHA-256", "PLAIN"}} {
		scs = append(scs, Scenario{Fam: "real", Role: "client", Local: all, Adv: adv, Dev: "none", PwOK: true})
		scs = append(scs, Scenario{Fam: "real", Role: "client", Local: all, Adv: adv, Dev: "final_as_challenge", PwOK: true})
	}
	sdevs := []string{"none", "response_first", "unoffered", "no_separators", "abort_after_challenge", "auth_twice", "retry_after_failure"}
	for _, m := range []string{"PLAIN", "SCRAM-SHA-1"} {
		for _, d := range sdevs {
			for _, pw := range []bool{true, false} {
				// Adv[0] is the mechanism the counterpart (a client) uses
				scs = append(scs, Scenario{Fam: "real", Role: "server", Local: []string{"SCRAM-SHA-1", "PLAIN"}, Adv: []string{m}, Dev: d, PwOK: pw})
			}
		}
	}
	return scs
}

func main() {
	if len(os.Args) < 4 {
		fmt.Fprintln(os.Stderr, "usage: sasl explore <pool.json> <trace.ndjson> | sasl run <pool.json> <scenarios.ndjson> <trace.ndjson>")
		os.Exit(2)
	}
	pb, err := os.ReadFile(os.Args[2])
	if err != nil {
		panic(err)
	}
	var pool Pool
	if err := json.Unmarshal(pb, &pool); err != nil {
		panic(err)
	}
	// watchdog: a run never blocks (the peer is lazy); a hang is reported, not judged
	progress := make(chan struct{}, 1)
	go func() {
		for {
			select {
			case <-progress:
			case <-time.After(60 * time.Second):
				fmt.Println("STALL: no progress for 60s")
				os.Exit(3)
			}
		}
	}()
	tick := func() {
		select {
		case progress <- struct{}{}:
		default:
		}
	}
	trace := os.Args[3]
	if os.Args[1] == "run" {
		trace = os.Args[4]
	}
	tw, err := vt.NewTraceWriter(trace)
	if err != nil {
		panic(err)
	}
	o := &out{tw: tw, distinct: map[string]bool{}, byFam: map[string]int{}, soloEvs: map[string]string{}}
	switch os.Args[1] {
	case "run":
		f, err := os.Open(os.Args[3])
		if err != nil {
			panic(err)
		}
		sc := bufio.NewScanner(f)
		sc.Buffer(make([]byte, 1<<20), 1<<24)
		for sc.Scan() {
			if strings.TrimSpace(sc.Text()) == "" {
				continue
			}
			var s Scenario
			if err := json.Unmarshal(sc.Bytes(), &s); err != nil {
				panic(err)
			}
			if s.Fam == "shared" {
				o.shared(s)
				continue
			}
			evs, _ := runScenario(s)
			o.emit(s, evs)
		}
		f.Close()
	case "explore":
		cdepth := envInt("SASL_CDEPTH", 4)
		sdepth := envInt("SASL_SDEPTH", 3)
		thorough := os.Getenv("VERIF_TIER") == "thorough"
		o.keep = true
		// (1) mechanism selection: every pair of preference lists, shortest exchange
		for _, loc := range pool.Local {
			for _, adv := range pool.Adv {
				sc := Scenario{Fam: "script", Role: "client", Local: loc, Adv: adv,
					Script: []StepOut{{More: false, Perm: "none"}}, Peer: []Item{{K: "success"}}}
				evs, _ := runScenario(sc)
				o.emit(sc, evs)
			}
			tick()
		}
		// (2) client exchange trees
		for _, cfg := range [][2][]string{{{"M1"}, {"M1"}}, {{"M2", "M1"}, {"UNK", "M1", "M2"}}} {
			for _, script := range pool.CScripts {
				o.explore(Scenario{Fam: "script", Role: "client", Local: cfg[0], Adv: cfg[1], Script: script}, pool.CAlpha, cdepth)
				tick()
			}
			if !thorough {
				break
			}
		}
		// (3) server exchange trees; mechanism attribute values: offered (M1, M2),
		// known to the driver but not configured (M3), unknown, absent
		// Reduced alphabet (payload variants only on the first offered mechanism) with the
		// basic scripts to depth SASL_SDEPTH; full alphabet with all scripts to depth
		// SASL_SDEPTH_FULL (0 = skip).
		var reduced []Item
		for _, a := range pool.SAlpha {
			if a.K == "auth" && a.M != "M1" && !a.P.is(okPayload) {
				continue
			}
			reduced = append(reduced, a)
		}
		for _, script := range pool.SScriptsQuick {
			o.explore(Scenario{Fam: "script", Role: "server", Local: []string{"M1", "M2"}, Script: script}, reduced, sdepth)
			tick()
		}
		if fd := envInt("SASL_SDEPTH_FULL", 0); fd > 0 {
			for _, script := range pool.SScripts {
				o.explore(Scenario{Fam: "script", Role: "server", Local: []string{"M1", "M2"}, Script: script}, pool.SAlpha, fd)
				tick()
			}
		}
		// (4) real mechanisms on both ends, deviating counterpart
		for _, sc := range realScenarios() {
			evs, _ := runScenario(sc)
			o.emit(sc, evs)
			tick()
		}
		o.keep = false
		// (5) payload shapes: every element that carries a payload, with every shape of SASL.tla
		// (by length and alphabet), at every position of the exchange, scripted and real mechanisms
		cok, sok := Item{K: "challenge", P: okPayload}, Item{K: "response", P: okPayload}
		for _, script := range pool.CScriptsShape {
			o.exploreShaped(Scenario{Fam: "script", Role: "client", Local: []string{"M1"}, Adv: []string{"M1"}, Script: script},
				func(int) Item { return cok }, pool.CShaped, []Item{cok, {K: "success"}}, cdepth)
			tick()
		}
		for _, script := range pool.SScriptsShape {
			o.exploreShaped(Scenario{Fam: "script", Role: "server", Local: []string{"M1", "M2"}, Script: script},
				func(i int) Item {
					if i == 0 {
						return Item{K: "auth", P: okPayload, M: "M1"}
					}
					return sok
				}, pool.SShaped, []Item{sok}, sdepth)
			tick()
		}
		for _, sc := range shapedReal(pool) {
			evs, _ := runScenario(sc)
			o.emit(sc, evs)
			tick()
		}
		// (5b) element kind and mechanism step varied independently for the real mechanisms
		for _, sc := range kindPlanned(pool) {
			evs, _ := runScenario(sc)
			o.emit(sc, evs)
			tick()
		}
		// (6) one feature value, two sessions
		if stride := envInt("SASL_SHARED_STRIDE", 4); stride > 0 {
			o.sharedPairs(stride, envInt("VERIF_SEED", 1), thorough, tick)
		}
	default:
		os.Exit(2)
	}
	if err := tw.Close(); err != nil {
		panic(err)
	}
	tr, ev := tw.Counts()
	vt.Summary{Traces: tr, Events: ev, Evaluations: o.runs, Distinct: len(o.distinct), Samples: o.samples, Mismatches: o.mismatches,
		Extra: map[string]interface{}{"authn": o.authn, "by_family": o.byFam, "shared_runs": o.sharedRuns, "shared_runs_differing": o.sharedDiff,
			"scram_client_steps_that_would_never_return": scramSpins}}.Print()
}
