// Command ibb drives real in-band bytestreams (mellium.im/xmpp/ibb) between two real
// xmpp sessions joined by an in-memory pipe with a wire tap, and records one trace per
// scenario (sequential mode) or per schedule (scheduler mode) for validation against
// tla/IBB.tla (TrIBB.tla).
//
//	ibb run <scenarios.ndjson> <trace.ndjson>    env: IBB_MAXPRE, IBB_MAXRUNS, IBB_SHARD=i/n, VERIF_SEED
//
// Logging discipline (no verdict ever depends on wall-clock order): an event is appended to
// the log after all of its causes and before any of its effects can happen: API calls are
// logged before the call (bytes offered) and after the return, a stanza on the wire is
// logged by the tap before its last byte is forwarded to the receiving session, a delivery
// is logged by the handler wrapper before the library's handler runs.
package main

import (
	"bufio"
	"bytes"
	"context"
	"encoding/base64"
	"encoding/json"
	"encoding/xml"
	"errors"
	"fmt"
	"io"
	"math/rand"
	"os"
	"runtime"
	"sort"
	"strconv"
	"strings"
	"sync"
	"time"

	"mellium.im/xmlstream"
	"mellium.im/xmpp"
	"mellium.im/xmpp/ibb"
	"mellium.im/xmpp/jid"
	"mellium.im/xmpp/mux"
	"mellium.im/xmpp/stanza"
	"mellium.im/xmpp/stream"

	"verifharness/vt"
)

type Op struct {
	Op      string `json:"op"` // open accept write flush read readn readall close inject offer
	E       string `json:"e"`  // endpoint performing the call; for inject/offer: the TARGET endpoint
	N       int    `json:"n"`
	Buf     int    `json:"buf,omitempty"`
	Kind    string `json:"kind,omitempty"`
	Carrier string `json:"carrier,omitempty"`
	// listener scenarios (listen.go): name of the call, session id, expected peer address
	C    string `json:"c,omitempty"`
	Sid  string `json:"sid,omitempty"`
	From string `json:"from,omitempty"`
}

type Proc struct {
	Name string `json:"name"`
	Ops  []Op   `json:"ops"`
}

type Scenario struct {
	Name    string         `json:"name"`
	BS      int            `json:"bs"`
	Carrier string         `json:"carrier"`
	MaxBuf  map[string]int `json:"maxbuf"`
	Listen  bool           `json:"listen"`
	PreOpen bool           `json:"preopen"` // open + accept performed sequentially before the procs
	Sched   bool           `json:"sched"`
	Procs   []Proc         `json:"procs"`
	Choices []int          `json:"choices,omitempty"` // replay exactly this schedule
	MaxPre  int            `json:"maxpre,omitempty"`
	MaxRuns int            `json:"maxruns,omitempty"`
	Bulk    bool           `json:"bulk,omitempty"` // log one write event for a run of equal writes
	Mode    string         `json:"mode,omitempty"` // "listen": Accept / Expect / Listener.Close scenarios (listen.go)
	// listener scenarios: a second pair of served sessions c (accepting, shares the Handler of b) and d (its peer);
	// Listen2: the listener of c exists from the start (otherwise a "listen" op creates it)
	Pair2   bool `json:"pair2,omitempty"`
	Listen2 bool `json:"listen2,omitempty"`
}

const sid = "s"

// a sequential scenario whose call does not return within this time is recorded as "hang"
// (never a verdict: the check re-runs such scenarios under the scheduler or reports undecided)
// (generous: the machine may be heavily loaded; a real hang is a hang at any threshold)
const hangAfter = 45 * time.Second

func peerOf(e string) string {
	switch e {
	case "a":
		return "b"
	case "c":
		return "d"
	case "d":
		return "c"
	}
	return "a"
}

func hdr(from, to string) string {
	return fmt.Sprintf(`<stream:stream from="%s" to="%s" id="123" version="1.0" xmlns="jabber:client" xmlns:stream="http://etherx.jabber.org/streams">`, from, to)
}

func nopNeg(ns string) xmpp.Negotiator {
	return func(ctx context.Context, in, out *stream.Info, s *xmpp.Session, data interface{}) (xmpp.SessionState, io.ReadWriter, interface{}, error) {
		rc := s.TokenReader()
		defer rc.Close()
		for {
			tok, err := rc.Token()
			if err != nil {
				return 0, nil, nil, err
			}
			if st, ok := tok.(xml.StartElement); ok {
				if err := in.FromStartElement(st); err != nil {
					return 0, nil, nil, err
				}
				break
			}
		}
		out.XMLNS = ns
		return xmpp.Ready, nil, nil, nil
	}
}

// ---------------------------------------------------------------------------------------
// reference streams: the bytes endpoint e writes are ref[e][0:]; a chunk is projected to
// the list of offsets at which it occurs in the reference stream (stateless projection)

type refStream struct {
	b   []byte
	idx map[[3]byte][]int
}

func newRef(seed int64, n int) *refStream {
	r := rand.New(rand.NewSource(seed))
	b := make([]byte, n)
	for i := range b {
		b[i] = byte(r.Intn(251)) // 251..255 never occur: reserved for garbage
	}
	rs := &refStream{b: b}
	if n > 20000 {
		rs.idx = map[[3]byte][]int{}
		for i := 0; i+3 <= n; i++ {
			k := [3]byte{b[i], b[i+1], b[i+2]}
			rs.idx[k] = append(rs.idx[k], i)
		}
	}
	return rs
}

func (r *refStream) offs(c []byte) []int {
	res := []int{}
	if len(c) == 0 {
		return res
	}
	if r.idx != nil && len(c) >= 3 {
		for _, i := range r.idx[[3]byte{c[0], c[1], c[2]}] {
			if i+len(c) <= len(r.b) && bytes.Equal(r.b[i:i+len(c)], c) {
				res = append(res, i)
			}
		}
		return res
	}
	for i := 0; i+len(c) <= len(r.b); i++ {
		if r.b[i] == c[0] && bytes.Equal(r.b[i:i+len(c)], c) {
			res = append(res, i)
		}
	}
	return res
}

// ---------------------------------------------------------------------------------------

type tapState struct {
	pend  []byte // bytes of an element that is not complete yet
	fwd   int    // bytes forwarded so far
	sc    vt.Scanner
	name  string
	attr  map[string]string
	child string
	cattr map[string]string
	cond  string
	text  strings.Builder
	in    bool
}

type World struct {
	sc     Scenario
	lg     *vt.Log
	conn   map[string]*vt.Conn
	sess   map[string]*xmpp.Session
	h      map[string]*ibb.Handler
	ln     *ibb.Listener
	ends   []string                 // endpoints: a, b (and c, d: Scenario.Pair2)
	lns    map[string]*ibb.Listener // listener scenarios: the listener of session b / c (guarded by smu)
	ic     map[string]*ibb.Conn     // the stream's Conn at each endpoint
	ref    map[string]*refStream
	tap    map[string]*tapState // keyed by destination endpoint
	sched  *vt.Sched
	imu    sync.Mutex
	icond  *sync.Cond
	starve map[string]bool
	over   bool
	wpos   map[string]int // bytes written so far by endpoint e (API)
	// what the tap has seen travelling to endpoint e: data packets and their bytes
	wireSeq map[string]int
	wirePos map[string]int
	ninj    int
	cur     map[string]string // proc -> op in progress
	fin     map[string]bool
	pe      map[string]string // proc / goroutine name -> endpoint
	hang    bool
	smu     sync.Mutex
	serveWG sync.WaitGroup
	lsn     *lsnState // listener scenarios only
}

func newWorld(sc Scenario, seed int64) *World {
	w := &World{sc: sc, lg: &vt.Log{}, conn: map[string]*vt.Conn{}, sess: map[string]*xmpp.Session{}, h: map[string]*ibb.Handler{},
		ic: map[string]*ibb.Conn{}, ref: map[string]*refStream{}, tap: map[string]*tapState{"a": {}, "b": {}}, starve: map[string]bool{},
		wpos: map[string]int{}, wireSeq: map[string]int{}, wirePos: map[string]int{}, cur: map[string]string{}, fin: map[string]bool{},
		pe: map[string]string{"sa": "a", "sb": "b", "sc": "c", "sd": "d"}, ends: []string{"a", "b"}, lns: map[string]*ibb.Listener{}}
	if sc.Pair2 {
		w.ends = []string{"a", "b", "c", "d"}
		w.tap["c"], w.tap["d"] = &tapState{}, &tapState{}
	}
	w.icond = sync.NewCond(&w.imu)
	tot := map[string]int{"a": 0, "b": 0}
	for _, p := range sc.Procs {
		for _, o := range p.Ops {
			switch o.Op {
			case "write":
				tot[o.E] += o.N
			case "writes":
				tot[o.E] += o.N * o.Buf
			case "offer":
				tot[peerOf(o.E)] += o.N
			}
		}
	}
	w.ref["a"] = newRef(seed*2+11, tot["a"]+64)
	w.ref["b"] = newRef(seed*2+12, tot["b"]+64)
	for _, e := range w.ends {
		e := e
		c := vt.NewConn()
		w.conn[e] = c
		c.FeedString(hdr(peerOf(e)+"@example.net", e+"@example.net"))
	}
	for _, e := range w.ends {
		e := e
		w.conn[e].React = func(p []byte) { w.forward(peerOf(e), p) }
		w.conn[e].Starve = func() {
			w.imu.Lock()
			if w.conn[e].InputEmpty() {
				w.starve[e] = true
				w.icond.Broadcast()
			}
			w.imu.Unlock()
		}
	}
	return w
}

func (w *World) start() {
	for _, e := range w.ends {
		st := xmpp.SessionState(0)
		if e == "b" || e == "c" {
			st = xmpp.Received
		}
		s, err := xmpp.NewSession(context.Background(), jid.MustParse("example.net"), jid.MustParse(e+"@example.net"), w.conn[e], st, nopNeg(stanza.NSClient))
		if err != nil {
			panic(err)
		}
		w.sess[e] = s
		w.h[e] = &ibb.Handler{}
		if e == "c" {
			w.h[e] = w.h["b"] // the sessions of the accepting application share one Handler
		}
	}
	if w.sc.Listen {
		w.ln = w.h["b"].Listen(w.sess["b"])
		w.lns["b"] = w.ln
	}
	if w.sc.Pair2 && w.sc.Listen2 {
		w.lns["c"] = w.h["b"].Listen(w.sess["c"])
	}
}

// handler wraps the endpoint's multiplexer: every request-like stanza (iq get/set, message
// that is not an error) is logged as a delivery BEFORE the library handles it.
func (w *World) handler(e string) xmpp.Handler {
	m := mux.New(stanza.NSClient, ibb.Handle(w.h[e]))
	return xmpp.HandlerFunc(func(t xmlstream.TokenReadEncoder, start *xml.StartElement) (err error) {
		id, typ := "", ""
		for _, a := range start.Attr {
			switch a.Name.Local {
			case "id":
				id = a.Value
			case "type":
				typ = a.Value
			}
		}
		if requestLike(start.Name.Local, typ) {
			ev := vt.Ev{"ev": "deliver", "e": e, "id": id}
			if w.lsn != nil {
				w.lsn.decorate(ev, "")
			}
			w.lg.Add(ev)
		}
		if w.lsn != nil && (e == "b" || e == "c") {
			w.lsn.setServing(e, true)
			defer w.lsn.setServing(e, false)
		}
		defer func() {
			if p := recover(); p != nil {
				w.lg.Add(vt.Ev{"ev": "panic", "e": e, "in": "handler", "what": fmt.Sprint(p)})
				err = nil
			}
		}()
		return m.HandleXMPP(t, start)
	})
}

func requestLike(name, typ string) bool {
	switch name {
	case "iq":
		return typ == "set" || typ == "get"
	case "message":
		return typ != "error"
	}
	return false
}

// forward: endpoint peerOf(to) wrote p; tap it, then hand it to the session of `to`.
func (w *World) forward(to string, p []byte) {
	// The tap is a stanza-granular channel: bytes are handed to the receiving session only up
	// to the end of the last COMPLETE top-level element (however the sender's writes split it),
	// so a stanza is logged as seen on the wire before any part of it can be acted upon.
	ts := w.tap[to]
	ts.pend = append(ts.pend, p...)
	if !w.isOver() {
		w.tapBytes(to, ts, p, false)
	} else {
		ts.sc.Feed(p)
	}
	n := ts.sc.TopEnd - ts.fwd
	if n <= 0 {
		return
	}
	out := ts.pend[:n]
	ts.pend = append([]byte(nil), ts.pend[n:]...)
	ts.fwd += n
	w.imu.Lock()
	w.starve[to] = false
	w.conn[to].Feed(out)
	w.icond.Broadcast()
	w.imu.Unlock()
}

func (w *World) tapBytes(to string, ts *tapState, p []byte, inj bool) {
	for _, tg := range ts.sc.Feed(p) {
		switch {
		case tg.Depth == 0 && (tg.Kind == "start" || tg.Kind == "empty"):
			ts.name, ts.attr, ts.child, ts.cattr, ts.cond = vt.Local(tg.Name), tg.Attr, "", nil, ""
			ts.text.Reset()
			ts.in = tg.Kind == "start"
			if tg.Kind == "empty" {
				w.emit(to, ts, inj)
			}
		case !ts.in:
		case tg.Depth == 1 && (tg.Kind == "start" || tg.Kind == "empty"):
			if ts.child == "" {
				ts.child, ts.cattr = vt.Local(tg.Name), tg.Attr
			}
		case tg.Depth == 2 && (tg.Kind == "start" || tg.Kind == "empty"):
			if ts.child == "error" && ts.cond == "" {
				ts.cond = vt.Local(tg.Name)
			}
		case tg.Depth == 2 && tg.Kind == "text":
			if ts.child == "data" {
				ts.text.WriteString(tg.Text)
			}
		case tg.Depth == 0 && tg.Kind == "end":
			ts.in = false
			w.emit(to, ts, inj)
		}
	}
}

func (w *World) emit(to string, ts *tapState, inj bool) {
	typ := ts.attr["type"]
	id := ts.attr["id"]
	if ts.name != "iq" && ts.name != "message" {
		return
	}
	if !requestLike(ts.name, typ) {
		res := "result"
		if typ == "error" {
			res = "error"
		}
		ev := vt.Ev{"ev": "reply", "to": to, "from": peerOf(to), "id": id, "carrier": ts.name, "res": res, "cond": ts.cond}
		if w.lsn != nil {
			w.lsn.decorate(ev, "")
		}
		w.lg.Add(ev)
		return
	}
	e := vt.Ev{"ev": "wire", "to": to, "id": id, "carrier": ts.name, "inj": inj, "kind": "other", "sid": "", "seq": 0, "n": 0, "offs": []int{}, "ok": true}
	switch ts.child {
	case "open", "close", "data":
		e["kind"] = ts.child
		e["sid"] = ts.cattr["sid"]
	}
	if ts.child == "data" {
		seq, _ := strconv.Atoi(ts.cattr["seq"])
		e["seq"] = seq
		txt := strings.NewReplacer("\n", "", "\r", "").Replace(ts.text.String())
		raw, err := base64.StdEncoding.DecodeString(txt)
		if err != nil {
			e["ok"] = false
			// number of bytes a streaming decoder yields before it meets the corruption
			e["n"] = len(raw)
		} else {
			e["n"] = len(raw)
			e["offs"] = w.ref[peerOf(to)].offs(raw)
			if !inj && ts.cattr["sid"] == sid {
				w.wireSeq[to]++
				w.wirePos[to] += len(raw)
			}
		}
	}
	if w.lsn != nil {
		who := ""
		if w.sched != nil {
			who = w.sched.Who()
		}
		w.lsn.decorate(e, who)
	}
	w.lg.Add(e)
}

// inject: a scripted peer puts one stanza into the input of endpoint `to`.
func (w *World) inject(to string, o Op) {
	car := o.Carrier
	if car == "" {
		car = w.sc.Carrier
	}
	w.ninj++
	id := fmt.Sprintf("inj%d", w.ninj)
	seq := w.wireSeq[to] & 0xffff
	s := sid
	garbage := func(n int) string {
		b := make([]byte, n)
		for i := range b {
			b[i] = byte(251 + i%5)
		}
		return base64.StdEncoding.EncodeToString(b)
	}
	var data string
	switch o.Kind {
	case "unknownsid":
		s, data = "u", garbage(3)
	case "closedsid":
		data = garbage(3)
	case "seqlow":
		seq, data = (seq+0xffff)&0xffff, garbage(3)
	case "seqhigh":
		seq, data = (seq+1)&0xffff, garbage(3)
	case "seqfar":
		seq, data = (seq+0x8000)&0xffff, garbage(3)
	case "undecodable":
		data = "****"
	case "partial":
		data = garbage(3) + "****"
	case "partial2":
		data = garbage(6) + "A"
	case "oversize":
		data = garbage(o.N)
	case "good", "empty":
		n := o.N
		if o.Kind == "empty" {
			n = 0
		}
		pos := w.wirePos[to]
		data = base64.StdEncoding.EncodeToString(w.ref[peerOf(to)].b[pos : pos+n])
	case "close":
	default:
		panic("inject kind " + o.Kind)
	}
	var st string
	body := fmt.Sprintf(`<data xmlns="http://jabber.org/protocol/ibb" seq="%d" sid="%s">%s</data>`, seq, s, data)
	if o.Kind == "close" {
		body = fmt.Sprintf(`<close xmlns="http://jabber.org/protocol/ibb" sid="%s"/>`, s)
		car = "iq"
	}
	if car == "iq" {
		st = fmt.Sprintf(`<iq type="set" id="%s">%s</iq>`, id, body)
	} else {
		st = fmt.Sprintf(`<message id="%s">%s</message>`, id, body)
	}
	// the injected stanza goes through a tap of its own (same projection as real stanzas)
	w.tapBytes(to, &tapState{}, []byte(st), o.Kind != "good" && o.Kind != "empty")
	w.imu.Lock()
	w.starve[to] = false
	w.conn[to].Feed([]byte(st))
	w.icond.Broadcast()
	w.imu.Unlock()
}

func (w *World) setCur(p, op string)         { w.smu.Lock(); w.cur[p] = op; w.smu.Unlock() }
func (w *World) getCur(p string) string      { w.smu.Lock(); defer w.smu.Unlock(); return w.cur[p] }
func (w *World) setFin(p string)             { w.smu.Lock(); w.fin[p] = true; w.smu.Unlock() }
func (w *World) isFin(p string) bool         { w.smu.Lock(); defer w.smu.Unlock(); return w.fin[p] }
func (w *World) setIC(e string, c *ibb.Conn) { w.smu.Lock(); w.ic[e] = c; w.smu.Unlock() }
func (w *World) getIC(e string) *ibb.Conn    { w.smu.Lock(); defer w.smu.Unlock(); return w.ic[e] }

// serveEnded: the serve loop of e returned. Before the end of the scenario that is an event
// of its own (nothing in a scenario ends an XMPP stream).
func (w *World) serveEnded(e string, err error) {
	w.imu.Lock()
	over := w.over
	w.starve[e] = true
	w.icond.Broadcast()
	w.imu.Unlock()
	if !over {
		w.lg.Add(vt.Ev{"ev": "serve_ret", "e": e, "err": errStr(err)})
	}
}

func (w *World) isOver() bool {
	w.imu.Lock()
	defer w.imu.Unlock()
	return w.over
}

func (w *World) setOver() {
	w.imu.Lock()
	w.over = true
	w.imu.Unlock()
}

// allStarved: every serve loop waits on an empty transport (imu held)
func (w *World) allStarved() bool {
	for _, e := range w.ends {
		if !w.starve[e] {
			return false
		}
	}
	return true
}

func (w *World) getLn(e string) *ibb.Listener { w.smu.Lock(); defer w.smu.Unlock(); return w.lns[e] }
func (w *World) setLn(e string, l *ibb.Listener) {
	w.smu.Lock()
	w.lns[e] = l
	w.smu.Unlock()
}

func (w *World) waitIdle() bool {
	done := make(chan struct{})
	go func() {
		w.imu.Lock()
		for !w.allStarved() {
			w.icond.Wait()
		}
		w.imu.Unlock()
		close(done)
	}()
	select {
	case <-done:
		return true
	case <-time.After(hangAfter):
		w.hang = true
		// let the waiter go
		w.imu.Lock()
		for _, e := range w.ends {
			w.starve[e] = true
		}
		w.icond.Broadcast()
		w.imu.Unlock()
		return false
	}
}

func errStr(err error) string {
	if err == nil {
		return ""
	}
	var se stanza.Error
	if errors.As(err, &se) {
		return "stanza:" + string(se.Condition)
	}
	if err == io.EOF {
		return "EOF"
	}
	return err.Error()
}

// guard runs f, turning a panic of library code into an event
func (w *World) guard(p, e, what string, f func()) {
	defer func() {
		if r := recover(); r != nil {
			w.lg.Add(vt.Ev{"ev": "panic", "e": e, "in": what, "p": p, "what": fmt.Sprint(r)})
		}
	}()
	f()
}

func (w *World) doRead(p string, e string, n int) (got int, eof bool, failed bool) {
	c := w.getIC(e)
	if c == nil {
		return 0, false, true
	}
	buf := make([]byte, n)
	w.lg.Add(vt.Ev{"ev": "read_call", "p": p, "e": e, "n": n})
	var k int
	var err error
	w.guard(p, e, "read", func() { k, err = c.Read(buf) })
	ev := vt.Ev{"ev": "read", "p": p, "e": e, "n": n, "got": k, "eof": err == io.EOF, "err": errStr(err), "offs": w.ref[peerOf(e)].offs(buf[:k])}
	w.lg.Add(ev)
	return k, err == io.EOF, err != nil && err != io.EOF
}

// exec performs one API call of a proc.
func (w *World) exec(p string, o Op) {
	e := o.E
	if strings.HasPrefix(o.Op, "read") {
		w.setCur(p, "read")
	} else {
		w.setCur(p, o.Op)
	}
	switch o.Op {
	case "open":
		w.lg.Add(vt.Ev{"ev": "open_call", "p": p, "e": e})
		var c *ibb.Conn
		var err error
		w.guard(p, e, "open", func() {
			c, err = w.h[e].OpenIQ(context.Background(), stanza.IQ{To: jid.MustParse(peerOf(e) + "@example.net")}, w.sess[e], w.sc.Carrier == "iq", uint16(w.sc.BS), sid)
		})
		if err == nil && c != nil {
			w.setIC(e, c)
			if mb := w.sc.MaxBuf[e]; mb > 0 {
				c.SetReadBuffer(mb)
			}
		}
		w.lg.Add(vt.Ev{"ev": "open_ret", "p": p, "e": e, "ok": err == nil && c != nil, "err": errStr(err)})
	case "accept":
		if w.ln == nil {
			return
		}
		var c interface{}
		var err error
		w.guard(p, e, "accept", func() { c, err = w.ln.Accept() })
		if ic, ok := c.(*ibb.Conn); ok && err == nil {
			w.setIC(e, ic)
			if mb := w.sc.MaxBuf[e]; mb > 0 {
				ic.SetReadBuffer(mb)
			}
		}
		w.lg.Add(vt.Ev{"ev": "accept", "p": p, "e": e, "ok": err == nil})
	case "write":
		c := w.getIC(e)
		if c == nil {
			return
		}
		b := w.ref[e].b[w.wpos[e] : w.wpos[e]+o.N]
		w.wpos[e] += o.N
		w.lg.Add(vt.Ev{"ev": "write", "p": p, "e": e, "n": o.N})
		var k int
		var err error
		w.guard(p, e, "write", func() { k, err = c.Write(b) })
		w.lg.Add(vt.Ev{"ev": "write_ret", "p": p, "e": e, "n": k, "err": errStr(err)})
	case "writes": // N writes of Buf bytes each, logged as one offer (bulk scenarios)
		c := w.getIC(e)
		if c == nil {
			return
		}
		w.lg.Add(vt.Ev{"ev": "write", "p": p, "e": e, "n": o.N * o.Buf})
		var err error
		tot := 0
		w.guard(p, e, "write", func() {
			for i := 0; i < o.N && err == nil; i++ {
				var k int
				k, err = c.Write(w.ref[e].b[w.wpos[e] : w.wpos[e]+o.Buf])
				w.wpos[e] += o.Buf
				tot += k
			}
		})
		w.lg.Add(vt.Ev{"ev": "write_ret", "p": p, "e": e, "n": tot, "err": errStr(err)})
	case "flush":
		c := w.getIC(e)
		if c == nil {
			return
		}
		w.lg.Add(vt.Ev{"ev": "flush", "p": p, "e": e})
		var err error
		w.guard(p, e, "flush", func() { err = c.Flush() })
		w.lg.Add(vt.Ev{"ev": "flush_ret", "p": p, "e": e, "err": errStr(err)})
	case "read":
		w.doRead(p, e, o.N)
	case "readn": // read until N bytes were obtained (buffer Buf), EOF or error
		buf := o.Buf
		if buf <= 0 {
			buf = o.N
		}
		for tot := 0; tot < o.N; {
			want := buf
			if o.N-tot < want {
				want = o.N - tot
			}
			k, eof, failed := w.doRead(p, e, want)
			tot += k
			if eof || failed {
				break
			}
		}
	case "readall":
		buf := o.Buf
		if buf <= 0 {
			buf = 512
		}
		for i := 0; i < 1000000; i++ {
			_, eof, failed := w.doRead(p, e, buf)
			if eof || failed {
				break
			}
		}
	case "close":
		c := w.getIC(e)
		if c == nil {
			return
		}
		w.lg.Add(vt.Ev{"ev": "close_call", "p": p, "e": e})
		var err error
		w.guard(p, e, "close", func() { err = c.Close() })
		w.lg.Add(vt.Ev{"ev": "close_ret", "p": p, "e": e, "err": errStr(err)})
	case "offer": // the scripted peer of endpoint E is about to send N more bytes of the peer's stream
		w.lg.Add(vt.Ev{"ev": "write", "p": p, "e": peerOf(e), "n": o.N})
	case "inject":
		w.inject(e, o)
	default:
		panic("op " + o.Op)
	}
	w.setCur(p, "")
}

type result struct {
	evs  []vt.Ev
	res  vt.RunResult
	note string
}

func resetOf(sc Scenario) vt.Ev {
	bs := sc.BS
	if bs == 0 {
		bs = ibb.BlockSize
	}
	mb := map[string]int{}
	for _, e := range []string{"a", "b"} {
		mb[e] = sc.MaxBuf[e]
		if mb[e] <= 0 {
			mb[e] = ibb.MaxBufferSize
		}
		if mb[e] < bs {
			mb[e] = bs // documented by SetReadBuffer
		}
	}
	lst := map[string]string{"b": "none", "c": "none"}
	if sc.Listen {
		lst["b"] = "open"
	}
	if sc.Pair2 && sc.Listen2 {
		lst["c"] = "open"
	}
	return vt.Ev{"bs": bs, "carrier": sc.Carrier, "maxbuf": mb, "listen": sc.Listen, "mode": sc.Mode, "lst": lst}
}

// runSeq: one goroutine performs the ops in program order and waits for both serve loops
// to become idle (blocked on an empty transport) after every call.
func runSeq(sc Scenario, seed int64) result {
	w := newWorld(sc, seed)
	w.start()
	for _, e := range []string{"a", "b"} {
		e := e
		w.serveWG.Add(1)
		go func() {
			defer w.serveWG.Done()
			err := w.sess[e].Serve(w.handler(e))
			w.serveEnded(e, err)
		}()
	}
	ok := w.waitIdle()
	acc := make(chan struct{}, 4)
	step := func(o Op) bool {
		if o.Op == "accept" {
			// Accept blocks until the open request arrives: run it beside the main program
			go func() { w.exec("acc", o); acc <- struct{}{} }()
			return true
		}
		done := make(chan struct{})
		go func() { w.exec("main", o); close(done) }()
		limit := hangAfter
		if o.Op == "writes" || o.Op == "readall" {
			limit += time.Duration(o.N) * 5 * time.Millisecond // tens of thousands of round trips
			limit += 4 * time.Minute
		}
		select {
		case <-done:
		case <-time.After(limit):
			w.hang = true
			return false
		}
		if o.Op == "open" && sc.Listen {
			select {
			case <-acc:
			case <-time.After(hangAfter):
				w.hang = true
				return false
			}
		}
		return w.waitIdle()
	}
	var ops []Op
	if sc.PreOpen {
		ops = append(ops, Op{Op: "accept", E: "b"}, Op{Op: "open", E: "a"})
	}
	if len(sc.Procs) > 0 {
		ops = append(ops, sc.Procs[0].Ops...)
	}
	for _, o := range ops {
		if !ok {
			break
		}
		ok = step(o)
	}
	note := ""
	if w.hang {
		note = "hang"
		w.lg.Add(vt.Ev{"ev": "hang"})
	} else {
		w.lg.Add(vt.Ev{"ev": "end"})
	}
	w.setOver()
	w.conn["a"].CloseIn()
	w.conn["b"].CloseIn()
	if !w.hang {
		w.serveWG.Wait()
	}
	return result{evs: w.lg.Events(), note: note}
}

// runSched: one schedule under the single-runner scheduler.
func runSched(sc Scenario, seed int64, choices []int) result {
	if sc.Mode == "listen" {
		return runListen(sc, seed, choices)
	}
	w := newWorld(sc, seed)
	w.start()
	sched := vt.NewSched()
	w.sched = sched
	if os.Getenv("IBB_DEBUG") != "" {
		time.AfterFunc(2*time.Second, func() {
			buf := make([]byte, 1<<20)
			n := runtime.Stack(buf, true)
			os.Stderr.Write(buf[:n])
		})
	}
	for _, e := range []string{"a", "b"} {
		e := e
		w.conn[e].Starve = nil
		w.conn[e].Gate = func(point string) {
			if point == "conn.read" {
				// not an option of the scheduler until there is something to read: wait on a
				// primitive (seen as blocked), park at the gate only when input is there
				w.imu.Lock()
				for w.conn[e].InputEmpty() {
					if !w.starve[e] {
						w.starve[e] = true
						w.icond.Broadcast()
					}
					w.icond.Wait()
				}
				w.imu.Unlock()
			}
			sched.Gate(point)
		}
	}
	ibb.VerifHook = func(point, id string) {
		if !sched.Mine() {
			return
		}
		who := sched.Who()
		if who == "env" {
			return // set-up phase
		}
		w.lg.Add(vt.Ev{"ev": "hook", "p": who, "e": w.pe[who], "point": point})
		sched.Gate(point)
	}
	defer func() { ibb.VerifHook = nil }()
	// set-up phase: gates open, sequential
	sched.Enabled = false
	for _, e := range []string{"a", "b"} {
		e := e
		sched.Go("s"+e, func() { w.serveEnded(e, w.sess[e].Serve(w.handler(e))) })
	}
	w.waitIdle()
	if sc.PreOpen {
		acc := make(chan struct{})
		go func() { w.exec("acc", Op{Op: "accept", E: "b"}); close(acc) }()
		w.exec("main", Op{Op: "open", E: "a"})
		if sc.Listen {
			<-acc
		}
		w.waitIdle()
	}
	sched.Enabled = true
	for _, p := range sc.Procs {
		p := p
		for _, o := range p.Ops {
			if o.Op != "inject" && o.Op != "offer" {
				w.pe[p.Name] = o.E
			}
		}
		sched.Go(p.Name, func() {
			for _, o := range p.Ops {
				if o.Op == "inject" {
					sched.Gate("inject")
				}
				w.exec(p.Name, o)
			}
			w.setFin(p.Name)
		})
	}
	ended := false
	res, note := sched.Drive(choices, 3000, func() bool {
		if ended {
			return false
		}
		ended = true
		// everybody is blocked. Calls that have not returned are recorded (the specification
		// decides whether each of them may legitimately be waiting); then both peers end their
		// XMPP streams so that the serve loops finish.
		var bl []vt.Ev
		for _, p := range sc.Procs {
			if !w.isFin(p.Name) {
				bl = append(bl, vt.Ev{"p": p.Name, "e": w.pe[p.Name], "in": w.getCur(p.Name)})
			}
		}
		if len(bl) > 0 {
			sort.Slice(bl, func(i, j int) bool { return bl[i]["p"].(string) < bl[j]["p"].(string) })
			w.lg.Add(vt.Ev{"ev": "stuck", "blocked": bl, "status": fmt.Sprint(sched.Blocked())})
		}
		w.lg.Add(vt.Ev{"ev": "end"})
		w.setOver()
		w.imu.Lock()
		w.conn["a"].CloseIn()
		w.conn["b"].CloseIn()
		w.icond.Broadcast()
		w.imu.Unlock()
		return true
	})
	if !ended {
		w.lg.Add(vt.Ev{"ev": "end"})
		w.setOver()
	}
	sched.Stop()
	w.imu.Lock()
	w.conn["a"].CloseIn()
	w.conn["b"].CloseIn()
	w.icond.Broadcast()
	w.imu.Unlock()
	if note == "stuck" && ended {
		note = "" // the stuck event (if any) was recorded before the sessions were ended
		for _, e := range w.lg.Events() {
			if e["ev"] == "stuck" {
				note = "stuck"
			}
		}
	}
	// events after "end" (the serve loops shutting down) are not part of the trace
	evs := w.lg.Events()
	for i, e := range evs {
		if e["ev"] == "end" {
			evs = evs[:i+1]
			break
		}
	}
	return result{evs: evs, res: res, note: note}
}

func main() {
	if len(os.Args) < 4 || os.Args[1] != "run" {
		fmt.Fprintln(os.Stderr, "usage: ibb run <scenarios.ndjson> <trace.ndjson>")
		os.Exit(2)
	}
	f, err := os.Open(os.Args[2])
	if err != nil {
		panic(err)
	}
	var scs []Scenario
	rd := bufio.NewScanner(f)
	rd.Buffer(make([]byte, 1<<20), 1<<24)
	for rd.Scan() {
		var s Scenario
		if err := json.Unmarshal(rd.Bytes(), &s); err != nil {
			panic(err)
		}
		scs = append(scs, s)
	}
	f.Close()
	seed, _ := strconv.ParseInt(os.Getenv("VERIF_SEED"), 10, 64)
	maxPre := 2
	if v := os.Getenv("IBB_MAXPRE"); v != "" {
		maxPre, _ = strconv.Atoi(v)
	}
	maxRuns, _ := strconv.Atoi(os.Getenv("IBB_MAXRUNS"))
	shard, nshard := 0, 1
	if s := os.Getenv("IBB_SHARD"); s != "" {
		fmt.Sscanf(s, "%d/%d", &shard, &nshard)
	}
	tw, err := vt.NewTraceWriter(os.Args[3])
	if err != nil {
		panic(err)
	}
	runs, stuck, hangs, runaway := 0, 0, 0, 0
	distinct := map[string]bool{}
	var samples []interface{}
	for si, sc := range scs {
		if si%nshard != shard {
			continue
		}
		if !sc.Sched {
			r := runSeq(sc, seed)
			runs++
			if r.note == "hang" {
				hangs++
			}
			t := tw.Write(resetOf(sc), r.evs)
			tw.Meta(vt.Ev{"scenario": sc, "choices": []int{}, "note": r.note})
			if len(samples) < 1 && len(r.evs) < 60 {
				samples = append(samples, vt.Ev{"t": t, "scenario": sc, "events": r.evs})
			}
			continue
		}
		each := func(last *result, choices []int) {
			runs++
			switch last.note {
			case "stuck":
				stuck++
			case "runaway":
				runaway++
			}
			key, _ := json.Marshal(last.evs)
			if distinct[string(key)] {
				return
			}
			distinct[string(key)] = true
			if choices == nil {
				choices = []int{}
			}
			tw.Write(resetOf(sc), last.evs)
			tw.Meta(vt.Ev{"scenario": sc, "choices": choices, "note": last.note})
		}
		if sc.Choices != nil {
			r := runSched(sc, seed, sc.Choices)
			each(&r, sc.Choices)
			continue
		}
		mp, mr := maxPre, maxRuns
		if sc.MaxPre > 0 {
			mp = sc.MaxPre
		}
		if sc.MaxRuns > 0 {
			mr = sc.MaxRuns
		}
		var last result
		vt.Explore(func(choices []int) vt.RunResult {
			last = runSched(sc, seed, choices)
			return last.res
		}, mp, mr, func(choices []int) bool {
			each(&last, choices)
			return true
		})
	}
	if err := tw.Close(); err != nil {
		panic(err)
	}
	tr, ev := tw.Counts()
	vt.Summary{Traces: tr, Events: ev, Evaluations: runs, Distinct: len(distinct), Samples: samples,
		Extra: map[string]interface{}{"stuck": stuck, "hangs": hangs, "runaway": runaway}}.Print()
}
