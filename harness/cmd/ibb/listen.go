package main

// Listener scenarios (Scenario.Mode == "listen"): the ACCEPTING side's rendezvous API of the ibb
// package - Listener.Accept, Listener.Expect, Listener.Close - against the real serve loop that
// handles real open requests of the peer session.  One trace per schedule, validated against
// tla/IBBListen.tla (TrIBBListen.tla).
//
// Every call has a name (Op.C) and a context of its own.  Events:
//
//	expect_call {c,key} / expect_ret {c,out,key}    out: stream | ctx | closed | other:<error>
//	accept_call {c}     / accept_ret {c,out,key}
//	req_call {c,kind,key} / req_ret {c,out}         Open or an unrelated request of the peer; out: ok | err | ctx
//	cancel {c}                                       logged BEFORE the context is cancelled
//	lclose_call / lclose_ret                         Listener.Close
//	wire / deliver / reply                           as in the byte-pipe scenarios, plus the name of the request
//	stuck {blocked:[{c,in}], serving}                every goroutine is blocked (TrStuck judges)
//
// When every goroutine is blocked the driver records `stuck` and then lets the environment do what a
// real application / peer may legitimately do next, one step at a time: (1) every caller that is
// still waiting goes away (its context is cancelled), (2) somebody calls Accept while the serve loop
// waits in a handler, (3) the listener is closed.  After each step the run continues; the
// specification judges every `stuck` state and the final state.

import (
	"context"
	"encoding/xml"
	"errors"
	"fmt"
	"os"
	"runtime"
	"sort"
	"strings"
	"sync"
	"time"

	"mellium.im/xmlstream"
	"mellium.im/xmpp/ibb"
	"mellium.im/xmpp/jid"
	"mellium.im/xmpp/stanza"

	"verifharness/vt"
)

type lsnState struct {
	mu        sync.Mutex
	ctx       map[string]context.Context
	cancel    map[string]context.CancelFunc
	cancelled map[string]bool
	curCall   map[string]string // proc -> call in progress
	curKind   map[string]string // proc -> expect | accept | open | ping | ...
	idc       map[string]string // stanza id -> request name
	serving   bool              // the handler of the accepting side is running
	lclosed   bool
}

func newLsn(sc Scenario) *lsnState {
	l := &lsnState{ctx: map[string]context.Context{}, cancel: map[string]context.CancelFunc{}, cancelled: map[string]bool{},
		curCall: map[string]string{}, curKind: map[string]string{}, idc: map[string]string{}}
	for _, p := range sc.Procs {
		for _, o := range p.Ops {
			switch o.Op {
			case "expect", "open", "ping":
				l.ctx[o.C], l.cancel[o.C] = context.WithCancel(context.Background())
			}
		}
	}
	return l
}

func (l *lsnState) setServing(v bool) { l.mu.Lock(); l.serving = v; l.mu.Unlock() }
func (l *lsnState) isServing() bool   { l.mu.Lock(); defer l.mu.Unlock(); return l.serving }

// decorate adds the name of the request to a wire / deliver / reply event.  A request on the wire is
// attributed to the call in progress of the goroutine that writes it.
func (l *lsnState) decorate(ev vt.Ev, who string) {
	l.mu.Lock()
	defer l.mu.Unlock()
	id, _ := ev["id"].(string)
	if ev["ev"] == "wire" && who != "" {
		if c := l.curCall[who]; c != "" && (l.curKind[who] == "open" || l.curKind[who] == "ping") {
			l.idc[id] = c
		}
	}
	ev["c"] = l.idc[id]
}

func (l *lsnState) cancellable(c string) bool {
	l.mu.Lock()
	defer l.mu.Unlock()
	return l.cancel[c] != nil && !l.cancelled[c]
}

func (l *lsnState) isClosed() bool { l.mu.Lock(); defer l.mu.Unlock(); return l.lclosed }

func (l *lsnState) begin(p, c, kind string) {
	l.mu.Lock()
	l.curCall[p], l.curKind[p] = c, kind
	l.mu.Unlock()
}

func (l *lsnState) end(p string) {
	l.mu.Lock()
	l.curCall[p], l.curKind[p] = "", ""
	l.mu.Unlock()
}

func (l *lsnState) current(p string) (string, string) {
	l.mu.Lock()
	defer l.mu.Unlock()
	return l.curCall[p], l.curKind[p]
}

func lsnKey(from, sid string) string {
	if from == "" {
		return ":" + sid
	}
	return jid.MustParse(from).String() + ":" + sid
}

func callOutcome(err error) string {
	switch {
	case err == nil:
		return "ok"
	case errors.Is(err, context.Canceled), errors.Is(err, context.DeadlineExceeded):
		return "ctx"
	case strings.Contains(err.Error(), "closed listener"):
		return "closed"
	}
	var se stanza.Error
	if errors.As(err, &se) {
		return "err"
	}
	return "other:" + err.Error()
}

// lexec performs one operation of a listener scenario.
func (w *World) lexec(p string, o Op) {
	l := w.lsn
	l.begin(p, o.C, o.Op)
	defer l.end(p)
	switch o.Op {
	case "expect":
		key := lsnKey(o.From, o.Sid)
		var from jid.JID
		if o.From != "" {
			from = jid.MustParse(o.From)
		}
		w.lg.Add(vt.Ev{"ev": "expect_call", "p": p, "c": o.C, "key": key})
		out, got := "other:no listener", ""
		if w.ln != nil {
			w.guard(p, "b", "expect", func() {
				out = "other:panic"
				c, err := w.ln.Expect(l.ctx[o.C], from, o.Sid)
				out = callOutcome(err)
				if ic, ok := c.(*ibb.Conn); ok && err == nil {
					out, got = "stream", ":"+ic.SID()
				}
			})
		}
		w.lg.Add(vt.Ev{"ev": "expect_ret", "p": p, "c": o.C, "out": out, "key": got})
	case "accept":
		if w.ln == nil {
			return
		}
		w.lg.Add(vt.Ev{"ev": "accept_call", "p": p, "c": o.C})
		out, got := "other:panic", ""
		w.guard(p, "b", "accept", func() {
			c, err := w.ln.Accept()
			out = callOutcome(err)
			if ic, ok := c.(*ibb.Conn); ok && err == nil {
				out, got = "stream", ":"+ic.SID()
			}
		})
		w.lg.Add(vt.Ev{"ev": "accept_ret", "p": p, "c": o.C, "out": out, "key": got})
	case "cancel":
		w.lcancel(o.C)
	case "lclose":
		w.lclose(p)
	case "open":
		w.lg.Add(vt.Ev{"ev": "req_call", "p": p, "c": o.C, "kind": "open", "key": lsnKey("", o.Sid)})
		out := "other:panic"
		w.guard(p, "a", "open", func() {
			c, err := w.h["a"].OpenIQ(l.ctx[o.C], stanza.IQ{To: jid.MustParse("b@example.net")}, w.sess["a"], true, 0, o.Sid)
			out = callOutcome(err)
			if err == nil && c == nil {
				out = "other:nil conn"
			}
		})
		w.lg.Add(vt.Ev{"ev": "req_ret", "p": p, "c": o.C, "out": out})
	case "ping":
		w.lg.Add(vt.Ev{"ev": "req_call", "p": p, "c": o.C, "kind": "ping", "key": "-"})
		out := "other:panic"
		w.guard(p, "a", "ping", func() {
			err := w.sess["a"].UnmarshalIQElement(l.ctx[o.C],
				xmlstream.Wrap(nil, xml.StartElement{Name: xml.Name{Space: "urn:xmpp:ping", Local: "ping"}}),
				stanza.IQ{Type: stanza.GetIQ, To: jid.MustParse("b@example.net")}, nil)
			out = callOutcome(err)
		})
		w.lg.Add(vt.Ev{"ev": "req_ret", "p": p, "c": o.C, "out": out})
	default:
		panic("listener op " + o.Op)
	}
}

func (w *World) lcancel(c string) {
	l := w.lsn
	l.mu.Lock()
	cancel, done := l.cancel[c], l.cancelled[c]
	l.cancelled[c] = true
	l.mu.Unlock()
	if cancel == nil || done {
		return
	}
	w.lg.Add(vt.Ev{"ev": "cancel", "c": c})
	cancel()
}

func (w *World) lclose(p string) {
	l := w.lsn
	l.mu.Lock()
	done := l.lclosed
	l.lclosed = true
	l.mu.Unlock()
	if w.ln == nil || done {
		return
	}
	w.lg.Add(vt.Ev{"ev": "lclose_call", "p": p})
	w.guard(p, "b", "lclose", func() { w.ln.Close() })
	w.lg.Add(vt.Ev{"ev": "lclose_ret", "p": p})
}

// installGates makes transport reads / writes and the package's yield points scheduling points
// (same arrangement as runSched).
func (w *World) installGates(sched *vt.Sched) {
	for _, e := range []string{"a", "b"} {
		e := e
		w.conn[e].Starve = nil
		w.conn[e].Gate = func(point string) {
			if point == "conn.read" {
				w.imu.Lock()
				for w.conn[e].InputEmpty() {
					if !w.starve[e] {
						w.starve[e] = true
						w.icond.Broadcast()
					}
					w.icond.Wait()
				}
				w.imu.Unlock()
			}
			sched.Gate(point)
		}
	}
	ibb.VerifHook = func(point, id string) {
		if !sched.Mine() {
			return
		}
		who := sched.Who()
		if who == "env" {
			return
		}
		w.lg.Add(vt.Ev{"ev": "hook", "p": who, "e": w.pe[who], "point": point})
		sched.Gate(point)
	}
}

// runListen: one schedule of a listener scenario under the single-runner scheduler.
func runListen(sc Scenario, seed int64, choices []int) result {
	w := newWorld(sc, seed)
	w.lsn = newLsn(sc)
	w.start()
	sched := vt.NewSched()
	w.sched = sched
	if os.Getenv("IBB_DEBUG") != "" {
		time.AfterFunc(3*time.Second, func() {
			buf := make([]byte, 1<<20)
			n := runtime.Stack(buf, true)
			os.Stderr.Write(buf[:n])
		})
	}
	w.installGates(sched)
	defer func() { ibb.VerifHook = nil }()
	sched.Enabled = false
	for _, e := range []string{"a", "b"} {
		e := e
		sched.Go("s"+e, func() { w.serveEnded(e, w.sess[e].Serve(w.handler(e))) })
	}
	w.waitIdle()
	sched.Enabled = true
	names := []string{}
	startProc := func(p Proc) {
		names = append(names, p.Name)
		w.pe[p.Name] = "b"
		sched.Go(p.Name, func() {
			for _, o := range p.Ops {
				if o.Op == "cancel" || o.Op == "lclose" {
					sched.Gate(o.Op) // a scheduling point of its own
				}
				w.lexec(p.Name, o)
			}
			w.setFin(p.Name)
		})
	}
	for _, p := range sc.Procs {
		startProc(p)
	}
	blocked := func() []vt.Ev {
		bl := []vt.Ev{}
		for _, n := range names {
			if w.isFin(n) {
				continue
			}
			c, kind := w.lsn.current(n)
			bl = append(bl, vt.Ev{"p": n, "c": c, "in": kind})
		}
		sort.Slice(bl, func(i, j int) bool { return bl[i]["p"].(string) < bl[j]["p"].(string) })
		return bl
	}
	ended, lateUsed := false, false
	finish := func() {
		ended = true
		w.lg.Add(vt.Ev{"ev": "end"})
		w.setOver()
		w.imu.Lock()
		w.conn["a"].CloseIn()
		w.conn["b"].CloseIn()
		w.icond.Broadcast()
		w.imu.Unlock()
	}
	res, note := sched.Drive(choices, 3000, func() bool {
		if ended {
			return false
		}
		bl := blocked()
		serving := w.lsn.isServing()
		if len(bl) > 0 || serving {
			w.lg.Add(vt.Ev{"ev": "stuck", "blocked": bl, "serving": serving, "status": fmt.Sprint(sched.Blocked())})
		}
		// (1) every caller that is still waiting goes away
		n := 0
		for _, b := range bl {
			if c := b["c"].(string); w.lsn.cancellable(c) {
				w.lcancel(c)
				n++
			}
		}
		if n > 0 {
			return true
		}
		accepting := false
		for _, b := range bl {
			if b["in"] == "accept" {
				accepting = true
			}
		}
		// (2) somebody accepts what the serve loop is holding
		if serving && !accepting && !lateUsed && w.ln != nil && !w.lsn.isClosed() {
			lateUsed = true
			startProc(Proc{Name: "zlate", Ops: []Op{{Op: "accept", C: "aL"}}})
			return true
		}
		// (3) the listener is closed: pending Accept calls return
		if accepting && w.ln != nil && !w.lsn.isClosed() {
			w.lclose("env")
			return true
		}
		finish()
		return true
	})
	if !ended {
		finish()
	}
	sched.Stop()
	if note == "stuck" {
		note = ""
	}
	evs := w.lg.Events()
	for i, e := range evs {
		if e["ev"] == "stuck" {
			note = "stuck"
		}
		if e["ev"] == "end" {
			evs = evs[:i+1]
			break
		}
	}
	return result{evs: evs, res: res, note: note}
}
