package main

// Listener scenarios (Scenario.Mode == "listen"): the ACCEPTING side's rendezvous API of the ibb
// package - Handler.Listen, Listener.Accept, Listener.Expect, Listener.Close - against the real serve
// loops that handle real open requests of the peer sessions.  One trace per schedule, validated
// against tla/IBBListen.tla (TrIBBListen.tla).
//
// The accepting application has session b (peer a) and, with Scenario.Pair2, a second served session
// c (peer d); b and c share ONE ibb.Handler.  Op.E names the session an operation belongs to: the
// session whose listener is used (expect, accept, lclose, listen) or that the request is sent to
// (open, ping: performed by the peer of that session).
//
// Every call has a name (Op.C) and a context of its own.  Events:
//
//	expect_call {c,l,key} / expect_ret {c,out,key}   out: stream | ctx | closed | other:<error>
//	accept_call {c,l}     / accept_ret {c,out,key}
//	req_call {c,l,kind,key} / req_ret {c,out}        Open or an unrelated request of the peer; out: ok | err | ctx
//	cancel {c}                                        logged BEFORE the context is cancelled
//	lclose_call {c,l} / lclose_ret {c}                Listener.Close (any number of times)
//	listen_call {c,l} / listen_ret {c,ok}             Handler.Listen(session l); ok: a listener was returned, the
//	                                                  same one as before if the session had one
//	wire / deliver / reply                            as in the byte-pipe scenarios, plus the name of the request
//	stuck {blocked:[{c,in}], serving:{b,c}}           every goroutine is blocked (TrStuck judges)
//
// When every goroutine is blocked the driver records `stuck` and then lets the environment do what a
// real application / peer may legitimately do next, one step at a time: (1) every caller that is
// still waiting goes away (its context is cancelled), (2) somebody calls Accept on the listener of a
// session whose serve loop waits in a handler, (3) a listener with a waiting Accept is closed.  After
// each step the run continues; the specification judges every `stuck` state and the final state.

import (
	"context"
	"encoding/xml"
	"errors"
	"fmt"
	"os"
	"runtime"
	"sort"
	"strings"
	"sync"
	"time"

	"mellium.im/xmlstream"
	"mellium.im/xmpp/ibb"
	"mellium.im/xmpp/jid"
	"mellium.im/xmpp/stanza"

	"verifharness/vt"
)

type lsnState struct {
	mu        sync.Mutex
	ctx       map[string]context.Context
	cancel    map[string]context.CancelFunc
	cancelled map[string]bool
	curCall   map[string]string // proc -> call in progress
	curKind   map[string]string // proc -> expect | accept | open | ping | ...
	curL      map[string]string // proc -> session of the call in progress
	idc       map[string]string // stanza id -> request name
	serving   map[string]bool   // the handler of accepting session b / c is running
	lclosed   map[string]bool   // Close has been called on the listener of session b / c
}

func newLsn(sc Scenario) *lsnState {
	l := &lsnState{ctx: map[string]context.Context{}, cancel: map[string]context.CancelFunc{}, cancelled: map[string]bool{},
		curCall: map[string]string{}, curKind: map[string]string{}, curL: map[string]string{}, idc: map[string]string{},
		serving: map[string]bool{"b": false, "c": false}, lclosed: map[string]bool{}}
	for _, p := range sc.Procs {
		for _, o := range p.Ops {
			switch o.Op {
			case "expect", "open", "ping":
				l.ctx[o.C], l.cancel[o.C] = context.WithCancel(context.Background())
			}
		}
	}
	return l
}

func (l *lsnState) setServing(e string, v bool) { l.mu.Lock(); l.serving[e] = v; l.mu.Unlock() }
func (l *lsnState) servingNow() map[string]bool {
	l.mu.Lock()
	defer l.mu.Unlock()
	return map[string]bool{"b": l.serving["b"], "c": l.serving["c"]}
}

// decorate adds the name of the request to a wire / deliver / reply event.  A request on the wire is
// attributed to the call in progress of the goroutine that writes it.
func (l *lsnState) decorate(ev vt.Ev, who string) {
	l.mu.Lock()
	defer l.mu.Unlock()
	id, _ := ev["id"].(string)
	if ev["ev"] == "wire" && who != "" {
		if c := l.curCall[who]; c != "" && (l.curKind[who] == "open" || l.curKind[who] == "ping") {
			l.idc[id] = c
		}
	}
	ev["c"] = l.idc[id]
}

func (l *lsnState) cancellable(c string) bool {
	l.mu.Lock()
	defer l.mu.Unlock()
	return l.cancel[c] != nil && !l.cancelled[c]
}

func (l *lsnState) isClosed(e string) bool { l.mu.Lock(); defer l.mu.Unlock(); return l.lclosed[e] }

func (l *lsnState) begin(p, c, kind, e string) {
	l.mu.Lock()
	l.curCall[p], l.curKind[p], l.curL[p] = c, kind, e
	l.mu.Unlock()
}

func (l *lsnState) end(p string) {
	l.mu.Lock()
	l.curCall[p], l.curKind[p], l.curL[p] = "", "", ""
	l.mu.Unlock()
}

func (l *lsnState) current(p string) (string, string, string) {
	l.mu.Lock()
	defer l.mu.Unlock()
	return l.curCall[p], l.curKind[p], l.curL[p]
}

func lsnKey(from, sid string) string {
	if from == "" {
		return ":" + sid
	}
	return jid.MustParse(from).String() + ":" + sid
}

func callOutcome(err error) string {
	switch {
	case err == nil:
		return "ok"
	case errors.Is(err, context.Canceled), errors.Is(err, context.DeadlineExceeded):
		return "ctx"
	case strings.Contains(err.Error(), "closed listener"):
		return "closed"
	}
	var se stanza.Error
	if errors.As(err, &se) {
		return "err"
	}
	return "other:" + err.Error()
}

// lexec performs one operation of a listener scenario.
func (w *World) lexec(p string, o Op) {
	l := w.lsn
	e := o.E
	if e != "c" {
		e = "b"
	}
	l.begin(p, o.C, o.Op, e)
	defer l.end(p)
	switch o.Op {
	case "expect":
		key := lsnKey(o.From, o.Sid)
		var from jid.JID
		if o.From != "" {
			from = jid.MustParse(o.From)
		}
		ln := w.getLn(e)
		if ln == nil {
			panic("scenario: expect on a session without listener")
		}
		w.lg.Add(vt.Ev{"ev": "expect_call", "p": p, "c": o.C, "l": e, "key": key})
		out, got := "other:panic", ""
		w.guard(p, e, "expect", func() {
			c, err := ln.Expect(l.ctx[o.C], from, o.Sid)
			out = callOutcome(err)
			if ic, ok := c.(*ibb.Conn); ok && err == nil {
				out, got = "stream", ":"+ic.SID()
			}
		})
		w.lg.Add(vt.Ev{"ev": "expect_ret", "p": p, "c": o.C, "out": out, "key": got})
	case "accept":
		ln := w.getLn(e)
		if ln == nil {
			panic("scenario: accept on a session without listener")
		}
		w.lg.Add(vt.Ev{"ev": "accept_call", "p": p, "c": o.C, "l": e})
		out, got := "other:panic", ""
		w.guard(p, e, "accept", func() {
			c, err := ln.Accept()
			out = callOutcome(err)
			if ic, ok := c.(*ibb.Conn); ok && err == nil {
				out, got = "stream", ":"+ic.SID()
			}
		})
		w.lg.Add(vt.Ev{"ev": "accept_ret", "p": p, "c": o.C, "out": out, "key": got})
	case "cancel":
		w.lcancel(o.C)
	case "lclose":
		c := o.C
		if c == "" {
			c = "c1"
		}
		w.lclose(p, c, e)
	case "listen":
		prev := w.getLn(e)
		w.lg.Add(vt.Ev{"ev": "listen_call", "p": p, "c": o.C, "l": e})
		var ln *ibb.Listener
		w.guard(p, e, "listen", func() { ln = w.h["b"].Listen(w.sess[e]) })
		ok := ln != nil && (prev == nil || prev == ln || l.isClosed(e))
		if ln != nil {
			w.setLn(e, ln)
		}
		w.lg.Add(vt.Ev{"ev": "listen_ret", "p": p, "c": o.C, "ok": ok})
	case "open":
		from := peerOf(e)
		w.lg.Add(vt.Ev{"ev": "req_call", "p": p, "c": o.C, "l": e, "kind": "open", "key": lsnKey("", o.Sid)})
		out := "other:panic"
		w.guard(p, from, "open", func() {
			c, err := w.h[from].OpenIQ(l.ctx[o.C], stanza.IQ{To: jid.MustParse(e + "@example.net")}, w.sess[from], true, 0, o.Sid)
			out = callOutcome(err)
			if err == nil && c == nil {
				out = "other:nil conn"
			}
		})
		w.lg.Add(vt.Ev{"ev": "req_ret", "p": p, "c": o.C, "out": out})
	case "ping":
		from := peerOf(e)
		w.lg.Add(vt.Ev{"ev": "req_call", "p": p, "c": o.C, "l": e, "kind": "ping", "key": "-"})
		out := "other:panic"
		w.guard(p, from, "ping", func() {
			err := w.sess[from].UnmarshalIQElement(l.ctx[o.C],
				xmlstream.Wrap(nil, xml.StartElement{Name: xml.Name{Space: "urn:xmpp:ping", Local: "ping"}}),
				stanza.IQ{Type: stanza.GetIQ, To: jid.MustParse(e + "@example.net")}, nil)
			out = callOutcome(err)
		})
		w.lg.Add(vt.Ev{"ev": "req_ret", "p": p, "c": o.C, "out": out})
	default:
		panic("listener op " + o.Op)
	}
}

func (w *World) lcancel(c string) {
	l := w.lsn
	l.mu.Lock()
	cancel, done := l.cancel[c], l.cancelled[c]
	l.cancelled[c] = true
	l.mu.Unlock()
	if cancel == nil || done {
		return
	}
	w.lg.Add(vt.Ev{"ev": "cancel", "c": c})
	cancel()
}

// lclose: Listener.Close call c on the listener of session e (as often as the scenario says)
func (w *World) lclose(p, c, e string) {
	l := w.lsn
	ln := w.getLn(e)
	if ln == nil {
		panic("scenario: lclose on a session without listener")
	}
	l.mu.Lock()
	l.lclosed[e] = true
	l.mu.Unlock()
	w.lg.Add(vt.Ev{"ev": "lclose_call", "p": p, "c": c, "l": e})
	w.guard(p, e, "lclose", func() { ln.Close() })
	w.lg.Add(vt.Ev{"ev": "lclose_ret", "p": p, "c": c})
}

// installGates makes transport reads / writes and the package's yield points scheduling points
// (same arrangement as runSched).
func (w *World) installGates(sched *vt.Sched) {
	for _, e := range w.ends {
		e := e
		w.conn[e].Starve = nil
		w.conn[e].Gate = func(point string) {
			if point == "conn.read" {
				w.imu.Lock()
				for w.conn[e].InputEmpty() {
					if !w.starve[e] {
						w.starve[e] = true
						w.icond.Broadcast()
					}
					w.icond.Wait()
				}
				w.imu.Unlock()
			}
			sched.Gate(point)
		}
	}
	ibb.VerifHook = func(point, id string) {
		if !sched.Mine() {
			return
		}
		who := sched.Who()
		if who == "env" {
			return
		}
		w.lg.Add(vt.Ev{"ev": "hook", "p": who, "e": w.pe[who], "point": point})
		sched.Gate(point)
	}
}

// runListen: one schedule of a listener scenario under the single-runner scheduler.
func runListen(sc Scenario, seed int64, choices []int) result {
	w := newWorld(sc, seed)
	w.lsn = newLsn(sc)
	w.start()
	sched := vt.NewSched()
	w.sched = sched
	if os.Getenv("IBB_DEBUG") != "" {
		time.AfterFunc(3*time.Second, func() {
			buf := make([]byte, 1<<20)
			n := runtime.Stack(buf, true)
			os.Stderr.Write(buf[:n])
		})
	}
	w.installGates(sched)
	defer func() { ibb.VerifHook = nil }()
	sched.Enabled = false
	for _, e := range w.ends {
		e := e
		sched.Go("s"+e, func() { w.serveEnded(e, w.sess[e].Serve(w.handler(e))) })
	}
	w.waitIdle()
	sched.Enabled = true
	names := []string{}
	startProc := func(p Proc) {
		names = append(names, p.Name)
		w.pe[p.Name] = "b"
		sched.Go(p.Name, func() {
			for _, o := range p.Ops {
				if o.Op == "cancel" || o.Op == "lclose" || o.Op == "listen" {
					sched.Gate(o.Op) // a scheduling point of its own
				}
				w.lexec(p.Name, o)
			}
			w.setFin(p.Name)
		})
	}
	for _, p := range sc.Procs {
		startProc(p)
	}
	blocked := func() []vt.Ev {
		bl := []vt.Ev{}
		for _, n := range names {
			if w.isFin(n) {
				continue
			}
			c, kind, e := w.lsn.current(n)
			bl = append(bl, vt.Ev{"p": n, "c": c, "in": kind, "l": e})
		}
		sort.Slice(bl, func(i, j int) bool { return bl[i]["p"].(string) < bl[j]["p"].(string) })
		return bl
	}
	ended, lateUsed, envClosed := false, map[string]bool{}, map[string]bool{}
	finish := func() {
		ended = true
		w.lg.Add(vt.Ev{"ev": "end"})
		w.setOver()
		w.imu.Lock()
		for _, e := range w.ends {
			w.conn[e].CloseIn()
		}
		w.icond.Broadcast()
		w.imu.Unlock()
	}
	res, note := sched.Drive(choices, 3000, func() bool {
		if ended {
			return false
		}
		bl := blocked()
		serving := w.lsn.servingNow()
		if len(bl) > 0 || serving["b"] || serving["c"] {
			w.lg.Add(vt.Ev{"ev": "stuck", "blocked": bl, "serving": serving, "status": fmt.Sprint(sched.Blocked())})
		}
		// (1) every caller that is still waiting goes away
		n := 0
		for _, b := range bl {
			if c := b["c"].(string); w.lsn.cancellable(c) {
				w.lcancel(c)
				n++
			}
		}
		if n > 0 {
			return true
		}
		accepting := map[string]bool{}
		for _, b := range bl {
			if b["in"] == "accept" {
				accepting[b["l"].(string)] = true
			}
		}
		// (2) somebody accepts what a serve loop is holding
		for _, e := range []string{"b", "c"} {
			if serving[e] && !accepting[e] && !lateUsed[e] && w.getLn(e) != nil && !w.lsn.isClosed(e) {
				lateUsed[e] = true
				startProc(Proc{Name: "zlate" + e, Ops: []Op{{Op: "accept", C: "aL" + e, E: e}}})
				n++
			}
		}
		if n > 0 {
			return true
		}
		// (3) a listener with a waiting Accept is closed: pending Accept calls return.  (A goroutine of its
		// own: if that Close blocks, the next `stuck` state shows it.)
		for _, e := range []string{"b", "c"} {
			if accepting[e] && w.getLn(e) != nil && !envClosed[e] {
				envClosed[e] = true
				startProc(Proc{Name: "zclose" + e, Ops: []Op{{Op: "lclose", C: "cE" + e, E: e}}})
				n++
			}
		}
		if n > 0 {
			return true
		}
		finish()
		return true
	})
	if !ended {
		finish()
	}
	sched.Stop()
	if note == "stuck" {
		note = ""
	}
	evs := w.lg.Events()
	for i, e := range evs {
		if e["ev"] == "stuck" {
			note = "stuck"
		}
		if e["ev"] == "end" {
			evs = evs[:i+1]
			break
		}
	}
	return result{evs: evs, res: res, note: note}
}
