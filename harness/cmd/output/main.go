// Command output explores schedules of the real session's output side (transmit entry
// points, Close, Serve's shutdown, handler replies, the error path) under the single-runner
// scheduler and records one trace per schedule for validation against tla/Output.tla.
//
//	output run <scenarios.ndjson> <trace.ndjson>     env: OUT_MAXPRE, OUT_MAXRUNS, OUT_SHARD=i/n
package main

import (
	"bufio"
	"context"
	"encoding/json"
	"encoding/xml"
	"errors"
	"fmt"
	"io"
	"os"
	"strconv"
	"strings"
	"time"

	"mellium.im/xmlstream"
	"mellium.im/xmpp"
	"mellium.im/xmpp/jid"
	"mellium.im/xmpp/stanza"
	"mellium.im/xmpp/stream"

	"verifharness/vt"
)

type Proc struct {
	Name  string   `json:"name"`
	Calls []string `json:"calls"` // send sendel encode encodeel tw sendiqres close
}

type Scenario struct {
	Procs  []Proc   `json:"procs"`
	Serve  bool     `json:"serve"`
	Script []string `json:"script"` // stanza stanza_reply stanza_herr close streamerr
	Big    bool     `json:"big"`
	S2S    bool     `json:"s2s"`
	// FailClose: the transport fails the (first) write of the closing stream tag
	FailClose bool `json:"failclose"`
	// MaxRuns caps the schedules explored for this scenario (0: the run's own bound); used by the scenarios that
	// let real time go by
	MaxRuns int `json:"maxruns,omitempty"`
	// MaxPre raises the pre-emption bound for this scenario (0: the run's own bound)
	MaxPre int `json:"maxpre,omitempty"`
}

const hdrIn = `<stream:stream from="example.net" to="me@example.net" id="123" version="1.0" xmlns="jabber:client" xmlns:stream="http://etherx.jabber.org/streams">`

func capRuns(run, scen int) int {
	if scen > 0 && (run == 0 || scen < run) {
		return scen
	}
	return run
}

func nopNeg(ns string) xmpp.Negotiator {
	return func(ctx context.Context, in, out *stream.Info, s *xmpp.Session, data interface{}) (xmpp.SessionState, io.ReadWriter, interface{}, error) {
		rc := s.TokenReader()
		defer rc.Close()
		for {
			tok, err := rc.Token()
			if err != nil {
				return 0, nil, nil, err
			}
			if st, ok := tok.(xml.StartElement); ok {
				if err := in.FromStartElement(st); err != nil {
					return 0, nil, nil, err
				}
				break
			}
		}
		out.XMLNS = ns
		return xmpp.Ready, nil, nil, nil
	}
}

func abstractKind(k string) string {
	switch k {
	case "close":
		return "close"
	case "sendc", "encodec":
		return "txc"
	case "twclose2":
		return "sclose"
	case "twwrite2":
		return "stx"
	}
	return "tx"
}

// handles are the token writers a goroutine has closed: it may use them again ("twclose2", "twwrite2").
type handles struct {
	last xmlstream.TokenWriteFlushCloser
	// gate is a yield point of the application itself: between the Close of a token writer and the next use of the
	// dead handle other goroutines run
	gate func(point string)
}

func errClass(err error) string {
	switch {
	case err == nil:
		return "nil"
	case errors.Is(err, xmpp.ErrOutputStreamClosed):
		return "closed"
	case errors.Is(err, xmpp.ErrInputStreamClosed):
		return "inclosed"
	}
	var se stream.Error
	if errors.As(err, &se) {
		return "streamerr"
	}
	return "other"
}

type msgBody struct {
	XMLName xml.Name `xml:"message"`
	ID      string   `xml:"id,attr"`
	Body    string   `xml:"body"`
}

type innerBody struct {
	XMLName xml.Name `xml:"urn:vt:inner q"`
	Body    string   `xml:"body"`
}

func filler(mark string, big bool) string {
	n := 1
	if big {
		n = 6000/(len(mark)+1) + 1
	}
	return strings.TrimSpace(strings.Repeat(mark+" ", n))
}

func doCall(sess *xmpp.Session, kind, mark string, big bool, hs *handles) error {
	ctx := context.Background()
	text := filler(mark, big)
	body := func() xml.TokenReader {
		return xmlstream.Wrap(xmlstream.Token(xml.CharData(text)), xml.StartElement{Name: xml.Name{Local: "body"}})
	}
	switch kind {
	case "send":
		return sess.Send(ctx, stanza.Message{ID: mark}.Wrap(body()))
	case "sendel":
		return sess.SendElement(ctx, body(), xml.StartElement{Name: xml.Name{Local: "message"}, Attr: []xml.Attr{{Name: xml.Name{Local: "id"}, Value: mark}}})
	case "encode":
		return sess.Encode(ctx, msgBody{ID: mark, Body: text})
	case "encodeel":
		return sess.EncodeElement(ctx, msgBody{ID: mark, Body: text}, xml.StartElement{Name: xml.Name{Local: "message"}, Attr: []xml.Attr{{Name: xml.Name{Local: "id"}, Value: mark}}})
	case "sendiqres":
		_, err := sess.SendIQ(ctx, stanza.IQ{ID: mark, Type: stanza.ResultIQ}.Wrap(body()))
		return err
	case "sendmsgerr":
		// the message / presence variants transmit without waiting when the stanza is of type error
		_, err := sess.SendMessage(ctx, stanza.Message{ID: mark, Type: stanza.ErrorMessage}.Wrap(body()))
		return err
	case "sendpreserr":
		_, err := sess.SendPresenceElement(ctx, body(), stanza.Presence{ID: mark, Type: stanza.ErrorPresence})
		return err
	case "encodemsgerr":
		_, err := sess.EncodeMessageElement(ctx, msgBody{ID: "inner", Body: text}, stanza.Message{ID: mark, Type: stanza.ErrorMessage})
		return err
	case "sendc", "encodec":
		// the context of the call is done before the call starts
		cctx, cancel := context.WithCancel(ctx)
		cancel()
		if kind == "sendc" {
			return sess.Send(cctx, stanza.Message{ID: mark}.Wrap(body()))
		}
		return sess.Encode(cctx, msgBody{ID: mark, Body: text})
	case "encodeiqres":
		_, err := sess.EncodeIQElement(ctx, innerBody{Body: text}, stanza.IQ{ID: mark, Type: stanza.ResultIQ})
		return err
	case "encodepreserr":
		_, err := sess.EncodePresenceElement(ctx, innerBody{Body: text}, stanza.Presence{ID: mark, Type: stanza.ErrorPresence})
		return err
	case "tw":
		w := sess.TokenWriter()
		start := xml.StartElement{Name: xml.Name{Local: "message"}, Attr: []xml.Attr{{Name: xml.Name{Local: "id"}, Value: mark}}}
		var first error
		note := func(err error) {
			if err != nil && first == nil {
				first = err
			}
		}
		note(w.EncodeToken(start))
		if first == nil {
			_, err := xmlstream.Copy(w, body())
			note(err)
		}
		if first == nil {
			note(w.EncodeToken(start.End()))
		}
		err := w.Close()
		if first == nil {
			note(err)
		}
		hs.last = w
		return first
	case "twclose2":
		// Close once more on a token writer this goroutine has closed already (the explicit Close plus a deferred one)
		if hs.last == nil {
			panic("scenario: twclose2 without a closed token writer")
		}
		hs.gate("app.twclose2")
		return hs.last.Close()
	case "twwrite2":
		// a whole element written (and flushed) through a token writer this goroutine has closed already
		if hs.last == nil {
			panic("scenario: twwrite2 without a closed token writer")
		}
		hs.gate("app.twwrite2")
		w := hs.last
		start := xml.StartElement{Name: xml.Name{Local: "message"}, Attr: []xml.Attr{{Name: xml.Name{Local: "id"}, Value: mark}}}
		var first error
		for _, tok := range []xml.Token{start, xml.CharData(text), start.End()} {
			if err := w.EncodeToken(tok); err != nil && first == nil {
				first = err
			}
		}
		if err := w.Flush(); err != nil && first == nil {
			first = err
		}
		return first
	case "close":
		return sess.Close()
	}
	panic("unknown call kind " + kind)
}

func itemBytes(it string, n int) string {
	switch it {
	case "stanza":
		return fmt.Sprintf("<message id='plain%d'><body>x</body></message>", n)
	case "stanza_reply":
		return fmt.Sprintf("<message id='reply%d'><body>x</body></message>", n)
	case "stanza_heof":
		return fmt.Sprintf("<message id='heof%d'><body>x</body></message>", n)
	case "close":
		return "</stream:stream>"
	case "streamerr":
		return "<stream:error><policy-violation xmlns='urn:ietf:params:xml:ns:xmpp-streams'/></stream:error>"
	}
	if strings.HasPrefix(it, "stanza_herr") {
		// the kind of error the handler returns travels in the id
		return fmt.Sprintf("<message id='herr%s%d'><body>x</body></message>", strings.TrimPrefix(strings.TrimPrefix(it, "stanza_herr"), "_"), n)
	}
	panic("unknown item " + it)
}

// handlerError is the error a handler returns for an item "stanza_herr[_kind]".
func handlerError(kind string) error {
	switch kind {
	case "":
		return errors.New("handler failed")
	case "weof":
		return fmt.Errorf("handler: no payload in the element: %w", io.EOF)
	case "ueof":
		return io.ErrUnexpectedEOF
	case "st":
		return stanza.Error{Type: stanza.Cancel, Condition: stanza.BadRequest}
	case "ctx":
		return fmt.Errorf("handler: %w", context.DeadlineExceeded)
	case "se":
		return stream.PolicyViolation
	case "wse":
		return fmt.Errorf("handler: %w", stream.BadFormat)
	}
	panic("unknown handler error kind " + kind)
}

type result struct {
	evs  []vt.Ev
	res  vt.RunResult
	note string
}

func runSchedule(sc Scenario, choices []int) result {
	lg := &vt.Log{}
	conn := vt.NewConn()
	conn.FeedString(hdrIn)
	ns := stanza.NSClient
	st := xmpp.SessionState(0)
	if sc.S2S {
		ns = stanza.NSServer
		st = xmpp.S2S
	}
	sess, err := xmpp.NewSession(context.Background(), jid.MustParse("example.net"), jid.MustParse("me@example.net"), conn, st, nopNeg(ns))
	if err != nil {
		panic(err)
	}
	hdrLen := len(conn.WireString())
	sched := vt.NewSched()
	xmpp.VerifHook = func(point, id string) {
		if !sched.Mine() {
			return
		}
		lg.Add(vt.Ev{"ev": "hook", "p": sched.Who(), "point": point})
		sched.Gate(point)
	}
	defer func() { xmpp.VerifHook = nil }()
	conn.Gate = func(point string) { sched.Gate(point) }
	conn.React = func(p []byte) {
		what := "elem"
		s := string(p)
		switch {
		case s == "</stream:stream>":
			what = "close"
		case strings.HasPrefix(s, "<stream:error") && !strings.Contains(s, "</stream:stream>"):
			what = "err"
		case strings.Contains(s, "</stream:stream>") || strings.Contains(s, "<stream:error"):
			what = "mixed"
		}
		lg.Add(vt.Ev{"ev": "write", "p": sched.Who(), "what": what, "n": len(p)})
	}
	if sc.FailClose {
		armed := true
		conn.FailWriteIf = func(p []byte) bool {
			if armed && string(p) == "</stream:stream>" {
				armed = false
				lg.Add(vt.Ev{"ev": "write", "p": sched.Who(), "what": "closefail", "n": len(p)})
				return true
			}
			return false
		}
	}
	for _, p := range sc.Procs {
		p := p
		sched.Go(p.Name, func() {
			hs := &handles{gate: func(point string) { sched.Gate(point) }}
			for i, k := range p.Calls {
				mark := fmt.Sprintf("%s.%d", p.Name, i+1)
				lg.Add(vt.Ev{"ev": "call", "p": p.Name, "k": abstractKind(k), "kind": k})
				var err error
				func() {
					defer func() {
						if r := recover(); r != nil {
							err = fmt.Errorf("panic: %v", r)
						}
					}()
					err = doCall(sess, k, mark, sc.Big, hs)
				}()
				cl := errClass(err)
				if (k == "twclose2" || k == "twwrite2") && err == io.EOF {
					cl = "eof" // what a closed token writer answers
				}
				e := vt.Ev{"ev": "ret", "p": p.Name, "k": abstractKind(k), "class": cl}
				if err != nil {
					e["err"] = err.Error()
				}
				lg.Add(e)
			}
		})
	}
	nReply := 0
	if sc.Serve {
		h := xmpp.HandlerFunc(func(t xmlstream.TokenReadEncoder, start *xml.StartElement) error {
			id := ""
			for _, a := range start.Attr {
				if a.Name.Local == "id" {
					id = a.Value
				}
			}
			switch {
			case strings.HasPrefix(id, "reply"):
				lg.Add(vt.Ev{"ev": "handler", "item": "stanza_reply"})
				nReply++
				mark := fmt.Sprintf("s.r%d", nReply)
				_, err := xmlstream.Copy(t, stanza.Message{ID: mark}.Wrap(
					xmlstream.Wrap(xmlstream.Token(xml.CharData(filler(mark, sc.Big))), xml.StartElement{Name: xml.Name{Local: "body"}})))
				if err != nil {
					lg.Add(vt.Ev{"ev": "ret", "p": "s", "k": "tx", "class": errClass(err), "err": err.Error()})
					return nil
				}
				// the reply is flushed and the lock released when the serve loop closes the
				// deferred writer after the handler returns: "ret" is logged from the wire
				return nil
			case strings.HasPrefix(id, "heof"):
				// a bare io.EOF: the handler reached the end of its element
				lg.Add(vt.Ev{"ev": "handler", "item": "stanza_heof"})
				return io.EOF
			case strings.HasPrefix(id, "herr"):
				kind := strings.TrimRight(strings.TrimPrefix(id, "herr"), "0123456789")
				item := "stanza_herr"
				if kind != "" {
					item += "_" + kind
				}
				herr := handlerError(kind)
				lg.Add(vt.Ev{"ev": "handler", "item": item, "err": herr.Error()})
				return herr
			}
			lg.Add(vt.Ev{"ev": "handler", "item": "stanza"})
			return nil
		})
		sched.Go("s", func() {
			lg.Add(vt.Ev{"ev": "call", "p": "s", "k": "serve", "kind": "serve"})
			err := sess.Serve(h)
			e := vt.Ev{"ev": "serve_ret", "p": "s", "class": errClass(err), "out": sess.State()&xmpp.OutputStreamClosed != 0, "in": sess.State()&xmpp.InputStreamClosed != 0}
			if err != nil {
				e["err"] = err.Error()
			}
			lg.Add(e)
			lg.Add(vt.Ev{"ev": "call", "p": "s", "k": "rx", "kind": "rx"})
			r := sess.TokenReader()
			_, err = r.Token()
			r.Close()
			lg.Add(vt.Ev{"ev": "ret", "p": "s", "k": "rx", "class": errClass(err)})
		})
		fed := 0
		for i, it := range sc.Script {
			i, it := i, it
			sched.Env(&vt.EnvAction{Name: fmt.Sprintf("peer%d:%s", i, it), Once: true,
				// the deadline items call SetCloseDeadline: an application call that must not be able to
				// hang the driver if the library blocks in it
				App:     it == "dlset" || it == "dl2" || it == "deadline",
				Enabled: func() bool { return fed == i },
				Do: func() {
					fed++
					if it == "dlset" {
						// SetCloseDeadline with a time virtual time has not reached yet
						lg.Add(vt.Ev{"ev": "deadline_set"})
						sess.SetCloseDeadline(time.Now().Add(24 * time.Hour))
						return
					}
					if it == "dl2" {
						// SetCloseDeadline twice in a row: a time one second away, then - replacing it - a time
						// virtual time has not reached yet. (The only real clock of this driver: the library keeps
						// the deadline in a context, whose timer cannot be virtualised. The two calls are
						// microseconds apart; "dlold" lets the second that was replaced go by.)
						lg.Add(vt.Ev{"ev": "deadline_set"})
						sess.SetCloseDeadline(time.Now().Add(time.Second))
						lg.Add(vt.Ev{"ev": "deadline_reset"})
						sess.SetCloseDeadline(time.Now().Add(24 * time.Hour))
						return
					}
					if it == "dlold" {
						time.Sleep(1300 * time.Millisecond)
						lg.Add(vt.Ev{"ev": "deadline_old"})
						return
					}
					if it == "dlfire" {
						// virtual time passes the deadline that was set (whatever the transport
						// has been told since)
						lg.Add(vt.Ev{"ev": "deadline"})
						conn.ExpireRead()
						return
					}
					if it == "deadline" {
						// the close deadline passes (a deadline already in the past: no real time involved)
						lg.Add(vt.Ev{"ev": "deadline"})
						sess.SetCloseDeadline(time.Unix(1, 0))
						return
					}
					lg.Add(vt.Ev{"ev": "peer", "item": it})
					conn.FeedString(itemBytes(it, i))
				}})
		}
	}
	sched.Start()
	var res vt.RunResult
	last := ""
	note := ""
	inputEnded := false
	for step := 0; ; step++ {
		opts := sched.Options()
		if len(opts) == 0 {
			if sched.Live() > 0 {
				// everybody is blocked: legitimate only if Serve waits for peer input the
				// script never sends - end the peer's byte stream once so it can finish.
				if sc.Serve && !inputEnded {
					inputEnded = true
					lg.Add(vt.Ev{"ev": "peer", "item": "eof"})
					conn.CloseIn()
					continue
				}
				lg.Add(vt.Ev{"ev": "stuck", "blocked": fmt.Sprint(sched.Blocked())})
				note = "stuck"
			}
			break
		}
		// put the goroutine that ran last first: choice 0 never pre-empts
		for i, o := range opts {
			if o.Name == last && o.Name != "env" {
				opts[0], opts[i] = opts[i], opts[0]
				break
			}
		}
		pre := make([]bool, len(opts))
		if opts[0].Name == last && last != "env" {
			for i := 1; i < len(opts); i++ {
				pre[i] = true
			}
		}
		res.NOpts = append(res.NOpts, len(opts))
		res.Preempt = append(res.Preempt, pre)
		ch := 0
		if step < len(choices) {
			ch = choices[step]
		}
		if ch >= len(opts) {
			ch = 0
		}
		last = opts[ch].Name
		sched.Take(opts[ch])
		if step > 400 {
			note = "runaway"
			break
		}
	}
	sched.Stop()
	conn.CloseIn()
	// what is on the wire after the library's own stream header
	wire := conn.WireString()[hdrLen:]
	lg.Add(vt.Ev{"ev": "parsed", "items": parseWire(wire)})
	return result{evs: lg.Events(), res: res, note: note}
}

// parseWire splits the wire into top-level items with owner attribution.
func parseWire(w string) []interface{} {
	items := []interface{}{}
	var sc vt.Scanner
	depth := 0
	var cur vt.Ev
	pure := true
	owner := ""
	for _, t := range sc.Feed([]byte(w)) {
		switch t.Kind {
		case "start", "empty":
			if depth == 0 {
				owner = t.Attr["id"]
				what := "elem"
				if t.Name == "stream:error" {
					what = "err"
					owner = ""
				}
				cur = vt.Ev{"what": what, "owner": ownerProc(owner), "mark": owner}
				pure = true
			}
			if t.Kind == "start" {
				depth++
			} else if depth == 0 {
				cur["complete"] = true
				cur["pure"] = true
				items = append(items, cur)
				cur = nil
			}
		case "end":
			if depth == 0 {
				// closing stream tag
				items = append(items, vt.Ev{"what": "close", "owner": "", "mark": "", "complete": true, "pure": true})
				continue
			}
			depth--
			if depth == 0 && cur != nil {
				cur["complete"] = true
				cur["pure"] = pure
				items = append(items, cur)
				cur = nil
			}
		case "text":
			if depth > 0 && owner != "" {
				for _, f := range strings.Fields(t.Text) {
					if f != owner {
						pure = false
					}
				}
			}
		}
	}
	if cur != nil {
		cur["complete"] = false
		cur["pure"] = pure
		items = append(items, cur)
	}
	return items
}

func ownerProc(mark string) string {
	if i := strings.IndexByte(mark, '.'); i > 0 {
		return mark[:i]
	}
	return ""
}

func main() {
	if len(os.Args) >= 3 && os.Args[1] == "vectors" {
		vectorsMain(os.Args[2:])
		return
	}
	if len(os.Args) < 4 || os.Args[1] != "run" {
		fmt.Fprintln(os.Stderr, "usage: output run <scenarios.ndjson> <trace.ndjson>")
		os.Exit(2)
	}
	f, err := os.Open(os.Args[2])
	if err != nil {
		panic(err)
	}
	var scs []Scenario
	rd := bufio.NewScanner(f)
	rd.Buffer(make([]byte, 1<<20), 1<<24)
	for rd.Scan() {
		var s Scenario
		if err := json.Unmarshal(rd.Bytes(), &s); err != nil {
			panic(err)
		}
		scs = append(scs, s)
	}
	f.Close()
	maxPre, _ := strconv.Atoi(os.Getenv("OUT_MAXPRE"))
	if os.Getenv("OUT_MAXPRE") == "" {
		maxPre = 2
	}
	maxRuns, _ := strconv.Atoi(os.Getenv("OUT_MAXRUNS"))
	shard, nshard := 0, 1
	if s := os.Getenv("OUT_SHARD"); s != "" {
		fmt.Sscanf(s, "%d/%d", &shard, &nshard)
	}
	tw, err := vt.NewTraceWriter(os.Args[3])
	if err != nil {
		panic(err)
	}
	runs, stuck := 0, 0
	distinct := map[string]bool{}
	var samples []interface{}
	for si, sc := range scs {
		if si%nshard != shard {
			continue
		}
		var lastRes result
		pre := maxPre
		if sc.MaxPre > pre {
			pre = sc.MaxPre
		}
		explore := vt.Explore
		if oc := os.Getenv("OUT_CHOICES"); oc != "" {
			// exactly one schedule (confirmation of a stall before it is reported)
			var fixed []int
			if err := json.Unmarshal([]byte(oc), &fixed); err != nil {
				panic(err)
			}
			explore = func(run func(choices []int) vt.RunResult, _, _ int, each func(choices []int) bool) int {
				run(fixed)
				each(fixed)
				return 1
			}
		}
		n := explore(func(choices []int) vt.RunResult {
			// (what is running, should the library bring the whole process down: a Go "fatal error" cannot be recovered)
			if cur, err := json.Marshal(vt.Ev{"scenario": sc, "choices": choices}); err == nil {
				os.WriteFile(os.Args[3]+".cur", cur, 0o644)
			}
			lastRes = runSchedule(sc, choices)
			return lastRes.res
		}, pre, capRuns(maxRuns, sc.MaxRuns), func(choices []int) bool {
			runs++
			if lastRes.note == "stuck" {
				stuck++
			}
			key, _ := json.Marshal(lastRes.evs)
			if distinct[string(key)] {
				return true
			}
			distinct[string(key)] = true
			procs := []string{}
			progs := []interface{}{}
			for _, p := range sc.Procs {
				procs = append(procs, p.Name)
				ks := []string{}
				for _, k := range p.Calls {
					ks = append(ks, abstractKind(k))
				}
				progs = append(progs, vt.Ev{"p": p.Name, "calls": ks})
			}
			if sc.Serve {
				procs = append(procs, "s")
				progs = append(progs, vt.Ev{"p": "s", "calls": []string{"serve", "rx"}})
			}
			script := []string{}
			for _, it := range sc.Script {
				if it != "deadline" && it != "dlset" && it != "dlfire" && it != "dl2" && it != "dlold" {
					script = append(script, it)
				}
			}
			t := tw.Write(vt.Ev{"procs": procs, "progs": progs, "script": script, "failclose": sc.FailClose}, lastRes.evs)
			tw.Meta(vt.Ev{"scenario": sc, "choices": choices, "note": lastRes.note})
			if len(samples) < 2 {
				samples = append(samples, vt.Ev{"t": t, "scenario": sc, "choices": choices, "events": lastRes.evs})
			}
			return true
		})
		_ = n
	}
	if err := tw.Close(); err != nil {
		panic(err)
	}
	tr, ev := tw.Counts()
	vt.Summary{Traces: tr, Events: ev, Evaluations: runs, Distinct: len(distinct), Samples: samples,
		Extra: map[string]interface{}{"stuck": stuck}}.Print()
}
