package main

import (
	"bufio"
	"context"
	"encoding/json"
	"encoding/xml"
	"fmt"
	"io"
	"os"
	"runtime"
	"strings"
	"sync"
	"time"

	"mellium.im/xmlstream"
	"mellium.im/xmpp"
	"mellium.im/xmpp/component"
	"mellium.im/xmpp/jid"
	"mellium.im/xmpp/stanza"
	"mellium.im/xmpp/websocket"

	"verifharness/vt"
)

type vecIn struct {
	Name   string `json:"name"`
	Space  string `json:"space"`
	ID     string `json:"id"`
	From   string `json:"from"`
	Nested bool   `json:"nested"`
	S2S    bool   `json:"s2s"`
	Form   string `json:"form"`
	// the session the call is made on (Transmit.tla, Sessions)
	Kind string `json:"kind"` // c2s | s2s | ws | comp
	Role string `json:"role"` // init | recv
	Via  string `json:"via"`  // custom | pkg | gen
	// how the start tokens of the payload's namespaced child elements carry their namespace: plain (no such child) |
	// space (Name.Space) | attr (xmlns attribute) | both (as an xml.Decoder delivers them)
	Kids string `json:"kids"`
}

type vecExp struct {
	Count   int      `json:"count"`
	Name    string   `json:"name"`
	Space   []string `json:"space"`
	ID      []string `json:"id"`
	From    []string `json:"from"`
	Outer   string   `json:"outer"`
	Nested  string   `json:"nested"`
	Payload string   `json:"payload"`
	Next    string   `json:"next"`
	Kids    string   `json:"kids"`
	NS      string   `json:"ns"`      // the stream's content namespace, by the specification: client | server | accept
	Context string   `json:"context"` // header (a stream header declares the content namespace) | standalone (every element is a document of its own)
}

type vector struct {
	In  vecIn  `json:"in"`
	Exp vecExp `json:"exp"`
}

// values of the three Go shapes a transmit argument can take besides a token reader
type marshalerVal struct {
	start xml.StartElement
	inner func() xml.TokenReader
}

func (m marshalerVal) MarshalXML(e *xml.Encoder, _ xml.StartElement) error {
	if err := e.EncodeToken(m.start); err != nil {
		return err
	}
	r := m.inner()
	for {
		tok, err := r.Token()
		if tok != nil {
			if e2 := e.EncodeToken(xml.CopyToken(tok)); e2 != nil {
				return e2
			}
		}
		if err == io.EOF {
			break
		}
		if err != nil {
			return err
		}
		if tok == nil {
			break
		}
	}
	return e.EncodeToken(m.start.End())
}

type streamMarshalerVal struct{ marshalerVal }

func (m streamMarshalerVal) TokenReader() xml.TokenReader {
	return xmlstream.Wrap(m.inner(), m.start)
}

type writerToVal struct{ streamMarshalerVal }

func (m writerToVal) WriteXML(w xmlstream.TokenWriter) (int, error) {
	return xmlstream.Copy(w, m.TokenReader())
}

const (
	theID   = "given-id"
	theFrom = "sender@from.example/r"
	nsOther = "urn:vt:foreign"
	nsKid   = "urn:vt:kid"
)

const (
	streamNS  = "http://etherx.jabber.org/streams"
	framingNS = "urn:ietf:params:xml:ns:xmpp-framing"
	readyNS   = "urn:x:verif:ready"
)

// nsOf maps the specification's symbol of a content namespace to the namespace name.
func nsOf(sym string) string {
	switch sym {
	case "server":
		return stanza.NSServer
	case "accept":
		return component.NSAccept
	}
	return stanza.NSClient
}

// readyFeature stands in for resource binding on received sessions negotiated by the library's own
// negotiator: required, without payload, ends the negotiation.
func readyFeature() xmpp.StreamFeature {
	return xmpp.StreamFeature{
		Name:       xml.Name{Space: readyNS, Local: "ready"},
		Prohibited: xmpp.Ready,
		List: func(ctx context.Context, e xmlstream.TokenWriter, start xml.StartElement) (bool, error) {
			if err := e.EncodeToken(start); err != nil {
				return true, err
			}
			return true, e.EncodeToken(start.End())
		},
		Parse: func(ctx context.Context, d *xml.Decoder, start *xml.StartElement) (bool, interface{}, error) {
			return true, nil, d.Skip()
		},
		Negotiate: func(ctx context.Context, s *xmpp.Session, data interface{}) (xmpp.SessionState, io.ReadWriter, error) {
			if s.State()&xmpp.Received != 0 {
				rd := s.TokenReader()
				defer rd.Close()
				d := xml.NewTokenDecoder(rd)
				if _, err := d.Token(); err != nil {
					return 0, nil, err
				}
				if err := d.Skip(); err != nil {
					return 0, nil, err
				}
				_, err := fmt.Fprintf(s.Conn(), `<ok xmlns='%s'/>`, readyNS)
				return xmpp.Ready, nil, err
			}
			_, err := fmt.Fprintf(s.Conn(), `<ready xmlns='%s'/>`, readyNS)
			return xmpp.Ready, nil, err
		},
	}
}

func tcpHeader(ns, from, to, id string) string {
	a := ""
	for _, kv := range [][2]string{{"from", from}, {"to", to}, {"id", id}} {
		if kv[1] != "" {
			a += fmt.Sprintf(` %s="%s"`, kv[0], kv[1])
		}
	}
	return fmt.Sprintf(`<stream:stream%s version="1.0" xmlns="%s" xmlns:stream="%s">`, a, ns, streamNS)
}

func wsOpen(from, to, id string) string {
	a := ""
	for _, kv := range [][2]string{{"from", from}, {"to", to}, {"id", id}} {
		if kv[1] != "" {
			a += fmt.Sprintf(` %s="%s"`, kv[0], kv[1])
		}
	}
	return fmt.Sprintf(`<open xmlns="%s"%s version="1.0"/>`, framingNS, a)
}

// normSess fills in the session of vectors written before the session dimension existed (replay files).
func normSess(in *vecIn, exp *vecExp) {
	if in.Kind == "" {
		in.Kind, in.Role, in.Via = "c2s", "init", "custom"
		if in.S2S {
			in.Kind = "s2s"
		}
	}
	if exp.NS == "" {
		exp.NS = map[string]string{"c2s": "client", "ws": "client", "s2s": "server", "comp": "accept"}[in.Kind]
	}
	if exp.Context == "" {
		exp.Context = "header"
		if in.Kind == "ws" {
			exp.Context = "standalone"
		}
	}
}

// openVecSession makes the session in.Kind / in.Role / in.Via over conn: the peer's whole part of the
// negotiation is fed first. It returns the session and the address the session has to call its own (what the
// constructor was given on initiated sessions, what the peer's header names on received ones).
// ns is the content namespace the SPECIFICATION assigns to the kind: peers and applications use it, the library
// has to arrive at it by itself where its own negotiator is in charge.
func openVecSession(in vecIn, ns string, conn *vt.Conn) (*xmpp.Session, string, error) {
	ctx, cancel := context.WithTimeout(context.Background(), 20*time.Second)
	defer cancel()
	j := jid.MustParse
	recv := in.Role == "recv"
	var state xmpp.SessionState
	if in.Kind == "s2s" {
		state |= xmpp.S2S
	}
	var fs []xmpp.StreamFeature
	if recv {
		fs = append(fs, readyFeature())
	}
	cfg := func(*xmpp.Session, *xmpp.StreamConfig) xmpp.StreamConfig { return xmpp.StreamConfig{Features: fs} }
	// what ends the negotiation on the peer's side, after its header
	rest := "<stream:features/>"
	if recv {
		rest = `<ready xmlns="` + readyNS + `"/>`
	}
	if in.Via == "custom" {
		// the application's own negotiator: it reads the header and declares the content namespace of the kind
		local := "me@example.net"
		if in.Kind == "comp" {
			local = "comp.example.net"
		}
		conn.FeedString(tcpHeader(ns, "example.net", local, "123"))
		if recv {
			s, err := xmpp.ReceiveSession(ctx, conn, state, nopNeg(ns))
			return s, local, err
		}
		s, err := xmpp.NewSession(ctx, j("example.net"), j(local), conn, state, nopNeg(ns))
		return s, local, err
	}
	switch in.Kind + "/" + in.Role {
	case "c2s/init":
		conn.FeedString(tcpHeader(ns, "example.net", "me@example.net", "sid1") + rest)
		if in.Via == "pkg" {
			s, err := xmpp.NewClientSession(ctx, j("me@example.net"), conn, fs...)
			return s, "me@example.net", err
		}
		s, err := xmpp.NewSession(ctx, j("example.net"), j("me@example.net"), conn, state, xmpp.NewNegotiator(cfg))
		return s, "me@example.net", err
	case "c2s/recv":
		conn.FeedString(tcpHeader(ns, "", "example.net", "") + rest)
		if in.Via == "pkg" {
			s, err := xmpp.ReceiveClientSession(ctx, jid.JID{}, conn, fs...)
			return s, "example.net", err
		}
		s, err := xmpp.ReceiveSession(ctx, conn, state, xmpp.NewNegotiator(cfg))
		return s, "example.net", err
	case "s2s/init":
		conn.FeedString(tcpHeader(ns, "example.net", "example.com", "sid1") + rest)
		if in.Via == "pkg" {
			s, err := xmpp.NewServerSession(ctx, j("example.net"), j("example.com"), conn, fs...)
			return s, "example.com", err
		}
		s, err := xmpp.NewSession(ctx, j("example.net"), j("example.com"), conn, state, xmpp.NewNegotiator(cfg))
		return s, "example.com", err
	case "s2s/recv":
		conn.FeedString(tcpHeader(ns, "example.com", "example.net", "") + rest)
		if in.Via == "pkg" {
			s, err := xmpp.ReceiveServerSession(ctx, j("example.net"), j("example.com"), conn, fs...)
			return s, "example.net", err
		}
		s, err := xmpp.ReceiveSession(ctx, conn, state, xmpp.NewNegotiator(cfg))
		return s, "example.net", err
	case "ws/init":
		conn.FeedString(wsOpen("example.net", "me@example.net", "sid1") + `<stream:features xmlns:stream="` + streamNS + `"/>`)
		if in.Via == "pkg" {
			s, err := websocket.NewSession(ctx, j("me@example.net"), conn, fs...)
			return s, "me@example.net", err
		}
		s, err := xmpp.NewSession(ctx, j("example.net"), j("me@example.net"), conn, state, websocket.Negotiator(cfg))
		return s, "me@example.net", err
	case "ws/recv":
		conn.FeedString(wsOpen("", "example.net", "") + rest)
		if in.Via == "pkg" {
			s, err := websocket.ReceiveSession(ctx, conn, fs...)
			return s, "example.net", err
		}
		s, err := xmpp.ReceiveSession(ctx, conn, state, websocket.Negotiator(cfg))
		return s, "example.net", err
	case "comp/init":
		conn.FeedString(fmt.Sprintf(`<stream:stream xmlns="%s" xmlns:stream="%s" from="comp.example.net" id="sid1">`, ns, streamNS) + `<handshake/>`)
		if in.Via == "pkg" {
			s, err := component.NewSession(ctx, j("comp.example.net"), []byte("s3cr3t"), conn)
			return s, "comp.example.net", err
		}
		s, err := xmpp.NewSession(ctx, j("comp.example.net"), j("comp.example.net"), conn, state, component.Negotiator(j("comp.example.net"), []byte("s3cr3t"), false))
		return s, "comp.example.net", err
	}
	return nil, "", fmt.Errorf("driver: no constructor for %s/%s/%s", in.Kind, in.Role, in.Via)
}

func runVector(v vector) (obs vt.Ev, bad string) {
	normSess(&v.In, &v.Exp)
	conn := vt.NewConn()
	ns := nsOf(v.Exp.NS)
	sess, wantLocal, err := openVecSession(v.In, ns, conn)
	if err != nil {
		return nil, "session: " + err.Error()
	}
	hdrLen := len(conn.WireString())
	space := map[string]string{"": "", "stream": ns, "foreign": nsOther}[v.In.Space]
	mk := func(local string) xml.StartElement {
		s := xml.StartElement{Name: xml.Name{Space: space, Local: local}}
		switch v.In.ID {
		case "empty":
			s.Attr = append(s.Attr, xml.Attr{Name: xml.Name{Local: "id"}, Value: ""})
		case "set":
			s.Attr = append(s.Attr, xml.Attr{Name: xml.Name{Local: "id"}, Value: theID})
		}
		switch v.In.From {
		case "empty":
			s.Attr = append(s.Attr, xml.Attr{Name: xml.Name{Local: "from"}, Value: ""})
		case "set":
			s.Attr = append(s.Attr, xml.Attr{Name: xml.Name{Local: "from"}, Value: theFrom})
		}
		s.Attr = append(s.Attr, xml.Attr{Name: xml.Name{Local: "marker"}, Value: "m"})
		return s
	}
	start := mk(v.In.Name)
	inner := func() xml.TokenReader {
		body := xmlstream.Wrap(xmlstream.Token(xml.CharData("payload <&> text")), xml.StartElement{Name: xml.Name{Local: "body"}})
		if v.In.Kids != "" && v.In.Kids != "plain" {
			// a namespaced child with a child of its own (depth 2 and 3 of the element)
			kidStart := func(local string) xml.StartElement {
				st := xml.StartElement{Name: xml.Name{Local: local}}
				if v.In.Kids == "space" || v.In.Kids == "both" {
					st.Name.Space = nsKid
				}
				if v.In.Kids == "attr" || v.In.Kids == "both" {
					st.Attr = []xml.Attr{{Name: xml.Name{Local: "xmlns"}, Value: nsKid}}
				}
				return st
			}
			kid := xmlstream.Wrap(xmlstream.Wrap(xmlstream.Token(xml.CharData("deep")), kidStart("grandkid")), kidStart("kid"))
			body = xmlstream.MultiReader(body, kid)
		}
		if !v.In.Nested {
			return body
		}
		// a stanza-named child without id: must stay untouched
		child := xmlstream.Wrap(nil, xml.StartElement{Name: xml.Name{Local: "message"}, Attr: []xml.Attr{{Name: xml.Name{Local: "kind"}, Value: "nested"}}})
		return xmlstream.MultiReader(body, child)
	}
	// for the forms with a supplied start element the value carries ANOTHER start of its own
	own := start
	if v.Exp.Outer == "given" {
		own = xml.StartElement{Name: xml.Name{Space: nsOther, Local: "valuestart"}, Attr: []xml.Attr{{Name: xml.Name{Local: "marker"}, Value: "own"}}}
	}
	mv := marshalerVal{start: own, inner: inner}
	ctx := context.Background()
	var callErr error
	func() {
		defer func() {
			if r := recover(); r != nil {
				callErr = fmt.Errorf("panic: %v", r)
			}
		}()
		switch v.In.Form {
		case "send":
			callErr = sess.Send(ctx, xmlstream.Wrap(inner(), start))
		case "sendel":
			callErr = sess.SendElement(ctx, inner(), start)
		case "encode":
			callErr = sess.Encode(ctx, mv)
		case "encode_m":
			callErr = sess.Encode(ctx, streamMarshalerVal{mv})
		case "encode_wt":
			callErr = sess.Encode(ctx, writerToVal{streamMarshalerVal{mv}})
		case "encodeel":
			callErr = sess.EncodeElement(ctx, mv, start)
		case "encodeel_m":
			callErr = sess.EncodeElement(ctx, streamMarshalerVal{mv}, start)
		case "encodeel_wt":
			callErr = sess.EncodeElement(ctx, writerToVal{streamMarshalerVal{mv}}, start)
		case "tw":
			w := sess.TokenWriter()
			_, callErr = xmlstream.Copy(w, xmlstream.Wrap(inner(), start))
			if e := w.Close(); callErr == nil {
				callErr = e
			}
		case "tw_flush":
			// the same element token by token, flushing after every token (a flush inside an element is legal)
			w := sess.TokenWriter()
			r := xmlstream.Wrap(inner(), start)
			for callErr == nil {
				tok, err := r.Token()
				if tok != nil {
					if callErr = w.EncodeToken(xml.CopyToken(tok)); callErr == nil {
						callErr = w.Flush()
					}
				}
				if err != nil || tok == nil {
					break
				}
			}
			if e := w.Close(); callErr == nil {
				callErr = e
			}
		}
	}()
	wire := conn.WireString()[hdrLen:]
	obs = vt.Ev{"wire": wire}
	if callErr != nil {
		return obs, "call failed: " + callErr.Error()
	}
	// parse in the context the specification names: behind a stream header declaring the stream's content namespace,
	// or - every element a document of its own - with no default namespace around it
	wrap := "<stream:stream xmlns='" + ns + "' xmlns:stream='" + streamNS + "'>"
	if v.Exp.Context == "standalone" {
		wrap = "<stream:stream xmlns:stream='" + streamNS + "'>"
	}
	d := xml.NewDecoder(strings.NewReader(wrap + wire))
	depth := 0
	type top struct {
		start    xml.StartElement
		text     string
		children []xml.StartElement
		grand    []xml.StartElement
		complete bool
	}
	var tops []*top
	var cur *top
	for {
		tok, err := d.Token()
		if err != nil {
			if err != io.EOF && !strings.Contains(err.Error(), "unexpected EOF") {
				return obs, "wire not well-formed: " + err.Error()
			}
			break
		}
		switch t := tok.(type) {
		case xml.StartElement:
			depth++
			// (encoding/xml does not mind a repeated attribute; XML does: such a start tag is not well-formed)
			seen := map[xml.Name]int{}
			for _, a := range t.Attr {
				seen[a.Name]++
				if seen[a.Name] > 1 && depth > 1 {
					return obs, fmt.Sprintf("wire not well-formed: the start tag <%s> (depth %d of the element) carries the attribute %q %d times", t.Name.Local, depth-1, a.Name.Local, seen[a.Name])
				}
			}
			if depth == 2 {
				cur = &top{start: t.Copy()}
				tops = append(tops, cur)
			} else if depth == 3 && cur != nil {
				cur.children = append(cur.children, t.Copy())
			} else if depth == 4 && cur != nil {
				cur.grand = append(cur.grand, t.Copy())
			}
		case xml.EndElement:
			if depth == 2 && cur != nil {
				cur.complete = true
			}
			depth--
		case xml.CharData:
			if depth == 2 && cur != nil {
				cur.text += string(t)
			}
		}
	}
	obs["count"] = len(tops)
	if len(tops) != v.Exp.Count {
		return obs, fmt.Sprintf("%d top-level elements on the wire after a successful call, want %d", len(tops), v.Exp.Count)
	}
	t := tops[0]
	if !t.complete {
		return obs, "element on the wire is not complete when the call returns"
	}
	attr := func(s xml.StartElement, local string) (string, bool) {
		for _, a := range s.Attr {
			if a.Name.Local == local && a.Name.Space == "" {
				return a.Value, true
			}
		}
		return "", false
	}
	outer := "own"
	if mk, _ := attr(t.start, "marker"); mk == "own" {
		outer = "valuestart"
	}
	if v.Exp.Outer == "given" {
		if mk, _ := attr(t.start, "marker"); mk == "m" {
			outer = "given"
		}
	}
	obs["outer"] = outer
	if outer != v.Exp.Outer {
		return obs, fmt.Sprintf("outermost tag is %q (%v), want the %s start element", outer, t.start.Name, v.Exp.Outer)
	}
	if t.start.Name.Local != v.Exp.Name {
		return obs, "name changed: " + t.start.Name.Local
	}
	sp := map[string]string{ns: "stream", nsOther: "foreign", "": ""}[t.start.Name.Space]
	if t.start.Name.Space != "" && sp == "" {
		sp = t.start.Name.Space
	}
	obs["space"] = sp
	if !has(v.Exp.Space, sp) {
		return obs, fmt.Sprintf("namespace %q not in %v (\"stream\" = %s, the content namespace of a %s stream; element read %s)", sp, v.Exp.Space, ns, v.In.Kind,
			map[string]string{"header": "behind a stream header declaring it", "standalone": "as a document of its own"}[v.Exp.Context])
	}
	idv, idok := attr(t.start, "id")
	idc := "absent"
	switch {
	case idok && idv == theID:
		idc = "same"
	case idok && idv == "":
		idc = "empty"
	case idok:
		idc = "fresh"
	}
	if v.In.ID != "set" && idc == "same" {
		idc = "fresh"
	}
	obs["id"] = idc
	if !has(v.Exp.ID, idc) {
		return obs, fmt.Sprintf("id is %s (%q), want one of %v", idc, idv, v.Exp.ID)
	}
	fv, fok := attr(t.start, "from")
	fc := "absent"
	switch {
	case fok && fv == theFrom:
		fc = "same"
	case fok && fv == "":
		fc = "empty"
	case fok && fv == wantLocal:
		fc = "local"
	case fok:
		fc = "other:" + fv
	}
	obs["from"] = fc
	if !has(v.Exp.From, fc) {
		return obs, fmt.Sprintf("from is %s, want one of %v", fc, v.Exp.From)
	}
	// nothing else altered: marker attribute, payload text, children
	if strings.TrimSpace(t.text) != "" {
		return obs, "unexpected text at element level"
	}
	wantKids := 1
	if v.In.Nested {
		wantKids = 2
	}
	if v.Exp.Kids == "same" {
		wantKids++
	}
	if len(t.children) != wantKids || t.children[0].Name.Local != "body" {
		return obs, fmt.Sprintf("children altered: %v", t.children)
	}
	if v.Exp.Kids == "same" {
		k := t.children[1]
		if k.Name != (xml.Name{Space: nsKid, Local: "kid"}) || len(t.grand) != 1 || t.grand[0].Name != (xml.Name{Space: nsKid, Local: "grandkid"}) {
			return obs, fmt.Sprintf("the namespaced child elements (start tokens carrying the namespace as %q) do not arrive as {%s kid} / {%s grandkid}: %v %v", v.In.Kids, nsKid, nsKid, k.Name, t.grand)
		}
	}
	if !strings.Contains(wire, "payload &lt;&amp;&gt; text") {
		return obs, "payload text altered"
	}
	if v.In.Nested {
		c := t.children[len(t.children)-1]
		if _, ok := attr(c, "id"); ok || c.Name.Local != "message" {
			return obs, fmt.Sprintf("nested stanza-named child was altered: %v", c)
		}
		if _, ok := attr(c, "from"); ok {
			return obs, "nested stanza-named child got a from"
		}
	}
	nattr := 0
	for _, a := range t.start.Attr {
		switch a.Name.Local {
		case "id", "from", "xmlns", "marker":
		default:
			nattr++
		}
	}
	if nattr != 0 {
		return obs, fmt.Sprintf("attributes altered: %v", t.start.Attr)
	}
	// the NEXT transmit call: its element must be a top-level element of its own, whole and unchanged (whatever the
	// call before left behind in the encoder)
	probe := xml.StartElement{Name: xml.Name{Local: "message"}, Attr: []xml.Attr{{Name: xml.Name{Local: "id"}, Value: "probe-id"}, {Name: xml.Name{Local: "marker"}, Value: "probe"}}}
	if err := sess.Send(ctx, xmlstream.Wrap(nil, probe)); err != nil {
		return obs, "the next Send failed: " + err.Error()
	}
	wire2 := conn.WireString()[hdrLen:]
	obs["wire_next"] = wire2
	d2 := xml.NewDecoder(strings.NewReader(wrap + wire2))
	depth, ntop, probeDepth, probeDone := 0, 0, 0, false
	for {
		tok, err := d2.Token()
		if err != nil {
			if err != io.EOF && !strings.Contains(err.Error(), "unexpected EOF") {
				return obs, "wire not well-formed after the next Send: " + err.Error()
			}
			break
		}
		switch t := tok.(type) {
		case xml.StartElement:
			depth++
			if depth == 2 {
				ntop++
			}
			if mk, _ := attr(t, "marker"); mk == "probe" {
				probeDepth = depth
				if idv, _ := attr(t, "id"); idv != "probe-id" {
					return obs, "the next call's element was altered: id " + idv
				}
			}
		case xml.EndElement:
			if depth == probeDepth && probeDepth != 0 {
				probeDone = true
			}
			depth--
		}
	}
	obs["next"] = fmt.Sprintf("depth %d, %d top-level", probeDepth, ntop)
	if v.Exp.Next == "toplevel" && (probeDepth != 2 || !probeDone || ntop != len(tops)+1) {
		return obs, fmt.Sprintf("the element of the next Send is not a top-level element of its own: found at depth %d (2 = top level), %d top-level elements on the wire, want %d", probeDepth, ntop, len(tops)+1)
	}
	return obs, ""
}

func has(l []string, x string) bool {
	for _, y := range l {
		if y == x {
			return true
		}
	}
	return false
}

func vectorsMain(args []string) {
	f, err := os.Open(args[0])
	if err != nil {
		panic(err)
	}
	defer f.Close()
	rd := bufio.NewScanner(f)
	rd.Buffer(make([]byte, 1<<20), 1<<24)
	var vecs []vector
	for rd.Scan() {
		var v vector
		if err := json.Unmarshal(rd.Bytes(), &v); err != nil {
			panic(err)
		}
		normSess(&v.In, &v.Exp)
		vecs = append(vecs, v)
	}
	// every vector runs on a session of its own: independent of one another, spread over the processors; results
	// are collected by index (the report does not depend on the order of execution)
	type outcome struct {
		obs vt.Ev
		bad string
	}
	res := make([]outcome, len(vecs))
	var wg sync.WaitGroup
	next := make(chan int, 256)
	nw := runtime.GOMAXPROCS(0)
	for w := 0; w < nw; w++ {
		wg.Add(1)
		go func() {
			defer wg.Done()
			for i := range next {
				obs, bad := runVector(vecs[i])
				if bad != "" {
					// determinism: run once more before reporting
					if _, bad2 := runVector(vecs[i]); bad2 == "" {
						bad = ""
					}
				}
				res[i] = outcome{obs, bad}
			}
		}()
	}
	for i := range vecs {
		next <- i
	}
	close(next)
	wg.Wait()
	var mism []interface{}
	var samples []interface{}
	classes := map[string]bool{}
	sessions := map[string]int{}
	for i, v := range vecs {
		if res[i].bad != "" {
			mism = append(mism, vt.Ev{"vector": v, "observed": res[i].obs,
				"what": res[i].bad + fmt.Sprintf(" [session: %s, %s, made by %s]", v.In.Kind, map[string]string{"init": "initiated", "recv": "received"}[v.In.Role], v.In.Via)})
		}
		if len(samples) < 2 {
			samples = append(samples, vt.Ev{"vector": v, "observed": res[i].obs})
		}
		classes[fmt.Sprintf("%s/%s/%s/%s/%s/%s/%s/%v", v.In.Name, v.In.Space, v.In.ID, v.In.From, v.In.Kind, v.In.Role, v.In.Via, v.In.Form)] = true
		sessions[v.In.Kind+"/"+v.In.Role+"/"+v.In.Via]++
	}
	vt.Summary{Evaluations: len(vecs), Distinct: len(classes), Mismatches: mism, Samples: samples,
		Extra: map[string]interface{}{"sessions": sessions}}.Print()
}
