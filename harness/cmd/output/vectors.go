package main

import (
	"bufio"
	"context"
	"encoding/json"
	"encoding/xml"
	"fmt"
	"io"
	"os"
	"strings"

	"mellium.im/xmlstream"
	"mellium.im/xmpp"
	"mellium.im/xmpp/jid"
	"mellium.im/xmpp/stanza"

	"verifharness/vt"
)

type vecIn struct {
	Name   string `json:"name"`
	Space  string `json:"space"`
	ID     string `json:"id"`
	From   string `json:"from"`
	Nested bool   `json:"nested"`
	S2S    bool   `json:"s2s"`
	Form   string `json:"form"`
}

type vecExp struct {
	Count   int      `json:"count"`
	Name    string   `json:"name"`
	Space   []string `json:"space"`
	ID      []string `json:"id"`
	From    []string `json:"from"`
	Outer   string   `json:"outer"`
	Nested  string   `json:"nested"`
	Payload string   `json:"payload"`
	Next    string   `json:"next"`
}

type vector struct {
	In  vecIn  `json:"in"`
	Exp vecExp `json:"exp"`
}

// values of the three Go shapes a transmit argument can take besides a token reader
type marshalerVal struct {
	start xml.StartElement
	inner func() xml.TokenReader
}

func (m marshalerVal) MarshalXML(e *xml.Encoder, _ xml.StartElement) error {
	if err := e.EncodeToken(m.start); err != nil {
		return err
	}
	r := m.inner()
	for {
		tok, err := r.Token()
		if tok != nil {
			if e2 := e.EncodeToken(xml.CopyToken(tok)); e2 != nil {
				return e2
			}
		}
		if err == io.EOF {
			break
		}
		if err != nil {
			return err
		}
		if tok == nil {
			break
		}
	}
	return e.EncodeToken(m.start.End())
}

type streamMarshalerVal struct{ marshalerVal }

func (m streamMarshalerVal) TokenReader() xml.TokenReader {
	return xmlstream.Wrap(m.inner(), m.start)
}

type writerToVal struct{ streamMarshalerVal }

func (m writerToVal) WriteXML(w xmlstream.TokenWriter) (int, error) {
	return xmlstream.Copy(w, m.TokenReader())
}

const (
	theID   = "given-id"
	theFrom = "sender@from.example/r"
	nsOther = "urn:vt:foreign"
)

// recvMode: build the session under test with ReceiveSession (the local address of a received
// session is learned from the peer's header only) instead of NewSession
var recvMode bool

func runVector(v vector) (obs vt.Ev, bad string) {
	conn := vt.NewConn()
	ns := stanza.NSClient
	st := xmpp.SessionState(0)
	hdr := hdrIn
	if v.In.S2S {
		ns = stanza.NSServer
		st = xmpp.S2S
		hdr = strings.Replace(hdrIn, "jabber:client", "jabber:server", 1)
	}
	conn.FeedString(hdr)
	var sess *xmpp.Session
	var err error
	if recvMode {
		sess, err = xmpp.ReceiveSession(context.Background(), conn, st, nopNeg(ns))
	} else {
		sess, err = xmpp.NewSession(context.Background(), jid.MustParse("example.net"), jid.MustParse("me@example.net"), conn, st, nopNeg(ns))
	}
	if err != nil {
		return nil, "session: " + err.Error()
	}
	hdrLen := len(conn.WireString())
	space := map[string]string{"": "", "stream": ns, "foreign": nsOther}[v.In.Space]
	mk := func(local string) xml.StartElement {
		s := xml.StartElement{Name: xml.Name{Space: space, Local: local}}
		switch v.In.ID {
		case "empty":
			s.Attr = append(s.Attr, xml.Attr{Name: xml.Name{Local: "id"}, Value: ""})
		case "set":
			s.Attr = append(s.Attr, xml.Attr{Name: xml.Name{Local: "id"}, Value: theID})
		}
		switch v.In.From {
		case "empty":
			s.Attr = append(s.Attr, xml.Attr{Name: xml.Name{Local: "from"}, Value: ""})
		case "set":
			s.Attr = append(s.Attr, xml.Attr{Name: xml.Name{Local: "from"}, Value: theFrom})
		}
		s.Attr = append(s.Attr, xml.Attr{Name: xml.Name{Local: "marker"}, Value: "m"})
		return s
	}
	start := mk(v.In.Name)
	inner := func() xml.TokenReader {
		body := xmlstream.Wrap(xmlstream.Token(xml.CharData("payload <&> text")), xml.StartElement{Name: xml.Name{Local: "body"}})
		if !v.In.Nested {
			return body
		}
		// a stanza-named child without id: must stay untouched
		child := xmlstream.Wrap(nil, xml.StartElement{Name: xml.Name{Local: "message"}, Attr: []xml.Attr{{Name: xml.Name{Local: "kind"}, Value: "nested"}}})
		return xmlstream.MultiReader(body, child)
	}
	// for the forms with a supplied start element the value carries ANOTHER start of its own
	own := start
	if v.Exp.Outer == "given" {
		own = xml.StartElement{Name: xml.Name{Space: nsOther, Local: "valuestart"}, Attr: []xml.Attr{{Name: xml.Name{Local: "marker"}, Value: "own"}}}
	}
	mv := marshalerVal{start: own, inner: inner}
	ctx := context.Background()
	var callErr error
	func() {
		defer func() {
			if r := recover(); r != nil {
				callErr = fmt.Errorf("panic: %v", r)
			}
		}()
		switch v.In.Form {
		case "send":
			callErr = sess.Send(ctx, xmlstream.Wrap(inner(), start))
		case "sendel":
			callErr = sess.SendElement(ctx, inner(), start)
		case "encode":
			callErr = sess.Encode(ctx, mv)
		case "encode_m":
			callErr = sess.Encode(ctx, streamMarshalerVal{mv})
		case "encode_wt":
			callErr = sess.Encode(ctx, writerToVal{streamMarshalerVal{mv}})
		case "encodeel":
			callErr = sess.EncodeElement(ctx, mv, start)
		case "encodeel_m":
			callErr = sess.EncodeElement(ctx, streamMarshalerVal{mv}, start)
		case "encodeel_wt":
			callErr = sess.EncodeElement(ctx, writerToVal{streamMarshalerVal{mv}}, start)
		case "tw":
			w := sess.TokenWriter()
			_, callErr = xmlstream.Copy(w, xmlstream.Wrap(inner(), start))
			if e := w.Close(); callErr == nil {
				callErr = e
			}
		case "tw_flush":
			// the same element token by token, flushing after every token (a flush inside an element is legal)
			w := sess.TokenWriter()
			r := xmlstream.Wrap(inner(), start)
			for callErr == nil {
				tok, err := r.Token()
				if tok != nil {
					if callErr = w.EncodeToken(xml.CopyToken(tok)); callErr == nil {
						callErr = w.Flush()
					}
				}
				if err != nil || tok == nil {
					break
				}
			}
			if e := w.Close(); callErr == nil {
				callErr = e
			}
		}
	}()
	wire := conn.WireString()[hdrLen:]
	obs = vt.Ev{"wire": wire}
	if callErr != nil {
		return obs, "call failed: " + callErr.Error()
	}
	// parse in the context of a stream header declaring the stream's content namespace
	d := xml.NewDecoder(strings.NewReader("<stream:stream xmlns='" + ns + "' xmlns:stream='http://etherx.jabber.org/streams'>" + wire))
	depth := 0
	type top struct {
		start    xml.StartElement
		text     string
		children []xml.StartElement
		complete bool
	}
	var tops []*top
	var cur *top
	for {
		tok, err := d.Token()
		if err != nil {
			if err != io.EOF && !strings.Contains(err.Error(), "unexpected EOF") {
				return obs, "wire not well-formed: " + err.Error()
			}
			break
		}
		switch t := tok.(type) {
		case xml.StartElement:
			depth++
			if depth == 2 {
				cur = &top{start: t.Copy()}
				tops = append(tops, cur)
			} else if depth == 3 && cur != nil {
				cur.children = append(cur.children, t.Copy())
			}
		case xml.EndElement:
			if depth == 2 && cur != nil {
				cur.complete = true
			}
			depth--
		case xml.CharData:
			if depth == 2 && cur != nil {
				cur.text += string(t)
			}
		}
	}
	obs["count"] = len(tops)
	if len(tops) != v.Exp.Count {
		return obs, fmt.Sprintf("%d top-level elements on the wire after a successful call, want %d", len(tops), v.Exp.Count)
	}
	t := tops[0]
	if !t.complete {
		return obs, "element on the wire is not complete when the call returns"
	}
	attr := func(s xml.StartElement, local string) (string, bool) {
		for _, a := range s.Attr {
			if a.Name.Local == local && a.Name.Space == "" {
				return a.Value, true
			}
		}
		return "", false
	}
	outer := "own"
	if mk, _ := attr(t.start, "marker"); mk == "own" {
		outer = "valuestart"
	}
	if v.Exp.Outer == "given" {
		if mk, _ := attr(t.start, "marker"); mk == "m" {
			outer = "given"
		}
	}
	obs["outer"] = outer
	if outer != v.Exp.Outer {
		return obs, fmt.Sprintf("outermost tag is %q (%v), want the %s start element", outer, t.start.Name, v.Exp.Outer)
	}
	if t.start.Name.Local != v.Exp.Name {
		return obs, "name changed: " + t.start.Name.Local
	}
	sp := map[string]string{ns: "stream", nsOther: "foreign", "": ""}[t.start.Name.Space]
	if t.start.Name.Space != "" && sp == "" {
		sp = t.start.Name.Space
	}
	obs["space"] = sp
	if !has(v.Exp.Space, sp) {
		return obs, fmt.Sprintf("namespace %q not in %v", sp, v.Exp.Space)
	}
	idv, idok := attr(t.start, "id")
	idc := "absent"
	switch {
	case idok && idv == theID:
		idc = "same"
	case idok && idv == "":
		idc = "empty"
	case idok:
		idc = "fresh"
	}
	if v.In.ID != "set" && idc == "same" {
		idc = "fresh"
	}
	obs["id"] = idc
	if !has(v.Exp.ID, idc) {
		return obs, fmt.Sprintf("id is %s (%q), want one of %v", idc, idv, v.Exp.ID)
	}
	fv, fok := attr(t.start, "from")
	fc := "absent"
	switch {
	case fok && fv == theFrom:
		fc = "same"
	case fok && fv == "":
		fc = "empty"
	case fok && fv == "me@example.net":
		fc = "local"
	case fok:
		fc = "other:" + fv
	}
	obs["from"] = fc
	if !has(v.Exp.From, fc) {
		return obs, fmt.Sprintf("from is %s, want one of %v", fc, v.Exp.From)
	}
	// nothing else altered: marker attribute, payload text, children
	if strings.TrimSpace(t.text) != "" {
		return obs, "unexpected text at element level"
	}
	wantKids := 1
	if v.In.Nested {
		wantKids = 2
	}
	if len(t.children) != wantKids || t.children[0].Name.Local != "body" {
		return obs, fmt.Sprintf("children altered: %v", t.children)
	}
	if !strings.Contains(wire, "payload &lt;&amp;&gt; text") {
		return obs, "payload text altered"
	}
	if v.In.Nested {
		c := t.children[1]
		if _, ok := attr(c, "id"); ok || c.Name.Local != "message" {
			return obs, fmt.Sprintf("nested stanza-named child was altered: %v", c)
		}
		if _, ok := attr(c, "from"); ok {
			return obs, "nested stanza-named child got a from"
		}
	}
	nattr := 0
	for _, a := range t.start.Attr {
		switch a.Name.Local {
		case "id", "from", "xmlns", "marker":
		default:
			nattr++
		}
	}
	if nattr != 0 {
		return obs, fmt.Sprintf("attributes altered: %v", t.start.Attr)
	}
	// the NEXT transmit call: its element must be a top-level element of its own, whole and unchanged (whatever the
	// call before left behind in the encoder)
	probe := xml.StartElement{Name: xml.Name{Local: "message"}, Attr: []xml.Attr{{Name: xml.Name{Local: "id"}, Value: "probe-id"}, {Name: xml.Name{Local: "marker"}, Value: "probe"}}}
	if err := sess.Send(ctx, xmlstream.Wrap(nil, probe)); err != nil {
		return obs, "the next Send failed: " + err.Error()
	}
	wire2 := conn.WireString()[hdrLen:]
	obs["wire_next"] = wire2
	d2 := xml.NewDecoder(strings.NewReader("<stream:stream xmlns='" + ns + "' xmlns:stream='http://etherx.jabber.org/streams'>" + wire2))
	depth, ntop, probeDepth, probeDone := 0, 0, 0, false
	for {
		tok, err := d2.Token()
		if err != nil {
			if err != io.EOF && !strings.Contains(err.Error(), "unexpected EOF") {
				return obs, "wire not well-formed after the next Send: " + err.Error()
			}
			break
		}
		switch t := tok.(type) {
		case xml.StartElement:
			depth++
			if depth == 2 {
				ntop++
			}
			if mk, _ := attr(t, "marker"); mk == "probe" {
				probeDepth = depth
				if idv, _ := attr(t, "id"); idv != "probe-id" {
					return obs, "the next call's element was altered: id " + idv
				}
			}
		case xml.EndElement:
			if depth == probeDepth && probeDepth != 0 {
				probeDone = true
			}
			depth--
		}
	}
	obs["next"] = fmt.Sprintf("depth %d, %d top-level", probeDepth, ntop)
	if v.Exp.Next == "toplevel" && (probeDepth != 2 || !probeDone || ntop != len(tops)+1) {
		return obs, fmt.Sprintf("the element of the next Send is not a top-level element of its own: found at depth %d (2 = top level), %d top-level elements on the wire, want %d", probeDepth, ntop, len(tops)+1)
	}
	return obs, ""
}

func has(l []string, x string) bool {
	for _, y := range l {
		if y == x {
			return true
		}
	}
	return false
}

func vectorsMain(args []string) {
	f, err := os.Open(args[0])
	if err != nil {
		panic(err)
	}
	defer f.Close()
	rd := bufio.NewScanner(f)
	rd.Buffer(make([]byte, 1<<20), 1<<24)
	n := 0
	var mism []interface{}
	var samples []interface{}
	classes := map[string]bool{}
	for rd.Scan() {
		var v vector
		if err := json.Unmarshal(rd.Bytes(), &v); err != nil {
			panic(err)
		}
		for _, recv := range []bool{false, true} {
			if recv && !v.In.S2S {
				continue
			}
			recvMode = recv
			n++
			obs, bad := runVector(v)
			if bad != "" {
				// determinism: run once more before reporting
				_, bad2 := runVector(v)
				if bad2 != "" {
					if recv {
						bad += " [session made by ReceiveSession]"
					}
					mism = append(mism, vt.Ev{"vector": v, "observed": obs, "what": bad})
				}
			}
			if len(samples) < 2 {
				samples = append(samples, vt.Ev{"vector": v, "observed": obs})
			}
		}
		recvMode = false
		classes[fmt.Sprintf("%s/%s/%s/%s/%v/%v", v.In.Name, v.In.Space, v.In.ID, v.In.From, v.In.S2S, v.In.Form)] = true
	}
	vt.Summary{Evaluations: n, Distinct: len(classes), Mismatches: mism, Samples: samples}.Print()
}
